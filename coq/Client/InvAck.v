(* Client/InvAck.v — the invariant behind C07: the ids the ackHandler put into the queue are, in
   order: those already written as KeepAliveAck frames, then the one the write loop holds (if
   any), then the queue. Proved for every event list. *)
From Coq Require Import NArith Arith List Bool Lia.
From LLRP Require Import Client.Types Client.Model Client.MapLemmas.
Import ListNotations.
Open Scope N_scope.

Definition own_shape (o : oframe) : Prop :=
  is_own o = true -> f_typ (o_frame o) = T_KeepAliveAck /\ f_len (o_frame o) = 0.

Definition mid_ok (w : wstate) (mid : list N) : Prop :=
  match w with
  | WHolding o => if is_own o then mid = [f_id (o_frame o)] else mid = []
  | WDead => (length mid <= 1)%nat
  | _ => mid = []
  end.

Definition early_phase (p : conn_phase) : bool :=
  match p with PInit | PCheckInitial => true | _ => false end.

Record ack_inv (s : state) : Prop := mkAckInv {
  ai_split : exists mid, ka_enqueued s = acked s ++ mid ++ ackq s /\ mid_ok (writer s) mid;
  ai_hold : forall o, writer s = WHolding o -> own_shape o;
  ai_pay : forall o, writer s = WPayload o -> is_own o = false;
  ai_out : forall o, In o (out s) -> own_shape o;
  ai_phase : early_phase (phase s) = true -> writer s = WNone
}.

(* ---- how the observables react to appends ---- *)
Lemma ka_enqueued_app : forall s i n s',
  ka_log s' = ka_log s ++ [(i, n)] ->
  ka_enqueued s' = ka_enqueued s ++ (if Nat.ltb n ack_cap then [i] else []).
Proof.
  intros s i n s' E. unfold ka_enqueued. rewrite E, filter_app, map_app. cbn [filter snd].
  destruct (Nat.ltb n ack_cap); reflexivity.
Qed.

Lemma acked_app : forall s o s',
  out s' = out s ++ [o] ->
  acked s' = acked s ++ (if is_own o then [f_id (o_frame o)] else []).
Proof.
  intros s o s' E. unfold acked. rewrite E, filter_app, map_app. cbn [filter].
  destruct (is_own o); reflexivity.
Qed.

Lemma acked_same : forall s s', out s' = out s -> acked s' = acked s.
Proof. intros s s' E. unfold acked. now rewrite E. Qed.
Lemma ka_enqueued_same : forall s s', ka_log s' = ka_log s -> ka_enqueued s' = ka_enqueued s.
Proof. intros s s' E. unfold ka_enqueued. now rewrite E. Qed.

(* ---- states that differ in nothing the invariant reads ---- *)
Definition same_ack (s s' : state) : Prop :=
  ka_log s' = ka_log s /\ ackq s' = ackq s /\ writer s' = writer s /\ out s' = out s /\
  (early_phase (phase s') = true -> early_phase (phase s) = true).

Lemma ack_inv_same : forall s s', same_ack s s' -> ack_inv s -> ack_inv s'.
Proof.
  intros s s' (Hk & Hq & Hw & Ho & Hp) [(mid & Hs & Hm) Hh Hpay Hout Hph].
  constructor.
  - exists mid. rewrite (ka_enqueued_same s s' Hk), (acked_same s s' Ho), Hq, Hw. auto.
  - rewrite Hw. assumption.
  - rewrite Hw. assumption.
  - rewrite Ho. assumption.
  - rewrite Hw. auto.
Qed.

Lemma same_ack_refl : forall s, same_ack s s.
Proof. intros; repeat split; auto. Qed.

Lemma same_ack_trans : forall a b c, same_ack a b -> same_ack b c -> same_ack a c.
Proof.
  intros a b c (A1 & A2 & A3 & A4 & A5) (B1 & B2 & B3 & B4 & B5). repeat split; try congruence. auto.
Qed.

Ltac same_ack_tac :=
  repeat match goal with
         | |- same_ack ?s ?s => apply same_ack_refl
         | |- same_ack _ (match ?x with _ => _ end) => destruct x
         | |- same_ack _ (if ?x then _ else _) => destruct x
         | |- same_ack _ _ => unfold same_ack; st_simpl_goal; repeat split; try reflexivity; try (cbn; congruence); auto
         end.

(* ---- the ackHandler ---- *)
Lemma ack_inv_enqueue : forall i s, ack_inv s -> ack_inv (ack_enqueue i s).
Proof.
  intros i s [(mid & Hs & Hm) Hh Hpay Hout Hph]. unfold ack_enqueue.
  set (n := length (ackq s)).
  destruct (Nat.ltb n ack_cap) eqn:En.
  - constructor; st_simpl_goal; try assumption.
    exists mid. split; [|assumption].
    rewrite (ka_enqueued_app s i n) by reflexivity. rewrite En.
    rewrite (acked_same s) by reflexivity. rewrite Hs. now rewrite <- !app_assoc.
  - constructor; st_simpl_goal; try assumption.
    exists mid. split; [|assumption].
    rewrite (ka_enqueued_app s i n) by reflexivity. rewrite En, app_nil_r.
    rewrite (acked_same s) by reflexivity. assumption.
Qed.

Lemma run_handler_ack_inv : forall cfg seq f h rep s, ack_inv s -> ack_inv (run_handler cfg seq f h rep s).
Proof.
  intros. unfold run_handler.
  destruct (handler_for cfg (f_typ f));
    try (eapply ack_inv_same; [|eassumption]; same_ack_tac; fail).
  apply ack_inv_enqueue. eapply ack_inv_same; [|eassumption]. same_ack_tac.
Qed.

Lemma take_waiter_same_ack : forall cfg whole seq f s, same_ack s (fst (take_waiter cfg whole seq f s)).
Proof.
  intros. unfold take_waiter.
  destruct (consults cfg (f_typ f)); [|apply same_ack_refl].
  destruct (lookup (f_id f) (awaiting s)); [|apply same_ack_refl].
  destruct (whole || (max_buffered <? f_len f)); cbn [fst].
  - st_simpl_goal. destruct (lookup n (callers s)) as [[]|]; cbn [fst]; unfold set_caller; same_ack_tac.
  - same_ack_tac.
Qed.

Lemma leave_same_ack : forall res c s, same_ack s (leave res c s).
Proof.
  intros. unfold leave, do_cancel, set_caller.
  destruct (lookup c (callers s)) as [[r|r|r i|r res0]|]; try (same_ack_tac; fail).
  destruct (lookup i (awaiting s)) as [c'|]; [|same_ack_tac].
  destruct (c' =? c); [same_ack_tac|]. st_simpl_goal.
  destruct (lookup c' (callers s)) as [[]|]; same_ack_tac.
Qed.

Lemma ack_inv_init : forall cfg, ack_inv (init cfg).
Proof.
  intros. constructor; cbn; try (intros; discriminate); try (intros; contradiction); auto.
  exists []. split; reflexivity.
Qed.

Lemma stamp_o_own : forall cfg v o, is_own (stamp_o cfg v o) = is_own o.
Proof. reflexivity. Qed.
Lemma stamp_o_id : forall cfg v o, f_id (o_frame (stamp_o cfg v o)) = f_id (o_frame o).
Proof. reflexivity. Qed.
Lemma stamp_o_typ : forall cfg v o, f_typ (o_frame (stamp_o cfg v o)) = f_typ (o_frame o).
Proof. reflexivity. Qed.
Lemma stamp_o_len : forall cfg v o, f_len (o_frame (stamp_o cfg v o)) = f_len (o_frame o).
Proof. reflexivity. Qed.

Lemma ack_inv_step : forall cfg s e, ack_inv s -> ack_inv (step cfg s e).
Proof.
  intros cfg s e Hinv. destruct e; cbn [step];
    try (eapply ack_inv_same; [|exact Hinv];
         match goal with |- same_ack _ (?f _) => unfold f | |- same_ack _ (?f _ _) => unfold f | |- same_ack _ (?f _ _ _) => unfold f end;
         unfold set_caller, init_fail, neg_fail, neg_fail_with, step_close;
         same_ack_tac; fail).
  - (* SeeClosed *) unfold step_see_closed. destruct (closed s); [|assumption].
    eapply ack_inv_same; [apply leave_same_ack|assumption].
  - (* Cancel *) eapply ack_inv_same; [apply leave_same_ack|assumption].
  - (* WDefault *) unfold step_wdefault.
    destruct (writer s) eqn:Ew; try assumption. destruct (ackq s) eqn:Eq; try assumption.
    destruct (closed s); try assumption.
    destruct Hinv as [(mid & Hs & Hm) Hh Hpay Hout Hph].
    constructor; st_simpl_goal; try assumption; try (intros; discriminate).
    + exists mid. rewrite Ew in Hm. cbn in Hm. subst mid. split; [|reflexivity].
      rewrite (ka_enqueued_same s) by reflexivity. rewrite (acked_same s) by reflexivity. exact Hs.
    + intros He. specialize (Hph He). congruence.
  - (* WAccept *) unfold step_waccept.
    destruct (writer s) eqn:Ew; try assumption.
    destruct (lookup c (callers s)) as [[r|r|r i|r res0]|] eqn:Hc; try assumption.
    destruct Hinv as [(mid & Hs & Hm) Hh Hpay Hout Hph].
    rewrite Ew in Hm. cbn in Hm. subst mid.
    assert (Hne : early_phase (phase s) = true -> False) by (intros He; specialize (Hph He); congruence).
    destruct (q_wait r), (q_id r =? 0); unfold set_caller;
      (constructor; st_simpl_goal; try assumption;
       [ exists []; split; [|reflexivity];
         rewrite (ka_enqueued_same s) by reflexivity; rewrite (acked_same s) by reflexivity; assumption
       | intros o Ho; inversion Ho; subst; intros Hown; discriminate
       | intros; discriminate
       | intros He; exfalso; auto ]).
  - (* WTakeAck *) unfold step_wtakeack. pose proof Hinv as Hcopy.
    destruct Hinv as [(mid & Hs & Hm) Hh Hpay Hout Hph].
    assert (Hne : writer s <> WNone -> early_phase (phase s) = true -> False) by (intros Hw He; auto).
    destruct (writer s) eqn:Ew; try exact Hcopy;
      (destruct (ackq s) as [|i q] eqn:Eq; [exact Hcopy|]);
      cbn in Hm; subst mid;
      (constructor; st_simpl_goal; try assumption;
       [ exists [i]; split; [|reflexivity];
         rewrite (ka_enqueued_same s) by reflexivity; rewrite (acked_same s) by reflexivity; assumption
       | intros o Ho; inversion Ho; subst; intros _; split; reflexivity
       | intros; discriminate
       | intros He; exfalso; apply Hne; [congruence|assumption] ]).
  - (* WWriteHdr *) unfold step_wwritehdr.
    destruct (writer s) as [| | |o| | | |] eqn:Ew; try assumption.
    destruct Hinv as [(mid & Hs & Hm) Hh Hpay Hout Hph].
    assert (Hne : early_phase (phase s) = true -> False) by (intros He; specialize (Hph He); congruence).
    rewrite Ew in Hm. cbn in Hm. pose proof (Hh o Ew) as Hshape.
    cbv zeta.
    assert (Hout' : forall o', In o' (out s ++ [o]) -> own_shape o').
    { intros o' Hin. apply in_app_or in Hin. destruct Hin as [Hin|[Hin|[]]]; [now apply Hout|].
      subst o'. intros Hown. auto. }
    assert (Haf : forall w, w = WParked \/ w = WTop -> mid_ok w [] /\ (forall o0, w = WHolding o0 -> own_shape o0) /\
                  (forall o0, w = WPayload o0 -> is_own o0 = false) /\ (w = WNone -> False)).
    { intros w [->| ->]; repeat split; try (intros; discriminate). }
    assert (Hafr : after_frame (o) = WParked \/ after_frame (o) = WTop).
    { unfold after_frame. destruct (f_typ _ =? _); auto. }
    destruct (is_own o) eqn:Eown.
    + (* an acknowledgement: header-only *)
      destruct (Hshape Eown) as (Ht & Hl). rewrite Hl. cbn [N.eqb]. subst mid.
      destruct (Haf _ Hafr) as (A & B & C & D).
      constructor; st_simpl_goal; try assumption.
      * exists []. split; [|exact A].
        rewrite (ka_enqueued_same s) by reflexivity.
        rewrite (acked_app s (o)) by reflexivity.
        rewrite Eown. rewrite Hs. now rewrite <- !app_assoc.
      * intros He. exfalso. auto.
    + subst mid.
      destruct (f_len (o_frame o) =? 0).
      * destruct (Haf _ Hafr) as (A & B & C & D).
        constructor; st_simpl_goal; try assumption.
        -- exists []. split; [|exact A].
           rewrite (ka_enqueued_same s) by reflexivity.
           rewrite (acked_app s (o)) by reflexivity.
           rewrite Eown, app_nil_r. exact Hs.
        -- intros He. exfalso. auto.
      * constructor; st_simpl_goal; try (intros; discriminate); try assumption.
        -- exists []. split; [|reflexivity].
           rewrite (ka_enqueued_same s) by reflexivity. rewrite (acked_same s) by reflexivity. exact Hs.
        -- intros o' Ho. inversion Ho; subst. assumption.
        -- intros He. exfalso. auto.
  - (* WWritePay *) unfold step_wwritepay.
    destruct (writer s) as [| | | |o| | |] eqn:Ew; try assumption.
    destruct Hinv as [(mid & Hs & Hm) Hh Hpay Hout Hph].
    assert (Hne : early_phase (phase s) = true -> False) by (intros He; specialize (Hph He); congruence).
    rewrite Ew in Hm. cbn in Hm. subst mid. pose proof (Hpay o Ew) as Hno.
    assert (Hafr : after_frame o = WParked \/ after_frame o = WTop).
    { unfold after_frame. destruct (f_typ _ =? _); auto. }
    assert (Hout' : forall o', In o' (out s ++ [o]) -> own_shape o').
    { intros o' Hin. apply in_app_or in Hin. destruct Hin as [Hin|[Hin|[]]]; [now apply Hout|].
      subst o'. intros Hown. congruence. }
    destruct Hafr as [E|E]; rewrite E;
      (constructor; st_simpl_goal; try (intros; discriminate); try assumption;
       [ exists []; split; [|reflexivity];
         rewrite (ka_enqueued_same s) by reflexivity; rewrite (acked_app s o) by reflexivity;
         rewrite Hno, app_nil_r; exact Hs
       | intros He; exfalso; auto ]).
  - (* WriteFail *) unfold step_writefail. pose proof Hinv as Hcopy.
    destruct Hinv as [(mid & Hs & Hm) Hh Hpay Hout Hph].
    assert (Hne : writer s <> WNone -> early_phase (phase s) = true -> False) by (intros Hw He; auto).
    destruct (writer s) as [| | |o|o| | |] eqn:Ew; try exact Hcopy.
    + destruct (k <? header_sz); [|exact Hcopy].
      constructor; st_simpl_goal; try (intros; discriminate); try assumption.
      * exists mid. split.
        -- rewrite (ka_enqueued_same s) by reflexivity. rewrite (acked_same s) by reflexivity. exact Hs.
        -- cbn in Hm. cbn. destruct (is_own o); subst mid; cbn; lia.
      * intros He. exfalso. apply Hne; [congruence|assumption].
    + destruct (k <? f_len (o_frame o)); [|exact Hcopy].
      constructor; st_simpl_goal; try (intros; discriminate); try assumption.
      * exists mid. split.
        -- rewrite (ka_enqueued_same s) by reflexivity. rewrite (acked_same s) by reflexivity. exact Hs.
        -- cbn in Hm. subst mid. cbn. lia.
      * intros He. exfalso. apply Hne; [congruence|assumption].
  - (* WSeeDone *) unfold step_wseedone. pose proof Hinv as Hcopy.
    destruct Hinv as [(mid & Hs & Hm) Hh Hpay Hout Hph].
    assert (Hne : writer s <> WNone -> early_phase (phase s) = true -> False) by (intros Hw He; auto).
    destruct (writer s) eqn:Ew; try exact Hcopy;
      (destruct (closed s); [|exact Hcopy]);
      cbn in Hm; subst mid;
      (constructor; st_simpl_goal; try (intros; discriminate); try assumption;
       [ exists []; split; [|reflexivity];
         rewrite (ka_enqueued_same s) by reflexivity; rewrite (acked_same s) by reflexivity; exact Hs
       | intros He; exfalso; apply Hne; [congruence|assumption] ]).
  - (* RFrame *) unfold step_rframe. destruct (reader s); try assumption.
    destruct (take_waiter cfg true (length (peer_sent s)) f
                (note_close_resp f (set_peer_sent (peer_sent s ++ [f]) s))) as [s2 rep] eqn:Htw.
    pose proof (take_waiter_same_ack cfg true (length (peer_sent s)) f
                  (note_close_resp f (set_peer_sent (peer_sent s ++ [f]) s))) as H2.
    rewrite Htw in H2. cbn [fst] in H2.
    assert (Hs2 : ack_inv s2).
    { eapply ack_inv_same; [exact H2|]. eapply ack_inv_same; [|exact Hinv]. unfold note_close_resp. same_ack_tac. }
    eapply ack_inv_same; [|apply (run_handler_ack_inv cfg (length (peer_sent s)) f h rep s2 Hs2)].
    same_ack_tac.
  - (* PeerEOF *) unfold step_peer_eof. destruct (reader s); try assumption.
    destruct p.
    + eapply ack_inv_same; [|exact Hinv]. unfold reader_dies. same_ack_tac.
    + eapply ack_inv_same; [|exact Hinv]. unfold reader_dies. same_ack_tac.
    + destruct (take_waiter cfg false (length (peer_sent s)) f
                  (note_close_resp f (set_peer_sent (peer_sent s ++ [f]) s))) as [s2 rep] eqn:Htw.
      pose proof (take_waiter_same_ack cfg false (length (peer_sent s)) f
                    (note_close_resp f (set_peer_sent (peer_sent s ++ [f]) s))) as H2.
      rewrite Htw in H2. cbn [fst] in H2.
      assert (Hs2 : ack_inv s2).
      { eapply ack_inv_same; [exact H2|]. eapply ack_inv_same; [|exact Hinv]. unfold note_close_resp. same_ack_tac. }
      destruct (rep && (f_len f <=? max_buffered)).
      * eapply ack_inv_same; [|exact Hs2]. unfold reader_dies. same_ack_tac.
      * eapply ack_inv_same; [|apply (run_handler_ack_inv cfg (length (peer_sent s)) f HBAll rep s2 Hs2)].
        unfold eof_after_dispatch, reader_dies. same_ack_tac.
  - (* ConnStart *) unfold step_conn_start. destruct (phase s) eqn:Eph; try assumption.
    eapply ack_inv_same; [|exact Hinv]. unfold same_ack; st_simpl_goal; repeat split; auto.
    intros _. rewrite Eph. reflexivity.
  - (* ConnFirst *) unfold step_conn_first. destruct (phase s) eqn:Eph; try assumption.
    assert (Hw : writer s = WNone) by (apply (ai_phase s Hinv); rewrite Eph; reflexivity).
    assert (H1 : ack_inv (set_peer_sent (peer_sent s ++ [f]) s)).
    { eapply ack_inv_same; [|exact Hinv]. same_ack_tac. }
    destruct (max_buffered <? f_len f).
    { eapply ack_inv_same; [|exact H1]. unfold init_fail. same_ack_tac. }
    set (s2 := match first_handler cfg (f_typ f) with Some _ => _ | None => _ end).
    assert (Hs2 : ack_inv s2 /\ writer s2 = WNone).
    { subst s2. destruct (first_handler cfg (f_typ f)) as [k|]; [|split; assumption].
      destruct k; try (split; [eapply ack_inv_same; [|exact H1]; same_ack_tac | assumption]).
      split.
      - apply ack_inv_enqueue. eapply ack_inv_same; [|exact H1]. same_ack_tac.
      - unfold ack_enqueue. st_simpl_goal. destruct (Nat.ltb _ _); st_simpl_goal; assumption. }
    destruct Hs2 as (Hs2 & Hw2).
    destruct ((f_typ f =? T_ReaderEventNotification) && is_conn_success (f_info f)).
    + destruct Hs2 as [(mid & Hs & Hm) Hh Hpay Hout Hph]. rewrite Hw2 in Hm. cbn in Hm. subst mid.
      constructor; st_simpl_goal; try (intros; discriminate); try assumption.
      exists []. split; [|reflexivity].
      rewrite (ka_enqueued_same s2) by reflexivity. rewrite (acked_same s2) by reflexivity. exact Hs.
    + eapply ack_inv_same; [|exact Hs2]. unfold init_fail. same_ack_tac.
Qed.

Theorem ack_inv_run_from : forall cfg evs s, ack_inv s -> ack_inv (run_from cfg s evs).
Proof.
  intros cfg evs. induction evs as [|e evs IH]; intros s H; cbn; [assumption|].
  apply IH. now apply ack_inv_step.
Qed.

Theorem ack_inv_run : forall cfg evs, ack_inv (run cfg evs).
Proof. intros. apply ack_inv_run_from. apply ack_inv_init. Qed.
