(* MSB-first bit view of numbers and byte strings.

   LLRP (like most wire formats) numbers the bits of a field from the most significant one:
   "bit 0" of a byte is the 128s bit.  [bits_be w x] is the list of the low [w] bits of [x],
   most significant first, read off with [N.testbit]; [bytes_to_bits] concatenates the 8-bit
   views of a byte string; [bits_to_N] reads a bit list back as a number.  The lemmas connect
   this view with the shift/mask/lor arithmetic that the Go code uses:

     slice i n (bits_be w x) = bits_be n (x >> (w-i-n))         (bits_be_slice)
     bits_to_N (bits_be w x) = x mod 2^w = x land (2^w-1)        (bits_to_N_bits_be, _land)
     bits_be n a ++ bits_be m b = bits_be (n+m) (a<<m | b)        (bits_be_app_lor)
     bits_to_N (bytes_to_bits bs) = be_val bs                     (bits_to_N_bytes)

   This file is self-contained (Coq stdlib only) and contains definitions together with their
   basic lemmas; nothing here is specific to one property. *)
From Coq Require Import NArith ZArith List Bool Lia ZifyN ZifyNat ZifyBool.
Import ListNotations.
Open Scope N_scope.

(* ------------------------------------------------------------------ definitions *)

(* the low [w] bits of [x], most significant first *)
Fixpoint bits_be (w : nat) (x : N) : list bool :=
  match w with
  | O => []
  | S w' => N.testbit x (N.of_nat w') :: bits_be w' x
  end.

(* value of a bit list read most significant first *)
Fixpoint bits_to_N (l : list bool) : N :=
  match l with
  | [] => 0
  | b :: r => N.b2n b * 2 ^ N.of_nat (length r) + bits_to_N r
  end.

(* [n] elements starting at (0-based, MSB-first) position [i] *)
Definition slice {A} (i n : nat) (l : list A) : list A := firstn n (skipn i l).

(* a byte string as a bit string, first byte first, each byte MSB first *)
Definition bytes_to_bits (bs : list N) : list bool := flat_map (bits_be 8) bs.

(* big-endian value of a byte string *)
Fixpoint be_val (bs : list N) : N :=
  match bs with
  | [] => 0
  | b :: r => b * 2 ^ N.of_nat (8 * length r) + be_val r
  end.

Definition is_byte (b : N) : Prop := b < 256.
Definition bytes_ok (bs : list N) : Prop := Forall is_byte bs.

(* ------------------------------------------------------------------ bits_be *)

Lemma bits_be_length : forall w x, length (bits_be w x) = w.
Proof. induction w; intros; cbn [bits_be length]; auto. Qed.

Lemma bits_be_nth : forall w x i, (i < w)%nat ->
  nth i (bits_be w x) false = N.testbit x (N.of_nat (w - 1 - i)).
Proof.
  induction w; intros x i H; [lia|].
  cbn [bits_be]. destruct i; cbn [nth].
  - f_equal. f_equal. lia.
  - rewrite IHw by lia. f_equal. f_equal. lia.
Qed.

Lemma bits_be_ext : forall w x y,
  (forall i, i < N.of_nat w -> N.testbit x i = N.testbit y i) -> bits_be w x = bits_be w y.
Proof.
  induction w; intros x y H; cbn [bits_be]; [reflexivity|].
  f_equal.
  - apply H. lia.
  - apply IHw. intros i Hi. apply H. lia.
Qed.

Lemma bits_be_mod : forall w x, bits_be w (x mod 2 ^ N.of_nat w) = bits_be w x.
Proof. intros. apply bits_be_ext. intros i Hi. apply N.mod_pow2_bits_low; assumption. Qed.

Lemma bits_be_skipn : forall w i x, (i <= w)%nat -> skipn i (bits_be w x) = bits_be (w - i) x.
Proof.
  induction w; intros i x H.
  - destruct i; reflexivity.
  - destruct i; [reflexivity|]. cbn [bits_be skipn]. rewrite IHw by lia. reflexivity.
Qed.

Lemma bits_be_firstn : forall n w x, (n <= w)%nat ->
  firstn n (bits_be w x) = bits_be n (N.shiftr x (N.of_nat (w - n))).
Proof.
  induction n; intros w x H; [reflexivity|].
  destruct w; [lia|]. cbn [bits_be firstn]. f_equal.
  - rewrite N.shiftr_spec'. f_equal. lia.
  - rewrite IHn by lia. replace (S w - S n)%nat with (w - n)%nat by lia. reflexivity.
Qed.

(* a field of [n] bits at MSB-first position [i] of a [w]-bit word is a right shift *)
Lemma bits_be_slice : forall w i n x, (i + n <= w)%nat ->
  slice i n (bits_be w x) = bits_be n (N.shiftr x (N.of_nat (w - i - n))).
Proof.
  intros. unfold slice. rewrite bits_be_skipn by lia. rewrite bits_be_firstn by lia. reflexivity.
Qed.

(* ------------------------------------------------------------------ bits_to_N *)

Lemma bits_to_N_app : forall a b,
  bits_to_N (a ++ b) = bits_to_N a * 2 ^ N.of_nat (length b) + bits_to_N b.
Proof.
  induction a; intros b; cbn [app bits_to_N length].
  - lia.
  - rewrite IHa, app_length, Nat2N.inj_add, N.pow_add_r. lia.
Qed.

Lemma bits_to_N_lt : forall l, bits_to_N l < 2 ^ N.of_nat (length l).
Proof.
  induction l; cbn [bits_to_N length].
  - cbn. lia.
  - rewrite Nat2N.inj_succ, N.pow_succ_r'. destruct a; cbn [N.b2n]; lia.
Qed.

Lemma mod_pow2_succ : forall x w,
  x mod 2 ^ N.succ w = N.b2n (N.testbit x w) * 2 ^ w + x mod 2 ^ w.
Proof.
  intros. rewrite N.pow_succ_r', (N.mul_comm 2).
  rewrite N.mod_mul_r by (try apply N.pow_nonzero; lia).
  rewrite N.testbit_spec'. lia.
Qed.

(* reading back the bit view gives the number modulo 2^w *)
Lemma bits_to_N_bits_be : forall w x, bits_to_N (bits_be w x) = x mod 2 ^ N.of_nat w.
Proof.
  induction w; intros x; cbn [bits_be bits_to_N].
  - cbn. rewrite N.mod_1_r. reflexivity.
  - rewrite bits_be_length, IHw, Nat2N.inj_succ, mod_pow2_succ. reflexivity.
Qed.

Lemma bits_to_N_bits_be_land : forall w x,
  bits_to_N (bits_be w x) = N.land x (N.ones (N.of_nat w)).
Proof. intros. rewrite bits_to_N_bits_be, N.land_ones. reflexivity. Qed.

Lemma bits_to_N_bits_be_small : forall w x, x < 2 ^ N.of_nat w -> bits_to_N (bits_be w x) = x.
Proof. intros. rewrite bits_to_N_bits_be. apply N.mod_small. assumption. Qed.

Lemma testbit_bits_to_N_head : forall b r,
  N.testbit (bits_to_N (b :: r)) (N.of_nat (length r)) = b.
Proof.
  intros. cbn [bits_to_N].
  rewrite N.testbit_eqb, N.div_add_l by (apply N.pow_nonzero; lia).
  rewrite (N.div_small (bits_to_N r)) by apply bits_to_N_lt.
  destruct b; reflexivity.
Qed.

(* the bit view is a bijection between numbers below 2^w and bit lists of length w *)
Lemma bits_be_bits_to_N : forall l, bits_be (length l) (bits_to_N l) = l.
Proof.
  induction l as [|b r IH]; [reflexivity|].
  cbn [length bits_be]. rewrite testbit_bits_to_N_head. f_equal.
  rewrite <- bits_be_mod.
  replace (bits_to_N (b :: r) mod 2 ^ N.of_nat (length r)) with (bits_to_N r); [exact IH|].
  cbn [bits_to_N]. rewrite N.add_comm, N.mod_add by (apply N.pow_nonzero; lia).
  symmetry. apply N.mod_small, bits_to_N_lt.
Qed.

(* ------------------------------------------------------------------ lor / shiftl as concatenation *)

Lemma lor_shiftl_add : forall a b m, b < 2 ^ m -> N.lor (N.shiftl a m) b = a * 2 ^ m + b.
Proof.
  intros a b m H.
  assert (D : N.land (N.shiftl a m) b = 0).
  { apply N.bits_inj. intros i. rewrite N.land_spec, N.bits_0.
    destruct (N.lt_ge_cases i m) as [L|G].
    - rewrite N.shiftl_spec_low by assumption. reflexivity.
    - replace (N.testbit b i) with false; [apply andb_false_r|].
      symmetry. rewrite <- (N.mod_small b (2 ^ m)) by assumption.
      apply N.mod_pow2_bits_high. assumption. }
  rewrite <- N.lxor_lor by assumption. rewrite <- N.add_nocarry_lxor by assumption.
  rewrite N.shiftl_mul_pow2. reflexivity.
Qed.

Lemma bits_be_app : forall n m a b, b < 2 ^ N.of_nat m ->
  bits_be n a ++ bits_be m b = bits_be (n + m) (a * 2 ^ N.of_nat m + b).
Proof.
  induction n; intros m a b H.
  - cbn [bits_be app plus]. rewrite <- (bits_be_mod m (a * _ + b)).
    rewrite N.add_comm, N.mod_add by (apply N.pow_nonzero; lia).
    rewrite bits_be_mod. reflexivity.
  - cbn [bits_be app plus]. f_equal; [|apply IHn; assumption].
    rewrite Nat2N.inj_add, <- N.div_pow2_bits.
    rewrite N.div_add_l by (apply N.pow_nonzero; lia).
    rewrite (N.div_small b) by assumption. f_equal. lia.
Qed.

Lemma bits_be_app_lor : forall n m a b, b < 2 ^ N.of_nat m ->
  bits_be n a ++ bits_be m b = bits_be (n + m) (N.lor (N.shiftl a (N.of_nat m)) b).
Proof. intros. rewrite lor_shiftl_add by assumption. apply bits_be_app. assumption. Qed.

(* ------------------------------------------------------------------ byte strings *)

Lemma bytes_to_bits_cons : forall b r, bytes_to_bits (b :: r) = bits_be 8 b ++ bytes_to_bits r.
Proof. reflexivity. Qed.

Lemma bytes_to_bits_app : forall a b, bytes_to_bits (a ++ b) = bytes_to_bits a ++ bytes_to_bits b.
Proof. intros. unfold bytes_to_bits. apply flat_map_app. Qed.

Lemma bytes_to_bits_length : forall bs, length (bytes_to_bits bs) = (8 * length bs)%nat.
Proof.
  induction bs; [reflexivity|].
  rewrite bytes_to_bits_cons, app_length, bits_be_length, IHbs. cbn [length]. lia.
Qed.

Lemma bits_to_N_bytes : forall bs, bytes_ok bs -> bits_to_N (bytes_to_bits bs) = be_val bs.
Proof.
  induction 1 as [|b r Hb Hr IH]; [reflexivity|].
  rewrite bytes_to_bits_cons, bits_to_N_app, bytes_to_bits_length, IH.
  cbn [be_val]. rewrite bits_to_N_bits_be_small; [reflexivity|exact Hb].
Qed.

Lemma be_val_lt : forall bs, bytes_ok bs -> be_val bs < 2 ^ N.of_nat (8 * length bs).
Proof.
  intros. rewrite <- bits_to_N_bytes by assumption. rewrite <- bytes_to_bits_length.
  apply bits_to_N_lt.
Qed.

(* the bit view of a byte string is the bit view of its big-endian value *)
Lemma bytes_to_bits_be_val : forall bs, bytes_ok bs ->
  bytes_to_bits bs = bits_be (8 * length bs) (be_val bs).
Proof.
  intros. rewrite <- bits_to_N_bytes by assumption.
  rewrite <- bytes_to_bits_length. symmetry. apply bits_be_bits_to_N.
Qed.
