(* Encoder IR for C02/C01 ("Way 1" tie of coq/Codec/Encode.v to the Go encoder).
   Programs are produced on every run by tools/go-enc-ir from
     pkg/llrp/generated_encoder.go   (EncodeFields, getHeader)
     pkg/llrp/generated_marshal.go   (MarshalBinary, b2b)
     pkg/llrp/msg_builder.go         (encodeParams, paramHeader)
     pkg/llrp/generated_structs.go, params.go (struct field order, ParamXxx/MsgXxx constants, IsTV)
   into build/gen/C02/EncPrograms.v.  Each constructor stands for one Go statement / expression
   shape; every constant, shift amount, mask, field position, order of writes, size constant and
   sub-parameter order is copied from the Go AST.  Field references are positions in the Go
   struct of the receiver (for an inline type `type T uintN` the receiver `*p` is field 0).
   All numbers are N. *)
From Coq Require Import NArith List Bool.
Import ListNotations.
Open Scope N_scope.

(* ---- Go struct declarations (recorded so that Coq checks them against the schema) ---- *)
Inductive gelem :=
| EU8                               (* literally byte / uint8 *)
| EBool (ptid : option N)           (* bool, or a named bool type (ptid: its getHeader's ParamType) *)
| EInt (size : N) (ptid : option N) (* any other integer type of [size] bytes (named/alias/intN/uintN);
                                       ptid = Some t if the named type has a getHeader method (inline parameter) *)
| EString
| EParam (tid : N).                 (* a struct type with a getHeader method returning ParamType tid *)
Inductive gshape := SPlain | SPtr | SSlice.   (* T, *T, []T *)
Definition gtype := (gshape * gelem)%type.

(* ---- expressions inside `[]byte{ ... }` ---- *)
Inductive iexpr :=
| IField (f : N)                    (* p.X   (or *p) *)
| ILen (f : N)                      (* len(p.X) *)
| IShr (e : iexpr) (k : N)          (* e >> k *)
| IAnd (e : iexpr) (m : N)          (* e & m *)
| IOr (e : iexpr) (m : N).          (* e | m *)

Inductive bexpr :=
| BLit (n : N)                      (* 0x00 *)
| BRaw (f : N)                      (* p.X with X of type byte/uint8: no conversion *)
| BConv (e : iexpr)                 (* byte(e) *)
| BB2B (f : N)                      (* b2b(p.X), b2b(bool( *p )) *)
| BIdx (f i : N)                    (* p.X[i] *)
| BShl (e : bexpr) (k : N)          (* e << k on uint8 *)
| BOr (a b : bexpr).                (* a | b *)

(* ---- EncodeFields: the sequence of writes ---- *)
Inductive wstmt :=
| WBytes (es : list bexpr)          (* w.Write([]byte{e1, ..., en}) *)
| WSlice (f : N)                    (* w.Write(p.X), X []byte *)
| WString (f : N)                   (* w.Write([]byte(p.X)), X string *)
| WBE (f : N) (esize : N).          (* binary.Write(w, binary.BigEndian, p.X), X []T with sizeof T = esize *)

(* ---- getHeader ---- *)
Inductive szterm :=
| SzLen (f : N) (mul : N)           (* uint16(len(p.X)) (mul = 1) / uint16(len(p.X)*mul) *)
| SzBits (f : N) (a b c : N).       (* uint16(((int(p.X)-a)>>b)+c) *)

Inductive catom :=
| CNeZero (g : N)                   (* p.X.G != 0   (p.X != 0 for an inline X: g = 0) *)
| CNeNil (g : N).                   (* p.X.G != nil *)

Inductive substmt :=
| SOne (f : N) (tid : N)            (* ph.subs = append(ph.subs, p.X.getHeader()); ph.sz += ph.subs[len(ph.subs)-1].sz
                                       / message: encodeParams(&b, m.X.getHeader()) *)
| SOpt (f : N) (tid : N)            (* if p.X != nil { sh := p.X.getHeader(); ph.sz += sh.sz; ph.subs = append(ph.subs, sh) } *)
| SMany (f : N) (tid : N)           (* for i := range p.X { sh := p.X[i].getHeader(); ... } *)
| SSwitch (cases : list (list catom * N * N)).  (* switch { case conds(p.X): <SOne X> ... }   (conds, field, tid) *)

(* nParams := [k] + len(p.A) + ...; if p.O != nil { nParams++ } ...; subs: make([]paramHeader, 0, nParams) *)
Record nparams := { np_const : option N; np_lens : list N; np_opts : list N }.

Record hdr := {
  h_ptype : N;                      (* ParamType: ParamXxx, resolved to its value *)
  h_base : N;                       (* sz: <base> + terms *)
  h_terms : list szterm;
  h_nparams : option nparams;
  h_subs : list substmt }.

Inductive pbody :=
| PParam (h : hdr) (strip : N)      (* getHeader; MarshalBinary = encodeParams(&b, p.getHeader()); b.Bytes()[strip:] *)
| PMsg (subs : list substmt).       (* MarshalBinary = EncodeFields(&b); then the subs; b.Bytes() *)

Record enc_prog := {
  p_struct : list gtype;            (* the Go struct's fields in declaration order *)
  p_inline : bool;                  (* `type T <scalar>` rather than a struct *)
  p_fields : list wstmt;            (* EncodeFields *)
  p_body : pbody }.

(* encodeParams / IsTV / b2b: the hand-written plumbing, translated once per run *)
Record glob := {
  g_istv_ne : N; g_istv_le : N;     (* func (pt ParamType) IsTV() bool { return pt != ne && pt <= le } *)
  g_b2b_true : N; g_b2b_false : N;  (* func b2b(b bool) byte { if b { return t }; return f } *)
  g_tv_hdr : list bexpr;            (* TV header literal over paramHeader fields (position 0 = ParamType, 1 = sz) *)
  g_tlv_hdr : list bexpr }.         (* TLV header literal *)

Definition container_id := (bool * N)%type.   (* (is message, type id) *)
Record programs := { ps_glob : glob; ps_progs : list (container_id * enc_prog) }.

Fixpoint lookup (ps : list (container_id * enc_prog)) (msg : bool) (tid : N) : option enc_prog :=
  match ps with
  | [] => None
  | ((m, t), p) :: r => if Bool.eqb m msg && (t =? tid) then Some p else lookup r msg tid
  end.

(* ---- decidable syntactic equality ---- *)
Definition optN_eqb (a b : option N) : bool :=
  match a, b with Some x, Some y => x =? y | None, None => true | _, _ => false end.

Fixpoint list_eqb {A} (eqb : A -> A -> bool) (a b : list A) : bool :=
  match a, b with
  | [], [] => true
  | x :: a', y :: b' => eqb x y && list_eqb eqb a' b'
  | _, _ => false
  end.

Definition gelem_eqb (a b : gelem) : bool :=
  match a, b with
  | EU8, EU8 => true
  | EBool p, EBool q => optN_eqb p q
  | EInt s p, EInt s' q => (s =? s') && optN_eqb p q
  | EString, EString => true
  | EParam t, EParam t' => t =? t'
  | _, _ => false
  end.
Definition gshape_eqb (a b : gshape) : bool :=
  match a, b with SPlain, SPlain | SPtr, SPtr | SSlice, SSlice => true | _, _ => false end.
Definition gtype_eqb (a b : gtype) : bool := gshape_eqb (fst a) (fst b) && gelem_eqb (snd a) (snd b).

Fixpoint iexpr_eqb (a b : iexpr) : bool :=
  match a, b with
  | IField f, IField g => f =? g
  | ILen f, ILen g => f =? g
  | IShr e k, IShr e' k' => iexpr_eqb e e' && (k =? k')
  | IAnd e k, IAnd e' k' => iexpr_eqb e e' && (k =? k')
  | IOr e k, IOr e' k' => iexpr_eqb e e' && (k =? k')
  | _, _ => false
  end.

Fixpoint bexpr_eqb (a b : bexpr) : bool :=
  match a, b with
  | BLit n, BLit m => n =? m
  | BRaw f, BRaw g => f =? g
  | BConv e, BConv e' => iexpr_eqb e e'
  | BB2B f, BB2B g => f =? g
  | BIdx f i, BIdx g j => (f =? g) && (i =? j)
  | BShl e k, BShl e' k' => bexpr_eqb e e' && (k =? k')
  | BOr x y, BOr x' y' => bexpr_eqb x x' && bexpr_eqb y y'
  | _, _ => false
  end.

Definition wstmt_eqb (a b : wstmt) : bool :=
  match a, b with
  | WBytes es, WBytes es' => list_eqb bexpr_eqb es es'
  | WSlice f, WSlice g => f =? g
  | WString f, WString g => f =? g
  | WBE f e, WBE g e' => (f =? g) && (e =? e')
  | _, _ => false
  end.

Definition szterm_eqb (a b : szterm) : bool :=
  match a, b with
  | SzLen f m, SzLen g m' => (f =? g) && (m =? m')
  | SzBits f a b c, SzBits g a' b' c' => (f =? g) && (a =? a') && (b =? b') && (c =? c')
  | _, _ => false
  end.

Definition catom_eqb (a b : catom) : bool :=
  match a, b with
  | CNeZero g, CNeZero h => g =? h
  | CNeNil g, CNeNil h => g =? h
  | _, _ => false
  end.

Definition case_eqb (a b : list catom * N * N) : bool :=
  list_eqb catom_eqb (fst (fst a)) (fst (fst b)) && (snd (fst a) =? snd (fst b)) && (snd a =? snd b).

Definition substmt_eqb (a b : substmt) : bool :=
  match a, b with
  | SOne f t, SOne g u => (f =? g) && (t =? u)
  | SOpt f t, SOpt g u => (f =? g) && (t =? u)
  | SMany f t, SMany g u => (f =? g) && (t =? u)
  | SSwitch cs, SSwitch cs' => list_eqb case_eqb cs cs'
  | _, _ => false
  end.

Definition nparams_eqb (a b : nparams) : bool :=
  optN_eqb (np_const a) (np_const b) && list_eqb N.eqb (np_lens a) (np_lens b) && list_eqb N.eqb (np_opts a) (np_opts b).

Definition hdr_eqb (a b : hdr) : bool :=
  (h_ptype a =? h_ptype b) && (h_base a =? h_base b) && list_eqb szterm_eqb (h_terms a) (h_terms b) &&
  (match h_nparams a, h_nparams b with
   | Some x, Some y => nparams_eqb x y | None, None => true | _, _ => false end) &&
  list_eqb substmt_eqb (h_subs a) (h_subs b).

Definition pbody_eqb (a b : pbody) : bool :=
  match a, b with
  | PParam h s, PParam h' s' => hdr_eqb h h' && (s =? s')
  | PMsg l, PMsg l' => list_eqb substmt_eqb l l'
  | _, _ => false
  end.

Definition prog_eqb (a b : enc_prog) : bool :=
  list_eqb gtype_eqb (p_struct a) (p_struct b) && Bool.eqb (p_inline a) (p_inline b) &&
  list_eqb wstmt_eqb (p_fields a) (p_fields b) && pbody_eqb (p_body a) (p_body b).

Definition glob_eqb (a b : glob) : bool :=
  (g_istv_ne a =? g_istv_ne b) && (g_istv_le a =? g_istv_le b) &&
  (g_b2b_true a =? g_b2b_true b) && (g_b2b_false a =? g_b2b_false b) &&
  list_eqb bexpr_eqb (g_tv_hdr a) (g_tv_hdr b) && list_eqb bexpr_eqb (g_tlv_hdr a) (g_tlv_hdr b).

(* number of IR nodes (for the evidence file) *)
Fixpoint iexpr_size (e : iexpr) : N :=
  match e with IField _ | ILen _ => 1 | IShr e _ | IAnd e _ | IOr e _ => 1 + iexpr_size e end.
Fixpoint bexpr_size (e : bexpr) : N :=
  match e with
  | BLit _ | BRaw _ | BB2B _ | BIdx _ _ => 1
  | BConv e => 1 + iexpr_size e
  | BShl e _ => 1 + bexpr_size e
  | BOr a b => 1 + bexpr_size a + bexpr_size b
  end.
