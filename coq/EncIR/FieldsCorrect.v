(* EncodeFields and the size expression of getHeader, as compiled from the schema, compute what
   Codec/Encode.enc_fields computes (bytes, and declared size modulo 2^16). *)
From Coq Require Import NArith ZArith List Bool Arith Lia ZifyN ZifyNat.
From LLRP Require Import Codec.Schema Codec.Encode Codec.Wf Codec.BytesLemmas
     EncIR.IR EncIR.Sem EncIR.Compile.
Import ListNotations.
Open Scope N_scope.

(* ---------- small facts ---------- *)
Lemma map_opt_app {A B} (f : A -> option B) a : forall b xa xb,
  map_opt f a = Some xa -> map_opt f b = Some xb -> map_opt f (a ++ b) = Some (xa ++ xb).
Proof.
  induction a as [|x a IH]; intros b xa xb Ha Hb; cbn [map_opt app] in *.
  - injection Ha as <-. exact Hb.
  - destruct (f x); [|discriminate]. destruct (map_opt f a) eqn:E; [|discriminate].
    injection Ha as <-. rewrite (IH _ _ _ eq_refl Hb). reflexivity.
Qed.

Lemma run_ws_app g vw a : forall b xa xb,
  run_ws g vw a = Some xa -> run_ws g vw b = Some xb -> run_ws g vw (a ++ b) = Some (xa ++ xb).
Proof.
  induction a as [|w a IH]; intros b xa xb Ha Hb; cbn [run_ws app] in *.
  - injection Ha as <-. exact Hb.
  - destruct (run_w g vw w); [|discriminate]. destruct (run_ws g vw a) eqn:E; [|discriminate].
    injection Ha as <-. rewrite (IH _ _ _ eq_refl Hb), app_assoc. reflexivity.
Qed.

Lemma field_at (pre : list value) v rest i :
  i = N.of_nat (length pre) -> field (pre ++ v :: rest) i = Some v.
Proof.
  intros ->. unfold field. rewrite Nat2N.id, nth_error_app2 by lia.
  rewrite Nat.sub_diag. reflexivity.
Qed.

Lemma gnth_at (dpre : list gtype) g rest i :
  i = N.of_nat (length dpre) -> gnth (dpre ++ g :: rest) i = g.
Proof.
  intros ->. unfold gnth. rewrite Nat2N.id, app_nth2 by lia. rewrite Nat.sub_diag. reflexivity.
Qed.

Lemma land_255 x : N.land x 255 mod 256 = x mod 256.
Proof.
  change 255 with (N.ones 8). rewrite N.land_ones. change (2 ^ 8) with 256.
  apply N.mod_mod. discriminate.
Qed.

Lemma u16_add a b : u16 (u16 a + u16 b) = u16 (a + b).
Proof. unfold u16. symmetry. apply N.add_mod. discriminate. Qed.

Lemma u16_add_r a b : u16 (u16 a + b) = u16 (a + b).
Proof. unfold u16. rewrite N.add_mod_idemp_l by discriminate. reflexivity. Qed.

Lemma u16_idem a : u16 (u16 a) = u16 a.
Proof. unfold u16. apply N.mod_mod. discriminate. Qed.

(* ---------- items ---------- *)
Definition item_bytes (g : glob) (vw : list value) (it : item) : option bytes :=
  match it with
  | IB e => option_map (fun x => [x]) (eval_b g vw e)
  | IW ws => run_ws g vw ws
  end.

Fixpoint items_bytes (g : glob) (vw : list value) (its : list item) : option bytes :=
  match its with
  | [] => Some []
  | it :: r => match item_bytes g vw it, items_bytes g vw r with
               | Some a, Some b => Some (a ++ b)
               | _, _ => None end
  end.

Lemma items_IB g vw es : forall its xs r,
  map_opt (eval_b g vw) es = Some xs -> items_bytes g vw its = Some r ->
  items_bytes g vw (map IB es ++ its) = Some (xs ++ r).
Proof.
  induction es as [|e es IH]; intros its xs r He Hi; cbn [map app map_opt items_bytes item_bytes] in *.
  - injection He as <-. exact Hi.
  - destruct (eval_b g vw e); [|discriminate]. destruct (map_opt (eval_b g vw) es) eqn:E; [|discriminate].
    injection He as <-. cbn [option_map]. rewrite (IH _ _ _ eq_refl Hi). reflexivity.
Qed.

Lemma group_ok g vw its : forall cur xc xi,
  map_opt (eval_b g vw) cur = Some xc -> items_bytes g vw its = Some xi ->
  run_ws g vw (group_items its cur) = Some (xc ++ xi).
Proof.
  induction its as [|it its IH]; intros cur xc xi Hc Hi; cbn [group_items items_bytes] in *.
  - injection Hi as <-. rewrite app_nil_r. destruct cur; cbn [flush run_ws run_w].
    + cbn in Hc. injection Hc as <-. reflexivity.
    + rewrite Hc, app_nil_r. reflexivity.
  - destruct (item_bytes g vw it) as [a|] eqn:Ea; [|discriminate].
    destruct (items_bytes g vw its) as [b|] eqn:Eb; [|discriminate]. injection Hi as <-.
    destruct it as [e|ws]; cbn [item_bytes] in Ea.
    + destruct (eval_b g vw e) as [x|] eqn:Ee; [|discriminate]. cbn in Ea. injection Ea as <-.
      assert (Hc' : map_opt (eval_b g vw) (cur ++ [e]) = Some (xc ++ [x])).
      { apply map_opt_app; [exact Hc|]. cbn. rewrite Ee. reflexivity. }
      rewrite (IH _ _ _ Hc' eq_refl), <- app_assoc. reflexivity.
    + assert (Hf : run_ws g vw (flush cur) = Some xc).
      { destruct cur; cbn [flush run_ws run_w].
        - cbn in Hc. injection Hc as <-. reflexivity.
        - rewrite Hc, app_nil_r. reflexivity. }
      apply run_ws_app; [exact Hf|]. apply run_ws_app; [exact Ea|].
      apply (IH [] [] b eq_refl eq_refl).
Qed.

(* ---------- per-kind expression lemmas ---------- *)
Lemma be_exprs_ok g vw i x size :
  field vw i = Some (VNum x) -> map_opt (eval_b g vw) (be_exprs i size) = Some (be size x).
Proof.
  intros Hf. induction size as [|k IH]; [reflexivity|].
  cbn [be_exprs map_opt be]. rewrite IH.
  destruct k as [|k']; cbn [eval_b eval_i option_map]; rewrite Hf; cbn [option_map].
  - change (8 * N.of_nat 0) with 0. rewrite N.shiftr_0_r. reflexivity.
  - reflexivity.
Qed.

Lemma repeat_lit_ok g vw n : map_opt (eval_b g vw) (repeat (BLit 0) n) = Some (repeat 0 n).
Proof. induction n as [|n IH]; [reflexivity|]. cbn [repeat map_opt eval_b]. rewrite IH. reflexivity. Qed.

Lemma idx_exprs_ok g vw i all : field vw i = Some (VBytes all) ->
  forall n bs0 bs k, all = bs0 ++ bs -> k = N.of_nat (length bs0) -> length bs = n ->
  map_opt (eval_b g vw) (idx_exprs i k n) = Some bs.
Proof.
  intros Hf. induction n as [|n IH]; intros bs0 bs k Ha Hk Hl.
  - destruct bs; [reflexivity|discriminate].
  - destruct bs as [|b bs]; [discriminate|]. cbn [idx_exprs map_opt eval_b]. rewrite Hf.
    subst all k. rewrite Nat2N.id, nth_error_app2 by lia. rewrite Nat.sub_diag. cbn [nth_error].
    rewrite (IH (bs0 ++ [b]) bs).
    + reflexivity.
    + rewrite <- app_assoc. reflexivity.
    + rewrite app_length. cbn [length]. lia.
    + cbn in Hl. lia.
Qed.

Lemma len_prefix_ok g vw e l :
  eval_i vw e = Some l -> run_w g vw (len_prefix e) = Some (be 2 l).
Proof.
  intros He. unfold len_prefix. cbn [run_w map_opt eval_b eval_i]. rewrite He. cbn [option_map be].
  rewrite land_255. change (8 * N.of_nat 1) with 8. change (8 * N.of_nat 0) with 0.
  rewrite N.shiftr_0_r. reflexivity.
Qed.

Lemma flat_be1 ns : Forall (fun x => x < 2 ^ (8 * N.of_nat 1)) ns -> flat_map (be 1) ns = ns.
Proof.
  induction 1 as [|x ns Hx _ IH]; [reflexivity|]. cbn [flat_map]. rewrite IH. cbn [be app].
  change (8 * N.of_nat 0) with 0. rewrite N.shiftr_0_r.
  change (2 ^ (8 * N.of_nat 1)) with 256 in Hx. rewrite N.mod_small by exact Hx. reflexivity.
Qed.

Lemma pow2_bits_le (bits : nat) : (bits <= 8)%nat -> 2 ^ N.of_nat bits <= 256.
Proof.
  intros H. change 256 with (2 ^ 8). apply N.pow_le_mono_r; [discriminate|lia].
Qed.

(* ---------- the fields of one container ---------- *)
Section Fields.
  Variable g : glob.
  Hypothesis Hbt : g_b2b_true g = 1.
  Hypothesis Hbf : g_b2b_false g = 0.
  Variable d : list gtype.
  Variable vw : list value.
  Variable ss : list value.

  Definition pend_ok (pend : option bexpr) (acc : N) : Prop :=
    match pend with
    | None => acc = 0
    | Some e => eval_b g vw e = Some acc
    end.

  Lemma byte1_ok gt i x bits bit partial :
    field_ok (FBits bits bit partial) gt = true -> (bits <= 8)%nat ->
    field vw i = Some (VNum x) -> x < 2 ^ N.of_nat bits ->
    eval_b g vw (byte1 gt i) = Some (x mod 256).
  Proof.
    intros Hok Hb Hf Hx. pose proof (pow2_bits_le bits Hb) as Hp.
    destruct gt as [sh el]. unfold byte1. cbn [snd].
    destruct sh; try discriminate Hok.
    destruct el as [|p|s p| |]; try discriminate Hok; cbn [eval_b eval_i]; rewrite Hf; cbn [option_map].
    - rewrite N.mod_small by lia. reflexivity.
    - destruct p; [discriminate Hok|]. cbn in Hok. apply Nat.eqb_eq in Hok. subst bits.
      change (2 ^ N.of_nat 1) with 2 in Hx. rewrite Hbt, Hbf.
      assert (x = 0 \/ x = 1) as [-> | ->] by lia; reflexivity.
    - reflexivity.
  Qed.

  Lemma items_ok : forall fs vs pre dpre drest d' pend acc used b sz i,
    vw = pre ++ flat_map split_field vs ++ ss ->
    d = dpre ++ drest -> length dpre = length pre -> i = N.of_nat (length pre) ->
    fields_ok fs drest = Some d' ->
    wf_fspecs used fs = true -> wf_fields fs vs -> pend_ok pend acc ->
    enc_fields fs vs acc = Some (b, sz) ->
    items_bytes g vw (field_items d fs i pend) = Some b.
  Proof.
    induction fs as [|f fs IH]; intros vs pre dpre drest d' pend acc used b sz i Hv Hd Hl Hi Hok Hspec Hwf Hp E.
    - cbn [enc_fields] in E. destruct vs; [|discriminate]. injection E as <- <-. reflexivity.
    - destruct f as [size|bits bit partial|n|n|e| | |].
      + (* FNum *)
        cbn [wf_fields] in Hwf. destruct vs as [|v vs]; [contradiction|]. destruct Hwf as [Hf Hwf].
        destruct v as [x| | | | | |]; try contradiction.
        cbn [enc_fields] in E. destruct (enc_fields fs vs 0) as [[r rz]|] eqn:Er; [|discriminate].
        injection E as <- <-.
        cbn [fields_ok] in Hok. destruct drest as [|gt drest]; [discriminate|].
        destruct (field_ok (FNum size) gt) eqn:Hfo; [|discriminate].
        cbn [flat_map split_field app] in Hv.
        assert (Hfld : field vw i = Some (VNum x)).
        { rewrite Hv. apply field_at. exact Hi. }
        cbn [wf_fspecs] in Hspec. apply andb_true_iff in Hspec as [_ Hspec].
        cbn [field_items]. rewrite Hd, (gnth_at dpre gt drest i) by (rewrite Hl; exact Hi). rewrite <- Hd.
        apply items_IB.
        * destruct gt as [sh el]. unfold num_exprs. cbn [snd].
          destruct sh; try discriminate Hfo.
          destruct el as [|p|s p| |]; try discriminate Hfo.
          -- cbn in Hfo. apply Nat.eqb_eq in Hfo. subst size. cbn [map_opt eval_b]. rewrite Hfld.
             cbn [be]. change (8 * N.of_nat 0) with 0. rewrite N.shiftr_0_r.
             cbn [wf_field] in Hf. change (2 ^ (8 * N.of_nat 1)) with 256 in Hf.
             rewrite N.mod_small by exact Hf. reflexivity.
          -- apply be_exprs_ok. exact Hfld.
        * apply (IH vs (pre ++ [VNum x]) (dpre ++ [gt]) drest d' None 0 0%nat r rz).
          -- rewrite Hv, <- app_assoc. reflexivity.
          -- rewrite Hd, <- app_assoc. reflexivity.
          -- rewrite !app_length, Hl. reflexivity.
          -- rewrite app_length. cbn [length]. lia.
          -- exact Hok.
          -- exact Hspec.
          -- exact Hwf.
          -- reflexivity.
          -- exact Er.
      + (* FBits *)
        cbn [wf_fields] in Hwf. destruct vs as [|v vs]; [contradiction|]. destruct Hwf as [Hf Hwf].
        destruct v as [x| | | | | |]; try contradiction. cbn [wf_field] in Hf.
        cbn [fields_ok] in Hok. destruct drest as [|gt drest]; [discriminate|].
        destruct (field_ok (FBits bits bit partial) gt) eqn:Hfo; [|discriminate].
        cbn [flat_map split_field app] in Hv.
        assert (Hfld : field vw i = Some (VNum x)).
        { rewrite Hv. apply field_at. exact Hi. }
        cbn [wf_fspecs] in Hspec. apply andb_true_iff in Hspec as [Hspec Hspec'].
        apply andb_true_iff in Hspec as [Hspec Hle]. apply Nat.leb_le in Hle.
        assert (Hb8 : (bits <= 8)%nat) by lia.
        cbn [field_items]. rewrite Hd, (gnth_at dpre gt drest i) by (rewrite Hl; exact Hi). rewrite <- Hd.
        set (put := BShl (byte1 gt i) (N.of_nat (8 - bits - bit))).
        assert (Hput : eval_b g vw put = Some (N.shiftl (x mod 256) (N.of_nat (8 - bits - bit)) mod 256)).
        { unfold put. cbn [eval_b]. rewrite (byte1_ok gt i x bits bit partial Hfo Hb8 Hfld Hf). reflexivity. }
        set (e := match pend with None => put | Some a => BOr a put end).
        assert (He : eval_b g vw e = Some (N.lor acc (N.shiftl (x mod 256) (N.of_nat (8 - bits - bit)) mod 256))).
        { unfold e. destruct pend as [a|]; cbn [pend_ok] in Hp.
          - cbn [eval_b]. rewrite Hp, Hput. reflexivity.
          - subst acc. rewrite N.lor_0_l. exact Hput. }
        cbn [enc_fields] in E.
        assert (Hrec : forall pend' acc' used' r rz, pend_ok pend' acc' -> wf_fspecs used' fs = true ->
                   enc_fields fs vs acc' = Some (r, rz) ->
                   items_bytes g vw (field_items d fs (i + 1) pend') = Some r).
        { intros pend' acc' used' r rz Hp' Hs' Er.
          apply (IH vs (pre ++ [VNum x]) (dpre ++ [gt]) drest d' pend' acc' used' r rz).
          - rewrite Hv, <- app_assoc. reflexivity.
          - rewrite Hd, <- app_assoc. reflexivity.
          - rewrite !app_length, Hl. reflexivity.
          - rewrite app_length. cbn [length]. lia.
          - exact Hok.
          - exact Hs'.
          - exact Hwf.
          - exact Hp'.
          - exact Er. }
        destruct partial.
        * apply (Hrec (Some e) _ _ b sz He Hspec' E).
        * destruct (enc_fields fs vs 0) as [[r rz]|] eqn:Er; [|discriminate]. injection E as <- <-.
          cbn [items_bytes item_bytes]. rewrite He. cbn [option_map].
          rewrite (Hrec None 0 _ r rz eq_refl Hspec' Er). reflexivity.
      + (* FPad *)
        cbn [wf_fields] in Hwf. cbn [enc_fields] in E.
        destruct (enc_fields fs vs 0) as [[r rz]|] eqn:Er; [|discriminate]. injection E as <- <-.
        cbn [fields_ok] in Hok. cbn [wf_fspecs] in Hspec. apply andb_true_iff in Hspec as [_ Hspec].
        cbn [field_items]. apply items_IB; [apply repeat_lit_ok|].
        apply (IH vs pre dpre drest d' None 0 0%nat r rz i Hv Hd Hl Hi Hok Hspec Hwf eq_refl Er).
      + (* FFixed *)
        cbn [wf_fields] in Hwf. destruct vs as [|v vs]; [contradiction|]. destruct Hwf as [Hf Hwf].
        destruct v as [|bs| | | | |]; try contradiction. cbn [wf_field] in Hf. destruct Hf as [Hlen _].
        cbn [enc_fields] in E. destruct (enc_fields fs vs 0) as [[r rz]|] eqn:Er; [|discriminate].
        injection E as <- <-.
        cbn [fields_ok] in Hok. destruct drest as [|gt drest]; [discriminate|].
        destruct (field_ok (FFixed n) gt) eqn:Hfo; [|discriminate].
        cbn [flat_map split_field app] in Hv.
        assert (Hfld : field vw i = Some (VBytes bs)).
        { rewrite Hv. apply field_at. exact Hi. }
        cbn [wf_fspecs] in Hspec. apply andb_true_iff in Hspec as [_ Hspec].
        cbn [field_items]. apply items_IB.
        * apply (idx_exprs_ok g vw i bs Hfld n [] bs 0); [reflexivity|reflexivity|exact Hlen].
        * apply (IH vs (pre ++ [VBytes bs]) (dpre ++ [gt]) drest d' None 0 0%nat r rz).
          -- rewrite Hv, <- app_assoc. reflexivity.
          -- rewrite Hd, <- app_assoc. reflexivity.
          -- rewrite !app_length, Hl. reflexivity.
          -- rewrite app_length. cbn [length]. lia.
          -- exact Hok.
          -- exact Hspec.
          -- exact Hwf.
          -- reflexivity.
          -- exact Er.
      + (* FCounted *)
        cbn [wf_fields] in Hwf. destruct vs as [|v vs]; [contradiction|]. destruct Hwf as [Hf Hwf].
        destruct v as [| | |ns| | |]; try contradiction. cbn [wf_field] in Hf. destruct Hf as [_ Hall].
        cbn [enc_fields] in E. destruct (enc_fields fs vs 0) as [[r rz]|] eqn:Er; [|discriminate].
        injection E as <- <-.
        cbn [fields_ok] in Hok. destruct drest as [|gt drest]; [discriminate|].
        destruct (field_ok (FCounted e) gt) eqn:Hfo; [|discriminate].
        cbn [flat_map split_field app] in Hv.
        assert (Hfld : field vw i = Some (VNums ns)).
        { rewrite Hv. apply field_at. exact Hi. }
        cbn [wf_fspecs] in Hspec. apply andb_true_iff in Hspec as [_ Hspec].
        cbn [field_items]. rewrite Hd, (gnth_at dpre gt drest i) by (rewrite Hl; exact Hi). rewrite <- Hd.
        cbn [items_bytes item_bytes run_ws].
        rewrite (len_prefix_ok g vw (ILen i) (len ns)) by (cbn [eval_i]; rewrite Hfld; reflexivity).
        assert (Hdata : run_w g vw (match snd gt with EU8 => WSlice i | _ => WBE i (N.of_nat e) end)
                        = Some (flat_map (be e) ns)).
        { destruct gt as [sh el]. cbn [snd]. destruct sh; try discriminate Hfo.
          destruct el as [|p|s p| |]; try discriminate Hfo; cbn [run_w]; rewrite Hfld.
          - cbn in Hfo. apply Nat.eqb_eq in Hfo. subst e. rewrite flat_be1 by exact Hall. reflexivity.
          - rewrite Nat2N.id. reflexivity. }
        rewrite Hdata.
        rewrite (IH vs (pre ++ [VNums ns]) (dpre ++ [gt]) drest d' None 0 0%nat r rz (i + 1)).
        * rewrite app_nil_r, <- !app_assoc. reflexivity.
        * rewrite Hv, <- app_assoc. reflexivity.
        * rewrite Hd, <- app_assoc. reflexivity.
        * rewrite !app_length, Hl. reflexivity.
        * rewrite app_length. cbn [length]. lia.
        * exact Hok.
        * exact Hspec.
        * exact Hwf.
        * reflexivity.
        * exact Er.
      + (* FString *)
        cbn [wf_fields] in Hwf. destruct vs as [|v vs]; [contradiction|]. destruct Hwf as [Hf Hwf].
        destruct v as [|bs| | | | |]; try contradiction.
        cbn [enc_fields] in E. destruct (enc_fields fs vs 0) as [[r rz]|] eqn:Er; [|discriminate].
        injection E as <- <-.
        cbn [fields_ok] in Hok. destruct drest as [|gt drest]; [discriminate|].
        destruct (field_ok FString gt) eqn:Hfo; [|discriminate].
        cbn [flat_map split_field app] in Hv.
        assert (Hfld : field vw i = Some (VBytes bs)).
        { rewrite Hv. apply field_at. exact Hi. }
        cbn [wf_fspecs] in Hspec. apply andb_true_iff in Hspec as [_ Hspec].
        cbn [field_items items_bytes item_bytes run_ws].
        rewrite (len_prefix_ok g vw (ILen i) (len bs)) by (cbn [eval_i]; rewrite Hfld; reflexivity).
        cbn [run_w]. rewrite Hfld.
        rewrite (IH vs (pre ++ [VBytes bs]) (dpre ++ [gt]) drest d' None 0 0%nat r rz (i + 1)).
        * rewrite app_nil_r, <- !app_assoc. reflexivity.
        * rewrite Hv, <- app_assoc. reflexivity.
        * rewrite Hd, <- app_assoc. reflexivity.
        * rewrite !app_length, Hl. reflexivity.
        * rewrite app_length. cbn [length]. lia.
        * exact Hok.
        * exact Hspec.
        * exact Hwf.
        * reflexivity.
        * exact Er.
      + (* FBitArr *)
        cbn [wf_fields] in Hwf. destruct vs as [|v vs]; [contradiction|]. destruct Hwf as [Hf Hwf].
        destruct v as [| |nb bs| | | |]; try contradiction.
        cbn [enc_fields] in E. destruct (enc_fields fs vs 0) as [[r rz]|] eqn:Er; [|discriminate].
        injection E as <- <-.
        cbn [fields_ok] in Hok.
        destruct drest as [|[sh1 el1] drest]; [discriminate|]. destruct sh1; try discriminate.
        destruct el1 as [|p|s p| |]; try discriminate.
        destruct s as [|s]; try discriminate. destruct s as [s|s|]; try discriminate.
        destruct s as [s|s|]; try discriminate.
        destruct drest as [|[sh2 el2] drest]; [discriminate|]. destruct sh2; try discriminate.
        destruct el2; try discriminate.
        cbn [flat_map split_field app] in Hv.
        assert (Hfld : field vw i = Some (VNum nb)).
        { rewrite Hv. apply field_at. exact Hi. }
        assert (Hfld2 : field vw (i + 1) = Some (VBytes bs)).
        { rewrite Hv. change (pre ++ VNum nb :: VBytes bs :: flat_map split_field vs ++ ss)
            with (pre ++ [VNum nb] ++ VBytes bs :: flat_map split_field vs ++ ss).
          rewrite app_assoc. apply field_at. rewrite app_length. cbn [length]. lia. }
        cbn [wf_fspecs] in Hspec. apply andb_true_iff in Hspec as [_ Hspec].
        cbn [field_items items_bytes item_bytes run_ws].
        rewrite (len_prefix_ok g vw (IField i) nb) by (cbn [eval_i]; rewrite Hfld; reflexivity).
        cbn [run_w]. rewrite Hfld2.
        rewrite (IH vs (pre ++ [VNum nb; VBytes bs]) (dpre ++ [(SPlain, EInt 2 p); (SSlice, EU8)]) drest d' None 0 0%nat r rz (i + 2)).
        * rewrite app_nil_r, <- !app_assoc. reflexivity.
        * rewrite Hv, <- app_assoc. reflexivity.
        * rewrite Hd, <- app_assoc. reflexivity.
        * rewrite !app_length, Hl. reflexivity.
        * rewrite app_length. cbn [length]. lia.
        * exact Hok.
        * exact Hspec.
        * exact Hwf.
        * reflexivity.
        * exact Er.
      + (* FRest *)
        cbn [wf_fields] in Hwf. destruct vs as [|v vs]; [contradiction|]. destruct Hwf as [Hf Hwf].
        destruct v as [|bs| | | | |]; try contradiction.
        cbn [enc_fields] in E. destruct (enc_fields fs vs 0) as [[r rz]|] eqn:Er; [|discriminate].
        injection E as <- <-.
        cbn [fields_ok] in Hok. destruct drest as [|gt drest]; [discriminate|].
        destruct (field_ok FRest gt) eqn:Hfo; [|discriminate].
        cbn [flat_map split_field app] in Hv.
        assert (Hfld : field vw i = Some (VBytes bs)).
        { rewrite Hv. apply field_at. exact Hi. }
        cbn [wf_fspecs] in Hspec. apply andb_true_iff in Hspec as [_ Hspec].
        destruct fs as [|f' fs']; [|discriminate Hspec].
        cbn [field_items items_bytes item_bytes run_ws run_w]. rewrite Hfld.
        cbn [enc_fields] in Er. destruct vs; [|discriminate]. injection Er as <- <-.
        rewrite app_nil_r. reflexivity.
  Qed.
End Fields.

(* ---------- the size expression of getHeader ---------- *)
Lemma bits_term n :
  Z.to_N ((Z.shiftr (Z.of_N n - Z.of_N 1) (Z.of_N 3) + Z.of_N 1) mod 65536) = u16 (bitarr_nbytes n).
Proof.
  unfold bitarr_nbytes, u16. destruct (N.eqb_spec n 0) as [->|Hn]; [reflexivity|].
  change (Z.of_N 3) with 3%Z. change (Z.of_N 1) with 1%Z.
  rewrite Z.shiftr_div_pow2 by lia. change (2 ^ 3)%Z with 8%Z.
  assert (H : ((Z.of_N n - 1) / 8 + 1 = Z.of_N ((n - 1) / 8 + 1))%Z).
  { rewrite N2Z.inj_add, N2Z.inj_div, N2Z.inj_sub by lia. reflexivity. }
  rewrite H. change 65536%Z with (Z.of_N 65536). rewrite <- N2Z.inj_mod, N2Z.id. reflexivity.
Qed.

Lemma some_pair_inv {A B} (a a' : A) (b b' : B) : Some (a, b) = Some (a', b') -> a = a' /\ b = b'.
Proof. intros H. injection H. auto. Qed.

Ltac fin_fixed Hs :=
  match goal with
  | |- fold_left _ _ (u16 (?a0 + fixed_size (?f :: ?fs))) = u16 (?a0 + ?S) =>
    unfold fixed_size; fold fixed_size;
    match goal with
    | |- fold_left _ _ (u16 (a0 + (?k + fixed_size fs))) = _ =>
      replace (a0 + (k + fixed_size fs)) with (a0 + k + fixed_size fs) by lia;
      rewrite Hs; f_equal; lia
    end
  end.

Lemma size_ok vw ss : forall fs vs acc b sz pre i,
  vw = pre ++ flat_map split_field vs ++ ss -> i = N.of_nat (length pre) ->
  wf_fields fs vs -> enc_fields fs vs acc = Some (b, sz) ->
  exists ts, map_opt (eval_term vw) (size_terms fs i) = Some ts /\
    forall a0, fold_left (fun a x => u16 (a + x)) ts (u16 (a0 + fixed_size fs)) = u16 (a0 + sz).
Proof.
  induction fs as [|f fs IH]; intros vs acc b sz pre i Hv Hi Hwf E.
  - cbn [enc_fields] in E. destruct vs; [|discriminate]. apply some_pair_inv in E as [<- <-].
    exists []. split; [reflexivity|]. intros a0. reflexivity.
  - destruct f as [size|bits bit partial|n|n|e| | |]; cbn [wf_fields] in Hwf.
    + destruct vs as [|v vs]; [contradiction|]. destruct Hwf as [Hf Hwf].
      destruct v as [x| | | | | |]; try contradiction.
      cbn [enc_fields] in E. destruct (enc_fields fs vs 0) as [[r rz]|] eqn:Er; [|discriminate].
      apply some_pair_inv in E as [<- <-]. cbn [flat_map split_field app] in Hv.
      destruct (IH vs 0 r rz (pre ++ [VNum x]) (i + 1)) as (ts & Ht & Hs); try assumption.
      { rewrite Hv, <- app_assoc. reflexivity. } { rewrite app_length. cbn [length]. lia. }
      exists ts. split; [exact Ht|]. intros a0. fin_fixed Hs.
    + destruct vs as [|v vs]; [contradiction|]. destruct Hwf as [Hf Hwf].
      destruct v as [x| | | | | |]; try contradiction.
      cbn [enc_fields] in E. cbn [flat_map split_field app] in Hv.
      destruct partial.
      * match type of E with enc_fields _ _ ?acc' = _ =>
          destruct (IH vs acc' b sz (pre ++ [VNum x]) (i + 1)) as (ts & Ht & Hs); try assumption end.
        { rewrite Hv, <- app_assoc. reflexivity. } { rewrite app_length. cbn [length]. lia. }
        exists ts. split; [exact Ht|]. intros a0. fin_fixed Hs.
      * destruct (enc_fields fs vs 0) as [[r rz]|] eqn:Er; [|discriminate]. apply some_pair_inv in E as [<- <-].
        destruct (IH vs 0 r rz (pre ++ [VNum x]) (i + 1)) as (ts & Ht & Hs); try assumption.
        { rewrite Hv, <- app_assoc. reflexivity. } { rewrite app_length. cbn [length]. lia. }
        exists ts. split; [exact Ht|]. intros a0. fin_fixed Hs.
    + cbn [enc_fields] in E. destruct (enc_fields fs vs 0) as [[r rz]|] eqn:Er; [|discriminate].
      apply some_pair_inv in E as [<- <-].
      destruct (IH vs 0 r rz pre i) as (ts & Ht & Hs); try assumption.
      exists ts. split; [exact Ht|]. intros a0. fin_fixed Hs.
    + destruct vs as [|v vs]; [contradiction|]. destruct Hwf as [Hf Hwf].
      destruct v as [|bs| | | | |]; try contradiction.
      cbn [enc_fields] in E. destruct (enc_fields fs vs 0) as [[r rz]|] eqn:Er; [|discriminate].
      apply some_pair_inv in E as [<- <-]. cbn [flat_map split_field app] in Hv.
      destruct (IH vs 0 r rz (pre ++ [VBytes bs]) (i + 1)) as (ts & Ht & Hs); try assumption.
      { rewrite Hv, <- app_assoc. reflexivity. } { rewrite app_length. cbn [length]. lia. }
      exists ts. split; [exact Ht|]. intros a0. fin_fixed Hs.
    + destruct vs as [|v vs]; [contradiction|]. destruct Hwf as [Hf Hwf].
      destruct v as [| | |ns| | |]; try contradiction.
      cbn [enc_fields] in E. destruct (enc_fields fs vs 0) as [[r rz]|] eqn:Er; [|discriminate].
      apply some_pair_inv in E as [<- <-]. cbn [flat_map split_field app] in Hv.
      destruct (IH vs 0 r rz (pre ++ [VNums ns]) (i + 1)) as (ts & Ht & Hs); try assumption.
      { rewrite Hv, <- app_assoc. reflexivity. } { rewrite app_length. cbn [length]. lia. }
      exists (u16 (llen ns * N.of_nat e) :: ts). split.
      * cbn [size_terms map_opt eval_term]. rewrite Hv, (field_at pre (VNums ns) _ i Hi), <- Hv, Ht. reflexivity.
      * intros a0. cbn [fixed_size fold_left]. rewrite u16_add.
        replace (a0 + (2 + fixed_size fs) + llen ns * N.of_nat e) with (a0 + 2 + len ns * N.of_nat e + fixed_size fs)
          by (unfold llen, len; lia).
        rewrite Hs. f_equal. lia.
    + destruct vs as [|v vs]; [contradiction|]. destruct Hwf as [Hf Hwf].
      destruct v as [|bs| | | | |]; try contradiction.
      cbn [enc_fields] in E. destruct (enc_fields fs vs 0) as [[r rz]|] eqn:Er; [|discriminate].
      apply some_pair_inv in E as [<- <-]. cbn [flat_map split_field app] in Hv.
      destruct (IH vs 0 r rz (pre ++ [VBytes bs]) (i + 1)) as (ts & Ht & Hs); try assumption.
      { rewrite Hv, <- app_assoc. reflexivity. } { rewrite app_length. cbn [length]. lia. }
      exists (u16 (llen bs * 1) :: ts). split.
      * cbn [size_terms map_opt eval_term]. rewrite Hv, (field_at pre (VBytes bs) _ i Hi), <- Hv, Ht. reflexivity.
      * intros a0. cbn [fixed_size fold_left]. rewrite u16_add.
        replace (a0 + (2 + fixed_size fs) + llen bs * 1) with (a0 + 2 + len bs + fixed_size fs)
          by (unfold llen, len; lia).
        rewrite Hs. f_equal. lia.
    + destruct vs as [|v vs]; [contradiction|]. destruct Hwf as [Hf Hwf].
      destruct v as [| |nb bs| | | |]; try contradiction.
      cbn [enc_fields] in E. destruct (enc_fields fs vs 0) as [[r rz]|] eqn:Er; [|discriminate].
      apply some_pair_inv in E as [<- <-]. cbn [flat_map split_field app] in Hv.
      destruct (IH vs 0 r rz (pre ++ [VNum nb; VBytes bs]) (i + 2)) as (ts & Ht & Hs); try assumption.
      { rewrite Hv, <- app_assoc. reflexivity. } { rewrite app_length. cbn [length]. lia. }
      exists (u16 (bitarr_nbytes nb) :: ts). split.
      * cbn [size_terms map_opt eval_term]. rewrite Hv, (field_at pre (VNum nb) _ i Hi), <- Hv, Ht.
        rewrite bits_term. reflexivity.
      * intros a0. cbn [fixed_size fold_left]. rewrite u16_add.
        replace (a0 + (2 + fixed_size fs) + bitarr_nbytes nb) with (a0 + 2 + bitarr_nbytes nb + fixed_size fs) by lia.
        rewrite Hs. f_equal. lia.
    + destruct vs as [|v vs]; [contradiction|]. destruct Hwf as [Hf Hwf].
      destruct v as [|bs| | | | |]; try contradiction.
      cbn [enc_fields] in E. destruct (enc_fields fs vs 0) as [[r rz]|] eqn:Er; [|discriminate].
      apply some_pair_inv in E as [<- <-]. cbn [flat_map split_field app] in Hv.
      destruct (IH vs 0 r rz (pre ++ [VBytes bs]) (i + 1)) as (ts & Ht & Hs); try assumption.
      { rewrite Hv, <- app_assoc. reflexivity. } { rewrite app_length. cbn [length]. lia. }
      exists (u16 (llen bs * 1) :: ts). split.
      * cbn [size_terms map_opt eval_term]. rewrite Hv, (field_at pre (VBytes bs) _ i Hi), <- Hv, Ht. reflexivity.
      * intros a0. cbn [fixed_size fold_left]. rewrite u16_add.
        replace (a0 + (0 + fixed_size fs) + llen bs * 1) with (a0 + len bs + fixed_size fs)
          by (unfold llen, len; lia).
        rewrite Hs. f_equal. lia.
Qed.
