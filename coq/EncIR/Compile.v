(* What the generator (pkg/llrp/generate_param_code.py: write_encode_body, value_bytes,
   write_get_header_body, Message.write_marshal_body, Container.write_marshal_body) emits for a
   container of the layout table, written from the SCHEMA (Codec/Schema.v), as encoder IR.
   [progs_match] is the decidable check "the IR translated from the Go source of this run is,
   container by container, exactly what the schema compiles to"; it is evaluated by vm_compute in
   the per-run obligation build/gen/C02/Ob_encoder.v.  No proofs in this file. *)
From Coq Require Import NArith List Bool.
From LLRP Require Import Codec.Schema Codec.Encode EncIR.IR.
Import ListNotations.
Open Scope N_scope.

(* ---- the Go struct of a container: one slot per field (none for padding, two for a bit array:
   XNumBits uint16, X []byte), then one slot per sub-parameter ---- *)
Definition slots (f : fkind) : N :=
  match f with FPad _ => 0 | FBitArr => 2 | _ => 1 end.

Fixpoint nslots (fs : list fkind) : N :=
  match fs with [] => 0 | f :: r => slots f + nslots r end.

Definition ptid_of (e : gelem) : option N :=
  match e with EParam t => Some t | EInt _ p => p | EBool p => p | _ => None end.

Definition field_ok (f : fkind) (g : gtype) : bool :=
  match f, g with
  | FNum s, (SPlain, EU8) => Nat.eqb s 1
  | FNum s, (SPlain, EInt s' _) => N.of_nat s =? s'
  | FBits b _ _, (SPlain, EU8) => true
  | FBits b _ _, (SPlain, EBool None) => Nat.eqb b 1
  | FBits b _ _, (SPlain, EInt 1 _) => true
  | FFixed _, (SSlice, EU8) => true
  | FCounted e, (SSlice, EU8) => Nat.eqb e 1
  | FCounted e, (SSlice, EInt s _) => N.of_nat e =? s
  | FString, (SPlain, EString) => true
  | FRest, (SSlice, EU8) => true
  | _, _ => false
  end.

(* the declaration's prefix matches the fields; returns the rest of the declaration *)
Fixpoint fields_ok (fs : list fkind) (d : list gtype) : option (list gtype) :=
  match fs with
  | [] => Some d
  | FPad _ :: r => fields_ok r d
  | FBitArr :: r =>
      match d with
      | (SPlain, EInt 2 _) :: (SSlice, EU8) :: d' => fields_ok r d'
      | _ => None
      end
  | f :: r =>
      match d with
      | g :: d' => if field_ok f g then fields_ok r d' else None
      | [] => None
      end
  end.

Definition sub_ok (s : sub) (g : gtype) : bool :=
  (match s_arity s, fst g with
   | One, SPlain | Opt, SPtr | Many, SSlice => true
   | _, _ => false
   end) && optN_eqb (ptid_of (snd g)) (Some (s_tid s)).

Fixpoint subs_ok (subs : list sub) (d : list gtype) : bool :=
  match subs, d with
  | [], [] => true
  | s :: r, g :: d' => sub_ok s g && subs_ok r d'
  | _, _ => false
  end.

(* generator: can_inline = one fixed-size, non-array field and no sub-parameters; never for a message *)
Definition inline_of (c : container) : bool :=
  negb (is_msg_kind (c_kind c)) &&
  match c_fields c, c_subs c with
  | [FNum _], [] | [FBits _ _ _], [] => true
  | _, _ => false
  end.

Definition struct_ok (c : container) (d : list gtype) (inl : bool) : bool :=
  Bool.eqb inl (inline_of c) &&
  match fields_ok (c_fields c) d with
  | Some d' => subs_ok (c_subs c) d'
  | None => false
  end.

(* ---- EncodeFields ---- *)
Inductive item :=
| IB (e : bexpr)             (* one byte of the current `[]byte{...}` literal *)
| IW (ws : list wstmt).      (* the writes of a variable-size field (they close the literal) *)

(* byte(x >> 8(k-1)), ..., byte(x >> 8), byte(x) *)
Fixpoint be_exprs (f : N) (size : nat) : list bexpr :=
  match size with
  | O => []
  | S k => BConv (match k with O => IField f | _ => IShr (IField f) (8 * N.of_nat k) end) :: be_exprs f k
  end.

(* value_bytes of a one-byte scalar: name / b2b(name) / byte(name), by the Go type *)
Definition byte1 (g : gtype) (f : N) : bexpr :=
  match snd g with
  | EU8 => BRaw f
  | EBool _ => BB2B f
  | _ => BConv (IField f)
  end.

Definition num_exprs (g : gtype) (f : N) (size : nat) : list bexpr :=
  match snd g with
  | EU8 => [BRaw f]
  | EBool _ => [BB2B f]
  | _ => be_exprs f size
  end.

Fixpoint idx_exprs (f : N) (i : N) (n : nat) : list bexpr :=
  match n with O => [] | S k => BIdx f i :: idx_exprs f (i + 1) k end.

Definition len_prefix (e : iexpr) : wstmt := WBytes [BConv (IShr e 8); BConv (IAnd e 255)].

Definition gnth (d : list gtype) (i : N) : gtype := nth (N.to_nat i) d (SPlain, EInt 0 None).

(* [i]: Go struct position of the next field; [pend]: the byte under construction by a run of
   sub-byte fields (`a<<s | b<<s' | ...`) *)
Fixpoint field_items (d : list gtype) (fs : list fkind) (i : N) (pend : option bexpr) : list item :=
  match fs with
  | [] => []
  | f :: r =>
    match f with
    | FNum size => map IB (num_exprs (gnth d i) i size) ++ field_items d r (i + 1) None
    | FBits bits bit partial =>
        let put := BShl (byte1 (gnth d i) i) (N.of_nat (8 - bits - bit)) in
        let e := match pend with None => put | Some a => BOr a put end in
        if partial then field_items d r (i + 1) (Some e)
        else IB e :: field_items d r (i + 1) None
    | FPad n => map IB (repeat (BLit 0) n) ++ field_items d r i None
    | FFixed n => map IB (idx_exprs i 0 n) ++ field_items d r (i + 1) None
    | FCounted e =>
        IW [len_prefix (ILen i);
            match snd (gnth d i) with EU8 => WSlice i | _ => WBE i (N.of_nat e) end]
        :: field_items d r (i + 1) None
    | FString => IW [len_prefix (ILen i); WString i] :: field_items d r (i + 1) None
    | FBitArr => IW [len_prefix (IField i); WSlice (i + 1)] :: field_items d r (i + 2) None
    | FRest => IW [WSlice i] :: field_items d r (i + 1) None
    end
  end.

Definition flush (cur : list bexpr) : list wstmt :=
  match cur with [] => [] | _ => [WBytes cur] end.

(* consecutive fixed bytes form one `w.Write([]byte{...})` *)
Fixpoint group_items (its : list item) (cur : list bexpr) : list wstmt :=
  match its with
  | [] => flush cur
  | IB e :: r => group_items r (cur ++ [e])
  | IW ws :: r => flush cur ++ ws ++ group_items r []
  end.

Definition compile_fields (d : list gtype) (fs : list fkind) : list wstmt :=
  group_items (field_items d fs 0 None) [].

(* ---- getHeader: size ---- *)
Fixpoint fixed_size (fs : list fkind) : N :=
  match fs with
  | [] => 0
  | f :: r =>
    (match f with
     | FNum s => N.of_nat s
     | FBits _ _ partial => if partial then 0 else 1
     | FPad n => N.of_nat n
     | FFixed n => N.of_nat n
     | FCounted _ | FString | FBitArr => 2
     | FRest => 0
     end) + fixed_size r
  end.

Fixpoint size_terms (fs : list fkind) (i : N) : list szterm :=
  match fs with
  | [] => []
  | f :: r =>
    match f with
    | FCounted e => SzLen i (N.of_nat e) :: size_terms r (i + 1)
    | FString | FRest => SzLen i 1 :: size_terms r (i + 1)
    | FBitArr => SzBits i 1 3 1 :: size_terms r (i + 2)
    | FPad _ => size_terms r i
    | _ => size_terms r (i + 1)
    end
  end.

(* ---- getHeader: sub-parameters ---- *)
(* the case condition the generator writes for an exclusive alternative of type [tid]:
   `p.X != 0` for an inline type, otherwise `p.X.F != nil` for every field F *)
Fixpoint alt_atoms (fs : list fkind) (i : N) : list catom :=
  match fs with
  | [] => []
  | FPad _ :: r => alt_atoms r i
  | FBitArr :: r => CNeNil (i + 1) :: alt_atoms r (i + 2)
  | _ :: r => CNeNil i :: alt_atoms r (i + 1)
  end.

Definition alt_cond (t : table) (tid : N) : list catom :=
  match find_container t false tid with
  | Some c' => if inline_of c' then [CNeZero 0] else alt_atoms (c_fields c') 0
  | None => []
  end.

Definition same_group (s s' : sub) : bool :=
  match s_arity s' with One => s_group s' =? s_group s | _ => false end.

Fixpoint compile_subs (t : table) (i : N) (subs : list sub) : list substmt :=
  match subs with
  | [] => []
  | s :: r =>
    let tail := compile_subs t (i + 1) r in
    match s_arity s with
    | Opt => SOpt i (s_tid s) :: tail
    | Many => SMany i (s_tid s) :: tail
    | One =>
      if s_group s =? 0 then SOne i (s_tid s) :: tail
      else
        let case := (alt_cond t (s_tid s), i, s_tid s) in
        match r, tail with
        | s' :: _, SSwitch cs :: tl =>
            if same_group s s' then SSwitch (case :: cs) :: tl else SSwitch [case] :: tail
        | _, _ => SSwitch [case] :: tail
        end
    end
  end.

(* messages: MarshalBinary encodes every sub-parameter field in order, no switch *)
Fixpoint compile_msg_subs (i : N) (subs : list sub) : list substmt :=
  match subs with
  | [] => []
  | s :: r =>
    (match s_arity s with
     | One => SOne i (s_tid s)
     | Opt => SOpt i (s_tid s)
     | Many => SMany i (s_tid s)
     end) :: compile_msg_subs (i + 1) r
  end.

Fixpoint sub_positions (p : sub -> bool) (i : N) (subs : list sub) : list N :=
  match subs with
  | [] => []
  | s :: r => (if p s then [i] else []) ++ sub_positions p (i + 1) r
  end.

Definition is_single (s : sub) : bool := match s_arity s with One => s_group s =? 0 | _ => false end.
Definition is_opt (s : sub) : bool := match s_arity s with Opt => true | _ => false end.
Definition is_many (s : sub) : bool := match s_arity s with Many => true | _ => false end.

Definition compile_nparams (i : N) (subs : list sub) : option nparams :=
  if existsb (fun s => is_opt s || is_many s) subs then
    let k := N.of_nat (length (filter is_single subs)) in
    let lens := sub_positions is_many i subs in
    Some {| np_const := if 0 <? k then Some k else match lens with [] => Some 0 | _ => None end;
            np_lens := lens;
            np_opts := sub_positions is_opt i subs |}
  else None.

Definition compile (t : table) (d : list gtype) (c : container) : enc_prog :=
  let n := nslots (c_fields c) in
  {| p_struct := d;
     p_inline := inline_of c;
     p_fields := compile_fields d (c_fields c);
     p_body :=
       match c_kind c with
       | KMsg => PMsg (compile_msg_subs n (c_subs c))
       | k =>
         PParam {| h_ptype := c_tid c;
                   h_base := header_size k + fixed_size (c_fields c);
                   h_terms := size_terms (c_fields c) 0;
                   h_nparams := compile_nparams n (c_subs c);
                   h_subs := compile_subs t n (c_subs c) |}
                (header_size k)
       end |}.

(* encodeParams / IsTV / b2b as they must be *)
Definition expected_glob : glob :=
  {| g_istv_ne := 0; g_istv_le := 127; g_b2b_true := 1; g_b2b_false := 0;
     g_tv_hdr := [BConv (IOr (IField 0) 128)];
     g_tlv_hdr := [BConv (IShr (IField 0) 8); BConv (IAnd (IField 0) 255);
                   BConv (IShr (IField 1) 8); BConv (IAnd (IField 1) 255)] |}.

Definition container_matches (t : table) (ps : list (container_id * enc_prog)) (c : container) : bool :=
  match lookup ps (is_msg_kind (c_kind c)) (c_tid c) with
  | Some p => struct_ok c (p_struct p) (p_inline p) && prog_eqb (compile t (p_struct p) c) p
  | None => false
  end.

Definition progs_match (t : table) (ps : programs) : bool :=
  glob_eqb expected_glob (ps_glob ps) &&
  (N.of_nat (length (ps_progs ps)) =? N.of_nat (length t)) &&
  forallb (container_matches t (ps_progs ps)) t.

(* ---- diagnostics for the check (which containers differ, and what was expected) ---- *)
Definition mismatches (t : table) (ps : programs) : list container_id :=
  map (fun c => (is_msg_kind (c_kind c), c_tid c))
      (filter (fun c => negb (container_matches t (ps_progs ps) c)) t).

(* programs of the translated code that belong to no container of the table *)
Definition strays (t : table) (ps : programs) : list container_id :=
  map fst (filter (fun kp => match find_container t (fst (fst kp)) (snd (fst kp)) with
                             | Some _ => false | None => true end) (ps_progs ps)).

Definition expected_prog (t : table) (ps : programs) (msg : bool) (tid : N) : option enc_prog :=
  match find_container t msg tid with
  | Some c => Some (compile t (match lookup (ps_progs ps) msg tid with
                               | Some p => p_struct p | None => [] end) c)
  | None => None
  end.

Definition struct_verdict (t : table) (ps : programs) (msg : bool) (tid : N) : option bool :=
  match find_container t msg tid, lookup (ps_progs ps) msg tid with
  | Some c, Some p => Some (struct_ok c (p_struct p) (p_inline p))
  | _, _ => None
  end.

(* ---- a Go struct declaration that fits a container (used for closed examples: the real
   declarations come from generated_structs.go through the translator) ---- *)
Fixpoint canon_fields (fs : list fkind) : list gtype :=
  match fs with
  | [] => []
  | f :: r =>
    (match f with
     | FNum s => [(SPlain, EInt (N.of_nat s) None)]
     | FBits _ _ _ => [(SPlain, EInt 1 None)]
     | FPad _ => []
     | FFixed _ | FRest => [(SSlice, EU8)]
     | FCounted e => [(SSlice, EInt (N.of_nat e) None)]
     | FString => [(SPlain, EString)]
     | FBitArr => [(SPlain, EInt 2 None); (SSlice, EU8)]
     end) ++ canon_fields r
  end.

Definition canon_struct (c : container) : list gtype :=
  canon_fields (c_fields c) ++
  map (fun s => (match s_arity s with One => SPlain | Opt => SPtr | Many => SSlice end, EParam (s_tid s))) (c_subs c).

Definition canon_programs (t : table) : programs :=
  {| ps_glob := expected_glob;
     ps_progs := map (fun c => ((is_msg_kind (c_kind c), c_tid c), compile t (canon_struct c) c)) t |}.
