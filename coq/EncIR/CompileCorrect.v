(* The semantics (EncIR/Sem.v) of the IR the schema compiles to (EncIR/Compile.v) IS the encoder
   model Codec/Encode.v, on every well-formed value; hence so is the semantics of any translated
   program set accepted by [progs_match]. *)
From Coq Require Import NArith ZArith List Bool Arith Lia ZifyN ZifyNat.
From LLRP Require Import Codec.Schema Codec.Encode Codec.Decode Codec.Wf Codec.BytesLemmas Codec.RoundTrip
     Codec.SchemaTable EncIR.IR EncIR.Sem EncIR.Compile EncIR.EqbSound EncIR.FieldsCorrect.
Import ListNotations.
Open Scope N_scope.

(* ---------- what the proof needs of the table beyond wf_schema ---------- *)
Definition grouped (s : sub) : bool :=
  match s_arity s with One => negb (s_group s =? 0) | _ => false end.

Definition in_group (g : N) (s : sub) : bool :=
  match s_arity s with One => s_group s =? g | _ => false end.

Definition closed (g : N) (subs : list sub) : bool := forallb (fun s => negb (in_group g s)) subs.

(* the alternatives of an exclusive group are consecutive and the group does not come back *)
Fixpoint groups_ok (subs : list sub) : bool :=
  match subs with
  | [] => true
  | s :: r =>
    (if grouped s then
       match r with
       | s' :: _ => in_group (s_group s) s' || closed (s_group s) r
       | [] => true
       end
     else true) && groups_ok r
  end.

Definition slice_kind (f : fkind) : bool :=
  match f with FFixed _ | FCounted _ | FString | FBitArr | FRest | FPad _ => true | _ => false end.

(* an exclusive alternative is an inline type or has only slice-typed fields (`!= nil` is what the generator writes) *)
Definition alt_ok (t : table) (s : sub) : bool :=
  if grouped s then
    match find_container t false (s_tid s) with
    | Some c' => inline_of c' || forallb slice_kind (c_fields c')
    | None => false
    end
  else true.

Definition container_extra_ok (t : table) (c : container) : bool :=
  groups_ok (c_subs c) && forallb (alt_ok t) (c_subs c) &&
  match c_kind c with
  | KTV => negb (c_tid c =? 0)                              (* IsTV: pt != 0 && pt <= 127 *)
  | KMsg => forallb (fun s => negb (grouped s)) (c_subs c)   (* MarshalBinary of a message has no switch *)
  | KTLV => true
  end.

Definition enc_schema_ok (t : table) : bool := wf_schema t && forallb (container_extra_ok t) t.

(* ---------- small facts ---------- *)
Lemma encode_param_unfold ps pt sz data subs :
  encode_param ps (HNode pt sz data subs) =
  match header_of ps pt sz, encode_params ps subs with
  | Some hb, Some sb => Some (hb ++ data ++ sb)
  | _, _ => None
  end.
Proof.
  cbn [encode_param]. destruct (header_of ps pt sz); [|reflexivity].
  match goal with |- match ?a with _ => _ end = match ?b with _ => _ end => assert (Hab : a = b) end.
  { induction subs as [|x subs IH]; [reflexivity|]. cbn [encode_params]. rewrite <- IH. reflexivity. }
  rewrite Hab. reflexivity.
Qed.

Lemma encode_params_app ps a : forall b xa xb,
  encode_params ps a = Some xa -> encode_params ps b = Some xb ->
  encode_params ps (a ++ b) = Some (xa ++ xb).
Proof.
  induction a as [|h a IH]; intros b xa xb Ha Hb; cbn [encode_params app] in *.
  - injection Ha as <-. exact Hb.
  - destruct (encode_param ps h); [|discriminate]. destruct (encode_params ps a) eqn:E; [|discriminate].
    injection Ha as <-. rewrite (IH _ _ _ eq_refl Hb), app_assoc. reflexivity.
Qed.

Lemma lor_128 tid : tid < 128 -> N.lor tid 128 = tid + 128.
Proof.
  intros H. pose proof (tv_header_byte tid H) as E. rewrite N.mod_small in E by lia. exact E.
Qed.

Lemma header_of_ok ps c sz :
  ps_glob ps = expected_glob -> kind_ok c -> is_msg_kind (c_kind c) = false ->
  (c_kind c = KTV -> c_tid c <> 0) ->
  header_of ps (c_tid c) sz = Some (header_bytes (c_kind c) (c_tid c) sz).
Proof.
  intros Hg Hk Hm Hnz. unfold header_of. rewrite Hg. cbn [expected_glob g_istv_ne g_istv_le g_tv_hdr g_tlv_hdr].
  unfold kind_ok in Hk. destruct (c_kind c) eqn:K; [discriminate Hm| |].
  - destruct Hk as [H1 H2].
    replace (c_tid c <=? 127) with false by (symmetry; apply N.leb_gt; lia). rewrite andb_false_r.
    cbn [map_opt eval_b eval_i field nth_error N.to_nat option_map header_bytes].
    change (Pos.to_nat 1) with 1%nat. cbn [nth_error option_map]. rewrite !land_255. reflexivity.
  - specialize (Hnz eq_refl).
    replace (c_tid c =? 0) with false by (symmetry; apply N.eqb_neq; exact Hnz).
    replace (c_tid c <=? 127) with true by (symmetry; apply N.leb_le; lia). cbn [negb andb].
    cbn [map_opt eval_b eval_i field nth_error N.to_nat option_map header_bytes].
    rewrite (lor_128 _ Hk), (tv_header_byte _ Hk). rewrite N.mod_small by lia. reflexivity.
Qed.

(* ---------- shapes of field values (well-formed values and zero leaves) ---------- *)
Definition shaped1 (f : fkind) (v : value) : Prop :=
  match f, v with
  | FNum _, VNum _ | FBits _ _ _, VNum _ | FFixed _, VBytes _ | FCounted _, VNums _
  | FString, VBytes _ | FBitArr, VBitArr _ _ | FRest, VBytes _ => True
  | _, _ => False
  end.

Fixpoint shaped (fs : list fkind) (vs : list value) : Prop :=
  match fs with
  | [] => vs = []
  | FPad _ :: r => shaped r vs
  | f :: r => match vs with [] => False | v :: vs' => shaped1 f v /\ shaped r vs' end
  end.

Lemma wf_fields_shaped fs : forall vs, wf_fields fs vs -> shaped fs vs.
Proof.
  induction fs as [|f fs IH]; intros vs H; cbn [wf_fields shaped] in *; [exact H|].
  destruct f; try (apply IH; exact H);
    (destruct vs as [|v vs]; [contradiction|]; destruct H as [H1 H2]; split; [|apply IH; exact H2];
     destruct v; try contradiction; exact I).
Qed.

Lemma fields_zero_shaped fs : shaped fs (fields_zero fs).
Proof.
  induction fs as [|f fs IH]; [reflexivity|].
  destruct f; cbn [fields_zero field_zero shaped]; try exact IH; (split; [exact I|exact IH]).
Qed.

Lemma nslots_len fs : forall vs, shaped fs vs -> nslots fs = N.of_nat (length (flat_map split_field vs)).
Proof.
  induction fs as [|f fs IH]; intros vs H; cbn [shaped nslots] in *.
  - subst vs. reflexivity.
  - destruct f; try (cbn [slots]; rewrite N.add_0_l; apply IH; exact H);
      (destruct vs as [|v vs]; [contradiction|]; destruct H as [H1 H2];
       destruct v; try contradiction; cbn [flat_map split_field slots]; rewrite app_length, (IH vs H2);
       cbn [length]; lia).
Qed.

(* the generator's case condition is the model's alt_nonzero *)
Fixpoint eval_atoms (vw : list value) (cs : list catom) : option bool :=
  match cs with
  | [] => Some true
  | a :: r =>
    match (match a with
           | CNeZero g => match field vw g with Some (VNum n) => Some (negb (n =? 0)) | _ => None end
           | CNeNil g => match field vw g with
                         | Some (VBytes bs) => Some (nonempty bs)
                         | Some (VNums ns) => Some (nonempty ns)
                         | _ => None end
           end), eval_atoms vw r with
    | Some p, Some q => Some (p && q)
    | _, _ => None
    end
  end.

Lemma eval_conds_atoms m tid fs ss cs :
  eval_conds (VStruct m tid fs ss) cs = eval_atoms (view fs ss) cs.
Proof.
  induction cs as [|a cs IH]; [reflexivity|]. cbn [eval_conds eval_atoms eval_atom]. rewrite IH.
  destruct a; reflexivity.
Qed.

Lemma atoms_ok ss : forall fs vs pre i vw,
  vw = pre ++ flat_map split_field vs ++ ss -> i = N.of_nat (length pre) ->
  shaped fs vs -> forallb slice_kind fs = true ->
  eval_atoms vw (alt_atoms fs i) = Some (forallb field_nonzero vs).
Proof.
  induction fs as [|f fs IH]; intros vs pre i vw Hv Hi Hs Hk; cbn [shaped] in Hs.
  - subst vs. reflexivity.
  - cbn [forallb] in Hk. apply andb_true_iff in Hk as [Hk1 Hk].
    destruct f; try discriminate Hk1.
    + (* FPad *) cbn [alt_atoms]. apply (IH vs pre i vw Hv Hi Hs Hk).
    + destruct vs as [|v vs]; [contradiction|]. destruct Hs as [H1 Hs].
      destruct v as [|bs| | | | |]; try contradiction. cbn [flat_map split_field app] in Hv.
      cbn [alt_atoms eval_atoms]. rewrite Hv, (field_at pre (VBytes bs) _ i Hi), <- Hv.
      rewrite (IH vs (pre ++ [VBytes bs]) (i + 1) vw); try assumption.
      * destruct bs; reflexivity.
      * rewrite Hv, <- app_assoc. reflexivity.
      * rewrite app_length. cbn [length]. lia.
    + destruct vs as [|v vs]; [contradiction|]. destruct Hs as [H1 Hs].
      destruct v as [| | |ns| | |]; try contradiction. cbn [flat_map split_field app] in Hv.
      cbn [alt_atoms eval_atoms]. rewrite Hv, (field_at pre (VNums ns) _ i Hi), <- Hv.
      rewrite (IH vs (pre ++ [VNums ns]) (i + 1) vw); try assumption.
      * destruct ns; reflexivity.
      * rewrite Hv, <- app_assoc. reflexivity.
      * rewrite app_length. cbn [length]. lia.
    + destruct vs as [|v vs]; [contradiction|]. destruct Hs as [H1 Hs].
      destruct v as [|bs| | | | |]; try contradiction. cbn [flat_map split_field app] in Hv.
      cbn [alt_atoms eval_atoms]. rewrite Hv, (field_at pre (VBytes bs) _ i Hi), <- Hv.
      rewrite (IH vs (pre ++ [VBytes bs]) (i + 1) vw); try assumption.
      * destruct bs; reflexivity.
      * rewrite Hv, <- app_assoc. reflexivity.
      * rewrite app_length. cbn [length]. lia.
    + destruct vs as [|v vs]; [contradiction|]. destruct Hs as [H1 Hs].
      destruct v as [| |nb bs| | | |]; try contradiction. cbn [flat_map split_field app] in Hv.
      cbn [alt_atoms eval_atoms].
      assert (Hf2 : field vw (i + 1) = Some (VBytes bs)).
      { rewrite Hv. change (pre ++ VNum nb :: VBytes bs :: flat_map split_field vs ++ ss)
          with (pre ++ [VNum nb] ++ VBytes bs :: flat_map split_field vs ++ ss).
        rewrite app_assoc. apply field_at. rewrite app_length. cbn [length]. lia. }
      rewrite Hf2.
      rewrite (IH vs (pre ++ [VNum nb; VBytes bs]) (i + 2) vw); try assumption.
      * destruct bs; reflexivity.
      * rewrite Hv, <- app_assoc. reflexivity.
      * rewrite app_length. cbn [length]. lia.
    + destruct vs as [|v vs]; [contradiction|]. destruct Hs as [H1 Hs].
      destruct v as [|bs| | | | |]; try contradiction. cbn [flat_map split_field app] in Hv.
      cbn [alt_atoms eval_atoms]. rewrite Hv, (field_at pre (VBytes bs) _ i Hi), <- Hv.
      rewrite (IH vs (pre ++ [VBytes bs]) (i + 1) vw); try assumption.
      * destruct bs; reflexivity.
      * rewrite Hv, <- app_assoc. reflexivity.
      * rewrite app_length. cbn [length]. lia.
Qed.

(* ---------- compile_subs: the head statement of an exclusive alternative ---------- *)
Lemma compile_head_switch t i s r :
  s_arity s = One -> (s_group s =? 0) = false ->
  exists cs tl, compile_subs t i (s :: r) = SSwitch ((alt_cond t (s_tid s), i, s_tid s) :: cs) :: tl /\
    ((exists s' r', r = s' :: r' /\ in_group (s_group s) s' = true /\
                    compile_subs t (i + 1) r = SSwitch cs :: tl) \/
     (match r with s' :: _ => in_group (s_group s) s' = false | [] => True end /\
      cs = [] /\ tl = compile_subs t (i + 1) r)).
Proof.
  intros Ar G. cbn [compile_subs]. rewrite Ar, G.
  destruct r as [|s' r'].
  - exists [], []. split; [reflexivity|]. right. repeat split.
  - change (same_group s s') with (in_group (s_group s) s').
    destruct (in_group (s_group s) s') eqn:Ig.
    + (* the next one continues the group: its own head is a switch *)
      assert (Hn : exists cs tl, compile_subs t (i + 1) (s' :: r') = SSwitch cs :: tl).
      { unfold in_group in Ig. destruct (s_arity s') eqn:Ar'; try discriminate.
        apply N.eqb_eq in Ig. cbn [compile_subs]. rewrite Ar'.
        assert (G' : (s_group s' =? 0) = false) by (rewrite Ig; exact G). rewrite G'.
        destruct r' as [|s'' r'']; [eauto|].
        destruct (compile_subs t (i + 1 + 1) (s'' :: r'')) as [|[| | |cs'] tl']; eauto.
        destruct (same_group s' s''); eauto. }
      destruct Hn as (cs & tl & Hn). rewrite Hn.
      exists cs, tl. split; [reflexivity|]. left. exists s', r'. split; [reflexivity|split; [exact Ig|reflexivity]].
    + exists [], (compile_subs t (i + 1) (s' :: r')). split.
      * destruct (compile_subs t (i + 1) (s' :: r')) as [|[| | |cs'] tl']; reflexivity.
      * right. repeat split.
Qed.

Lemma compile_subs_ungrouped t i subs :
  forallb (fun s => negb (grouped s)) subs = true -> compile_subs t i subs = compile_msg_subs i subs.
Proof.
  revert i. induction subs as [|s r IH]; intros i H; [reflexivity|].
  cbn [forallb] in H. apply andb_true_iff in H as [H1 H2].
  cbn [compile_subs compile_msg_subs]. rewrite (IH (i + 1) H2).
  unfold grouped in H1. destruct (s_arity s); try reflexivity.
  apply negb_true_iff, negb_false_iff in H1. rewrite H1. reflexivity.
Qed.

(* ---------- invariants about the group already served ---------- *)
Definition inv (chosen : N) (subs : list sub) : Prop :=
  chosen = 0 \/ (exists s r, subs = s :: r /\ in_group chosen s = true) \/ closed chosen subs = true.

Definition drop_sw (chosen : N) (subs : list sub) (stmts : list substmt) : list substmt :=
  match subs with
  | s :: _ => if negb (chosen =? 0) && in_group chosen s then tl stmts else stmts
  | [] => stmts
  end.

Lemma drop_sw_id chosen subs X : chosen = 0 \/ closed chosen subs = true -> drop_sw chosen subs X = X.
Proof.
  intros [->|H]; destruct subs as [|s r]; try reflexivity.
  cbn [drop_sw]. cbn [closed forallb] in H. apply andb_true_iff in H as [H _].
  apply negb_true_iff in H. rewrite H, andb_false_r. reflexivity.
Qed.

Lemma inv_tail chosen s r : inv chosen (s :: r) -> in_group chosen s = false ->
  chosen = 0 \/ closed chosen r = true.
Proof.
  intros [H|[(s0 & r0 & E & H)|H]] Hn; [now left| |].
  - injection E as <- <-. congruence.
  - right. cbn [closed forallb] in H. apply andb_true_iff in H as [_ H]. exact H.
Qed.

Lemma after_group s r : groups_ok (s :: r) = true -> s_arity s = One -> (s_group s =? 0) = false ->
  inv (s_group s) r /\ groups_ok r = true.
Proof.
  intros H Ar G. cbn [groups_ok] in H. apply andb_true_iff in H as [H Hr]. split; [|exact Hr].
  unfold grouped in H. rewrite Ar, G in H. cbn [negb] in H.
  destruct r as [|s' r'].
  - right. right. reflexivity.
  - apply orb_true_iff in H as [H|H].
    + right. left. exists s', r'. split; [reflexivity|exact H].
    + right. right. exact H.
Qed.

Lemma drop_sw_group t i s r cs tl :
  (s_group s =? 0) = false ->
  ((exists s' r', r = s' :: r' /\ in_group (s_group s) s' = true /\
                  compile_subs t (i + 1) r = SSwitch cs :: tl) \/
   (match r with s' :: _ => in_group (s_group s) s' = false | [] => True end /\
    cs = [] /\ tl = compile_subs t (i + 1) r)) ->
  drop_sw (s_group s) r (compile_subs t (i + 1) r) = tl.
Proof.
  intros G [(s' & r' & -> & Ig & E)|(Hh & _ & ->)].
  - cbn [drop_sw]. rewrite G, Ig, E. reflexivity.
  - destruct r as [|s' r']; [reflexivity|]. cbn [drop_sw]. rewrite Hh, andb_false_r. reflexivity.
Qed.

Section Main.
  Variable t : table.
  Variable ps : programs.
  Hypothesis Hwf : wf_schema t = true.
  Hypothesis Hglob : ps_glob ps = expected_glob.
  Hypothesis Hprogs : forall c, In c t ->
    exists p, lookup (ps_progs ps) (is_msg_kind (c_kind c)) (c_tid c) = Some p /\
              struct_ok c (p_struct p) (p_inline p) = true /\ p = compile t (p_struct p) c.
  Hypothesis Hextra : forall c, In c t -> container_extra_ok t c = true.

  Definition hs_ok (hs : list htree) (b : bytes) (sz : N) : Prop :=
    encode_params ps hs = Some b /\
    forall a0, fold_left (fun a x => u16 (a + hsz x)) hs (u16 a0) = u16 (a0 + sz).

  Lemma hs_ok_nil : hs_ok [] [] 0.
  Proof. split; [reflexivity|]. intros a0. cbn [fold_left]. rewrite N.add_0_r. reflexivity. Qed.

  Lemma hs_ok_one h b sz : encode_param ps h = Some b -> hsz h = sz -> hs_ok [h] b sz.
  Proof.
    intros He Hs. split.
    - cbn [encode_params]. rewrite He, app_nil_r. reflexivity.
    - intros a0. cbn [fold_left]. rewrite Hs. apply u16_add_r.
  Qed.

  Lemma hs_ok_app a ba sa b bb sb : hs_ok a ba sa -> hs_ok b bb sb -> hs_ok (a ++ b) (ba ++ bb) (sa + sb).
  Proof.
    intros [Ha Hsa] [Hb Hsb]. split.
    - apply encode_params_app; assumption.
    - intros a0. rewrite fold_left_app, Hsa, Hsb, N.add_assoc. reflexivity.
  Qed.

  Definition good_at (v : value) : Prop :=
    forall tid fs ss, v = VStruct false tid fs ss -> wfv t v ->
    forall b sz, enc t v = Some (b, sz) ->
    forall fuel, (depth v <= fuel)%nat ->
    exists h, get_header ps fuel v = ROk h /\ encode_param ps h = Some b /\ hsz h = sz.

  Definition good (v : value) : Prop :=
    match v with
    | VStruct _ _ _ _ => good_at v
    | VOpt (Some x) => good_at x
    | VList l => Forall good_at l
    | _ => True
    end.

  Lemma good_at_use v k b sz :
    good_at v -> is_param (match v with VStruct _ tid _ _ => tid | _ => 0 end) v = true ->
    wfv t v -> (depth v <= k)%nat -> enc t v = Some (b, sz) ->
    exists h, get_header ps k v = ROk h /\ hs_ok [h] b sz.
  Proof.
    intros Hg Hp Hw Hd E. destruct v as [| | | |m tid fs ss| |]; try discriminate Hp.
    destruct m; [discriminate Hp|].
    destruct (Hg tid fs ss eq_refl Hw b sz E k Hd) as (h & H1 & H2 & H3).
    exists h. split; [exact H1|]. apply hs_ok_one; assumption.
  Qed.

  Lemma is_param_self tid v : is_param tid v = true ->
    is_param (match v with VStruct _ tid _ _ => tid | _ => 0 end) v = true.
  Proof.
    destruct v as [| | | |m tid' fs ss| |]; try discriminate. destruct m; [discriminate|].
    intros _. cbn. apply N.eqb_refl.
  Qed.

  Lemma many_ok k tid l : forall b sz,
    Forall good_at l -> wf_many (wfv t) tid l -> Forall (fun x => (depth x <= k)%nat) l ->
    enc_many (enc t) tid l = Some (b, sz) ->
    exists hs, gh_many (get_header ps k) tid l = ROk hs /\ hs_ok hs b sz.
  Proof.
    induction l as [|x l IH]; intros b sz Hg Hw Hd E; cbn [enc_many gh_many wf_many] in *.
    - injection E as <- <-. exists []. split; [reflexivity|apply hs_ok_nil].
    - destruct Hw as (P & Hwx & Hwl). inversion Hg as [|? ? Hgx Hgl]; subst.
      inversion Hd as [|? ? Hdx Hdl]; subst.
      change (is_p tid x) with (is_param tid x). rewrite P in *.
      destruct (enc t x) as [[bx zx]|] eqn:Ex; [|discriminate].
      destruct (enc_many (enc t) tid l) as [[r rz]|] eqn:Er; [|discriminate].
      apply some_pair_inv in E as [<- <-].
      destruct (good_at_use x k bx zx Hgx (is_param_self _ _ P) Hwx Hdx Ex) as (h & Hh & Hok).
      destruct (IH r rz Hgl Hwl Hdl eq_refl) as (hs & Hhs & Hoks).
      rewrite Hh. cbn [rbind]. rewrite Hhs. cbn [rbind].
      exists (h :: hs). split; [reflexivity|]. apply (hs_ok_app [h] bx zx hs r rz Hok Hoks).
  Qed.

  (* the case condition of an alternative *)
  Lemma conds_ok s v' :
    s_arity s = One -> (s_group s =? 0) = false -> alt_ok t s = true ->
    is_param (s_tid s) v' = true -> (wfv t v' \/ v' = zero_leaf t (s_tid s)) ->
    eval_conds v' (alt_cond t (s_tid s)) = Some (alt_nonzero v').
  Proof.
    intros Ar G Ha P Hv. unfold alt_ok, grouped in Ha. rewrite Ar, G in Ha. cbn [negb] in Ha.
    destruct (is_param_inv _ _ P) as (fs & ss & ->).
    unfold alt_cond. destruct (find_container t false (s_tid s)) as [c'|] eqn:F; [|discriminate].
    assert (Hs : shaped (c_fields c') fs).
    { destruct Hv as [Hw|Hz].
      - cbn [wfv] in Hw. rewrite F in Hw. destruct Hw as (Hf & _). apply wf_fields_shaped, Hf.
      - unfold zero_leaf in Hz. rewrite F in Hz. injection Hz as -> _. apply fields_zero_shaped. }
    rewrite eval_conds_atoms. cbn [alt_nonzero].
    destruct (inline_of c') eqn:Il.
    - unfold inline_of in Il. apply andb_true_iff in Il as [_ Il].
      destruct (c_fields c') as [|f fr]; [discriminate Il|].
      destruct f; try discriminate Il; (destruct fr; [|discriminate Il]); cbn [shaped] in Hs;
        (destruct fs as [|v fs]; [contradiction|]; destruct Hs as [H1 ->];
         destruct v; try contradiction; reflexivity).
    - cbn [orb] in Ha. unfold view.
      apply (atoms_ok ss (c_fields c') fs [] 0); [reflexivity|reflexivity|exact Hs|exact Ha].
  Qed.

  Lemma inv_rest chosen subs : chosen = 0 \/ closed chosen subs = true -> inv chosen subs.
  Proof. intros [H|H]; [left|right; right]; exact H. Qed.

  Lemma subs_ok k : forall vs subs chosen pending pre i b sz,
    Forall good vs -> Forall (fun x => (depth x <= k)%nat) vs ->
    wf_subs t (wfv t) subs vs chosen pending ->
    groups_ok subs = true -> forallb (alt_ok t) subs = true -> inv chosen subs ->
    i = N.of_nat (length pre) ->
    enc_subs (enc t) subs vs chosen = Some (b, sz) ->
    exists hs, run_subs (get_header ps k) (pre ++ vs) (drop_sw chosen subs (compile_subs t i subs)) = ROk hs /\
               hs_ok hs b sz.
  Proof.
    induction vs as [|v' vs IH]; intros subs chosen pending pre i b sz Hg Hd Hw Hgr Halt Hinv Hi E.
    - destruct subs; cbn [enc_subs] in E; [|discriminate]. injection E as <- <-.
      exists []. split; [reflexivity|apply hs_ok_nil].
    - destruct subs as [|s subs]; cbn [enc_subs wf_subs] in *; [discriminate|].
      inversion Hg as [|? ? Hgv Hgvs]; subst. inversion Hd as [|? ? Hdv Hdvs]; subst.
      cbn [forallb] in Halt. apply andb_true_iff in Halt as [Halt1 Halt].
      assert (Hfld : field (pre ++ v' :: vs) (N.of_nat (length pre)) = Some v') by (apply field_at; reflexivity).
      assert (Hgr' : groups_ok subs = true).
      { cbn [groups_ok] in Hgr. apply andb_true_iff in Hgr as [_ Hgr]. exact Hgr. }
      (* the recursive call, on the view with v' moved into the prefix *)
      assert (Hrec : forall chosen' pending' b' sz',
                 wf_subs t (wfv t) subs vs chosen' pending' -> inv chosen' subs ->
                 enc_subs (enc t) subs vs chosen' = Some (b', sz') ->
                 exists hs, run_subs (get_header ps k) (pre ++ v' :: vs)
                              (drop_sw chosen' subs (compile_subs t (N.of_nat (length pre) + 1) subs)) = ROk hs /\
                            hs_ok hs b' sz').
      { intros chosen' pending' b' sz' Hw' Hinv' E'.
        destruct (IH subs chosen' pending' (pre ++ [v']) (N.of_nat (length pre) + 1) b' sz' Hgvs Hdvs Hw' Hgr' Halt Hinv')
          as (hs & Hr & Hok); [rewrite app_length; cbn [length]; lia|exact E'|].
        rewrite <- app_assoc in Hr. exists hs. split; assumption. }
      set (i0 := N.of_nat (length pre)) in *.
      destruct (s_arity s) eqn:Ar; destruct v' as [| | | |m tid0 fs0 ss0|o|l]; try discriminate E; try contradiction.
      + (* One *)
        destruct Hw as (P & Hw). rewrite P in E. cbn [negb] in E. cbn [good] in Hgv.
        destruct (s_group s =? 0) eqn:G.
        * (* ordinary mandatory sub-parameter *)
          destruct Hw as (_ & Hwv & Hw).
          assert (Hng : in_group chosen s = false \/ chosen = 0).
          { unfold in_group. rewrite Ar. apply N.eqb_eq in G. rewrite G.
            destruct (N.eqb_spec 0 chosen); [right; congruence|now left]. }
          assert (Hrest : chosen = 0 \/ closed chosen subs = true).
          { destruct Hng as [Hng| ->]; [apply (inv_tail _ _ _ Hinv Hng)|now left]. }
          assert (Hd0 : drop_sw chosen (s :: subs) (compile_subs t i0 (s :: subs))
                        = SOne i0 (s_tid s) :: compile_subs t (i0 + 1) subs).
          { cbn [drop_sw]. replace (negb (chosen =? 0) && in_group chosen s) with false.
            - cbn [compile_subs]. rewrite Ar, G. reflexivity.
            - symmetry. destruct Hng as [-> | ->]; [apply andb_false_r|reflexivity]. }
          rewrite Hd0.
          destruct (enc t (VStruct m tid0 fs0 ss0)) as [[bx zx]|] eqn:Ex; [|discriminate].
          destruct (enc_subs (enc t) subs vs chosen) as [[r rz]|] eqn:Er; [|discriminate].
          apply some_pair_inv in E as [<- <-].
          destruct (good_at_use _ k bx zx Hgv (is_param_self _ _ P) Hwv Hdv Ex) as (h & Hh & Hok).
          destruct (Hrec chosen 0 r rz Hw (inv_rest _ _ Hrest) Er) as (hs & Hr & Hoks).
          rewrite (drop_sw_id _ _ _ Hrest) in Hr.
          exists ([h] ++ hs). split; [|apply (hs_ok_app [h] bx zx hs r rz Hok Hoks)].
          cbn [run_subs run_sub]. rewrite Hfld.
          change (is_p (s_tid s) (VStruct m tid0 fs0 ss0)) with (is_param (s_tid s) (VStruct m tid0 fs0 ss0)).
          rewrite P, Hh. cbn [rbind]. rewrite Hr. reflexivity.
        * (* an alternative of an exclusive group *)
          destruct Hw as (_ & Hw).
          destruct (compile_head_switch t i0 s subs Ar G) as (cs & tl & Hc & Hshape).
          pose proof (after_group s subs Hgr Ar G) as [Hinvg _].
          pose proof (drop_sw_group t i0 s subs cs tl G Hshape) as Hdg.
          pose proof (conds_ok s (VStruct m tid0 fs0 ss0) Ar G Halt1 P) as Hcond.
          destruct (chosen =? s_group s) eqn:Cg.
          -- (* the group is already served: skipped, and so is the rest of the switch *)
             apply N.eqb_eq in Cg. subst chosen. destruct Hw as (Hz & Hw). cbn [orb] in E.
             destruct (Hrec (s_group s) 0 b sz Hw Hinvg E) as (hs & Hr & Hoks).
             rewrite Hdg in Hr.
             exists hs. split; [|exact Hoks].
             cbn [drop_sw]. unfold in_group at 1. rewrite Ar, N.eqb_refl, G. cbn [negb andb].
             rewrite Hc. cbn [List.tl]. exact Hr.
          -- assert (Hng : in_group chosen s = false).
             { unfold in_group. rewrite Ar, N.eqb_sym. exact Cg. }
             pose proof (inv_tail _ _ _ Hinv Hng) as Hrest.
             assert (Hd0 : drop_sw chosen (s :: subs) (compile_subs t i0 (s :: subs)) = compile_subs t i0 (s :: subs)).
             { cbn [drop_sw]. rewrite Hng, andb_false_r. reflexivity. }
             rewrite Hd0, Hc. cbn [orb] in E.
             destruct (alt_nonzero (VStruct m tid0 fs0 ss0)) eqn:Nz; cbn [negb] in E.
             ++ (* the alternative that is present *)
                destruct Hw as (Hwv & Hw).
                destruct (enc t (VStruct m tid0 fs0 ss0)) as [[bx zx]|] eqn:Ex; [|discriminate].
                destruct (enc_subs (enc t) subs vs (s_group s)) as [[r rz]|] eqn:Er; [|discriminate].
                apply some_pair_inv in E as [<- <-].
                destruct (good_at_use _ k bx zx Hgv (is_param_self _ _ P) Hwv Hdv Ex) as (h & Hh & Hok).
                destruct (Hrec (s_group s) 0 r rz Hw Hinvg Er) as (hs & Hr & Hoks).
                rewrite Hdg in Hr.
                exists ([h] ++ hs). split; [|apply (hs_ok_app [h] bx zx hs r rz Hok Hoks)].
                cbn [run_subs run_sub run_cases]. rewrite Hfld.
                change (is_p (s_tid s) (VStruct m tid0 fs0 ss0)) with (is_param (s_tid s) (VStruct m tid0 fs0 ss0)).
                rewrite P, (Hcond (or_introl Hwv)), Hh. cbn [rbind]. rewrite Hr. reflexivity.
             ++ (* a zero alternative: the next case of the switch is tried *)
                destruct Hw as (Hz & Hw).
                destruct (Hrec chosen (s_group s) b sz Hw (inv_rest _ _ Hrest) E) as (hs & Hr & Hoks).
                rewrite (drop_sw_id _ _ _ Hrest) in Hr.
                exists hs. split; [|exact Hoks].
                cbn [run_subs run_sub run_cases]. rewrite Hfld.
                change (is_p (s_tid s) (VStruct m tid0 fs0 ss0)) with (is_param (s_tid s) (VStruct m tid0 fs0 ss0)).
                rewrite P, (Hcond (or_intror Hz)).
                destruct Hshape as [(s' & r' & -> & Ig & Ec)|(_ & -> & ->)].
                ** rewrite Ec in Hr. cbn [run_subs run_sub] in Hr. exact Hr.
                ** cbn [run_cases rbind]. rewrite Hr. reflexivity.
      + (* Opt *)
        assert (Hng : in_group chosen s = false) by (unfold in_group; rewrite Ar; reflexivity).
        pose proof (inv_tail _ _ _ Hinv Hng) as Hrest.
        assert (Hd0 : drop_sw chosen (s :: subs) (compile_subs t i0 (s :: subs))
                      = SOpt i0 (s_tid s) :: compile_subs t (i0 + 1) subs).
        { cbn [drop_sw]. rewrite Hng, andb_false_r. cbn [compile_subs]. rewrite Ar. reflexivity. }
        rewrite Hd0. destruct o as [x|].
        * destruct Hw as (_ & P & Hwx & Hw). rewrite P in E. cbn [negb] in E. cbn [good] in Hgv.
          destruct (enc t x) as [[bx zx]|] eqn:Ex; [|discriminate].
          destruct (enc_subs (enc t) subs vs chosen) as [[r rz]|] eqn:Er; [|discriminate].
          apply some_pair_inv in E as [<- <-]. cbn [depth] in Hdv.
          destruct (good_at_use _ k bx zx Hgv (is_param_self _ _ P) Hwx Hdv Ex) as (h & Hh & Hok).
          destruct (Hrec chosen 0 r rz Hw (inv_rest _ _ Hrest) Er) as (hs & Hr & Hoks).
          rewrite (drop_sw_id _ _ _ Hrest) in Hr.
          exists ([h] ++ hs). split; [|apply (hs_ok_app [h] bx zx hs r rz Hok Hoks)].
          cbn [run_subs run_sub]. rewrite Hfld.
          change (is_p (s_tid s) x) with (is_param (s_tid s) x).
          rewrite P, Hh. cbn [rbind]. rewrite Hr. reflexivity.
        * destruct Hw as (_ & Hw).
          destruct (Hrec chosen 0 b sz Hw (inv_rest _ _ Hrest) E) as (hs & Hr & Hoks).
          rewrite (drop_sw_id _ _ _ Hrest) in Hr.
          exists hs. split; [|exact Hoks].
          cbn [run_subs run_sub]. rewrite Hfld. cbn [rbind]. rewrite Hr. reflexivity.
      + (* Many *)
        assert (Hng : in_group chosen s = false) by (unfold in_group; rewrite Ar; reflexivity).
        pose proof (inv_tail _ _ _ Hinv Hng) as Hrest.
        assert (Hd0 : drop_sw chosen (s :: subs) (compile_subs t i0 (s :: subs))
                      = SMany i0 (s_tid s) :: compile_subs t (i0 + 1) subs).
        { cbn [drop_sw]. rewrite Hng, andb_false_r. cbn [compile_subs]. rewrite Ar. reflexivity. }
        rewrite Hd0. destruct Hw as (_ & _ & Hwm & Hw). cbn [good] in Hgv.
        destruct (enc_many (enc t) (s_tid s) l) as [[bx zx]|] eqn:Em; [|discriminate].
        destruct (enc_subs (enc t) subs vs chosen) as [[r rz]|] eqn:Er; [|discriminate].
        apply some_pair_inv in E as [<- <-].
        assert (Hdl : Forall (fun x => (depth x <= k)%nat) l).
        { apply Forall_forall. intros x Hin. cbn [depth] in Hdv.
          pose proof (depth_list_le t l x Hin). lia. }
        destruct (many_ok k (s_tid s) l bx zx Hgv Hwm Hdl Em) as (hm & Hm & Hokm).
        destruct (Hrec chosen 0 r rz Hw (inv_rest _ _ Hrest) Er) as (hs & Hr & Hoks).
        rewrite (drop_sw_id _ _ _ Hrest) in Hr.
        exists (hm ++ hs). split; [|apply (hs_ok_app hm bx zx hs r rz Hokm Hoks)].
        cbn [run_subs run_sub]. rewrite Hfld, Hm. cbn [rbind]. rewrite Hr. reflexivity.
  Qed.

  (* EncodeFields, the size expression and the sub-parameter statements of one container *)
  Lemma body_ok c d fs ss k fb fsz sb ssz :
    In c t -> struct_ok c d (inline_of c) = true \/ (exists inl, struct_ok c d inl = true) ->
    wf_fields (c_fields c) fs -> wf_subs t (wfv t) (c_subs c) ss 0 0 ->
    Forall good ss -> Forall (fun x => (depth x <= k)%nat) ss ->
    enc_fields (c_fields c) fs 0 = Some (fb, fsz) ->
    enc_subs (enc t) (c_subs c) ss 0 = Some (sb, ssz) ->
    run_ws (ps_glob ps) (view fs ss) (compile_fields d (c_fields c)) = Some fb /\
    (forall a0, eval_size (view fs ss) (a0 + fixed_size (c_fields c)) (size_terms (c_fields c) 0) = Some (u16 (a0 + fsz))) /\
    exists hs, run_subs (get_header ps k) (view fs ss) (compile_subs t (nslots (c_fields c)) (c_subs c)) = ROk hs /\
               hs_ok hs sb ssz.
  Proof.
    intros Hin Hso Hf Hs Hg Hdk Ef Es.
    assert (Hc : wf_container t c = true).
    { unfold wf_schema in Hwf. rewrite forallb_forall in Hwf. apply Hwf, Hin. }
    destruct (container_parts t c Hc) as (Hfs & _ & _ & _ & Hk & _).
    pose proof (Hextra c Hin) as Hx. unfold container_extra_ok in Hx.
    apply andb_true_iff in Hx as [Hx Hxk]. apply andb_true_iff in Hx as [Hxg Hxa].
    assert (Hfo : exists d', fields_ok (c_fields c) d = Some d').
    { destruct Hso as [Hso|[inl Hso]]; unfold struct_ok in Hso; apply andb_true_iff in Hso as [_ Hso];
        destruct (fields_ok (c_fields c) d) as [d'|]; try discriminate; eauto. }
    destruct Hfo as (d' & Fo).
    assert (Hbt : g_b2b_true (ps_glob ps) = 1) by (rewrite Hglob; reflexivity).
    assert (Hbf : g_b2b_false (ps_glob ps) = 0) by (rewrite Hglob; reflexivity).
    split; [|split].
    - unfold compile_fields.
      pose proof (items_ok (ps_glob ps) Hbt Hbf d (view fs ss) ss (c_fields c) fs [] [] d d' None 0 0%nat fb fsz 0
                    eq_refl eq_refl eq_refl eq_refl Fo Hfs Hf eq_refl Ef) as Hi.
      apply (group_ok _ _ _ [] [] fb eq_refl Hi).
    - intros a0.
      destruct (size_ok (view fs ss) ss (c_fields c) fs 0 fb fsz [] 0 eq_refl eq_refl Hf Ef) as (ts & Hts & Hsum).
      unfold eval_size. rewrite Hts, Hsum. reflexivity.
    - pose proof (nslots_len (c_fields c) fs (wf_fields_shaped _ _ Hf)) as Hn.
      destruct (subs_ok k ss (c_subs c) 0 0 (flat_map split_field fs) (nslots (c_fields c)) sb ssz
                  Hg Hdk Hs Hxg Hxa (or_introl eq_refl) Hn Es) as (hs & Hr & Hoks).
      rewrite (drop_sw_id 0 _ _ (or_introl eq_refl)) in Hr.
      exists hs. split; assumption.
  Qed.

  Lemma depth_subs m tid fs ss k :
    (depth (VStruct m tid fs ss) <= S k)%nat -> Forall (fun x => (depth x <= k)%nat) ss.
  Proof.
    intros Hd. cbn [depth] in Hd. apply Forall_forall. intros x Hin.
    pose proof (depth_list_le t ss x Hin). lia.
  Qed.

  Lemma good_struct msg tid fs ss : Forall good ss -> good (VStruct msg tid fs ss).
  Proof.
    intros Hg. cbn [good]. intros tid' fs' ss' Heq Hw b sz E fuel Hd.
    injection Heq as -> <- <- <-.
    pose proof Hw as Hw0. cbn [wfv] in Hw. pose proof E as E0. cbn [enc] in E.
    destruct (find_container t false tid) as [c|] eqn:F; [|contradiction].
    destruct Hw as (Hf & Hs & Hsz).
    pose proof (find_container_spec _ _ _ _ F) as (Hin & Hm & Ht).
    pose proof (find_container_wf _ _ _ _ Hwf F) as Hc.
    destruct (container_parts t c Hc) as (_ & _ & _ & _ & Hk & _).
    destruct (enc_fields (c_fields c) fs 0) as [[fb fsz]|] eqn:Ef; [|discriminate].
    destruct (enc_subs (enc t) (c_subs c) ss 0) as [[sb ssz]|] eqn:Es; [|discriminate].
    apply some_pair_inv in E as [<- <-].
    specialize (Hsz Hm). rewrite E0 in Hsz.
    destruct (Hprogs c Hin) as (p & Hl & Hso & Hp). rewrite Hm, Ht in Hl.
    pose proof (f_equal p_fields Hp) as Hpf. cbn [compile p_fields] in Hpf.
    pose proof (f_equal p_body Hp) as Hpb. cbn [compile p_body] in Hpb.
    destruct fuel as [|k]; [cbn [depth] in Hd; lia|].
    pose proof (depth_subs _ _ _ _ _ Hd) as Hdk.
    destruct (body_ok c (p_struct p) fs ss k fb fsz sb ssz Hin (or_intror (ex_intro _ _ Hso)) Hf Hs Hg Hdk Ef Es)
      as (Hrun & Hsize & hs & Hr & Hoks).
    assert (Hnz : c_kind c = KTV -> c_tid c <> 0).
    { intros K. pose proof (Hextra c Hin) as Hx. unfold container_extra_ok in Hx.
      apply andb_true_iff in Hx as [_ Hx]. rewrite K in Hx. apply negb_true_iff, N.eqb_neq in Hx. exact Hx. }
    assert (Hpb' : p_body p = PParam {| h_ptype := c_tid c;
                                        h_base := header_size (c_kind c) + fixed_size (c_fields c);
                                        h_terms := size_terms (c_fields c) 0;
                                        h_nparams := compile_nparams (nslots (c_fields c)) (c_subs c);
                                        h_subs := compile_subs t (nslots (c_fields c)) (c_subs c) |}
                                     (header_size (c_kind c))).
    { rewrite Hpb. destruct (c_kind c); [discriminate Hm|reflexivity|reflexivity]. }
    set (szv := header_size (c_kind c) + fsz + ssz) in *.
    exists (HNode tid szv fb hs). split; [|split].
    - cbn [get_header]. rewrite Hl, Hpb', Hpf. cbn [h_base h_terms h_subs h_ptype].
      rewrite Hrun, Hsize, Hr. cbn [rbind]. rewrite (proj2 Hoks), Ht.
      unfold u16. rewrite N.mod_small by exact Hsz. reflexivity.
    - rewrite encode_param_unfold, <- Ht, (header_of_ok ps c szv Hglob Hk Hm Hnz), (proj1 Hoks). reflexivity.
    - reflexivity.
  Qed.

  Theorem all_good : forall v, good v.
  Proof.
    apply value_ind'; try (intros; exact I).
    - apply good_struct.
    - intros x Hx. cbn [good]. destruct x; try (intros ? ? ? Heq; discriminate Heq). exact Hx.
    - intros l Hl. cbn [good]. apply Forall_forall. intros x Hin.
      rewrite Forall_forall in Hl. specialize (Hl x Hin).
      destruct x; try (intros ? ? ? Heq; discriminate Heq). exact Hl.
  Qed.

  (* a parameter: bytes and declared size *)
  Theorem run_param_correct tid fs ss fuel :
    wfv t (VStruct false tid fs ss) -> (depth (VStruct false tid fs ss) <= fuel)%nat ->
    run_param ps fuel (VStruct false tid fs ss) = of_opt (enc t (VStruct false tid fs ss)).
  Proof.
    intros Hw Hd. destruct (enc t (VStruct false tid fs ss)) as [[b sz]|] eqn:E.
    - destruct (all_good (VStruct false tid fs ss) tid fs ss eq_refl Hw b sz E fuel Hd) as (h & H1 & H2 & H3).
      unfold run_param. rewrite H1. cbn [rbind]. rewrite H2. cbn [of_opt rbind]. rewrite H3. reflexivity.
    - destruct (encode_total t _ Hwf Hw) as (bs & Hb). unfold encode in Hb. rewrite E in Hb. discriminate.
  Qed.

  (* a message: MarshalBinary *)
  Theorem run_msg_correct tid fs ss fuel :
    wfv t (VStruct true tid fs ss) -> (depth (VStruct true tid fs ss) <= fuel)%nat ->
    run_msg ps fuel (VStruct true tid fs ss) = of_opt (encode t (VStruct true tid fs ss)).
  Proof.
    intros Hw Hd. pose proof Hw as Hw0. cbn [wfv] in Hw. unfold encode. cbn [enc].
    destruct (find_container t true tid) as [c|] eqn:F; [|contradiction].
    destruct Hw as (Hf & Hs & _).
    pose proof (find_container_spec _ _ _ _ F) as (Hin & Hm & Ht).
    destruct (encode_total t _ Hwf Hw0) as (bs & Hb). unfold encode in Hb. cbn [enc] in Hb. rewrite F in Hb.
    destruct (enc_fields (c_fields c) fs 0) as [[fb fsz]|] eqn:Ef; [|discriminate].
    destruct (enc_subs (enc t) (c_subs c) ss 0) as [[sb ssz]|] eqn:Es; [|discriminate].
    destruct (Hprogs c Hin) as (p & Hl & Hso & Hp). rewrite Hm, Ht in Hl.
    pose proof (f_equal p_fields Hp) as Hpf. cbn [compile p_fields] in Hpf.
    pose proof (f_equal p_body Hp) as Hpb. cbn [compile p_body] in Hpb.
    destruct fuel as [|k]; [cbn [depth] in Hd; lia|].
    pose proof (depth_subs _ _ _ _ _ Hd) as Hdk.
    assert (Hg : Forall good ss) by (apply Forall_forall; intros; apply all_good).
    destruct (body_ok c (p_struct p) fs ss k fb fsz sb ssz Hin (or_intror (ex_intro _ _ Hso)) Hf Hs Hg Hdk Ef Es)
      as (Hrun & _ & hs & Hr & Hoks).
    assert (K : c_kind c = KMsg) by (destruct (c_kind c); try discriminate Hm; reflexivity).
    rewrite K in Hpb.
    assert (Hu : forallb (fun s => negb (grouped s)) (c_subs c) = true).
    { pose proof (Hextra c Hin) as Hx. unfold container_extra_ok in Hx.
      apply andb_true_iff in Hx as [_ Hx]. rewrite K in Hx. exact Hx. }
    rewrite (compile_subs_ungrouped t _ _ Hu) in Hr.
    cbn [run_msg]. rewrite Hl, Hpb, Hpf, Hrun. cbn [of_opt rbind]. rewrite Hr. cbn [rbind].
    rewrite (proj1 Hoks). cbn [of_opt rbind]. rewrite K. reflexivity.
  Qed.

  (* what the harness observes for any container *)
  Theorem run_correct v fuel :
    wfv t v -> (depth v <= fuel)%nat -> run ps fuel v = of_opt (encode t v).
  Proof.
    intros Hw Hd. destruct v as [| | | |m tid fs ss| |]; try contradiction.
    destruct m.
    - apply run_msg_correct; assumption.
    - unfold run, encode. rewrite (run_param_correct tid fs ss fuel Hw Hd).
      destruct (enc t (VStruct false tid fs ss)) as [[b sz]|]; reflexivity.
  Qed.
End Main.

(* ---------- from the decidable check to the hypotheses of the section ---------- *)
Lemma progs_match_parts t ps : progs_match t ps = true ->
  ps_glob ps = expected_glob /\
  forall c, In c t ->
    exists p, lookup (ps_progs ps) (is_msg_kind (c_kind c)) (c_tid c) = Some p /\
              struct_ok c (p_struct p) (p_inline p) = true /\ p = compile t (p_struct p) c.
Proof.
  unfold progs_match. intros H. apply andb_true_iff in H as [H Hall]. apply andb_true_iff in H as [Hg _].
  split; [symmetry; apply glob_eqb_eq, Hg|].
  intros c Hin. rewrite forallb_forall in Hall. specialize (Hall c Hin). unfold container_matches in Hall.
  destruct (lookup (ps_progs ps) (is_msg_kind (c_kind c)) (c_tid c)) as [p|]; [|discriminate].
  apply andb_true_iff in Hall as [H1 H2]. exists p. repeat split; [exact H1|].
  symmetry. apply prog_eqb_eq, H2.
Qed.

Lemma enc_schema_ok_parts t : enc_schema_ok t = true ->
  wf_schema t = true /\ forall c, In c t -> container_extra_ok t c = true.
Proof.
  unfold enc_schema_ok. intros H. apply andb_true_iff in H as [H1 H2]. split; [exact H1|].
  intros c Hin. rewrite forallb_forall in H2. apply H2, Hin.
Qed.

(* the generic theorem: any translated program set accepted by progs_match computes the model *)
Theorem progs_match_correct t ps :
  enc_schema_ok t = true -> progs_match t ps = true ->
  forall v fuel, wfv t v -> (depth v <= fuel)%nat -> run ps fuel v = of_opt (encode t v).
Proof.
  intros Hs Hm v fuel Hw Hd.
  destruct (enc_schema_ok_parts t Hs) as [Hwf Hx]. destruct (progs_match_parts t ps Hm) as [Hg Hp].
  exact (run_correct t ps Hwf Hg Hp Hx v fuel Hw Hd).
Qed.

(* parameters: also the size the header declares (uint16, as getHeader computes it) is the model's *)
Theorem progs_match_correct_param t ps :
  enc_schema_ok t = true -> progs_match t ps = true ->
  forall tid fs ss fuel, wfv t (VStruct false tid fs ss) -> (depth (VStruct false tid fs ss) <= fuel)%nat ->
  run_param ps fuel (VStruct false tid fs ss) = of_opt (enc t (VStruct false tid fs ss)).
Proof.
  intros Hs Hm tid fs ss fuel Hw Hd.
  destruct (enc_schema_ok_parts t Hs) as [Hwf Hx]. destruct (progs_match_parts t ps Hm) as [Hg Hp].
  exact (run_param_correct t ps Hwf Hg Hp Hx tid fs ss fuel Hw Hd).
Qed.

(* fuel: depth v always suffices, so running out of fuel is excluded *)
Definition run_prog (ps : programs) (v : value) : res bytes := run ps (depth v) v.

Corollary progs_match_run_prog t ps :
  enc_schema_ok t = true -> progs_match t ps = true ->
  forall v, wfv t v -> run_prog ps v = of_opt (encode t v).
Proof. intros Hs Hm v Hw. apply (progs_match_correct t ps Hs Hm v (depth v) Hw (Nat.le_refl _)). Qed.

(* the pinned LLRP table satisfies the side conditions *)
Lemma llrp_schema_ok : enc_schema_ok llrp_table = true.
Proof. vm_compute. reflexivity. Qed.

Theorem progs_match_correct_llrp ps :
  progs_match llrp_table ps = true ->
  forall v fuel, wfv llrp_table v -> (depth v <= fuel)%nat -> run ps fuel v = of_opt (encode llrp_table v).
Proof. exact (progs_match_correct llrp_table ps llrp_schema_ok). Qed.

Theorem progs_match_correct_param_llrp ps :
  progs_match llrp_table ps = true ->
  forall tid fs ss fuel, wfv llrp_table (VStruct false tid fs ss) -> (depth (VStruct false tid fs ss) <= fuel)%nat ->
  run_param ps fuel (VStruct false tid fs ss) = of_opt (enc llrp_table (VStruct false tid fs ss)).
Proof. exact (progs_match_correct_param llrp_table ps llrp_schema_ok). Qed.

(* the side conditions are not vacuous extras: without "TV type ids are non-zero" the statement is false *)
Definition tv0_table : table := [{| c_kind := KTV; c_tid := 0; c_fields := [FNum 1]; c_subs := [] |}].
Definition tv0_progs : programs :=
  {| ps_glob := expected_glob;
     ps_progs := [((false, 0), compile tv0_table [(SPlain, EInt 1 None)] (hd {| c_kind := KTV; c_tid := 0; c_fields := []; c_subs := [] |} tv0_table))] |}.
Example tv_type_zero_refutes :
  wf_schema tv0_table = true /\ progs_match tv0_table tv0_progs = true /\
  run tv0_progs 1 (VStruct false 0 [VNum 7] []) = ROk [0; 0; 0; 2; 7] /\
  encode tv0_table (VStruct false 0 [VNum 7] []) = Some [128; 7].
Proof. vm_compute. repeat split; reflexivity. Qed.
