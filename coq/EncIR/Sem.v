(* Semantics of the encoder IR over the value trees of Codec/Schema.v.

   A value `VStruct msg tid fs ss` stands for a Go struct: its Go fields, in declaration order, are
   [view fs ss] (a bit array is two Go fields, XNumBits and X; sub-parameters follow the fields).
   Numbers carry the unsigned bit pattern of the Go field (bool = 0/1); nil and empty slices are
   identified.  Trusted reading of Go (see notes/EncIR.md):
     - io.Writer is a bytes.Buffer: every Write appends and never fails;
     - byte(e) truncates to 8 bits, `<<` on a byte truncates to 8 bits, uint16 arithmetic wraps;
     - getHeader builds the paramHeader tree [htree]; encodeParams walks it in order;
     - an index out of range, a value whose shape is not the shape of the Go type: [RStuck];
   recursion over sub-parameters is by fuel; running out of fuel is the distinct outcome [RFuel]
   (excluded in the theorems by fuel >= depth v). No proofs in this file. *)
From Coq Require Import NArith ZArith List Bool.
From LLRP Require Import Codec.Schema EncIR.IR.
Import ListNotations.
Open Scope N_scope.

Inductive res (A : Type) := ROk (a : A) | RStuck | RFuel.
Arguments ROk {A} a.
Arguments RStuck {A}.
Arguments RFuel {A}.

Definition rbind {A B} (r : res A) (f : A -> res B) : res B :=
  match r with ROk a => f a | RStuck => RStuck | RFuel => RFuel end.

Definition of_opt {A} (o : option A) : res A :=
  match o with Some a => ROk a | None => RStuck end.

(* ---- the Go struct behind a value ---- *)
Definition split_field (v : value) : list value :=
  match v with VBitArr n bs => [VNum n; VBytes bs] | _ => [v] end.

Definition view (fs ss : list value) : list value := flat_map split_field fs ++ ss.

Definition field (vw : list value) (f : N) : option value := nth_error vw (N.to_nat f).

Definition llen {A} (l : list A) : N := N.of_nat (length l).

(* ---- expressions ---- *)
Fixpoint eval_i (vw : list value) (e : iexpr) : option N :=
  match e with
  | IField f => match field vw f with Some (VNum x) => Some x | _ => None end
  | ILen f => match field vw f with
              | Some (VBytes bs) => Some (llen bs)
              | Some (VNums ns) => Some (llen ns)
              | _ => None end
  | IShr e k => option_map (fun x => N.shiftr x k) (eval_i vw e)
  | IAnd e m => option_map (fun x => N.land x m) (eval_i vw e)
  | IOr e m => option_map (fun x => N.lor x m) (eval_i vw e)
  end.

Fixpoint eval_b (g : glob) (vw : list value) (e : bexpr) : option N :=
  match e with
  | BLit n => Some n
  | BRaw f => match field vw f with Some (VNum x) => Some x | _ => None end
  | BConv e => option_map (fun x => x mod 256) (eval_i vw e)
  | BB2B f => match field vw f with
              | Some (VNum x) => Some (if x =? 0 then g_b2b_false g else g_b2b_true g)
              | _ => None end
  | BIdx f i => match field vw f with
                | Some (VBytes bs) => nth_error bs (N.to_nat i)      (* None: index out of range, Go panics *)
                | _ => None end
  | BShl e k => option_map (fun x => (N.shiftl x k) mod 256) (eval_b g vw e)
  | BOr a b => match eval_b g vw a, eval_b g vw b with
               | Some x, Some y => Some (N.lor x y)
               | _, _ => None end
  end.

Fixpoint map_opt {A B} (f : A -> option B) (l : list A) : option (list B) :=
  match l with
  | [] => Some []
  | x :: r => match f x, map_opt f r with
              | Some y, Some ys => Some (y :: ys)
              | _, _ => None end
  end.

(* ---- EncodeFields ---- *)
Definition run_w (g : glob) (vw : list value) (w : wstmt) : option bytes :=
  match w with
  | WBytes es => map_opt (eval_b g vw) es
  | WSlice f => match field vw f with
                | Some (VBytes bs) => Some bs
                | Some (VNums ns) => Some ns          (* a counted []byte *)
                | _ => None end
  | WString f => match field vw f with Some (VBytes bs) => Some bs | _ => None end
  | WBE f e => match field vw f with
               | Some (VNums ns) => Some (flat_map (be (N.to_nat e)) ns)
               | _ => None end
  end.

Fixpoint run_ws (g : glob) (vw : list value) (ws : list wstmt) : option bytes :=
  match ws with
  | [] => Some []
  | w :: r => match run_w g vw w, run_ws g vw r with
              | Some a, Some b => Some (a ++ b)
              | _, _ => None end
  end.

(* ---- getHeader ---- *)
Definition u16 (x : N) : N := x mod 65536.

Definition eval_term (vw : list value) (t : szterm) : option N :=
  match t with
  | SzLen f m => match field vw f with
                 | Some (VBytes bs) => Some (u16 (llen bs * m))
                 | Some (VNums ns) => Some (u16 (llen ns * m))
                 | _ => None end
  | SzBits f a b c =>
      match field vw f with
      | Some (VNum x) =>   (* uint16(((int(x)-a)>>b)+c): Go int, arithmetic shift *)
          Some (Z.to_N ((Z.shiftr (Z.of_N x - Z.of_N a) (Z.of_N b) + Z.of_N c) mod 65536))
      | _ => None end
  end.

(* sz: base + t1 + t2 ...  in uint16 *)
Definition eval_size (vw : list value) (base : N) (ts : list szterm) : option N :=
  match map_opt (eval_term vw) ts with
  | Some xs => Some (fold_left (fun a x => u16 (a + x)) xs (u16 base))
  | None => None
  end.

Inductive htree := HNode (ptype sz : N) (data : bytes) (subs : list htree).
Definition hsz (h : htree) : N := match h with HNode _ sz _ _ => sz end.

Definition is_p (tid : N) (v : value) : bool :=
  match v with VStruct false tid' _ _ => tid' =? tid | _ => false end.

Definition nonempty {A} (l : list A) : bool := match l with [] => false | _ => true end.

Definition eval_atom (x : value) (a : catom) : option bool :=
  match x with
  | VStruct _ _ fs ss =>
    match a with
    | CNeZero g => match field (view fs ss) g with Some (VNum n) => Some (negb (n =? 0)) | _ => None end
    | CNeNil g => match field (view fs ss) g with
                  | Some (VBytes bs) => Some (nonempty bs)
                  | Some (VNums ns) => Some (nonempty ns)
                  | _ => None end
    end
  | _ => None
  end.

Fixpoint eval_conds (x : value) (cs : list catom) : option bool :=
  match cs with
  | [] => Some true
  | a :: r => match eval_atom x a, eval_conds x r with
              | Some p, Some q => Some (p && q)
              | _, _ => None end
  end.

Section Subs.
  Variable gh : value -> res htree.     (* getHeader of a sub-parameter value *)

  Fixpoint gh_many (tid : N) (l : list value) : res (list htree) :=
    match l with
    | [] => ROk []
    | x :: r => if is_p tid x then rbind (gh x) (fun h => rbind (gh_many tid r) (fun hs => ROk (h :: hs)))
                else RStuck
    end.

  Fixpoint run_cases (vw : list value) (cases : list (list catom * N * N)) : res (list htree) :=
    match cases with
    | [] => ROk []
    | (conds, f, tid) :: r =>
      match field vw f with
      | Some x =>
        if is_p tid x then
          match eval_conds x conds with
          | Some true => rbind (gh x) (fun h => ROk [h])
          | Some false => run_cases vw r
          | None => RStuck
          end
        else RStuck
      | None => RStuck
      end
    end.

  (* the headers a statement appends to ph.subs (ph.sz grows by their sz) *)
  Definition run_sub (vw : list value) (s : substmt) : res (list htree) :=
    match s with
    | SOne f tid => match field vw f with
                    | Some x => if is_p tid x then rbind (gh x) (fun h => ROk [h]) else RStuck
                    | None => RStuck end
    | SOpt f tid => match field vw f with
                    | Some (VOpt None) => ROk []
                    | Some (VOpt (Some x)) => if is_p tid x then rbind (gh x) (fun h => ROk [h]) else RStuck
                    | _ => RStuck end
    | SMany f tid => match field vw f with
                     | Some (VList l) => gh_many tid l
                     | _ => RStuck end
    | SSwitch cases => run_cases vw cases
    end.

  Fixpoint run_subs (vw : list value) (ss : list substmt) : res (list htree) :=
    match ss with
    | [] => ROk []
    | s :: r => rbind (run_sub vw s) (fun a => rbind (run_subs vw r) (fun b => ROk (a ++ b)))
    end.
End Subs.

Section Run.
  Variable ps : programs.
  Let g := ps_glob ps.

  (* p.getHeader() *)
  Fixpoint get_header (fuel : nat) (v : value) : res htree :=
    match fuel with
    | O => RFuel
    | S k =>
      match v with
      | VStruct false tid fs ss =>
        match lookup (ps_progs ps) false tid with
        | Some p =>
          match p_body p with
          | PParam h _ =>
            let vw := view fs ss in
            match run_ws g vw (p_fields p), eval_size vw (h_base h) (h_terms h) with
            | Some data, Some sz0 =>
                rbind (run_subs (get_header k) vw (h_subs h)) (fun hs =>
                  ROk (HNode (h_ptype h) (fold_left (fun a x => u16 (a + hsz x)) hs sz0) data hs))
            | _, _ => RStuck
            end
          | PMsg _ => RStuck
          end
        | None => RStuck
        end
      | _ => RStuck
      end
    end.

  (* encodeParams(w, h): header, h.data.EncodeFields(w), encodeParams(w, h.subs...) *)
  Definition header_of (pt sz : N) : option bytes :=
    let hv := [VNum pt; VNum sz] in
    if negb (pt =? g_istv_ne g) && (pt <=? g_istv_le g)
    then map_opt (eval_b g hv) (g_tv_hdr g)
    else map_opt (eval_b g hv) (g_tlv_hdr g).

  Fixpoint encode_param (h : htree) : option bytes :=
    match h with
    | HNode pt sz data subs =>
      match header_of pt sz,
            (fix go (l : list htree) : option bytes :=
               match l with
               | [] => Some []
               | x :: r => match encode_param x, go r with
                           | Some a, Some b => Some (a ++ b)
                           | _, _ => None end
               end) subs with
      | Some hb, Some sb => Some (hb ++ data ++ sb)
      | _, _ => None
      end
    end.

  Fixpoint encode_params (hs : list htree) : option bytes :=
    match hs with
    | [] => Some []
    | x :: r => match encode_param x, encode_params r with
                | Some a, Some b => Some (a ++ b)
                | _, _ => None end
    end.

  (* a parameter: the bytes encodeParams(&b, p.getHeader()) leaves in b, and the size the header declares *)
  Definition run_param (fuel : nat) (v : value) : res (bytes * N) :=
    rbind (get_header fuel v) (fun h => rbind (of_opt (encode_param h)) (fun b => ROk (b, hsz h))).

  (* a message: MarshalBinary *)
  Definition run_msg (fuel : nat) (v : value) : res bytes :=
    match fuel with
    | O => RFuel
    | S k =>
      match v with
      | VStruct true tid fs ss =>
        match lookup (ps_progs ps) true tid with
        | Some p =>
          match p_body p with
          | PMsg subs =>
            let vw := view fs ss in
            rbind (of_opt (run_ws g vw (p_fields p))) (fun data =>
            rbind (run_subs (get_header k) vw subs) (fun hs =>
            rbind (of_opt (encode_params hs)) (fun sb => ROk (data ++ sb))))
          | PParam _ _ => RStuck
          end
        | None => RStuck
        end
      | _ => RStuck
      end
    end.

  (* a parameter's own MarshalBinary: b.Bytes()[strip:] *)
  Definition run_param_marshal (fuel : nat) (v : value) : res bytes :=
    match v with
    | VStruct false tid _ _ =>
      match lookup (ps_progs ps) false tid with
      | Some p =>
        match p_body p with
        | PParam _ strip =>
          rbind (run_param fuel v) (fun bz =>
            if strip <=? llen (fst bz) then ROk (skipn (N.to_nat strip) (fst bz)) else RStuck)
        | PMsg _ => RStuck
        end
      | None => RStuck
      end
    | _ => RStuck
    end.

  (* what the harness observes: a parameter through encodeParams(getHeader()), a message through MarshalBinary *)
  Definition run (fuel : nat) (v : value) : res bytes :=
    match v with
    | VStruct true _ _ _ => run_msg fuel v
    | _ => rbind (run_param fuel v) (fun bz => ROk (fst bz))
    end.
End Run.
