(* Soundness of the decidable syntactic equalities of EncIR/IR.v: eqb = true -> Leibniz equality. *)
From Coq Require Import NArith List Bool.
From LLRP Require Import Codec.Schema EncIR.IR.
Import ListNotations.
Open Scope N_scope.

Ltac split_andb :=
  repeat match goal with
         | H : _ && _ = true |- _ => apply andb_true_iff in H; destruct H
         end.

Lemma optN_eqb_eq a b : optN_eqb a b = true -> a = b.
Proof. destruct a, b; cbn; try discriminate; auto. intros H. apply N.eqb_eq in H. now subst. Qed.

Lemma list_eqb_eq {A} (eqb : A -> A -> bool) :
  (forall x y, eqb x y = true -> x = y) -> forall a b, list_eqb eqb a b = true -> a = b.
Proof.
  intros He. induction a as [|x a IH]; intros [|y b] H; cbn in H; try discriminate; [reflexivity|].
  split_andb. f_equal; auto.
Qed.

Lemma list_eqb_eq_in {A} (eqb : A -> A -> bool) : forall a b,
  (forall x y, In x a -> eqb x y = true -> x = y) -> list_eqb eqb a b = true -> a = b.
Proof.
  induction a as [|x a IH]; intros [|y b] He H; cbn in H; try discriminate; [reflexivity|].
  split_andb. f_equal.
  - apply He; [now left|assumption].
  - apply IH; [|assumption]. intros x0 y0 Hin. apply He. now right.
Qed.

Lemma gelem_eqb_eq a b : gelem_eqb a b = true -> a = b.
Proof.
  destruct a, b; cbn; try discriminate; intros H; split_andb;
    repeat match goal with
           | H : optN_eqb _ _ = true |- _ => apply optN_eqb_eq in H
           | H : (_ =? _) = true |- _ => apply N.eqb_eq in H
           end; subst; reflexivity.
Qed.

Lemma gtype_eqb_eq a b : gtype_eqb a b = true -> a = b.
Proof.
  destruct a as [s e], b as [s' e']. unfold gtype_eqb. cbn [fst snd]. intros H. split_andb.
  apply gelem_eqb_eq in H0. subst. destruct s, s'; try discriminate; reflexivity.
Qed.

Lemma iexpr_eqb_eq a : forall b, iexpr_eqb a b = true -> a = b.
Proof.
  induction a; intros [] H; cbn in H; try discriminate; split_andb;
    repeat match goal with
           | H : (_ =? _) = true |- _ => apply N.eqb_eq in H
           | IH : forall b, iexpr_eqb ?a b = true -> _, H : iexpr_eqb ?a _ = true |- _ => apply IH in H
           end; subst; reflexivity.
Qed.

Lemma bexpr_eqb_eq a : forall b, bexpr_eqb a b = true -> a = b.
Proof.
  induction a; intros [] H; cbn in H; try discriminate; split_andb;
    repeat match goal with
           | H : (_ =? _) = true |- _ => apply N.eqb_eq in H
           | H : iexpr_eqb _ _ = true |- _ => apply iexpr_eqb_eq in H
           | IH : forall b, bexpr_eqb ?a b = true -> _, H : bexpr_eqb ?a _ = true |- _ => apply IH in H
           end; subst; reflexivity.
Qed.

Lemma wstmt_eqb_eq a b : wstmt_eqb a b = true -> a = b.
Proof.
  destruct a, b; cbn; try discriminate; intros H; split_andb;
    repeat match goal with
           | H : (_ =? _) = true |- _ => apply N.eqb_eq in H
           | H : list_eqb bexpr_eqb _ _ = true |- _ => apply (list_eqb_eq _ bexpr_eqb_eq) in H
           end; subst; reflexivity.
Qed.

Lemma szterm_eqb_eq a b : szterm_eqb a b = true -> a = b.
Proof.
  destruct a, b; cbn; try discriminate; intros H; split_andb;
    repeat match goal with H : (_ =? _) = true |- _ => apply N.eqb_eq in H end; subst; reflexivity.
Qed.

Lemma catom_eqb_eq a b : catom_eqb a b = true -> a = b.
Proof.
  destruct a, b; cbn; try discriminate; intros H; apply N.eqb_eq in H; subst; reflexivity.
Qed.

Lemma case_eqb_eq a b : case_eqb a b = true -> a = b.
Proof.
  destruct a as [[c f] t], b as [[c' f'] t']. unfold case_eqb. cbn [fst snd]. intros H. split_andb.
  apply (list_eqb_eq _ catom_eqb_eq) in H. apply N.eqb_eq in H1, H0. subst. reflexivity.
Qed.

Lemma substmt_eqb_eq a b : substmt_eqb a b = true -> a = b.
Proof.
  destruct a, b; cbn; try discriminate; intros H; split_andb;
    repeat match goal with
           | H : (_ =? _) = true |- _ => apply N.eqb_eq in H
           | H : list_eqb case_eqb _ _ = true |- _ => apply (list_eqb_eq _ case_eqb_eq) in H
           end; subst; reflexivity.
Qed.

Lemma N_eqb_eq' x y : (x =? y) = true -> x = y.
Proof. apply N.eqb_eq. Qed.

Lemma nparams_eqb_eq a b : nparams_eqb a b = true -> a = b.
Proof.
  destruct a, b. unfold nparams_eqb. cbn. intros H. split_andb.
  apply optN_eqb_eq in H. apply (list_eqb_eq _ N_eqb_eq') in H0, H1. subst. reflexivity.
Qed.

Lemma hdr_eqb_eq a b : hdr_eqb a b = true -> a = b.
Proof.
  destruct a as [p1 b1 t1 n1 s1], b as [p2 b2 t2 n2 s2]. unfold hdr_eqb. cbn. intros H. split_andb.
  apply N.eqb_eq in H, H3. apply (list_eqb_eq _ szterm_eqb_eq) in H2.
  apply (list_eqb_eq _ substmt_eqb_eq) in H0. subst.
  destruct n1 as [x|], n2 as [y|]; try discriminate; [|reflexivity].
  apply nparams_eqb_eq in H1. subst. reflexivity.
Qed.

Lemma pbody_eqb_eq a b : pbody_eqb a b = true -> a = b.
Proof.
  destruct a, b; cbn; try discriminate; intros H; split_andb.
  - apply hdr_eqb_eq in H. apply N.eqb_eq in H0. subst. reflexivity.
  - apply (list_eqb_eq _ substmt_eqb_eq) in H. subst. reflexivity.
Qed.

Lemma prog_eqb_eq a b : prog_eqb a b = true -> a = b.
Proof.
  destruct a, b. unfold prog_eqb. cbn. intros H. split_andb.
  apply (list_eqb_eq _ gtype_eqb_eq) in H. apply Bool.eqb_prop in H2.
  apply (list_eqb_eq _ wstmt_eqb_eq) in H1. apply pbody_eqb_eq in H0. subst. reflexivity.
Qed.

Lemma glob_eqb_eq a b : glob_eqb a b = true -> a = b.
Proof.
  destruct a, b. unfold glob_eqb. cbn. intros H. split_andb.
  apply N.eqb_eq in H, H4, H3, H2.
  apply (list_eqb_eq _ bexpr_eqb_eq) in H1, H0. subst. reflexivity.
Qed.
