(* Base64 round trip: decoding the encoding of any byte list gives the byte list back. *)
From Coq Require Import NArith ZArith List Bool Arith Lia ZifyN ZifyNat ZifyBool.
From LLRP Require Import Codec.Base64.
Import ListNotations.
Open Scope N_scope.
Ltac Zify.zify_post_hook ::= Z.div_mod_to_equations.

(* ---------- the 64-entry alphabet table, by computation ---------- *)
Definition sextets : list N := map N.of_nat (seq 0 64).

Definition sextet_ok (s : N) : bool :=
  match b64_val (b64_char s) with Some s' => s' =? s | None => false end &&
  negb (b64_char s =? b64_pad).

Lemma sextets_ok : forallb sextet_ok sextets = true.
Proof. vm_compute. reflexivity. Qed.

Lemma sextet_in s : s < 64 -> In s sextets.
Proof.
  intros H. unfold sextets. rewrite <- (N2Nat.id s). apply in_map. apply in_seq. lia.
Qed.

Lemma b64_val_char s : s < 64 -> b64_val (b64_char s) = Some s.
Proof.
  intros H. pose proof sextets_ok as A. rewrite forallb_forall in A.
  specialize (A s (sextet_in s H)). unfold sextet_ok in A.
  apply andb_true_iff in A as [A _].
  destruct (b64_val (b64_char s)) as [s'|]; [|discriminate].
  apply N.eqb_eq in A. now subst.
Qed.

Lemma b64_char_not_pad s : s < 64 -> (b64_char s =? b64_pad) = false.
Proof.
  intros H. pose proof sextets_ok as A. rewrite forallb_forall in A.
  specialize (A s (sextet_in s H)). unfold sextet_ok in A.
  apply andb_true_iff in A as [_ A]. now apply negb_true_iff in A.
Qed.

(* every character of an encoding is in the alphabet or '=' : < 128 (plain ASCII) *)
Lemma b64_char_ascii s : s < 64 -> b64_char s < 128.
Proof. intros H. unfold b64_char. repeat match goal with |- context[if ?b then _ else _] => destruct b eqn:? end; lia. Qed.

(* ---------- induction three elements at a time ---------- *)
Lemma list_ind3 {A} (P : list A -> Prop) :
  P [] -> (forall a, P [a]) -> (forall a b, P [a; b]) ->
  (forall a b c r, P r -> P (a :: b :: c :: r)) -> forall l, P l.
Proof.
  intros H0 H1 H2 H3. fix IH 1. intros [|a [|b [|c r]]]; [apply H0|apply H1|apply H2|apply H3, IH].
Qed.

(* ---------- sextet arithmetic on a group of three bytes ---------- *)
Lemma sextet_bounds a b c : a < 256 -> b < 256 -> c < 256 ->
  a / 4 < 64 /\ (a mod 4) * 16 < 64 /\ (a mod 4) * 16 + b / 16 < 64 /\
  (b mod 16) * 4 < 64 /\ (b mod 16) * 4 + c / 64 < 64 /\ c mod 64 < 64.
Proof. intros. lia. Qed.

Lemma regroup1 a : a / 4 * 4 + (a mod 4) * 16 / 16 = a.
Proof. lia. Qed.

Lemma regroup_a a b : b < 256 -> a / 4 * 4 + ((a mod 4) * 16 + b / 16) / 16 = a.
Proof. intros. lia. Qed.

Lemma regroup_b2 a b : b < 256 ->
  (((a mod 4) * 16 + b / 16) mod 16) * 16 + (b mod 16) * 4 / 4 = b.
Proof. intros. lia. Qed.

Lemma regroup_b a b c : b < 256 -> c < 256 ->
  (((a mod 4) * 16 + b / 16) mod 16) * 16 + ((b mod 16) * 4 + c / 64) / 4 = b.
Proof. intros. lia. Qed.

Lemma regroup_c b c : c < 256 ->
  (((b mod 16) * 4 + c / 64) mod 4) * 64 + c mod 64 = c.
Proof. intros. lia. Qed.

(* ---------- the round trip ---------- *)
Theorem b64_roundtrip : forall bs,
  Forall (fun b => b < 256) bs -> b64_decode (b64_encode bs) = Some bs.
Proof.
  induction bs as [|a|a b|a b c r IH] using list_ind3; intros Hb.
  - reflexivity.
  - inversion Hb as [|? ? Ha _]; subst.
    destruct (sextet_bounds a 0 0 Ha ltac:(lia) ltac:(lia)) as (S0 & S1 & _).
    cbn [b64_encode b64_decode].
    rewrite (b64_val_char _ S0), (b64_val_char _ S1), !N.eqb_refl, regroup1. reflexivity.
  - inversion Hb as [|? ? Ha Hb']; subst. inversion Hb' as [|? ? Hbb _]; subst.
    destruct (sextet_bounds a b 0 Ha Hbb ltac:(lia)) as (S0 & _ & S1 & S2 & _).
    cbn [b64_encode b64_decode].
    rewrite (b64_val_char _ S0), (b64_val_char _ S1), (b64_char_not_pad _ S2),
            (b64_val_char _ S2), N.eqb_refl, (regroup_a a b Hbb), (regroup_b2 a b Hbb). reflexivity.
  - inversion Hb as [|? ? Ha Hb']; subst. inversion Hb' as [|? ? Hbb Hb'']; subst.
    inversion Hb'' as [|? ? Hc Hr]; subst.
    destruct (sextet_bounds a b c Ha Hbb Hc) as (S0 & _ & S1 & _ & S2 & S3).
    cbn [b64_encode b64_decode].
    rewrite (b64_val_char _ S0), (b64_val_char _ S1), (b64_char_not_pad _ S2),
            (b64_val_char _ S2), (b64_char_not_pad _ S3), (b64_val_char _ S3), (IH Hr),
            (regroup_a a b Hbb), (regroup_b a b c Hbb Hc), (regroup_c b c Hc). reflexivity.
Qed.

(* the encoding has 4*ceil(n/3) characters, all plain ASCII *)
Lemma b64_encode_length : forall bs,
  length (b64_encode bs) = (4 * ((length bs + 2) / 3))%nat.
Proof.
  induction bs as [|a|a b|a b c r IH] using list_ind3; try reflexivity.
  cbn [b64_encode length]. rewrite IH.
  replace (S (S (S (length r))) + 2)%nat with (length r + 2 + 1 * 3)%nat by lia.
  rewrite Nat.div_add by lia. lia.
Qed.

Lemma b64_encode_ascii : forall bs,
  Forall (fun b => b < 256) bs -> Forall (fun c => c < 128) (b64_encode bs).
Proof.
  induction bs as [|a|a b|a b c r IH] using list_ind3; intros Hb.
  - constructor.
  - inversion Hb as [|? ? Ha _]; subst.
    destruct (sextet_bounds a 0 0 Ha ltac:(lia) ltac:(lia)) as (S0 & S1 & _).
    cbn [b64_encode]. repeat constructor; try (apply b64_char_ascii; assumption); unfold b64_pad; lia.
  - inversion Hb as [|? ? Ha Hb']; subst. inversion Hb' as [|? ? Hbb _]; subst.
    destruct (sextet_bounds a b 0 Ha Hbb ltac:(lia)) as (S0 & _ & S1 & S2 & _).
    cbn [b64_encode]. repeat constructor; try (apply b64_char_ascii; assumption); unfold b64_pad; lia.
  - inversion Hb as [|? ? Ha Hb']; subst. inversion Hb' as [|? ? Hbb Hb'']; subst.
    inversion Hb'' as [|? ? Hc Hr]; subst.
    destruct (sextet_bounds a b c Ha Hbb Hc) as (S0 & _ & S1 & _ & S2 & S3).
    cbn [b64_encode]. repeat (constructor; [apply b64_char_ascii; assumption|]). apply IH, Hr.
Qed.
