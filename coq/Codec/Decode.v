(* Reference decoder for the LLRP binary layout, driven by the same table as the encoder.
   Sequential (schema-ordered, LL(1) on the next type code); total, on explicit fuel. *)
From Coq Require Import NArith List Bool.
From LLRP Require Import Codec.Schema Codec.Encode.
Import ListNotations.
Open Scope N_scope.

(* take exactly n elements or fail *)
Fixpoint take_exact {A} (n : nat) (l : list A) : option (list A * list A) :=
  match n with
  | O => Some ([], l)
  | S k => match l with
           | [] => None
           | x :: r => match take_exact k r with
                       | Some (a, b) => Some (x :: a, b)
                       | None => None end
           end
  end.

(* split into [cnt] chunks of [esize] bytes, each read big-endian *)
Fixpoint take_nums (cnt esize : nat) (l : bytes) : option (list N * bytes) :=
  match cnt with
  | O => Some ([], l)
  | S k => match take_exact esize l with
           | None => None
           | Some (e, r) => match take_nums k esize r with
                            | Some (ns, r') => Some (from_be e 0 :: ns, r')
                            | None => None end
           end
  end.

Definition take_u16 (l : bytes) : option (N * bytes) :=
  match l with
  | a :: b :: r => Some (a * 256 + b, r)
  | _ => None
  end.

Fixpoint dec_fields (fs : list fkind) (data : bytes) : option (list value * bytes) :=
  match fs with
  | [] => Some ([], data)
  | f :: fs' =>
    match f with
    | FNum size =>
        match take_exact size data with
        | None => None
        | Some (e, r) => match dec_fields fs' r with
                         | Some (vs, r') => Some (VNum (from_be e 0) :: vs, r')
                         | None => None end
        end
    | FBits bits bit partial =>
        match data with
        | [] => None
        | b :: r =>
          let v := VNum ((N.shiftr b (N.of_nat (8 - bits - bit))) mod 2 ^ N.of_nat bits) in
          match dec_fields fs' (if partial then data else r) with
          | Some (vs, r') => Some (v :: vs, r')
          | None => None end
        end
    | FPad n =>
        match take_exact n data with
        | None => None
        | Some (_, r) => dec_fields fs' r
        end
    | FFixed n =>
        match take_exact n data with
        | None => None
        | Some (e, r) => match dec_fields fs' r with
                         | Some (vs, r') => Some (VBytes e :: vs, r')
                         | None => None end
        end
    | FCounted esize =>
        match take_u16 data with
        | None => None
        | Some (cnt, r) =>
          match take_nums (N.to_nat cnt) esize r with
          | None => None
          | Some (ns, r1) => match dec_fields fs' r1 with
                             | Some (vs, r') => Some (VNums ns :: vs, r')
                             | None => None end
          end
        end
    | FString =>
        match take_u16 data with
        | None => None
        | Some (cnt, r) =>
          match take_exact (N.to_nat cnt) r with
          | None => None
          | Some (e, r1) => match dec_fields fs' r1 with
                            | Some (vs, r') => Some (VBytes e :: vs, r')
                            | None => None end
          end
        end
    | FBitArr =>
        match take_u16 data with
        | None => None
        | Some (nbits, r) =>
          match take_exact (N.to_nat (bitarr_nbytes nbits)) r with
          | None => None
          | Some (e, r1) => match dec_fields fs' r1 with
                            | Some (vs, r') => Some (VBitArr nbits e :: vs, r')
                            | None => None end
          end
        end
    | FRest =>
        match dec_fields fs' [] with
        | Some (vs, r') => Some (VBytes data :: vs, r')
        | None => None end
    end
  end.

(* the type code the next parameter announces: (is_tv, id) *)
Definition next_type (data : bytes) : option (bool * N) :=
  match data with
  | b0 :: r =>
    if 128 <=? b0 then Some (true, b0 - 128)
    else match r with
         | b1 :: _ :: _ :: _ => Some (false, b0 * 256 + b1)
         | _ => None end
  | [] => None
  end.

Definition is_tv_kind (k : ckind) : bool := match k with KTV => true | _ => false end.

Definition announces (t : table) (data : bytes) (tid : N) : bool :=
  match find_container t false tid, next_type data with
  | Some c, Some (tv, id) => Bool.eqb tv (is_tv_kind (c_kind c)) && (id =? tid)
  | _, _ => false
  end.

(* size in bytes of the fields of a TV parameter (all fixed) *)
Fixpoint fixed_fields_size (fs : list fkind) : option nat :=
  match fs with
  | [] => Some O
  | f :: r =>
    match fixed_fields_size r with
    | None => None
    | Some n =>
      match f with
      | FNum s => Some (s + n)%nat
      | FBits _ _ partial => Some (if partial then n else S n)
      | FPad s => Some (s + n)%nat
      | FFixed s => Some (s + n)%nat
      | _ => None
      end
    end
  end.

(* repeat an element decoder while the next parameter announces [tid]; [n] bounds iterations *)
Fixpoint dec_many (t : table) (d : bytes -> option (value * bytes)) (tid : N) (n : nat)
         (data : bytes) : option (list value * bytes) :=
  match n with
  | O => if announces t data tid then None else Some ([], data)
  | S k =>
    if announces t data tid then
      match d data with
      | None => None
      | Some (v, r) => match dec_many t d tid k r with
                       | Some (vs, r') => Some (v :: vs, r')
                       | None => None end
      end
    else Some ([], data)
  end.

(* sub-parameters of a container, given the decoder [d] for one parameter of a given type
   and the zero value [z] of a parameter type *)
Fixpoint dec_subs (t : table) (d : N -> bytes -> option (value * bytes)) (z : N -> value)
         (subs : list sub) (data : bytes) (chosen : N) : option (list value * bytes) :=
  match subs with
  | [] => Some ([], data)
  | s :: subs' =>
    match s_arity s with
    | One =>
      if s_group s =? 0 then
        match d (s_tid s) data with
        | None => None
        | Some (v, r) => match dec_subs t d z subs' r chosen with
                         | Some (vs, r') => Some (v :: vs, r')
                         | None => None end
        end
      else if negb (chosen =? s_group s) && announces t data (s_tid s) then
        match d (s_tid s) data with
        | None => None
        | Some (v, r) => match dec_subs t d z subs' r (s_group s) with
                         | Some (vs, r') => Some (v :: vs, r')
                         | None => None end
        end
      else
        match dec_subs t d z subs' data chosen with
        | Some (vs, r') => Some (z (s_tid s) :: vs, r')
        | None => None end
    | Opt =>
      if announces t data (s_tid s) then
        match d (s_tid s) data with
        | None => None
        | Some (v, r) => match dec_subs t d z subs' r chosen with
                         | Some (vs, r') => Some (VOpt (Some v) :: vs, r')
                         | None => None end
        end
      else
        match dec_subs t d z subs' data chosen with
        | Some (vs, r') => Some (VOpt None :: vs, r')
        | None => None end
    | Many =>
      match dec_many t (d (s_tid s)) (s_tid s) (length data) data with
      | None => None
      | Some (l, r) => match dec_subs t d z subs' r chosen with
                       | Some (vs, r') => Some (VList l :: vs, r')
                       | None => None end
      end
    end
  end.

(* fields then sub-parameters, everything consumed *)
Definition dec_body (t : table) (d : N -> bytes -> option (value * bytes)) (z : N -> value)
           (c : container) (msg : bool) (body : bytes) : option value :=
  match dec_fields (c_fields c) body with
  | None => None
  | Some (fvs, r) =>
    match dec_subs t d z (c_subs c) r 0 with
    | Some (svs, []) => Some (VStruct msg (c_tid c) fvs svs)
    | _ => None
    end
  end.

(* dec_param fuel tid data: decode one parameter of type tid at the head of data *)
Fixpoint dec_param (t : table) (fuel : nat) (tid : N) (data : bytes) {struct fuel}
  : option (value * bytes) :=
  match fuel with
  | O => None
  | S k =>
    match find_container t false tid with
    | None => None
    | Some c =>
      match c_kind c with
      | KMsg => None
      | KTV =>
        match data, fixed_fields_size (c_fields c) with
        | b0 :: r, Some n =>
          if b0 =? tid + 128 then
            match take_exact n r with
            | None => None
            | Some (body, rest) =>
              match dec_body t (dec_param t k) (zero_param t k) c false body with
              | Some v => Some (v, rest)
              | None => None end
            end
          else None
        | _, _ => None
        end
      | KTLV =>
        match data with
        | b0 :: b1 :: l0 :: l1 :: r =>
          let sz := l0 * 256 + l1 in
          if (b0 * 256 + b1 =? tid) && (4 <=? sz) then
            match take_exact (N.to_nat (sz - 4)) r with
            | None => None
            | Some (body, rest) =>
              match dec_body t (dec_param t k) (zero_param t k) c false body with
              | Some v => Some (v, rest)
              | None => None end
            end
          else None
        | _ => None
        end
      end
    end
  end.

(* decode a message payload *)
Definition dec_msg (t : table) (fuel : nat) (tid : N) (data : bytes) : option value :=
  match find_container t true tid with
  | None => None
  | Some c => dec_body t (dec_param t fuel) (zero_param t fuel) c true data
  end.

(* decode a full container: a message payload, or a parameter including its own header *)
Definition decode (t : table) (fuel : nat) (msg : bool) (tid : N) (data : bytes) : option value :=
  if msg then dec_msg t fuel tid data
  else match dec_param t fuel tid data with
       | Some (v, []) => Some v
       | _ => None
       end.
