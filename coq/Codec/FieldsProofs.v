From Coq Require Import NArith ZArith List Bool Arith Lia ZifyN ZifyNat ZifyBool.
From LLRP Require Import Codec.Schema Codec.Encode Codec.Decode Codec.Wf Codec.BytesLemmas.
Import ListNotations.
Open Scope N_scope.
Ltac Zify.zify_post_hook ::= Z.div_mod_to_equations.

(* ---------- arithmetic of one sub-byte field ---------- *)
Lemma testbit_low_mul a k n : n < k -> N.testbit (a * 2 ^ k) n = false.
Proof. intros H. rewrite <- N.shiftl_mul_pow2. apply N.shiftl_spec_low, H. Qed.

Lemma testbit_high_small b k n : b < 2 ^ k -> k <= n -> N.testbit b n = false.
Proof.
  intros Hb Hn. destruct (N.eq_dec b 0) as [->|Hz]; [apply N.bits_0|].
  apply N.bits_above_log2. apply N.lt_le_trans with k; [|exact Hn].
  apply N.log2_lt_pow2; lia.
Qed.

Lemma lor_disjoint_add a b k : a mod 2 ^ k = 0 -> b < 2 ^ k -> N.lor a b = a + b.
Proof.
  intros Ha Hb.
  assert (Hk : 2 ^ k <> 0) by (apply N.pow_nonzero; discriminate).
  assert (Ea : a = a / 2 ^ k * 2 ^ k).
  { pose proof (N.div_mod a (2 ^ k) Hk) as E. rewrite Ha in E. lia. }
  assert (L : N.land a b = 0).
  { apply N.bits_inj. intros n. rewrite N.land_spec, N.bits_0.
    destruct (N.lt_ge_cases n k) as [H|H].
    - rewrite Ea, testbit_low_mul by exact H. reflexivity.
    - rewrite (testbit_high_small b k n Hb H). apply andb_false_r. }
  rewrite <- N.lxor_lor by exact L. symmetry. apply N.add_nocarry_lxor, L.
Qed.

Lemma bits_step acc x p q w :
  p <> 0 -> q <> 0 -> w <> 0 -> acc mod (p * q * w) = 0 -> x < q ->
  (acc + x * p) mod p = 0 /\
  ((acc + x * p) / p) mod q = x /\
  (acc + x * p) / (p * q * w) = acc / (p * q * w).
Proof.
  intros Hp Hq Hw Hacc Hx.
  assert (Hm : p * q * w <> 0) by nia.
  pose proof (N.div_mod acc (p * q * w) Hm) as E. rewrite Hacc, N.add_0_r in E.
  set (k := acc / (p * q * w)) in *.
  assert (E1 : acc + x * p = (k * q * w + x) * p) by nia.
  repeat split.
  - rewrite E1. apply N.mod_mul, Hp.
  - rewrite E1, N.div_mul by exact Hp.
    replace (k * q * w + x) with (x + (k * w) * q) by lia.
    rewrite N.mod_add by exact Hq. apply N.mod_small, Hx.
  - replace (acc + x * p) with (x * p + k * (p * q * w)) by nia.
    rewrite N.div_add by exact Hm.
    assert (H1 : x * p < p * q) by (rewrite (N.mul_comm p q); apply N.mul_lt_mono_pos_r; lia).
    assert (H2 : p * q <= p * q * w) by (rewrite <- (N.mul_1_r (p * q)) at 1; apply N.mul_le_mono_l; lia).
    rewrite N.div_small by lia. reflexivity.
Qed.

Lemma pow2_split (a b : nat) : 2 ^ N.of_nat (a + b) = 2 ^ N.of_nat a * 2 ^ N.of_nat b.
Proof. rewrite Nnat.Nat2N.inj_add, N.pow_add_r. reflexivity. Qed.

Lemma pow2_nz n : 2 ^ n <> 0.
Proof. apply N.pow_nonzero. discriminate. Qed.

Lemma pow2_le_256 (k : nat) : (k <= 8)%nat -> 2 ^ N.of_nat k <= 256.
Proof. intros H. change 256 with (2 ^ 8). apply N.pow_le_mono_r; lia. Qed.

(* facts about one FBits field inside a byte whose [used] high bits are taken *)
Lemma bits_field_facts (used bits bit : nat) acc x :
  (used <= bit)%nat -> (1 <= bits)%nat -> (bit + bits <= 8)%nat ->
  acc < 256 -> acc mod 2 ^ N.of_nat (8 - used) = 0 -> x < 2 ^ N.of_nat bits ->
  let s := N.of_nat (8 - bits - bit) in
  let acc' := N.lor acc ((N.shiftl (x mod 256) s) mod 256) in
  acc' = acc + x * 2 ^ s /\ acc' < 256 /\ acc' mod 2 ^ s = 0 /\
  (acc' / 2 ^ s) mod 2 ^ N.of_nat bits = x /\
  acc' / 2 ^ N.of_nat (8 - used) = acc / 2 ^ N.of_nat (8 - used).
Proof.
  intros Hu Hb1 Hb8 Hacc Hmod Hx s acc'.
  set (p := 2 ^ s). set (q := 2 ^ N.of_nat bits). set (w := 2 ^ N.of_nat (bit - used)).
  assert (Hpqw : 2 ^ N.of_nat (8 - used) = p * q * w).
  { unfold p, q, w, s. rewrite <- !pow2_split. f_equal. lia. }
  assert (Hp : p <> 0) by apply pow2_nz. assert (Hq : q <> 0) by apply pow2_nz.
  assert (Hw : w <> 0) by apply pow2_nz.
  assert (Hpq : p * q = 2 ^ N.of_nat (8 - bit)).
  { unfold p, q, s. rewrite <- pow2_split. f_equal. lia. }
  assert (Hpq256 : p * q <= 256) by (rewrite Hpq; apply pow2_le_256; lia).
  assert (Hq256 : q <= 256) by (apply pow2_le_256; lia).
  assert (Hxp : x * p < p * q) by (rewrite (N.mul_comm p q); apply N.mul_lt_mono_pos_r; lia).
  assert (Hpqw_ge : p * q <= p * q * w) by (rewrite <- (N.mul_1_r (p * q)) at 1; apply N.mul_le_mono_l; lia).
  assert (E : acc' = acc + x * p).
  { unfold acc'. rewrite (N.mod_small x 256) by lia.
    rewrite N.shiftl_mul_pow2. fold p. rewrite (N.mod_small (x * p) 256) by lia.
    apply (lor_disjoint_add acc (x * p) (N.of_nat (8 - used))); [exact Hmod|].
    rewrite Hpqw. lia. }
  set (W := 2 ^ N.of_nat used).
  assert (HW : p * q * w * W = 256).
  { rewrite <- Hpqw. unfold W. rewrite <- pow2_split. replace (8 - used + used)%nat with 8%nat by lia. reflexivity. }
  rewrite Hpqw in *.
  destruct (bits_step acc x p q w Hp Hq Hw Hmod Hx) as (A & B & C).
  rewrite E. repeat split; try assumption.
  set (m := p * q * w) in *.
  assert (Hm : m <> 0) by (unfold m; apply N.neq_mul_0; split; [apply N.neq_mul_0; split|]; assumption).
  pose proof (N.div_mod acc m Hm) as D. rewrite Hmod, N.add_0_r in D.
  set (k := acc / m) in *.
  assert (Hk : k < W).
  { apply (N.mul_lt_mono_pos_l m); [lia|]. rewrite <- D, HW. exact Hacc. }
  assert (m * (k + 1) <= m * W) by (apply N.mul_le_mono_l; lia).
  lia.
Qed.

Lemma div_div_pow (B acc' : N) (a b : nat) :
  B / 2 ^ N.of_nat a = acc' / 2 ^ N.of_nat a -> (a <= b)%nat ->
  B / 2 ^ N.of_nat b = acc' / 2 ^ N.of_nat b.
Proof.
  intros H Hab. replace b with (a + (b - a))%nat by lia. rewrite pow2_split.
  rewrite <- !N.div_div by apply pow2_nz. now rewrite H.
Qed.

(* ---------- round trip of the field part ---------- *)
Definition rest_ok (fs : list fkind) (rest : bytes) : Prop := has_rest fs = false \/ rest = [].

Lemma rest_ok_tail f fs rest : rest_ok (f :: fs) rest -> rest_ok fs rest.
Proof.
  unfold rest_ok, has_rest. cbn [existsb]. intros [H|H]; [left|right; exact H].
  apply orb_false_iff in H. apply H.
Qed.

Lemma byte_list_app a b : byte_list a -> byte_list b -> byte_list (a ++ b).
Proof. unfold byte_list. intros. apply Forall_app. split; assumption. Qed.

Lemma N_lt_0_256 : 0 < 256. Proof. reflexivity. Qed.

Theorem fields_roundtrip fs : forall vs acc used,
  wf_fspecs used fs = true -> wf_fields fs vs -> (used <= 8)%nat ->
  acc < 256 -> acc mod 2 ^ N.of_nat (8 - used) = 0 ->
  exists bs sz,
    enc_fields fs vs acc = Some (bs, sz) /\ sz = len bs /\ byte_list bs /\
    (used = 0%nat -> forall rest, rest_ok fs rest -> dec_fields fs (bs ++ rest) = Some (vs, rest)) /\
    ((0 < used)%nat -> exists B bs', bs = B :: bs' /\
        B / 2 ^ N.of_nat (8 - used) = acc / 2 ^ N.of_nat (8 - used) /\
        forall rest, rest_ok fs rest -> dec_fields fs (B :: bs' ++ rest) = Some (vs, rest)).
Proof.
  induction fs as [|f fs IH]; intros vs acc used Hs Hv Hu8 Hacc Hmod.
  - cbn in Hs. apply Nat.eqb_eq in Hs. subst used. cbn in Hv. subst vs.
    exists [], 0. cbn. repeat split; try constructor; try lia; intros; try reflexivity.
  - assert (Hacc0 : used = 0%nat -> acc = 0).
    { intros ->. change (2 ^ N.of_nat (8 - 0)) with 256 in Hmod. rewrite N.mod_small in Hmod; lia. }
    destruct f as [size|bits bit partial|n|n|e| | | ].
    + (* FNum *)
      cbn [wf_fspecs] in Hs. apply andb_true_iff in Hs as [Hu Hs]. apply Nat.eqb_eq in Hu. subst used.
      destruct vs as [|v vs]; [contradiction|]. destruct Hv as [Hf Hv].
      destruct v; try contradiction. cbn in Hf.
      destruct (IH vs 0 0%nat Hs Hv (Nat.le_0_l 8) N_lt_0_256 eq_refl) as (bs & sz & E & Hsz & Hb & D & _).
      exists (be size n ++ bs), (N.of_nat size + sz). cbn [enc_fields]. rewrite E.
      repeat split.
      * rewrite len_app, len_be. lia.
      * apply byte_list_app; [apply be_bytes|exact Hb].
      * intros _ rest Hr. cbn [dec_fields]. rewrite <- app_assoc.
        rewrite (take_exact_app_n size) by apply be_length.
        rewrite (D eq_refl rest (rest_ok_tail _ _ _ Hr)). rewrite from_be_be by exact Hf. reflexivity.
      * lia.
    + (* FBits *)
      cbn [wf_fspecs] in Hs. apply andb_true_iff in Hs as [Hs Hs4]. apply andb_true_iff in Hs as [Hs Hs3].
      apply andb_true_iff in Hs as [Hs1 Hs2].
      apply Nat.leb_le in Hs1, Hs2, Hs3.
      destruct vs as [|v vs]; [contradiction|]. destruct Hv as [Hf Hv].
      destruct v as [x| | | | | | ]; try contradiction. cbn in Hf.
      destruct (bits_field_facts used bits bit acc x Hs1 Hs2 Hs3 Hacc Hmod Hf) as (Eacc & Hlt & Hm0 & Hval & Hhigh).
      set (s := N.of_nat (8 - bits - bit)) in *.
      set (acc' := N.lor acc (N.shiftl (x mod 256) s mod 256)) in *.
      cbn [enc_fields]. fold s. fold acc'.
      destruct partial.
      * (* run continues *)
        assert (Hs' : (8 - (bit + bits) = 8 - bits - bit)%nat) by (clear - Hs3; lia).
        assert (Hle8 : (bit + bits <= 8)%nat) by exact Hs3.
        assert (Hm0' : acc' mod 2 ^ N.of_nat (8 - (bit + bits)) = 0) by (rewrite Hs'; exact Hm0).
        destruct (IH vs acc' (bit + bits)%nat Hs4 Hv Hle8 Hlt Hm0') as (bs & sz & E & Hsz & Hb & _ & D).
        assert (Hpos' : (0 < bit + bits)%nat) by (clear - Hs2; lia).
        destruct (D Hpos') as (B & bs' & -> & HB & Dd).
        rewrite Hs' in HB. fold s in HB.
        exists (B :: bs'), sz. rewrite E. repeat split; try assumption.
        -- intros Hu0 rest Hr. cbn [dec_fields app]. fold s. rewrite N.shiftr_div_pow2, HB, Hval.
           rewrite (Dd rest (rest_ok_tail _ _ _ Hr)). reflexivity.
        -- intros Hpos. exists B, bs'. repeat split.
           ++ assert (Hle : (8 - bits - bit <= 8 - used)%nat) by (clear - Hs1; lia).
              apply (div_div_pow B acc' (8 - bits - bit) (8 - used) HB) in Hle. rewrite Hle. exact Hhigh.
           ++ intros rest Hr. cbn [dec_fields app]. fold s. rewrite N.shiftr_div_pow2, HB, Hval.
              rewrite (Dd rest (rest_ok_tail _ _ _ Hr)). reflexivity.
      * (* closes the byte *)
        destruct (IH vs 0 0%nat Hs4 Hv (Nat.le_0_l 8) N_lt_0_256 eq_refl) as (bs & sz & E & Hsz & Hb & D & _).
        exists (acc' :: bs), (1 + sz). rewrite E. repeat split.
        -- rewrite Hsz. clear. unfold len. cbn [length]. lia.
        -- constructor; assumption.
        -- intros _ rest Hr. cbn [dec_fields app]. fold s. rewrite N.shiftr_div_pow2, Hval.
           rewrite (D eq_refl rest (rest_ok_tail _ _ _ Hr)). reflexivity.
        -- intros Hpos. exists acc', bs. repeat split; [exact Hhigh|].
           intros rest Hr. cbn [dec_fields app]. fold s. rewrite N.shiftr_div_pow2, Hval.
           rewrite (D eq_refl rest (rest_ok_tail _ _ _ Hr)). reflexivity.
    + (* FPad *)
      cbn [wf_fspecs] in Hs. apply andb_true_iff in Hs as [Hu Hs]. apply Nat.eqb_eq in Hu. subst used.
      cbn in Hv.
      destruct (IH vs 0 0%nat Hs Hv (Nat.le_0_l 8) N_lt_0_256 eq_refl) as (bs & sz & E & Hsz & Hb & D & _).
      exists (repeat 0 n ++ bs), (N.of_nat n + sz). cbn [enc_fields]. rewrite E. repeat split.
      * rewrite len_app, len_repeat. lia.
      * apply byte_list_app; [|exact Hb]. apply Forall_forall. intros y Hy. apply repeat_spec in Hy. subst. lia.
      * intros _ rest Hr. cbn [dec_fields]. rewrite <- app_assoc.
        rewrite (take_exact_app_n n) by apply repeat_length.
        apply (D eq_refl rest (rest_ok_tail _ _ _ Hr)).
      * lia.
    + (* FFixed *)
      cbn [wf_fspecs] in Hs. apply andb_true_iff in Hs as [Hu Hs]. apply Nat.eqb_eq in Hu. subst used.
      destruct vs as [|v vs]; [contradiction|]. destruct Hv as [Hf Hv].
      destruct v; try contradiction. cbn in Hf. destruct Hf as [Hl Hbl].
      destruct (IH vs 0 0%nat Hs Hv (Nat.le_0_l 8) N_lt_0_256 eq_refl) as (bs' & sz & E & Hsz & Hb & D & _).
      exists (bs ++ bs'), (N.of_nat n + sz). cbn [enc_fields]. rewrite E. repeat split.
      * rewrite len_app. unfold len in *. lia.
      * apply byte_list_app; assumption.
      * intros _ rest Hr. cbn [dec_fields]. rewrite <- app_assoc.
        rewrite (take_exact_app_n n) by exact Hl.
        rewrite (D eq_refl rest (rest_ok_tail _ _ _ Hr)). reflexivity.
      * lia.
    + (* FCounted *)
      cbn [wf_fspecs] in Hs. apply andb_true_iff in Hs as [Hu Hs]. apply Nat.eqb_eq in Hu. subst used.
      destruct vs as [|v vs]; [contradiction|]. destruct Hv as [Hf Hv].
      destruct v; try contradiction. cbn in Hf. destruct Hf as [Hl Hbl].
      destruct (IH vs 0 0%nat Hs Hv (Nat.le_0_l 8) N_lt_0_256 eq_refl) as (bs' & sz & E & Hsz & Hb & D & _).
      exists (be 2 (len ns) ++ flat_map (be e) ns ++ bs'), (2 + len ns * N.of_nat e + sz).
      cbn [enc_fields]. rewrite E. repeat split.
      * rewrite !len_app, len_be, len_flat_be. lia.
      * apply byte_list_app; [apply be_bytes|]. apply byte_list_app; [|exact Hb].
        clear. induction ns as [|y l IHl]; cbn [flat_map]; [constructor|].
        apply byte_list_app; [apply be_bytes|exact IHl].
      * intros _ rest Hr. cbn [dec_fields]. rewrite <- !app_assoc.
        rewrite be2_u16 by exact Hl. rewrite len_nat.
        rewrite take_nums_flat by exact Hbl.
        rewrite (D eq_refl rest (rest_ok_tail _ _ _ Hr)). reflexivity.
      * lia.
    + (* FString *)
      cbn [wf_fspecs] in Hs. apply andb_true_iff in Hs as [Hu Hs]. apply Nat.eqb_eq in Hu. subst used.
      destruct vs as [|v vs]; [contradiction|]. destruct Hv as [Hf Hv].
      destruct v; try contradiction. cbn in Hf. destruct Hf as [Hl Hbl].
      destruct (IH vs 0 0%nat Hs Hv (Nat.le_0_l 8) N_lt_0_256 eq_refl) as (bs' & sz & E & Hsz & Hb & D & _).
      exists (be 2 (len bs) ++ bs ++ bs'), (2 + len bs + sz).
      cbn [enc_fields]. rewrite E. repeat split.
      * rewrite !len_app, len_be. lia.
      * apply byte_list_app; [apply be_bytes|]. apply byte_list_app; assumption.
      * intros _ rest Hr. cbn [dec_fields]. rewrite <- !app_assoc.
        rewrite be2_u16 by exact Hl. rewrite len_nat.
        rewrite take_exact_app.
        rewrite (D eq_refl rest (rest_ok_tail _ _ _ Hr)). reflexivity.
      * lia.
    + (* FBitArr *)
      cbn [wf_fspecs] in Hs. apply andb_true_iff in Hs as [Hu Hs]. apply Nat.eqb_eq in Hu. subst used.
      destruct vs as [|v vs]; [contradiction|]. destruct Hv as [Hf Hv].
      destruct v; try contradiction. cbn in Hf. destruct Hf as (Hn & Hl & Hbl).
      destruct (IH vs 0 0%nat Hs Hv (Nat.le_0_l 8) N_lt_0_256 eq_refl) as (bs' & sz & E & Hsz & Hb & D & _).
      exists (be 2 nbits ++ bs ++ bs'), (2 + bitarr_nbytes nbits + sz).
      cbn [enc_fields]. rewrite E. repeat split.
      * rewrite !len_app, len_be. lia.
      * apply byte_list_app; [apply be_bytes|]. apply byte_list_app; assumption.
      * intros _ rest Hr. cbn [dec_fields]. rewrite <- !app_assoc.
        rewrite be2_u16 by exact Hn. rewrite <- Hl, len_nat.
        rewrite take_exact_app.
        rewrite (D eq_refl rest (rest_ok_tail _ _ _ Hr)). reflexivity.
      * lia.
    + (* FRest *)
      cbn [wf_fspecs] in Hs. apply andb_true_iff in Hs as [Hu Hs]. apply Nat.eqb_eq in Hu. subst used.
      destruct fs as [|? ?]; [|discriminate].
      destruct vs as [|v vs]; [contradiction|]. destruct Hv as [Hf Hv].
      destruct v; try contradiction. cbn in Hf. cbn in Hv. subst vs.
      exists (bs ++ []), (len bs + 0). cbn [enc_fields]. repeat split.
      * rewrite app_nil_r. lia.
      * rewrite app_nil_r. exact Hf.
      * intros _ rest Hr. destruct Hr as [Hr|Hr]; [discriminate Hr|]. subst rest.
        cbn [dec_fields]. rewrite !app_nil_r. reflexivity.
      * lia.
Qed.
