From Coq Require Import NArith ZArith List Bool Arith Lia ZifyN ZifyNat ZifyBool.
From LLRP Require Import Base.Bits Codec.Schema Codec.Encode Codec.Decode Codec.Wf
     Codec.BytesLemmas Codec.FieldsProofs Codec.RoundTrip Codec.BitSpec.
Import ListNotations.
Open Scope N_scope.
Ltac Zify.zify_post_hook ::= Z.div_mod_to_equations.

Lemma bits_be_zero w : bits_be w 0 = zeros w.
Proof. induction w as [|w IH]; cbn [bits_be zeros repeat]; [reflexivity|]. rewrite N.bits_0. f_equal. exact IH. Qed.

Lemma bits_be_eq_mod w x y : x mod 2 ^ N.of_nat w = y mod 2 ^ N.of_nat w -> bits_be w x = bits_be w y.
Proof. intros H. rewrite <- (bits_be_mod w x), <- (bits_be_mod w y), H. reflexivity. Qed.

Lemma bytes_bits_be s : forall x, bytes_to_bits (be s x) = bits_be (8 * s) x.
Proof.
  induction s as [|k IH]; intros x; [reflexivity|].
  cbn [be]. rewrite bytes_to_bits_cons, IH.
  replace (8 * S k)%nat with (8 + 8 * k)%nat by lia.
  rewrite <- (bits_be_mod (8 * k) x).
  rewrite bits_be_app by (apply N.mod_lt, pow2_nz).
  apply bits_be_eq_mod.
  rewrite N.shiftr_div_pow2.
  replace (N.of_nat (8 + 8 * k)) with (N.of_nat (8 * k) + 8) by lia.
  rewrite N.pow_add_r. change (2 ^ 8) with 256.
  replace (8 * N.of_nat k) with (N.of_nat (8 * k)) by lia.
  set (m := 2 ^ N.of_nat (8 * k)). assert (Hm : m <> 0) by apply pow2_nz.
  rewrite (N.mod_mul_r x m 256) by (try assumption; discriminate).
  rewrite N.mod_small; [lia|].
  pose proof (N.mod_lt x m Hm). pose proof (N.mod_lt (x / m) 256 ltac:(discriminate)). nia.
Qed.

Lemma bytes_bits_flat e ns : bytes_to_bits (flat_map (be e) ns) = flat_map (bits_be (8 * e)) ns.
Proof.
  induction ns as [|x l IH]; [reflexivity|]. cbn [flat_map].
  rewrite bytes_to_bits_app, bytes_bits_be, IH. reflexivity.
Qed.

Lemma bytes_bits_repeat0 n : bytes_to_bits (repeat 0 n) = zeros (8 * n).
Proof.
  induction n as [|n IH]; [reflexivity|]. cbn [repeat]. rewrite bytes_to_bits_cons, IH.
  rewrite bits_be_zero. unfold zeros. rewrite <- repeat_app. f_equal. lia.
Qed.

Lemma skipn_bits_cons used B r : (used <= 8)%nat ->
  skipn used (bytes_to_bits (B :: r)) = bits_be (8 - used) B ++ bytes_to_bits r.
Proof.
  intros H. rewrite bytes_to_bits_cons, skipn_app, bits_be_length.
  rewrite bits_be_skipn by exact H.
  replace (used - 8)%nat with 0%nat by lia. reflexivity.
Qed.

(* one sub-octet field inside the octet B: reserved zero bits, the field, the rest *)
Lemma byte_run_bits (used bits bit : nat) B x :
  (used <= bit)%nat -> (bit + bits <= 8)%nat ->
  (B / 2 ^ N.of_nat (8 - bits - bit)) mod 2 ^ N.of_nat bits = x ->
  (B / 2 ^ N.of_nat (8 - bit)) mod 2 ^ N.of_nat (bit - used) = 0 ->
  bits_be (8 - used) B =
  zeros (bit - used) ++ bits_be bits x ++ bits_be (8 - bits - bit) B.
Proof.
  intros Hu Hb Hx Hgap.
  set (s := (8 - bits - bit)%nat) in *.
  rewrite <- (bits_be_mod s B).
  rewrite bits_be_app by (apply N.mod_lt, pow2_nz).
  rewrite <- bits_be_zero.
  assert (Hlt : x * 2 ^ N.of_nat s + B mod 2 ^ N.of_nat s < 2 ^ N.of_nat (bits + s)).
  { rewrite pow2_split. pose proof (N.mod_lt B (2 ^ N.of_nat s) (pow2_nz _)) as Hr.
    assert (Hxq : x < 2 ^ N.of_nat bits) by (rewrite <- Hx; apply N.mod_lt, pow2_nz).
    remember (2 ^ N.of_nat s) as p0. remember (2 ^ N.of_nat bits) as q0. remember (B mod p0) as r0.
    clear - Hr Hxq.
    apply N.lt_le_trans with (x * p0 + p0); [lia|].
    replace (x * p0 + p0) with ((x + 1) * p0) by lia. apply N.mul_le_mono_r. lia. }
  rewrite bits_be_app by exact Hlt.
  replace (bit - used + (bits + s))%nat with (8 - used)%nat by (unfold s; lia).
  apply bits_be_eq_mod. rewrite N.mul_0_l, N.add_0_l.
  rewrite (N.mod_small _ _ ) at 1.
  2:{ eapply N.lt_le_trans; [exact Hlt|]. apply N.pow_le_mono_r; [discriminate|unfold s; lia]. }
  (* B mod 2^(8-used) = x*2^s + B mod 2^s *)
  replace (8 - used)%nat with (s + (bits + (bit - used)))%nat by (unfold s; lia).
  rewrite pow2_split. set (p := 2 ^ N.of_nat s). rewrite pow2_split.
  set (q := 2 ^ N.of_nat bits). set (w := 2 ^ N.of_nat (bit - used)).
  assert (Hp : p <> 0) by apply pow2_nz. assert (Hq : q <> 0) by apply pow2_nz.
  assert (Hw : w <> 0) by apply pow2_nz.
  rewrite (N.mod_mul_r B p (q * w)) by (try assumption; apply N.neq_mul_0; split; assumption).
  rewrite (N.mod_mul_r (B / p) q w) by assumption.
  fold p in Hx. fold q in Hx. rewrite Hx.
  replace (B / p / q) with (B / 2 ^ N.of_nat (8 - bit)).
  - fold w in Hgap. rewrite Hgap. lia.
  - rewrite N.div_div by assumption. f_equal. unfold p, q. rewrite <- pow2_split. f_equal. unfold s. lia.
Qed.

(* the gap above a freshly placed field is zero *)
Lemma bits_gap_zero (used bits bit : nat) acc x B :
  (used <= bit)%nat -> (1 <= bits)%nat -> (bit + bits <= 8)%nat ->
  acc mod 2 ^ N.of_nat (8 - used) = 0 -> x < 2 ^ N.of_nat bits ->
  B / 2 ^ N.of_nat (8 - bits - bit) = (acc + x * 2 ^ N.of_nat (8 - bits - bit)) / 2 ^ N.of_nat (8 - bits - bit) ->
  (B / 2 ^ N.of_nat (8 - bit)) mod 2 ^ N.of_nat (bit - used) = 0.
Proof.
  intros Hu Hb1 Hb8 Hmod Hx HB.
  set (p := 2 ^ N.of_nat (8 - bits - bit)) in *. set (q := 2 ^ N.of_nat bits) in *.
  set (w := 2 ^ N.of_nat (bit - used)).
  assert (Hpqw : 2 ^ N.of_nat (8 - used) = p * q * w).
  { unfold p, q, w. rewrite <- !pow2_split. f_equal. lia. }
  assert (Hpq : 2 ^ N.of_nat (8 - bit) = p * q).
  { unfold p, q. rewrite <- pow2_split. f_equal. lia. }
  assert (Hp : p <> 0) by apply pow2_nz. assert (Hq : q <> 0) by apply pow2_nz.
  assert (Hw : w <> 0) by apply pow2_nz.
  rewrite Hpqw in Hmod. rewrite Hpq.
  rewrite <- N.div_div by assumption. rewrite HB.
  assert (Hm : p * q * w <> 0) by (apply N.neq_mul_0; split; [apply N.neq_mul_0; split|]; assumption).
  pose proof (N.div_mod acc (p * q * w) Hm) as E. rewrite Hmod, N.add_0_r in E.
  set (k := acc / (p * q * w)) in *.
  replace (acc + x * p) with ((k * w * q + x) * p) by nia.
  rewrite N.div_mul by exact Hp.
  replace (k * w * q + x) with (x + (k * w) * q) by lia.
  rewrite N.div_add by exact Hq. rewrite (N.div_small x q) by exact Hx.
  rewrite N.add_0_l. apply N.mod_mul, Hw.
Qed.

Lemma len_lenN {A} (l : list A) : len l = lenN l.
Proof. reflexivity. Qed.

Theorem fields_bits fs : forall vs acc used bs sz,
  wf_fspecs used fs = true -> wf_fields fs vs -> (used <= 8)%nat ->
  acc < 256 -> acc mod 2 ^ N.of_nat (8 - used) = 0 ->
  enc_fields fs vs acc = Some (bs, sz) ->
  ((0 < used)%nat -> exists B bs', bs = B :: bs' /\
      B / 2 ^ N.of_nat (8 - used) = acc / 2 ^ N.of_nat (8 - used)) /\
  field_bits fs vs used = Some (skipn used (bytes_to_bits bs)).
Proof.
  induction fs as [|f fs IH]; intros vs acc used bs sz Hs Hv Hu8 Hacc Hmod E.
  - cbn in Hs. apply Nat.eqb_eq in Hs. subst used. cbn in Hv. subst vs.
    cbn in E. injection E as <- <-. split; [intros; lia|reflexivity].
  - destruct f as [size|bits bit partial|n|n|e| | | ].
    + cbn [wf_fspecs] in Hs. apply andb_true_iff in Hs as [Hu Hs]. apply Nat.eqb_eq in Hu. subst used.
      destruct vs as [|v vs]; [contradiction|]. destruct Hv as [Hf Hv].
      destruct v; try contradiction. cbn [enc_fields] in E.
      destruct (enc_fields fs vs 0) as [[r rz]|] eqn:Er; [|discriminate]. injection E as <- <-.
      destruct (IH vs 0 0%nat r rz Hs Hv (Nat.le_0_l 8) N_lt_0_256 eq_refl Er) as [_ Hb].
      split; [intros; lia|]. cbn [field_bits skipn] in *. rewrite Hb. cbn [option_map].
      rewrite bytes_to_bits_app, bytes_bits_be. reflexivity.
    + cbn [wf_fspecs] in Hs. apply andb_true_iff in Hs as [Hs Hs4]. apply andb_true_iff in Hs as [Hs Hs3].
      apply andb_true_iff in Hs as [Hs1 Hs2]. apply Nat.leb_le in Hs1, Hs2, Hs3.
      destruct vs as [|v vs]; [contradiction|]. destruct Hv as [Hf Hv].
      destruct v as [x| | | | | | ]; try contradiction. cbn in Hf.
      destruct (bits_field_facts used bits bit acc x Hs1 Hs2 Hs3 Hacc Hmod Hf) as (Eacc & Hlt & Hm0 & Hval & Hhigh).
      cbn [enc_fields] in E. cbn [field_bits].
      set (s := N.of_nat (8 - bits - bit)) in *.
      set (acc' := N.lor acc (N.shiftl (x mod 256) s mod 256)) in *.
      assert (Hs' : (8 - (bit + bits) = 8 - bits - bit)%nat) by (clear - Hs3; lia).
      destruct partial.
      * assert (Hm0' : acc' mod 2 ^ N.of_nat (8 - (bit + bits)) = 0) by (rewrite Hs'; exact Hm0).
        assert (Hpos' : (0 < bit + bits)%nat) by (clear - Hs2; lia).
        destruct (IH vs acc' (bit + bits)%nat bs sz Hs4 Hv Hs3 Hlt Hm0' E) as [D Hb].
        destruct (D Hpos') as (B & bs' & -> & HB). rewrite Hs' in HB. fold s in HB.
        assert (Hle : (8 - bits - bit <= 8 - used)%nat) by (clear - Hs1; lia).
        pose proof (div_div_pow B acc' (8 - bits - bit) (8 - used) HB Hle) as HBhigh.
        split; [intros _; exists B, bs'; split; [reflexivity|rewrite HBhigh; exact Hhigh]|].
        rewrite Hb. cbn [option_map]. f_equal.
        rewrite !skipn_bits_cons by (clear - Hs3 Hu8; lia). rewrite Hs'.
        rewrite (byte_run_bits used bits bit B x Hs1 Hs3).
        -- rewrite <- !app_assoc. reflexivity.
        -- fold s. rewrite HB. exact Hval.
        -- apply (bits_gap_zero used bits bit acc x B Hs1 Hs2 Hs3 Hmod Hf). fold s. rewrite HB, Eacc. reflexivity.
      * destruct (enc_fields fs vs 0) as [[r rz]|] eqn:Er; [|discriminate]. injection E as <- <-.
        destruct (IH vs 0 0%nat r rz Hs4 Hv (Nat.le_0_l 8) N_lt_0_256 eq_refl Er) as [_ Hb].
        split; [intros _; exists acc', r; split; [reflexivity|exact Hhigh]|].
        cbn [skipn] in Hb. rewrite Hb. cbn [option_map]. f_equal.
        rewrite skipn_bits_cons by exact Hu8.
        rewrite (byte_run_bits used bits bit acc' x Hs1 Hs3).
        -- rewrite <- !app_assoc. f_equal. f_equal. f_equal.
           rewrite <- (bits_be_mod (8 - bits - bit) acc'). fold s. rewrite Hm0. apply bits_be_zero.
        -- fold s. exact Hval.
        -- apply (bits_gap_zero used bits bit acc x acc' Hs1 Hs2 Hs3 Hmod Hf). fold s. rewrite Eacc. reflexivity.
    + cbn [wf_fspecs] in Hs. apply andb_true_iff in Hs as [Hu Hs]. apply Nat.eqb_eq in Hu. subst used.
      cbn in Hv. cbn [enc_fields] in E.
      destruct (enc_fields fs vs 0) as [[r rz]|] eqn:Er; [|discriminate]. injection E as <- <-.
      destruct (IH vs 0 0%nat r rz Hs Hv (Nat.le_0_l 8) N_lt_0_256 eq_refl Er) as [_ Hb].
      split; [intros; lia|]. cbn [field_bits skipn] in *. rewrite Hb. cbn [option_map].
      rewrite bytes_to_bits_app, bytes_bits_repeat0. reflexivity.
    + cbn [wf_fspecs] in Hs. apply andb_true_iff in Hs as [Hu Hs]. apply Nat.eqb_eq in Hu. subst used.
      destruct vs as [|v vs]; [contradiction|]. destruct Hv as [Hf Hv].
      destruct v; try contradiction. cbn [enc_fields] in E.
      destruct (enc_fields fs vs 0) as [[r rz]|] eqn:Er; [|discriminate]. injection E as <- <-.
      destruct (IH vs 0 0%nat r rz Hs Hv (Nat.le_0_l 8) N_lt_0_256 eq_refl Er) as [_ Hb].
      split; [intros; lia|]. cbn [field_bits skipn] in *. rewrite Hb. cbn [option_map].
      rewrite bytes_to_bits_app. reflexivity.
    + cbn [wf_fspecs] in Hs. apply andb_true_iff in Hs as [Hu Hs]. apply Nat.eqb_eq in Hu. subst used.
      destruct vs as [|v vs]; [contradiction|]. destruct Hv as [Hf Hv].
      destruct v; try contradiction. cbn [enc_fields] in E.
      destruct (enc_fields fs vs 0) as [[r rz]|] eqn:Er; [|discriminate]. injection E as <- <-.
      destruct (IH vs 0 0%nat r rz Hs Hv (Nat.le_0_l 8) N_lt_0_256 eq_refl Er) as [_ Hb].
      split; [intros; lia|]. cbn [field_bits skipn] in *. rewrite Hb. cbn [option_map].
      rewrite !bytes_to_bits_app, bytes_bits_be, bytes_bits_flat. reflexivity.
    + cbn [wf_fspecs] in Hs. apply andb_true_iff in Hs as [Hu Hs]. apply Nat.eqb_eq in Hu. subst used.
      destruct vs as [|v vs]; [contradiction|]. destruct Hv as [Hf Hv].
      destruct v; try contradiction. cbn [enc_fields] in E.
      destruct (enc_fields fs vs 0) as [[r rz]|] eqn:Er; [|discriminate]. injection E as <- <-.
      destruct (IH vs 0 0%nat r rz Hs Hv (Nat.le_0_l 8) N_lt_0_256 eq_refl Er) as [_ Hb].
      split; [intros; lia|]. cbn [field_bits skipn] in *. rewrite Hb. cbn [option_map].
      rewrite !bytes_to_bits_app, bytes_bits_be. reflexivity.
    + cbn [wf_fspecs] in Hs. apply andb_true_iff in Hs as [Hu Hs]. apply Nat.eqb_eq in Hu. subst used.
      destruct vs as [|v vs]; [contradiction|]. destruct Hv as [Hf Hv].
      destruct v; try contradiction. cbn [enc_fields] in E.
      destruct (enc_fields fs vs 0) as [[r rz]|] eqn:Er; [|discriminate]. injection E as <- <-.
      destruct (IH vs 0 0%nat r rz Hs Hv (Nat.le_0_l 8) N_lt_0_256 eq_refl Er) as [_ Hb].
      split; [intros; lia|]. cbn [field_bits skipn] in *. rewrite Hb. cbn [option_map].
      rewrite !bytes_to_bits_app, bytes_bits_be. reflexivity.
    + cbn [wf_fspecs] in Hs. apply andb_true_iff in Hs as [Hu Hs]. apply Nat.eqb_eq in Hu. subst used.
      destruct vs as [|v vs]; [contradiction|]. destruct Hv as [Hf Hv].
      destruct v; try contradiction. cbn [enc_fields] in E.
      destruct (enc_fields fs vs 0) as [[r rz]|] eqn:Er; [|discriminate]. injection E as <- <-.
      destruct (IH vs 0 0%nat r rz Hs Hv (Nat.le_0_l 8) N_lt_0_256 eq_refl Er) as [_ Hb].
      split; [intros; lia|]. cbn [field_bits skipn] in *. rewrite Hb. cbn [option_map].
      rewrite bytes_to_bits_app. reflexivity.
Qed.
