From Coq Require Import NArith ZArith List Bool Arith Lia ZifyN ZifyNat ZifyBool.
From LLRP Require Import Base.Bits Codec.Schema Codec.Encode Codec.Decode Codec.Wf
     Codec.BytesLemmas Codec.FieldsProofs Codec.RoundTrip Codec.BitSpec.
Import ListNotations.
Open Scope N_scope.
Ltac Zify.zify_post_hook ::= Z.div_mod_to_equations.

Lemma bits_be_zero w : bits_be w 0 = zeros w.
Proof. induction w as [|w IH]; cbn [bits_be zeros repeat]; [reflexivity|]. rewrite N.bits_0. f_equal. exact IH. Qed.

Lemma bits_be_eq_mod w x y : x mod 2 ^ N.of_nat w = y mod 2 ^ N.of_nat w -> bits_be w x = bits_be w y.
Proof. intros H. rewrite <- (bits_be_mod w x), <- (bits_be_mod w y), H. reflexivity. Qed.

Lemma bytes_bits_be s : forall x, bytes_to_bits (be s x) = bits_be (8 * s) x.
Proof.
  induction s as [|k IH]; intros x; [reflexivity|].
  cbn [be]. rewrite bytes_to_bits_cons, IH.
  replace (8 * S k)%nat with (8 + 8 * k)%nat by lia.
  rewrite <- (bits_be_mod (8 * k) x).
  rewrite bits_be_app by (apply N.mod_lt, pow2_nz).
  apply bits_be_eq_mod.
  rewrite N.shiftr_div_pow2.
  replace (N.of_nat (8 + 8 * k)) with (N.of_nat (8 * k) + 8) by lia.
  rewrite N.pow_add_r. change (2 ^ 8) with 256.
  replace (8 * N.of_nat k) with (N.of_nat (8 * k)) by lia.
  set (m := 2 ^ N.of_nat (8 * k)). assert (Hm : m <> 0) by apply pow2_nz.
  rewrite (N.mod_mul_r x m 256) by (try assumption; discriminate).
  rewrite N.mod_small; [lia|].
  pose proof (N.mod_lt x m Hm). pose proof (N.mod_lt (x / m) 256 ltac:(discriminate)). nia.
Qed.

Lemma bytes_bits_flat e ns : bytes_to_bits (flat_map (be e) ns) = flat_map (bits_be (8 * e)) ns.
Proof.
  induction ns as [|x l IH]; [reflexivity|]. cbn [flat_map].
  rewrite bytes_to_bits_app, bytes_bits_be, IH. reflexivity.
Qed.

Lemma bytes_bits_repeat0 n : bytes_to_bits (repeat 0 n) = zeros (8 * n).
Proof.
  induction n as [|n IH]; [reflexivity|]. cbn [repeat]. rewrite bytes_to_bits_cons, IH.
  rewrite bits_be_zero. unfold zeros. rewrite <- repeat_app. f_equal. lia.
Qed.

Lemma skipn_bits_cons used B r : (used <= 8)%nat ->
  skipn used (bytes_to_bits (B :: r)) = bits_be (8 - used) B ++ bytes_to_bits r.
Proof.
  intros H. rewrite bytes_to_bits_cons, skipn_app, bits_be_length.
  rewrite bits_be_skipn by exact H.
  replace (used - 8)%nat with 0%nat by lia. reflexivity.
Qed.

(* one sub-octet field inside the octet B: reserved zero bits, the field, the rest *)
Lemma byte_run_bits (used bits bit : nat) B x :
  (used <= bit)%nat -> (bit + bits <= 8)%nat ->
  (B / 2 ^ N.of_nat (8 - bits - bit)) mod 2 ^ N.of_nat bits = x ->
  (B / 2 ^ N.of_nat (8 - bit)) mod 2 ^ N.of_nat (bit - used) = 0 ->
  bits_be (8 - used) B =
  zeros (bit - used) ++ bits_be bits x ++ bits_be (8 - bits - bit) B.
Proof.
  intros Hu Hb Hx Hgap.
  remember (8 - bits - bit)%nat as s eqn:Es.
  assert (E1 : (8 - used = (bit - used) + (bits + s))%nat) by (clear - Hu Hb Es; lia).
  assert (E2 : (8 - bit = s + bits)%nat) by (clear - Hu Hb Es; lia).
  set (p := 2 ^ N.of_nat s) in *. set (q := 2 ^ N.of_nat bits) in *.
  set (w := 2 ^ N.of_nat (bit - used)) in *.
  assert (Hp : p <> 0) by apply pow2_nz. assert (Hq : q <> 0) by apply pow2_nz.
  assert (Hw : w <> 0) by apply pow2_nz.
  assert (Hxq : x < q) by (rewrite <- Hx; apply N.mod_lt, Hq).
  assert (Hr : B mod p < p) by (apply N.mod_lt, Hp).
  assert (Hlt : x * p + B mod p < q * p).
  { remember (B mod p) as r0. clear - Hr Hxq.
    apply N.lt_le_trans with (x * p + p); [lia|].
    replace (x * p + p) with ((x + 1) * p) by lia. apply N.mul_le_mono_r. lia. }
  rewrite <- (bits_be_mod s B). fold p.
  rewrite bits_be_app by exact Hr. fold p.
  rewrite <- bits_be_zero.
  rewrite bits_be_app by (rewrite pow2_split; exact Hlt).
  rewrite <- E1. apply bits_be_eq_mod.
  rewrite N.mul_0_l, N.add_0_l. rewrite E1, pow2_split, pow2_split. fold p q w.
  assert (Hqp : q * p <= w * (q * p)).
  { rewrite <- (N.mul_1_l (q * p)) at 1. apply N.mul_le_mono_r. lia. }
  rewrite (N.mod_small (x * p + B mod p)) by lia.
  (* B mod (w*(q*p)) = x*p + B mod p *)
  replace (w * (q * p)) with (p * (q * w)) by lia.
  rewrite (N.mod_mul_r B p (q * w)) by (try assumption; apply N.neq_mul_0; split; assumption).
  rewrite (N.mod_mul_r (B / p) q w) by assumption.
  rewrite Hx.
  replace (B / p / q) with (B / 2 ^ N.of_nat (8 - bit)).
  - rewrite Hgap. lia.
  - rewrite N.div_div by assumption. f_equal. rewrite E2, pow2_split. reflexivity.
Qed.

(* the gap above a freshly placed field is zero *)
Lemma bits_gap_zero (used bits bit : nat) acc x B :
  (used <= bit)%nat -> (1 <= bits)%nat -> (bit + bits <= 8)%nat ->
  acc mod 2 ^ N.of_nat (8 - used) = 0 -> x < 2 ^ N.of_nat bits ->
  B / 2 ^ N.of_nat (8 - bits - bit) = (acc + x * 2 ^ N.of_nat (8 - bits - bit)) / 2 ^ N.of_nat (8 - bits - bit) ->
  (B / 2 ^ N.of_nat (8 - bit)) mod 2 ^ N.of_nat (bit - used) = 0.
Proof.
  intros Hu Hb1 Hb8 Hmod Hx HB.
  set (p := 2 ^ N.of_nat (8 - bits - bit)) in *. set (q := 2 ^ N.of_nat bits) in *.
  set (w := 2 ^ N.of_nat (bit - used)).
  assert (Hpqw : 2 ^ N.of_nat (8 - used) = p * q * w).
  { unfold p, q, w. rewrite <- !pow2_split. f_equal. clear - Hu Hb1 Hb8. lia. }
  assert (Hpq : 2 ^ N.of_nat (8 - bit) = p * q).
  { unfold p, q. rewrite <- pow2_split. f_equal. clear - Hu Hb1 Hb8. lia. }
  assert (Hp : p <> 0) by apply pow2_nz. assert (Hq : q <> 0) by apply pow2_nz.
  assert (Hw : w <> 0) by apply pow2_nz.
  rewrite Hpqw in Hmod. rewrite Hpq.
  rewrite <- N.div_div by assumption. rewrite HB.
  assert (Hm : p * q * w <> 0) by (apply N.neq_mul_0; split; [apply N.neq_mul_0; split|]; assumption).
  pose proof (N.div_mod acc (p * q * w) Hm) as E. rewrite Hmod, N.add_0_r in E.
  remember (acc / (p * q * w)) as k eqn:Ek.
  replace (acc + x * p) with ((k * w * q + x) * p) by (rewrite E; clear; lia).
  rewrite N.div_mul by exact Hp.
  replace (k * w * q + x) with (x + (k * w) * q) by (clear; lia).
  rewrite N.div_add by exact Hq. rewrite (N.div_small x q) by exact Hx.
  rewrite N.add_0_l. apply N.mod_mul, Hw.
Qed.

Lemma len_lenN {A} (l : list A) : len l = lenN l.
Proof. reflexivity. Qed.

Theorem fields_bits fs : forall vs acc used bs sz,
  wf_fspecs used fs = true -> wf_fields fs vs -> (used <= 8)%nat ->
  acc < 256 -> acc mod 2 ^ N.of_nat (8 - used) = 0 ->
  enc_fields fs vs acc = Some (bs, sz) ->
  ((0 < used)%nat -> exists B bs', bs = B :: bs' /\
      B / 2 ^ N.of_nat (8 - used) = acc / 2 ^ N.of_nat (8 - used)) /\
  field_bits fs vs used = Some (skipn used (bytes_to_bits bs)).
Proof.
  induction fs as [|f fs IH]; intros vs acc used bs sz Hs Hv Hu8 Hacc Hmod E.
  - cbn in Hs. apply Nat.eqb_eq in Hs. subst used. cbn in Hv. subst vs.
    cbn in E. injection E as <- <-. split; [intros; lia|reflexivity].
  - destruct f as [size|bits bit partial|n|n|e| | | ].
    + cbn [wf_fspecs] in Hs. apply andb_true_iff in Hs as [Hu Hs]. apply Nat.eqb_eq in Hu. subst used.
      destruct vs as [|v vs]; [contradiction|]. destruct Hv as [Hf Hv].
      destruct v; try contradiction. cbn [enc_fields] in E.
      destruct (enc_fields fs vs 0) as [[r rz]|] eqn:Er; [|discriminate]. injection E as <- <-.
      destruct (IH vs 0 0%nat r rz Hs Hv (Nat.le_0_l 8) N_lt_0_256 eq_refl Er) as [_ Hb].
      split; [intros; lia|]. cbn [field_bits skipn] in *. rewrite Hb. cbn [option_map].
      rewrite bytes_to_bits_app, bytes_bits_be. reflexivity.
    + cbn [wf_fspecs] in Hs. apply andb_true_iff in Hs as [Hs Hs4]. apply andb_true_iff in Hs as [Hs Hs3].
      apply andb_true_iff in Hs as [Hs1 Hs2]. apply Nat.leb_le in Hs1, Hs2, Hs3.
      destruct vs as [|v vs]; [contradiction|]. destruct Hv as [Hf Hv].
      destruct v as [x| | | | | | ]; try contradiction. cbn in Hf.
      destruct (bits_field_facts used bits bit acc x Hs1 Hs2 Hs3 Hacc Hmod Hf) as (Eacc & Hlt & Hm0 & Hval & Hhigh).
      cbn [enc_fields] in E. cbn [field_bits].
      set (s := N.of_nat (8 - bits - bit)) in *.
      set (acc' := N.lor acc (N.shiftl (x mod 256) s mod 256)) in *.
      assert (Hs' : (8 - (bit + bits) = 8 - bits - bit)%nat) by (clear - Hs3; lia).
      destruct partial.
      * assert (Hm0' : acc' mod 2 ^ N.of_nat (8 - (bit + bits)) = 0) by (rewrite Hs'; exact Hm0).
        assert (Hpos' : (0 < bit + bits)%nat) by (clear - Hs2; lia).
        destruct (IH vs acc' (bit + bits)%nat bs sz Hs4 Hv Hs3 Hlt Hm0' E) as [D Hb].
        destruct (D Hpos') as (B & bs' & -> & HB). rewrite Hs' in HB. fold s in HB.
        assert (Hle : (8 - bits - bit <= 8 - used)%nat) by (clear - Hs1; lia).
        pose proof (div_div_pow B acc' (8 - bits - bit) (8 - used) HB Hle) as HBhigh.
        split; [intros _; exists B, bs'; split; [reflexivity|rewrite HBhigh; exact Hhigh]|].
        rewrite Hb. cbn [option_map]. f_equal.
        rewrite !skipn_bits_cons by (clear - Hs3 Hu8; lia). rewrite Hs'.
        rewrite (byte_run_bits used bits bit B x Hs1 Hs3).
        -- rewrite <- !app_assoc. reflexivity.
        -- fold s. rewrite HB. exact Hval.
        -- apply (bits_gap_zero used bits bit acc x B Hs1 Hs2 Hs3 Hmod Hf). fold s. rewrite HB, Eacc. reflexivity.
      * destruct (enc_fields fs vs 0) as [[r rz]|] eqn:Er; [|discriminate]. injection E as <- <-.
        destruct (IH vs 0 0%nat r rz Hs4 Hv (Nat.le_0_l 8) N_lt_0_256 eq_refl Er) as [_ Hb].
        split; [intros _; exists acc', r; split; [reflexivity|exact Hhigh]|].
        cbn [skipn] in Hb. rewrite Hb. cbn [option_map]. f_equal.
        rewrite skipn_bits_cons by exact Hu8.
        rewrite (byte_run_bits used bits bit acc' x Hs1 Hs3).
        -- replace (8 - bit - bits)%nat with (8 - bits - bit)%nat by (clear; lia).
           rewrite <- !app_assoc. f_equal. f_equal. f_equal.
           rewrite <- (bits_be_mod (8 - bits - bit) acc'). fold s. rewrite Hm0. symmetry. apply bits_be_zero.
        -- fold s. exact Hval.
        -- apply (bits_gap_zero used bits bit acc x acc' Hs1 Hs2 Hs3 Hmod Hf). fold s. rewrite Eacc. reflexivity.
    + cbn [wf_fspecs] in Hs. apply andb_true_iff in Hs as [Hu Hs]. apply Nat.eqb_eq in Hu. subst used.
      cbn in Hv. cbn [enc_fields] in E.
      destruct (enc_fields fs vs 0) as [[r rz]|] eqn:Er; [|discriminate]. injection E as <- <-.
      destruct (IH vs 0 0%nat r rz Hs Hv (Nat.le_0_l 8) N_lt_0_256 eq_refl Er) as [_ Hb].
      split; [intros; lia|]. cbn [field_bits skipn] in *. rewrite Hb. cbn [option_map].
      rewrite bytes_to_bits_app, bytes_bits_repeat0. reflexivity.
    + cbn [wf_fspecs] in Hs. apply andb_true_iff in Hs as [Hu Hs]. apply Nat.eqb_eq in Hu. subst used.
      destruct vs as [|v vs]; [contradiction|]. destruct Hv as [Hf Hv].
      destruct v; try contradiction. cbn [enc_fields] in E.
      destruct (enc_fields fs vs 0) as [[r rz]|] eqn:Er; [|discriminate]. injection E as <- <-.
      destruct (IH vs 0 0%nat r rz Hs Hv (Nat.le_0_l 8) N_lt_0_256 eq_refl Er) as [_ Hb].
      split; [intros; lia|]. cbn [field_bits skipn] in *. rewrite Hb. cbn [option_map].
      rewrite bytes_to_bits_app. reflexivity.
    + cbn [wf_fspecs] in Hs. apply andb_true_iff in Hs as [Hu Hs]. apply Nat.eqb_eq in Hu. subst used.
      destruct vs as [|v vs]; [contradiction|]. destruct Hv as [Hf Hv].
      destruct v; try contradiction. cbn [enc_fields] in E.
      destruct (enc_fields fs vs 0) as [[r rz]|] eqn:Er; [|discriminate]. injection E as <- <-.
      destruct (IH vs 0 0%nat r rz Hs Hv (Nat.le_0_l 8) N_lt_0_256 eq_refl Er) as [_ Hb].
      split; [intros; lia|]. cbn [field_bits skipn] in *. rewrite Hb. cbn [option_map].
      match goal with |- _ = Some (bytes_to_bits ?l) =>
        change l with (be 2 (len ns) ++ flat_map (be e) ns ++ r) end.
      rewrite !bytes_to_bits_app, bytes_bits_be, bytes_bits_flat. reflexivity.
    + cbn [wf_fspecs] in Hs. apply andb_true_iff in Hs as [Hu Hs]. apply Nat.eqb_eq in Hu. subst used.
      destruct vs as [|v vs]; [contradiction|]. destruct Hv as [Hf Hv].
      destruct v; try contradiction. cbn [enc_fields] in E.
      destruct (enc_fields fs vs 0) as [[r rz]|] eqn:Er; [|discriminate]. injection E as <- <-.
      destruct (IH vs 0 0%nat r rz Hs Hv (Nat.le_0_l 8) N_lt_0_256 eq_refl Er) as [_ Hb].
      split; [intros; lia|]. cbn [field_bits skipn] in *. rewrite Hb. cbn [option_map].
      match goal with |- Some (bits_be 16 (lenN ?b) ++ _) = Some (bytes_to_bits ?l) =>
        change l with (be 2 (len b) ++ b ++ r) end.
      rewrite !bytes_to_bits_app, bytes_bits_be. reflexivity.
    + cbn [wf_fspecs] in Hs. apply andb_true_iff in Hs as [Hu Hs]. apply Nat.eqb_eq in Hu. subst used.
      destruct vs as [|v vs]; [contradiction|]. destruct Hv as [Hf Hv].
      destruct v; try contradiction. cbn [enc_fields] in E.
      destruct (enc_fields fs vs 0) as [[r rz]|] eqn:Er; [|discriminate]. injection E as <- <-.
      destruct (IH vs 0 0%nat r rz Hs Hv (Nat.le_0_l 8) N_lt_0_256 eq_refl Er) as [_ Hb].
      split; [intros; lia|]. cbn [field_bits skipn] in *. rewrite Hb. cbn [option_map].
      match goal with |- Some (bits_be 16 ?n ++ bytes_to_bits ?b ++ _) = Some (bytes_to_bits ?l) =>
        change l with (be 2 n ++ b ++ r) end.
      rewrite !bytes_to_bits_app, bytes_bits_be. reflexivity.
    + cbn [wf_fspecs] in Hs. apply andb_true_iff in Hs as [Hu Hs]. apply Nat.eqb_eq in Hu. subst used.
      destruct vs as [|v vs]; [contradiction|]. destruct Hv as [Hf Hv].
      destruct v; try contradiction. cbn [enc_fields] in E.
      assert (Hs0 : wf_fspecs 0 fs = true) by (destruct fs; [reflexivity|discriminate Hs]).
      destruct (enc_fields fs vs 0) as [[r rz]|] eqn:Er; [|discriminate]. injection E as <- <-.
      destruct (IH vs 0 0%nat r rz Hs0 Hv (Nat.le_0_l 8) N_lt_0_256 eq_refl Er) as [_ Hb].
      split; [intros; lia|]. cbn [field_bits skipn] in *. rewrite Hb. cbn [option_map].
      rewrite bytes_to_bits_app. reflexivity.
Qed.

(* ---------- headers ---------- *)
Lemma tv_header_bits tid : tid < 128 -> bits_be 8 (tid + 128) = true :: bits_be 7 tid.
Proof.
  intros H.
  change (bits_be 8 (tid + 128)) with (N.testbit (tid + 128) (N.of_nat 7) :: bits_be 7 (tid + 128)).
  f_equal.
  - rewrite N.testbit_eqb. change (2 ^ N.of_nat 7) with 128.
    replace ((tid + 128) / 128) with 1 by (apply N.div_unique with tid; lia). reflexivity.
  - apply bits_be_eq_mod. change (2 ^ N.of_nat 7) with 128.
    rewrite <- (N.mul_1_l 128) at 1. rewrite N.mod_add by discriminate. reflexivity.
Qed.

Lemma tlv_header_bits tid sz : tid < 1024 ->
  bytes_to_bits (header_bytes KTLV tid sz) = zeros 6 ++ bits_be 10 tid ++ bits_be 16 sz.
Proof.
  intros H. cbn [header_bytes].
  change [N.shiftr tid 8 mod 256; tid mod 256; N.shiftr sz 8 mod 256; sz mod 256]
    with ([N.shiftr tid 8 mod 256; tid mod 256] ++ [N.shiftr sz 8 mod 256; sz mod 256]).
  rewrite bytes_to_bits_app.
  assert (B2 : forall x, [N.shiftr x 8 mod 256; x mod 256] = be 2 x).
  { intros x. cbn [be]. change (8 * N.of_nat 1) with 8. change (8 * N.of_nat 0) with 0.
    rewrite N.shiftr_0_r. reflexivity. }
  rewrite !B2, !bytes_bits_be. change (8 * 2)%nat with 16%nat.
  rewrite app_assoc. f_equal.
  rewrite <- bits_be_zero. rewrite bits_be_app by (change (2 ^ N.of_nat 10) with 1024; exact H).
  reflexivity.
Qed.

Lemma bytes_bits_div8 bs : Nat.div (length (bytes_to_bits bs)) 8 = length bs.
Proof. rewrite bytes_to_bits_length, Nat.mul_comm. apply Nat.div_mul. discriminate. Qed.

(* ---------- sub-parameters and containers ---------- *)
Section BitsRT.
  Variable t : table.
  Hypothesis Hwf : wf_schema t = true.

  Definition goodb_at (v : value) : Prop :=
    forall bs sz, wfv t v -> enc t v = Some (bs, sz) ->
                  value_bits t v = Some (bytes_to_bits bs) /\ byte_list bs.

  Definition goodb (v : value) : Prop :=
    match v with
    | VStruct _ _ _ _ => goodb_at v
    | VOpt (Some x) => goodb_at x
    | VList l => Forall goodb_at l
    | _ => True
    end.

  Lemma many_bits tid l : forall bs sz,
    Forall goodb_at l -> wf_many (wfv t) tid l -> enc_many (enc t) tid l = Some (bs, sz) ->
    bits_many (value_bits t) tid l = Some (bytes_to_bits bs) /\ byte_list bs.
  Proof.
    induction l as [|x l IH]; intros bs sz Hg Hw E; cbn [enc_many bits_many wf_many] in *.
    - injection E as <- <-. split; [reflexivity|constructor].
    - destruct Hw as (P & Hwx & Hwl). inversion Hg as [|? ? Hgx Hgl]; subst.
      change (is_paramb tid x) with (is_param tid x). rewrite P in *.
      destruct (enc t x) as [[b z]|] eqn:Ex; [|discriminate].
      destruct (enc_many (enc t) tid l) as [[r rz]|] eqn:Er; [|discriminate].
      injection E as <- <-.
      destruct (Hgx b z Hwx Ex) as [Hb Hbl]. destruct (IH r rz Hgl Hwl eq_refl) as [Hr Hrl].
      rewrite Hb, Hr. split; [rewrite bytes_to_bits_app; reflexivity|apply byte_list_app; assumption].
  Qed.

  Lemma subs_bits vs : forall subs chosen pending bs sz,
    Forall goodb vs -> wf_subs t (wfv t) subs vs chosen pending ->
    enc_subs (enc t) subs vs chosen = Some (bs, sz) ->
    bits_subs (value_bits t) subs vs chosen = Some (bytes_to_bits bs) /\ byte_list bs.
  Proof.
    induction vs as [|v' vs IH]; intros subs chosen pending bs sz Hg Hw E.
    - destruct subs; cbn [enc_subs bits_subs] in *; [|discriminate].
      injection E as <- <-. split; [reflexivity|constructor].
    - destruct subs as [|s subs]; cbn [enc_subs bits_subs wf_subs] in *; [discriminate|].
      inversion Hg as [|? ? Hgv Hgvs]; subst.
      destruct (s_arity s); destruct v' as [| | | |m tid0 fs0 ss0|o|l]; try discriminate.
      + destruct Hw as (P & Hw).
        change (is_paramb (s_tid s) (VStruct m tid0 fs0 ss0)) with (is_param (s_tid s) (VStruct m tid0 fs0 ss0)).
        rewrite P in *. cbn [negb] in *. cbn [goodb] in Hgv.
        destruct (s_group s =? 0).
        * destruct Hw as (_ & Hwv & Hw).
          destruct (enc t (VStruct m tid0 fs0 ss0)) as [[b z]|] eqn:Ex; [|discriminate].
          destruct (enc_subs (enc t) subs vs chosen) as [[r rz]|] eqn:Er; [|discriminate].
          injection E as <- <-.
          destruct (Hgv b z Hwv Ex) as [Hb Hbl]. destruct (IH _ _ _ _ _ Hgvs Hw Er) as [Hr Hrl].
          rewrite Hb, Hr. split; [rewrite bytes_to_bits_app; reflexivity|apply byte_list_app; assumption].
        * destruct Hw as (_ & Hw).
          destruct (chosen =? s_group s); cbn [orb] in *.
          -- destruct Hw as (_ & Hw). eapply IH; eauto.
          -- destruct (alt_nonzero (VStruct m tid0 fs0 ss0)); cbn [negb] in *.
             ++ destruct Hw as (Hwv & Hw).
                destruct (enc t (VStruct m tid0 fs0 ss0)) as [[b z]|] eqn:Ex; [|discriminate].
                destruct (enc_subs (enc t) subs vs (s_group s)) as [[r rz]|] eqn:Er; [|discriminate].
                injection E as <- <-.
                destruct (Hgv b z Hwv Ex) as [Hb Hbl]. destruct (IH _ _ _ _ _ Hgvs Hw Er) as [Hr Hrl].
                rewrite Hb, Hr. split; [rewrite bytes_to_bits_app; reflexivity|apply byte_list_app; assumption].
             ++ destruct Hw as (_ & Hw). eapply IH; eauto.
      + destruct o as [x|].
        * destruct Hw as (_ & P & Hwv & Hw).
          change (is_paramb (s_tid s) x) with (is_param (s_tid s) x). rewrite P in *. cbn [negb] in *.
          cbn [goodb] in Hgv.
          destruct (enc t x) as [[b z]|] eqn:Ex; [|discriminate].
          destruct (enc_subs (enc t) subs vs chosen) as [[r rz]|] eqn:Er; [|discriminate].
          injection E as <- <-.
          destruct (Hgv b z Hwv Ex) as [Hb Hbl]. destruct (IH _ _ _ _ _ Hgvs Hw Er) as [Hr Hrl].
          rewrite Hb, Hr. split; [rewrite bytes_to_bits_app; reflexivity|apply byte_list_app; assumption].
        * destruct Hw as (_ & Hw). eapply IH; eauto.
      + destruct Hw as (_ & _ & Hwm & Hw). cbn [goodb] in Hgv.
        destruct (enc_many (enc t) (s_tid s) l) as [[b z]|] eqn:Em; [|discriminate].
        destruct (enc_subs (enc t) subs vs chosen) as [[r rz]|] eqn:Er; [|discriminate].
        injection E as <- <-.
        destruct (many_bits _ _ _ _ Hgv Hwm Em) as [Hb Hbl]. destruct (IH _ _ _ _ _ Hgvs Hw Er) as [Hr Hrl].
        rewrite Hb, Hr. split; [rewrite bytes_to_bits_app; reflexivity|apply byte_list_app; assumption].
  Qed.

  Lemma goodb_struct msg tid fs ss : Forall goodb ss -> goodb (VStruct msg tid fs ss).
  Proof.
    intros Hg. cbn [goodb]. intros bs sz Hw E.
    pose proof Hw as Hw0. cbn [wfv] in Hw. pose proof E as E0. cbn [enc value_bits] in E |- *.
    destruct (find_container t msg tid) as [c|] eqn:F; [|contradiction].
    destruct Hw as (Hf & Hs & Hsz).
    pose proof (find_container_spec _ _ _ _ F) as (_ & Hm & Ht).
    pose proof (find_container_wf _ _ _ _ Hwf F) as Hc.
    destruct (container_parts t c Hc) as (Hfs & _ & _ & _ & Hk & _).
    destruct (enc_fields (c_fields c) fs 0) as [[fb fsz]|] eqn:Ef; [|discriminate].
    destruct (enc_subs (enc t) (c_subs c) ss 0) as [[sb ssz]|] eqn:Es; [|discriminate].
    injection E as <- <-.
    destruct (fields_bits (c_fields c) fs 0 0%nat fb fsz Hfs Hf (Nat.le_0_l 8) N_lt_0_256 eq_refl Ef) as [_ Hfb].
    cbn [skipn] in Hfb.
    destruct (fields_roundtrip (c_fields c) fs 0 0%nat Hfs Hf (Nat.le_0_l 8) N_lt_0_256 eq_refl)
      as (fb' & fsz' & Ef' & _ & Hfbl & _). rewrite Ef in Ef'. injection Ef' as <- <-.
    destruct (subs_bits ss (c_subs c) 0 0 sb ssz Hg Hs Es) as [Hsb Hsbl].
    rewrite Hfb, Hsb. rewrite <- bytes_to_bits_app.
    set (sz := header_size (c_kind c) + fsz + ssz) in *.
    unfold kind_ok in Hk.
    destruct (c_kind c) eqn:K.
    - (* message *) cbn [header_bytes app]. split; [reflexivity|apply byte_list_app; assumption].
    - (* TLV *)
      destruct Hk as [Hk1 Hk2]. rewrite Ht in *.
      assert (Hm' : is_msg_kind KTLV = false) by reflexivity.
      destruct msg; [cbn in Hm; discriminate|].
      pose proof (declared_size_exact t tid fs ss _ _ Hwf Hw0 E0) as Hlen.
      split.
      + rewrite (bytes_to_bits_app (header_bytes KTLV tid sz)), (tlv_header_bits tid sz Hk2). rewrite <- !app_assoc.
        rewrite bytes_bits_div8. clearbody sz.
        assert (Esz : N.of_nat (4 + length (fb ++ sb)) = sz).
        { pose proof Hlen as Hl2. rewrite len_app in Hl2. unfold len in Hl2. cbn [header_bytes length] in Hl2.
          remember (length (fb ++ sb)) as n0. clear - Hl2. lia. }
        rewrite Esz. reflexivity.
      + apply byte_list_app; [|apply byte_list_app; assumption].
        cbn [header_bytes]. repeat constructor; apply N.mod_lt; discriminate.
    - (* TV *)
      rewrite Ht in *. cbn [header_bytes app]. split.
      + rewrite bytes_to_bits_cons, (tv_header_byte tid Hk), (tv_header_bits tid Hk). reflexivity.
      + constructor; [rewrite (tv_header_byte tid Hk); lia|apply byte_list_app; assumption].
  Qed.

  Theorem all_goodb : forall v, goodb v.
  Proof.
    apply value_ind'; try (intros; exact I).
    - apply goodb_struct.
    - intros x Hx. cbn [goodb]. destruct x; try (intros ? ? Hw; destruct Hw). exact Hx.
    - intros l Hl. cbn [goodb]. apply Forall_forall. intros x Hin.
      rewrite Forall_forall in Hl. specialize (Hl x Hin).
      destruct x; try (intros ? ? Hw; destruct Hw). exact Hl.
  Qed.
End BitsRT.

(* ---------- C02 statements ---------- *)

(* the bytes the encoder produces are exactly the bit-level layout of the value *)
Theorem encode_matches_layout t v bs :
  wf_schema t = true -> wfv t v -> encode t v = Some bs ->
  value_bits t v = Some (bytes_to_bits bs) /\ byte_list bs.
Proof.
  intros Hs Hw E. unfold encode in E. destruct (enc t v) as [[b sz]|] eqn:Ee; [|discriminate].
  injection E as <-. destruct v as [| | | |m tid fs ss| |]; try contradiction.
  exact (all_goodb t Hs (VStruct m tid fs ss) b sz Hw Ee).
Qed.

Lemma bits_be8_inj a b : a < 256 -> b < 256 -> bits_be 8 a = bits_be 8 b -> a = b.
Proof.
  intros Ha Hb H. rewrite <- (bits_to_N_bits_be_small 8 a), <- (bits_to_N_bits_be_small 8 b), H; auto.
Qed.

Lemma app_same_length {A} (a : list A) : forall b c d,
  length a = length b -> a ++ c = b ++ d -> a = b /\ c = d.
Proof.
  induction a as [|x a IH]; intros [|y b] c d Hl H; cbn in Hl; try discriminate.
  - split; [reflexivity|exact H].
  - cbn in H. injection H as -> H. destruct (IH b c d ltac:(lia) H) as [-> ->]. split; reflexivity.
Qed.

Lemma bytes_to_bits_inj a : forall b, byte_list a -> byte_list b ->
  bytes_to_bits a = bytes_to_bits b -> a = b.
Proof.
  induction a as [|x a IH]; intros [|y b] Ha Hb H.
  - reflexivity.
  - apply (f_equal (@length bool)) in H. rewrite !bytes_to_bits_length in H. cbn in H. lia.
  - apply (f_equal (@length bool)) in H. rewrite !bytes_to_bits_length in H. cbn in H. lia.
  - rewrite !bytes_to_bits_cons in H. inversion Ha; inversion Hb; subst.
    assert (E1 : bits_be 8 x = bits_be 8 y /\ bytes_to_bits a = bytes_to_bits b).
    { apply app_same_length; [rewrite !bits_be_length; reflexivity|exact H]. }
    destruct E1 as [E1 E2]. f_equal; [apply bits_be8_inj; assumption|apply IH; assumption].
Qed.

(* conversely: any byte string whose bits are the layout of a well-formed value decodes to it *)
Theorem decode_conformant t msg tid fs ss bs' fuel :
  wf_schema t = true -> wfv t (VStruct msg tid fs ss) ->
  (depth (VStruct msg tid fs ss) <= fuel)%nat -> byte_list bs' ->
  value_bits t (VStruct msg tid fs ss) = Some (bytes_to_bits bs') ->
  decode t fuel msg tid bs' = Some (VStruct msg tid fs ss).
Proof.
  intros Hs Hw Hd Hb Hbits.
  destruct (encode_total t _ Hs Hw) as (bs & E).
  destruct (encode_matches_layout t _ bs Hs Hw E) as [Hl Hbl].
  rewrite Hl in Hbits. injection Hbits as Hbits.
  assert (bs = bs') by (apply bytes_to_bits_inj; assumption). subst bs'.
  apply decode_encode; assumption.
Qed.
