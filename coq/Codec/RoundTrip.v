(* C01 core: decoding the encoding of a well-formed value gives the value back, for every
   well-formed layout table. *)
From Coq Require Import NArith ZArith List Bool Arith Lia ZifyN ZifyNat ZifyBool.
From LLRP Require Import Codec.Schema Codec.Encode Codec.Decode Codec.Wf Codec.BytesLemmas Codec.FieldsProofs.
Import ListNotations.
Open Scope N_scope.
Ltac Zify.zify_post_hook ::= Z.div_mod_to_equations.

(* ---------- nested induction principle for values ---------- *)
Section ValueInd.
  Variable P : value -> Prop.
  Hypothesis Hnum : forall n, P (VNum n).
  Hypothesis Hbytes : forall bs, P (VBytes bs).
  Hypothesis Hbit : forall n bs, P (VBitArr n bs).
  Hypothesis Hnums : forall ns, P (VNums ns).
  Hypothesis Hstruct : forall msg tid fs ss, Forall P ss -> P (VStruct msg tid fs ss).
  Hypothesis Hnone : P (VOpt None).
  Hypothesis Hsome : forall x, P x -> P (VOpt (Some x)).
  Hypothesis Hlist : forall l, Forall P l -> P (VList l).

  Fixpoint value_ind' (v : value) : P v :=
    match v with
    | VNum n => Hnum n
    | VBytes bs => Hbytes bs
    | VBitArr n bs => Hbit n bs
    | VNums ns => Hnums ns
    | VStruct msg tid fs ss =>
        Hstruct msg tid fs ss
          ((fix go (l : list value) : Forall P l :=
              match l with
              | [] => Forall_nil P
              | x :: r => Forall_cons x (value_ind' x) (go r)
              end) ss)
    | VOpt None => Hnone
    | VOpt (Some x) => Hsome x (value_ind' x)
    | VList l =>
        Hlist l
          ((fix go (l : list value) : Forall P l :=
              match l with
              | [] => Forall_nil P
              | x :: r => Forall_cons x (value_ind' x) (go r)
              end) l)
    end.
End ValueInd.

(* ---------- table facts ---------- *)
Lemma find_container_spec t m tid c :
  find_container t m tid = Some c -> In c t /\ is_msg_kind (c_kind c) = m /\ c_tid c = tid.
Proof.
  induction t as [|c0 t IH]; cbn [find_container]; [discriminate|].
  destruct (Bool.eqb (is_msg_kind (c_kind c0)) m && (c_tid c0 =? tid)) eqn:E.
  - intros [= <-]. apply andb_true_iff in E as [E1 E2].
    apply Bool.eqb_prop in E1. apply N.eqb_eq in E2. repeat split; auto. now left.
  - intros H. destruct (IH H) as (A & B & C). repeat split; auto. now right.
Qed.

Lemma find_container_wf t m tid c :
  wf_schema t = true -> find_container t m tid = Some c -> wf_container t c = true.
Proof.
  intros Hw Hf. apply find_container_spec in Hf as (Hin & _). unfold wf_schema in Hw.
  rewrite forallb_forall in Hw. apply Hw, Hin.
Qed.

(* ---------- headers ---------- *)
Lemma tlv_type_bytes tid : tid < 32768 ->
  (N.shiftr tid 8) mod 256 * 256 + tid mod 256 = tid /\ (N.shiftr tid 8) mod 256 < 128.
Proof.
  intros H. rewrite N.shiftr_div_pow2. change (2 ^ 8) with 256.
  rewrite (N.mod_small (tid / 256)) by lia. lia.
Qed.

Lemma u16_bytes sz : sz < 65536 -> (N.shiftr sz 8) mod 256 * 256 + sz mod 256 = sz.
Proof.
  intros H. rewrite N.shiftr_div_pow2. change (2 ^ 8) with 256.
  rewrite (N.mod_small (sz / 256)) by lia. lia.
Qed.

Lemma tv_header_byte tid : tid < 128 -> N.lor (tid mod 256) 128 = tid + 128.
Proof.
  intros H. rewrite N.mod_small by lia. rewrite N.lor_comm.
  rewrite (lor_disjoint_add 128 tid 7); [lia|reflexivity|exact H].
Qed.

Definition kind_ok (c : container) : Prop :=
  match c_kind c with
  | KMsg => True
  | KTV => c_tid c < 128
  | KTLV => 128 <= c_tid c /\ c_tid c < 1024
  end.

Lemma next_type_header c sz x :
  kind_ok c -> is_msg_kind (c_kind c) = false ->
  next_type (header_bytes (c_kind c) (c_tid c) sz ++ x) = Some (is_tv_kind (c_kind c), c_tid c).
Proof.
  unfold kind_ok. destruct (c_kind c) eqn:K; cbn [is_msg_kind]; intros Hk Hm; try discriminate.
  - destruct Hk as [H1 H2]. destruct (tlv_type_bytes (c_tid c) ltac:(lia)) as [E L].
    cbn [header_bytes app next_type is_tv_kind].
    replace (128 <=? N.shiftr (c_tid c) 8 mod 256) with false by (symmetry; apply N.leb_gt; exact L).
    now rewrite E.
  - cbn [header_bytes app next_type is_tv_kind]. rewrite tv_header_byte by exact Hk.
    replace (128 <=? c_tid c + 128) with true by (symmetry; apply N.leb_le; lia).
    f_equal. f_equal. lia.
Qed.

(* ---------- the statement proved by induction on values ---------- *)
Section RT.
  Variable t : table.
  Hypothesis Hwf : wf_schema t = true.

  (* a parameter value encodes to bytes that its decoder reads back, whatever follows *)
  Definition good_param (v : value) : Prop :=
    forall tid fs ss, v = VStruct false tid fs ss -> wfv t v ->
    exists bs sz, enc t v = Some (bs, sz) /\ sz = len bs /\
      forall fuel rest, (depth v <= fuel)%nat -> dec_param t fuel tid (bs ++ rest) = Some (v, rest).

  Definition good_msg (v : value) : Prop :=
    forall tid fs ss, v = VStruct true tid fs ss -> wfv t v ->
    exists bs sz, enc t v = Some (bs, sz) /\
      forall fuel, (depth v <= S fuel)%nat -> dec_msg t fuel tid bs = Some v.

  Definition good (v : value) : Prop :=
    match v with
    | VStruct _ _ _ _ => good_param v /\ good_msg v
    | VOpt (Some x) => good_param x
    | VList l => Forall good_param l
    | _ => True
    end.

  Lemma container_parts c :
    wf_container t c = true ->
    wf_fspecs 0 (c_fields c) = true /\
    (has_rest (c_fields c) = false \/ c_subs c = []) /\
    wf_sub_order (c_subs c) = true /\
    forallb (wf_sub t) (c_subs c) = true /\
    kind_ok c /\
    (c_kind c = KTV -> c_subs c = [] /\ exists n, fixed_fields_size (c_fields c) = Some n).
  Proof.
    unfold wf_container, kind_ok. intros H.
    apply andb_true_iff in H as [H Hk]. apply andb_true_iff in H as [H Hsubs].
    apply andb_true_iff in H as [H Hord]. apply andb_true_iff in H as [Hfs Hrest].
    repeat split; try assumption.
    - apply orb_true_iff in Hrest as [X|X].
      + left. now apply negb_true_iff in X.
      + right. destruct (c_subs c); [reflexivity|discriminate].
    - destruct (c_kind c); auto.
      + apply andb_true_iff in Hk as [X1 X2].
        apply N.leb_le in X1. apply N.ltb_lt in X2. split; assumption.
      + apply andb_true_iff in Hk as [X1 X2]. apply andb_true_iff in X1 as [X0 X1].
        now apply N.ltb_lt in X0.
    - match goal with K : c_kind c = KTV |- _ => rewrite K in Hk end.
      apply andb_true_iff in Hk as [X1 X2]. apply andb_true_iff in X1 as [X0 X1].
      destruct (c_subs c); [reflexivity|discriminate].
    - match goal with K : c_kind c = KTV |- _ => rewrite K in Hk end.
      apply andb_true_iff in Hk as [X1 X2].
      destruct (fixed_fields_size (c_fields c)) as [n|]; [eauto|discriminate].
  Qed.

  Lemma zero_param_leaf s k :
    (wf_sub t s = true) -> ((s_group s =? 0) = false) ->
    (zero_param t (S k) (s_tid s) = zero_leaf t (s_tid s)).
  Proof.
    unfold wf_sub, zero_leaf. cbn [zero_param]. intros H G.
    destruct (find_container t false (s_tid s)) as [c'|]; [|discriminate].
    rewrite G in H. destruct (s_arity s); try discriminate.
    destruct (c_subs c'); [reflexivity|discriminate].
  Qed.

  Lemma announces_nil tid : announces t [] tid = false.
  Proof. unfold announces. cbn [next_type]. destruct (find_container t false tid); reflexivity. Qed.

  (* the first type code of an encoded parameter is its own *)
  Lemma enc_param_shape tid fs ss bs sz :
    enc t (VStruct false tid fs ss) = Some (bs, sz) ->
    exists c body, find_container t false tid = Some c /\
                   bs = header_bytes (c_kind c) tid sz ++ body.
  Proof.
    cbn [enc]. destruct (find_container t false tid) as [c|] eqn:F; [|discriminate].
    destruct (enc_fields (c_fields c) fs 0) as [[fb fsz]|]; [|discriminate].
    destruct (enc_subs (enc t) (c_subs c) ss 0) as [[sb ssz]|]; [|discriminate].
    intros [= <- <-]. exists c, (fb ++ sb). split; reflexivity.
  Qed.

  Lemma announces_enc tid fs ss bs sz rest tid' :
    enc t (VStruct false tid fs ss) = Some (bs, sz) ->
    announces t (bs ++ rest) tid' = (tid' =? tid).
  Proof.
    intros E. destruct (enc_param_shape _ _ _ _ _ E) as (c & body & F & ->).
    pose proof (find_container_spec _ _ _ _ F) as (_ & Hm & Ht).
    pose proof (container_parts c (find_container_wf _ _ _ _ Hwf F)) as (_ & _ & _ & _ & Hk & _).
    subst tid. unfold announces. rewrite <- app_assoc.
    rewrite (next_type_header c sz (body ++ rest) Hk Hm).
    destruct (N.eqb_spec tid' (c_tid c)) as [->|Hne].
    - rewrite F. rewrite Bool.eqb_reflx, N.eqb_refl. reflexivity.
    - destruct (find_container t false tid'); [|reflexivity].
      replace (c_tid c =? tid') with false by (symmetry; apply N.eqb_neq; congruence).
      apply andb_false_r.
  Qed.

  Lemma is_param_inv tid v : is_param tid v = true -> exists fs ss, v = VStruct false tid fs ss.
  Proof.
    destruct v as [| | | |m tid' fs ss| |]; cbn; try discriminate.
    destruct m; [discriminate|]. intros H. apply N.eqb_eq in H. subst. eauto.
  Qed.

  Lemma enc_many_head tid l bs sz tid' :
    enc_many (enc t) tid l = Some (bs, sz) -> tid <> tid' ->
    forall rest, announces t rest tid' = false -> announces t (bs ++ rest) tid' = false.
  Proof.
    destruct l as [|x l]; cbn [enc_many].
    - intros [= <- <-] _ rest H. exact H.
    - destruct (is_param tid x) eqn:P; [|discriminate].
      destruct (is_param_inv _ _ P) as (fs & ss & ->).
      destruct (enc t (VStruct false tid fs ss)) as [[b z]|] eqn:E; [|discriminate].
      destruct (enc_many (enc t) tid l) as [[r rz]|]; [|discriminate].
      intros [= <- <-] Hne rest _. rewrite <- app_assoc.
      rewrite (announces_enc _ _ _ _ _ _ _ E). apply N.eqb_neq. congruence.
  Qed.

  (* what enc_subs produces starts (if non-empty) with the type code of one of the subs *)
  Lemma enc_subs_head vs : forall subs chosen bs sz tid',
    enc_subs (enc t) subs vs chosen = Some (bs, sz) ->
    (forall s, In s subs -> s_tid s <> tid') ->
    announces t bs tid' = false.
  Proof.
    induction vs as [|v' vs IH]; intros subs chosen bs sz tid' E Hne.
    - destruct subs; cbn [enc_subs] in E; [|discriminate]. injection E as <- <-. apply announces_nil.
    - destruct subs as [|s subs]; cbn [enc_subs] in E; [discriminate|].
      assert (Hs : s_tid s <> tid') by (apply Hne; now left).
      assert (Hne' : forall s0, In s0 subs -> s_tid s0 <> tid') by (intros; apply Hne; now right).
      destruct (s_arity s); destruct v' as [| | | |m tid0 fs0 ss0|o|l]; try discriminate.
      + (* One *)
        destruct (is_param (s_tid s) (VStruct m tid0 fs0 ss0)) eqn:P; cbn [negb] in E; [|discriminate].
        destruct (is_param_inv _ _ P) as (fs & ss & Ev). injection Ev as -> -> -> ->.
        destruct (s_group s =? 0).
        * destruct (enc t (VStruct false (s_tid s) fs ss)) as [[b z]|] eqn:Ee; [|discriminate].
          destruct (enc_subs (enc t) subs vs chosen) as [[r rz]|]; [|discriminate].
          injection E as <- <-. rewrite (announces_enc _ _ _ _ _ _ _ Ee). apply N.eqb_neq. congruence.
        * destruct ((chosen =? s_group s) || negb (alt_nonzero (VStruct false (s_tid s) fs ss))).
          -- eapply IH; eauto.
          -- destruct (enc t (VStruct false (s_tid s) fs ss)) as [[b z]|] eqn:Ee; [|discriminate].
             destruct (enc_subs (enc t) subs vs (s_group s)) as [[r rz]|]; [|discriminate].
             injection E as <- <-. rewrite (announces_enc _ _ _ _ _ _ _ Ee). apply N.eqb_neq. congruence.
      + (* Opt *)
        destruct o as [x|]; [|eapply IH; eauto].
        destruct (is_param (s_tid s) x) eqn:P; cbn [negb] in E; [|discriminate].
        destruct (is_param_inv _ _ P) as (fs & ss & ->).
        destruct (enc t (VStruct false (s_tid s) fs ss)) as [[b z]|] eqn:Ee; [|discriminate].
        destruct (enc_subs (enc t) subs vs chosen) as [[r rz]|]; [|discriminate].
        injection E as <- <-. rewrite (announces_enc _ _ _ _ _ _ _ Ee). apply N.eqb_neq. congruence.
      + (* Many *)
        destruct (enc_many (enc t) (s_tid s) l) as [[b z]|] eqn:Em; [|discriminate].
        destruct (enc_subs (enc t) subs vs chosen) as [[r rz]|] eqn:Er; [|discriminate].
        injection E as <- <-. eapply enc_many_head; eauto.
  Qed.

  Lemma enc_param_nonempty tid fs ss bs sz :
    enc t (VStruct false tid fs ss) = Some (bs, sz) -> (1 <= length bs)%nat.
  Proof.
    intros E. destruct (enc_param_shape _ _ _ _ _ E) as (c & body & F & ->).
    pose proof (find_container_spec _ _ _ _ F) as (_ & Hm & _).
    destruct (c_kind c); cbn in Hm; try discriminate; cbn [header_bytes app length]; lia.
  Qed.

  Lemma enc_many_length tid l bs sz :
    enc_many (enc t) tid l = Some (bs, sz) -> (length l <= length bs)%nat.
  Proof.
    revert bs sz. induction l as [|x l IH]; intros bs sz; cbn [enc_many length]; [lia|].
    destruct (is_param tid x) eqn:P; [|discriminate].
    destruct (is_param_inv _ _ P) as (fs & ss & ->).
    destruct (enc t (VStruct false tid fs ss)) as [[b z]|] eqn:E; [|discriminate].
    destruct (enc_many (enc t) tid l) as [[r rz]|] eqn:Er; [|discriminate].
    intros [= <- <-]. rewrite app_length. specialize (IH _ _ eq_refl).
    pose proof (enc_param_nonempty _ _ _ _ _ E). lia.
  Qed.

  Lemma depth_list_le (l : list value) x :
    In x l -> (depth x <= fold_right (fun y a => Nat.max (depth y) a) O l)%nat.
  Proof.
    induction l as [|y l IH]; cbn [In fold_right]; [contradiction|].
    intros [->|H]; [lia|]. specialize (IH H). lia.
  Qed.

  Lemma dec_many_ok tid k l : forall n later,
    Forall good_param l -> wf_many (wfv t) tid l ->
    announces t later tid = false -> (length l <= n)%nat ->
    (forall x, In x l -> (depth x <= k)%nat) ->
    exists bs sz, enc_many (enc t) tid l = Some (bs, sz) /\ sz = len bs /\
      dec_many t (dec_param t k tid) tid n (bs ++ later) = Some (l, later).
  Proof.
    induction l as [|x l IH]; intros n later Hg Hw Han Hn Hd.
    - exists [], 0. cbn [enc_many app]. repeat split.
      destruct n; cbn [dec_many]; rewrite Han; reflexivity.
    - cbn [wf_many] in Hw. destruct Hw as (P & Hwx & Hwl).
      destruct (is_param_inv _ _ P) as (fs & ss & ->).
      inversion Hg as [|? ? Hgx Hgl]; subst.
      destruct (Hgx _ _ _ eq_refl Hwx) as (b & z & E & Hz & D).
      destruct n as [|n]; [cbn in Hn; lia|].
      destruct (IH n later Hgl Hwl Han ltac:(cbn in Hn; lia) ltac:(intros; apply Hd; now right))
        as (r & rz & Er & Hrz & Dr).
      exists (b ++ r), (z + rz). cbn [enc_many]. rewrite P, E, Er. repeat split.
      + rewrite len_app. lia.
      + cbn [dec_many]. rewrite <- app_assoc. rewrite (announces_enc _ _ _ _ _ _ _ E), N.eqb_refl.
        rewrite (D k (r ++ later)) by (apply Hd; now left). rewrite Dr. reflexivity.
  Qed.

  Lemma sub_order_tail s subs : wf_sub_order (s :: subs) = true -> wf_sub_order subs = true.
  Proof. cbn [wf_sub_order]. intros H. apply andb_true_iff in H. apply H. Qed.

  Lemma sub_order_distinct s subs :
    wf_sub_order (s :: subs) = true ->
    (s_arity s = One -> (s_group s =? 0) = false) ->
    forall s', In s' subs -> s_tid s' <> s_tid s.
  Proof.
    cbn [wf_sub_order]. intros H Hc s' Hin Heq. apply andb_true_iff in H as [H _].
    assert (X : negb (existsb (fun s'0 => s_tid s'0 =? s_tid s) subs) = true).
    { destruct (s_arity s) eqn:A; [|exact H|exact H]. rewrite (Hc eq_refl) in H. exact H. }
    apply negb_true_iff in X. assert (Y : existsb (fun s'0 => s_tid s'0 =? s_tid s) subs = true).
    { apply existsb_exists. exists s'. split; [exact Hin|]. apply N.eqb_eq, Heq. }
    congruence.
  Qed.

  Lemma zero_leaf_depth tid : depth (zero_leaf t tid) = 1%nat.
  Proof. unfold zero_leaf. destruct (find_container t false tid); reflexivity. Qed.

  Lemma subs_roundtrip k vs : forall subs chosen pending,
    Forall good vs -> wf_sub_order subs = true -> forallb (wf_sub t) subs = true ->
    wf_subs t (wfv t) subs vs chosen pending ->
    (forall v, In v vs -> (depth v <= k)%nat) ->
    exists bs sz, enc_subs (enc t) subs vs chosen = Some (bs, sz) /\ sz = len bs /\
      dec_subs t (dec_param t k) (zero_param t k) subs bs chosen = Some (vs, []).
  Proof.
    induction vs as [|v' vs IH]; intros subs chosen pending Hg Ho Hs Hw Hd.
    - destruct subs; cbn [wf_subs] in Hw; [|contradiction].
      exists [], 0. cbn. repeat split.
    - destruct subs as [|s subs]; cbn [wf_subs] in Hw; [contradiction|].
      inversion Hg as [|? ? Hgv Hgvs]; subst.
      pose proof (sub_order_tail _ _ Ho) as Ho'.
      cbn [forallb] in Hs. apply andb_true_iff in Hs as [Hs1 Hs'].
      assert (Hd' : forall v, In v vs -> (depth v <= k)%nat) by (intros; apply Hd; now right).
      assert (Hdv : (depth v' <= k)%nat) by (apply Hd; now left).
      destruct (s_arity s) eqn:A; destruct v' as [| | | |m tid0 fs0 ss0|o|l]; try contradiction.
      + (* One *)
        destruct Hw as (P & Hw). destruct (is_param_inv _ _ P) as (fs & ss & Ev).
        injection Ev as -> -> -> ->.
        cbn [good] in Hgv. destruct Hgv as [Hgp _].
        cbn [enc_subs dec_subs]. rewrite A, P. cbn [negb].
        destruct (s_group s =? 0) eqn:G.
        * destruct Hw as (_ & Hwv & Hw).
          destruct (Hgp _ _ _ eq_refl Hwv) as (b & z & E & Hz & D).
          destruct (IH subs chosen 0 Hgvs Ho' Hs' Hw Hd') as (r & rz & Er & Hrz & Dr).
          exists (b ++ r), (z + rz). rewrite E, Er. repeat split; [rewrite len_app; lia|].
          rewrite (D k r Hdv), Dr. reflexivity.
        * destruct Hw as (_ & Hw).
          assert (Hk1 : exists k', k = S k').
          { cbn [depth] in Hdv. destruct k; [lia|eauto]. }
          destruct Hk1 as (k' & ->).
          assert (Hdist : forall s', In s' subs -> s_tid s' <> s_tid s).
          { apply (sub_order_distinct s subs Ho). intros _. exact G. }
          destruct (chosen =? s_group s) eqn:C.
          -- destruct Hw as (Hz & Hw).
             destruct (IH subs chosen 0 Hgvs Ho' Hs' Hw Hd') as (r & rz & Er & Hrz & Dr).
             exists r, rz. cbn [orb negb andb]. rewrite Er. repeat split; [assumption|].
             rewrite Dr. rewrite (zero_param_leaf s k' Hs1 G), <- Hz. reflexivity.
          -- destruct (alt_nonzero (VStruct false (s_tid s) fs ss)) eqn:NZ.
             ++ destruct Hw as (Hwv & Hw).
                destruct (Hgp _ _ _ eq_refl Hwv) as (b & z & E & Hz & D).
                destruct (IH subs (s_group s) 0 Hgvs Ho' Hs' Hw Hd') as (r & rz & Er & Hrz & Dr).
                exists (b ++ r), (z + rz). cbn [orb negb andb]. rewrite E, Er.
                repeat split; [rewrite len_app; lia|].
                rewrite (announces_enc _ _ _ _ _ _ _ E), N.eqb_refl.
                rewrite (D (S k') r Hdv), Dr. reflexivity.
             ++ destruct Hw as (Hz & Hw).
                destruct (IH subs chosen (s_group s) Hgvs Ho' Hs' Hw Hd') as (r & rz & Er & Hrz & Dr).
                exists r, rz. cbn [orb negb andb]. rewrite Er. repeat split; [assumption|].
                rewrite (enc_subs_head _ _ _ _ _ (s_tid s) Er Hdist).
                rewrite Dr. rewrite (zero_param_leaf s k' Hs1 G), <- Hz. reflexivity.
      + (* Opt *)
        assert (Hdist : forall s', In s' subs -> s_tid s' <> s_tid s).
        { apply (sub_order_distinct s subs Ho). intros X. rewrite A in X. discriminate. }
        cbn [enc_subs dec_subs]. rewrite A.
        destruct o as [x|].
        * destruct Hw as (_ & P & Hwv & Hw). destruct (is_param_inv _ _ P) as (fs & ss & ->).
          cbn [good] in Hgv.
          destruct (Hgv _ _ _ eq_refl Hwv) as (b & z & E & Hz & D).
          destruct (IH subs chosen 0 Hgvs Ho' Hs' Hw Hd') as (r & rz & Er & Hrz & Dr).
          exists (b ++ r), (z + rz). rewrite P. cbn [negb]. rewrite E, Er.
          repeat split; [rewrite len_app; lia|].
          rewrite (announces_enc _ _ _ _ _ _ _ E), N.eqb_refl.
          rewrite (D k r Hdv), Dr. reflexivity.
        * destruct Hw as (_ & Hw).
          destruct (IH subs chosen 0 Hgvs Ho' Hs' Hw Hd') as (r & rz & Er & Hrz & Dr).
          exists r, rz. rewrite Er. repeat split; [assumption|].
          rewrite (enc_subs_head _ _ _ _ _ (s_tid s) Er Hdist). rewrite Dr. reflexivity.
      + (* Many *)
        assert (Hdist : forall s', In s' subs -> s_tid s' <> s_tid s).
        { apply (sub_order_distinct s subs Ho). intros X. rewrite A in X. discriminate. }
        destruct Hw as (_ & _ & Hwm & Hw). cbn [good] in Hgv.
        destruct (IH subs chosen 0 Hgvs Ho' Hs' Hw Hd') as (r & rz & Er & Hrz & Dr).
        assert (Han : announces t r (s_tid s) = false) by (eapply enc_subs_head; eauto).
        assert (Hdl : forall x, In x l -> (depth x <= k)%nat).
        { intros x Hx. cbn [depth] in Hdv. pose proof (depth_list_le l x Hx). lia. }
        assert (Hex : exists b z, enc_many (enc t) (s_tid s) l = Some (b, z)).
        { destruct (dec_many_ok (s_tid s) k l (length l) r Hgv Hwm Han (le_n _) Hdl) as (b & z & E & _).
          eauto. }
        destruct Hex as (b0 & z0 & E0).
        pose proof (enc_many_length _ _ _ _ E0) as Hlen.
        destruct (dec_many_ok (s_tid s) k l (length (b0 ++ r)) r Hgv Hwm Han
                    ltac:(rewrite app_length; lia) Hdl) as (b & z & E & Hz & D).
        assert (b = b0) by congruence. subst b0.
        exists (b ++ r), (z + rz). cbn [enc_subs dec_subs]. rewrite A, E, Er.
        repeat split; [rewrite len_app; lia|].
        rewrite D, Dr. reflexivity.
  Qed.

  Lemma fixed_size_len fs : forall vs acc fb fsz n,
    wf_fields fs vs -> enc_fields fs vs acc = Some (fb, fsz) ->
    fixed_fields_size fs = Some n -> length fb = n.
  Proof.
    induction fs as [|f fs IH]; intros vs acc fb fsz n Hv E Hn.
    - cbn in Hv. subst vs. cbn in E, Hn. injection E as <- <-. injection Hn as <-. reflexivity.
    - cbn [fixed_fields_size] in Hn.
      destruct (fixed_fields_size fs) as [m|] eqn:Fm; [|discriminate].
      destruct f as [size|bits bit partial|k|k|e| | | ]; try discriminate.
      + destruct vs as [|v vs]; [contradiction|]. destruct Hv as [Hf Hv].
        destruct v; try contradiction. cbn [enc_fields] in E.
        destruct (enc_fields fs vs 0) as [[r sz]|] eqn:Er; [|discriminate].
        injection E as <- <-. injection Hn as <-. rewrite app_length, be_length.
        rewrite (IH _ _ _ _ _ Hv Er eq_refl). reflexivity.
      + destruct vs as [|v vs]; [contradiction|]. destruct Hv as [Hf Hv].
        destruct v; try contradiction. cbn [enc_fields] in E. destruct partial.
        * injection Hn as <-. eapply IH; eauto.
        * destruct (enc_fields fs vs 0) as [[r sz]|] eqn:Er; [|discriminate].
          injection E as <- <-. injection Hn as <-. cbn [length].
          rewrite (IH _ _ _ _ _ Hv Er eq_refl). reflexivity.
      + cbn in Hv. cbn [enc_fields] in E.
        destruct (enc_fields fs vs 0) as [[r sz]|] eqn:Er; [|discriminate].
        injection E as <- <-. injection Hn as <-. rewrite app_length, repeat_length.
        rewrite (IH _ _ _ _ _ Hv Er eq_refl). reflexivity.
      + destruct vs as [|v vs]; [contradiction|]. destruct Hv as [Hf Hv].
        destruct v; try contradiction. cbn in Hf. destruct Hf as [Hl _]. cbn [enc_fields] in E.
        destruct (enc_fields fs vs 0) as [[r sz]|] eqn:Er; [|discriminate].
        injection E as <- <-. injection Hn as <-. rewrite app_length, Hl.
        rewrite (IH _ _ _ _ _ Hv Er eq_refl). reflexivity.
  Qed.

  Lemma wf_subs_nil vs chosen pending : wf_subs t (wfv t) [] vs chosen pending -> vs = [].
  Proof. destruct vs; cbn; [reflexivity|contradiction]. Qed.

  (* fields + sub-parameters of one container *)
  Lemma body_roundtrip c msg fs ss k :
    wf_container t c = true -> Forall good ss ->
    wf_fields (c_fields c) fs -> wf_subs t (wfv t) (c_subs c) ss 0 0 ->
    (forall v, In v ss -> (depth v <= k)%nat) ->
    exists fb fsz sb ssz,
      enc_fields (c_fields c) fs 0 = Some (fb, fsz) /\ fsz = len fb /\
      enc_subs (enc t) (c_subs c) ss 0 = Some (sb, ssz) /\ ssz = len sb /\
      (c_subs c = [] -> sb = []) /\
      dec_body t (dec_param t k) (zero_param t k) c msg (fb ++ sb)
        = Some (VStruct msg (c_tid c) fs ss).
  Proof.
    intros Hc Hg Hf Hs Hd.
    destruct (container_parts c Hc) as (Hfs & Hrest & Hord & Hsubs & _ & _).
    destruct (fields_roundtrip (c_fields c) fs 0 0%nat Hfs Hf (Nat.le_0_l 8) N_lt_0_256 eq_refl)
      as (fb & fsz & Ef & Hfsz & _ & Df & _).
    destruct (subs_roundtrip k ss (c_subs c) 0 0 Hg Hord Hsubs Hs Hd) as (sb & ssz & Es & Hssz & Ds).
    assert (Hnil : c_subs c = [] -> sb = []).
    { intros Hn. rewrite Hn in Hs, Es. apply wf_subs_nil in Hs. subst ss.
      cbn in Es. injection Es as <- _. reflexivity. }
    exists fb, fsz, sb, ssz. repeat split; try assumption.
    unfold dec_body. rewrite (Df eq_refl sb).
    - rewrite Ds. reflexivity.
    - destruct Hrest as [H|H]; [left; exact H|right; apply Hnil, H].
  Qed.

  Lemma good_struct msg tid fs ss : Forall good ss -> good (VStruct msg tid fs ss).
  Proof.
    intros Hg. cbn [good]. split.
    - (* parameter *)
      intros tid' fs' ss' Ev Hw. injection Ev as -> -> -> ->.
      pose proof Hw as Hw0. cbn [wfv] in Hw.
      destruct (find_container t false tid') as [c|] eqn:F; [|contradiction].
      destruct Hw as (Hf & Hs & Hsz).
      pose proof (find_container_spec _ _ _ _ F) as (_ & Hm & Ht).
      pose proof (find_container_wf _ _ _ _ Hwf F) as Hc.
      destruct (container_parts c Hc) as (_ & _ & _ & _ & Hk & Htv).
      specialize (Hsz Hm).
      assert (Hbody : forall k, (forall v, In v ss' -> (depth v <= k)%nat) ->
                 exists fb fsz sb ssz,
                   enc_fields (c_fields c) fs' 0 = Some (fb, fsz) /\ fsz = len fb /\
                   enc_subs (enc t) (c_subs c) ss' 0 = Some (sb, ssz) /\ ssz = len sb /\
                   (c_subs c = [] -> sb = []) /\
                   dec_body t (dec_param t k) (zero_param t k) c false (fb ++ sb)
                     = Some (VStruct false (c_tid c) fs' ss'))
        by (intros k Hd; apply body_roundtrip; assumption).
      set (k0 := fold_right (fun y a => Nat.max (depth y) a) O ss').
      destruct (Hbody k0 (fun v Hv => depth_list_le ss' v Hv))
        as (fb & fsz & sb & ssz & Ef & Hfsz & Es & Hssz & Hnil & _).
      set (sz := header_size (c_kind c) + fsz + ssz).
      assert (Eenc : enc t (VStruct false tid' fs' ss')
                     = Some (header_bytes (c_kind c) tid' sz ++ fb ++ sb, sz)).
      { cbn [enc]. rewrite F, Ef, Es. reflexivity. }
      rewrite Eenc in Hsz.
      exists (header_bytes (c_kind c) tid' sz ++ fb ++ sb), sz. split; [exact Eenc|].
      assert (Hlen : sz = len (header_bytes (c_kind c) tid' sz ++ fb ++ sb)).
      { rewrite !len_app. unfold sz at 1. rewrite Hfsz, Hssz.
        destruct (c_kind c); cbn [header_size header_bytes]; unfold len; cbn [length]; lia. }
      split; [exact Hlen|].
      intros fuel rest Hdep. cbn [depth] in Hdep. fold k0 in Hdep.
      destruct fuel as [|k]; [lia|].
      assert (Hd : forall v, In v ss' -> (depth v <= k)%nat).
      { intros v Hv. pose proof (depth_list_le ss' v Hv). fold k0 in H. lia. }
      destruct (Hbody k Hd) as (fb2 & fsz2 & sb2 & ssz2 & Ef2 & _ & Es2 & _ & _ & Db).
      rewrite Ef in Ef2. injection Ef2 as <- <-. rewrite Es in Es2. injection Es2 as <- <-.
      cbn [dec_param]. rewrite F. unfold kind_ok in Hk.
      destruct (c_kind c) eqn:K; cbn [is_msg_kind] in Hm; try discriminate.
      + (* TLV *)
        destruct Hk as [Hk1 Hk2]. rewrite Ht in *.
        destruct (tlv_type_bytes tid' ltac:(lia)) as [Et _].
        cbn [header_bytes app]. rewrite Et, N.eqb_refl.
        rewrite (u16_bytes sz Hsz).
        assert (H4 : 4 <= sz) by (unfold sz; cbn [header_size]; lia).
        replace (4 <=? sz) with true by (symmetry; apply N.leb_le; exact H4).
        cbn [andb].
        rewrite (take_exact_app_n (N.to_nat (sz - 4))).
        * rewrite Db. reflexivity.
        * unfold sz. cbn [header_size]. rewrite Hfsz, Hssz, app_length. unfold len. lia.
      + (* TV *)
        destruct (Htv eq_refl) as (Hnosub & n & Hn).
        rewrite Ht in *. cbn [header_bytes app]. rewrite (tv_header_byte tid' Hk), Hn, N.eqb_refl.
        rewrite (Hnil Hnosub) in *. rewrite app_nil_r in *.
        rewrite (take_exact_app_n n) by (eapply fixed_size_len; eauto).
        rewrite Db. reflexivity.
    - (* message *)
      intros tid' fs' ss' Ev Hw. injection Ev as -> -> -> ->.
      cbn [wfv] in Hw.
      destruct (find_container t true tid') as [c|] eqn:F; [|contradiction].
      destruct Hw as (Hf & Hs & _).
      pose proof (find_container_spec _ _ _ _ F) as (_ & Hm & Ht).
      pose proof (find_container_wf _ _ _ _ Hwf F) as Hc.
      set (k0 := fold_right (fun y a => Nat.max (depth y) a) O ss').
      destruct (body_roundtrip c true fs' ss' k0 Hc Hg Hf Hs (fun v Hv => depth_list_le ss' v Hv))
        as (fb & fsz & sb & ssz & Ef & Hfsz & Es & Hssz & Hnil & _).
      assert (Kk : c_kind c = KMsg) by (destruct (c_kind c); cbn in Hm; congruence).
      exists (fb ++ sb), (header_size (c_kind c) + fsz + ssz). split.
      + cbn [enc]. rewrite F, Ef, Es, Kk. reflexivity.
      + intros fuel Hdep. cbn [depth] in Hdep. fold k0 in Hdep.
        assert (Hd : forall v, In v ss' -> (depth v <= fuel)%nat).
        { intros v Hv. pose proof (depth_list_le ss' v Hv). fold k0 in H. lia. }
        destruct (body_roundtrip c true fs' ss' fuel Hc Hg Hf Hs Hd)
          as (fb2 & fsz2 & sb2 & ssz2 & Ef2 & _ & Es2 & _ & _ & Db).
        rewrite Ef in Ef2. injection Ef2 as <- <-. rewrite Es in Es2. injection Es2 as <- <-.
        unfold dec_msg. rewrite F, Db, Ht. reflexivity.
  Qed.

  Theorem all_good : forall v, good v.
  Proof.
    apply value_ind'; try (intros; exact I).
    - apply good_struct.
    - intros x Hx. cbn [good]. destruct x; try (intros ? ? ? Ev; discriminate Ev).
      cbn [good] in Hx. apply Hx.
    - intros l Hl. cbn [good]. apply Forall_forall. intros x Hin.
      rewrite Forall_forall in Hl. specialize (Hl x Hin).
      destruct x; try (intros ? ? ? Ev; discriminate Ev). cbn [good] in Hl. apply Hl.
  Qed.
End RT.

(* ---------- C01 statements ---------- *)

(* every well-formed value has an encoding *)
Theorem encode_total t v :
  wf_schema t = true -> wfv t v -> exists bs, encode t v = Some bs.
Proof.
  intros Hs Hw. destruct v as [| | | |msg tid fs ss| |]; try contradiction.
  pose proof (all_good t Hs (VStruct msg tid fs ss)) as [Gp Gm]. unfold encode.
  destruct msg.
  - destruct (Gm _ _ _ eq_refl Hw) as (bs & sz & E & _). rewrite E. eauto.
  - destruct (Gp _ _ _ eq_refl Hw) as (bs & sz & E & _). rewrite E. eauto.
Qed.

(* decoding the encoding of a well-formed value yields the value *)
Theorem decode_encode t msg tid fs ss bs fuel :
  wf_schema t = true -> wfv t (VStruct msg tid fs ss) ->
  (depth (VStruct msg tid fs ss) <= fuel)%nat ->
  encode t (VStruct msg tid fs ss) = Some bs ->
  decode t fuel msg tid bs = Some (VStruct msg tid fs ss).
Proof.
  intros Hs Hw Hd He. pose proof (all_good t Hs (VStruct msg tid fs ss)) as [Gp Gm].
  unfold encode in He. unfold decode. destruct msg.
  - destruct (Gm _ _ _ eq_refl Hw) as (bs' & sz & E & D). rewrite E in He. injection He as <-.
    apply D. lia.
  - destruct (Gp _ _ _ eq_refl Hw) as (bs' & sz & E & _ & D). rewrite E in He. injection He as <-.
    specialize (D fuel [] Hd). rewrite app_nil_r in D. rewrite D. reflexivity.
Qed.

(* hence re-encoding the decoded value reproduces the same bytes *)
Theorem reencode_same_bytes t msg tid fs ss bs fuel v' :
  wf_schema t = true -> wfv t (VStruct msg tid fs ss) ->
  (depth (VStruct msg tid fs ss) <= fuel)%nat ->
  encode t (VStruct msg tid fs ss) = Some bs ->
  decode t fuel msg tid bs = Some v' -> encode t v' = Some bs.
Proof.
  intros Hs Hw Hd He Hdec. rewrite (decode_encode t msg tid fs ss bs fuel Hs Hw Hd He) in Hdec.
  injection Hdec as <-. exact He.
Qed.

(* the size a TLV declares is the number of bytes it occupies *)
Theorem declared_size_exact t tid fs ss bs sz :
  wf_schema t = true -> wfv t (VStruct false tid fs ss) ->
  enc t (VStruct false tid fs ss) = Some (bs, sz) -> sz = len bs.
Proof.
  intros Hs Hw E. pose proof (all_good t Hs (VStruct false tid fs ss)) as [Gp _].
  destruct (Gp _ _ _ eq_refl Hw) as (bs' & sz' & E' & Hz & _). congruence.
Qed.
