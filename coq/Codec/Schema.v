(* Layout tables and generic value trees for the LLRP binary codec (C01, C02).
   A [table] is the content of spec/llrp_layout.json (see Codec/SchemaTable.v, generated). *)
From Coq Require Import NArith List Bool.
Import ListNotations.
Open Scope N_scope.

Definition bytes := list N.

Inductive fkind :=
| FNum (size : nat)                       (* size bytes, big-endian *)
| FBits (bits bit : nat) (partial : bool) (* sub-byte field: value << (8-bits-bit); partial = next field shares the byte *)
| FPad (size : nat)                       (* reserved zero bytes, no value *)
| FFixed (n : nat)                        (* []byte of exactly n bytes *)
| FCounted (esize : nat)                  (* u16 element count, then elements of esize bytes *)
| FString                                 (* u16 byte count, then bytes *)
| FBitArr                                 (* u16 bit count, then ceil(bits/8) bytes *)
| FRest.                                  (* all remaining bytes *)

Inductive arity := One | Opt | Many.

(* s_group = 0: ordinary; otherwise members of the same group are mutually exclusive
   alternatives (arity One): the encoder emits the first non-zero one *)
(* s_req: a repeatable sub-parameter that is not optional needs at least one element *)
Record sub := { s_tid : N; s_arity : arity; s_group : N; s_req : bool }.

Inductive ckind := KMsg | KTLV | KTV.
Record container := { c_kind : ckind; c_tid : N; c_fields : list fkind; c_subs : list sub }.
Definition table := list container.

Definition is_msg_kind (k : ckind) : bool := match k with KMsg => true | _ => false end.

Fixpoint find_container (t : table) (msg : bool) (tid : N) : option container :=
  match t with
  | [] => None
  | c :: t' => if Bool.eqb (is_msg_kind (c_kind c)) msg && (c_tid c =? tid) then Some c
               else find_container t' msg tid
  end.

Inductive value :=
| VNum (n : N)
| VBytes (bs : bytes)
| VBitArr (nbits : N) (bs : bytes)
| VNums (ns : list N)
| VStruct (msg : bool) (tid : N) (fs : list value) (ss : list value)
| VOpt (o : option value)
| VList (l : list value).

(* ---- small byte helpers shared by encoder and decoder ---- *)

(* big-endian bytes of x as Go writes them: byte(x>>8(k-1)), ..., byte(x) *)
Fixpoint be (size : nat) (x : N) : bytes :=
  match size with
  | O => []
  | S k => (N.shiftr x (8 * N.of_nat k)) mod 256 :: be k x
  end.

(* value of a big-endian byte string *)
Fixpoint from_be (bs : bytes) (acc : N) : N :=
  match bs with
  | [] => acc
  | b :: r => from_be r (acc * 256 + b)
  end.

Definition bitarr_nbytes (nbits : N) : N :=
  (* 1 + ((int(NumBits) - 1) >> 3) with an arithmetic shift: 0 bits -> 0 bytes *)
  if nbits =? 0 then 0 else (nbits - 1) / 8 + 1.

Definition field_nonzero (v : value) : bool :=
  match v with
  | VNum n => negb (n =? 0)
  | VBytes bs => match bs with [] => false | _ => true end
  | VBitArr _ bs => match bs with [] => false | _ => true end
  | VNums ns => match ns with [] => false | _ => true end
  | _ => true
  end.

(* the condition of the generated `switch` for mutually exclusive alternatives *)
Definition alt_nonzero (v : value) : bool :=
  match v with
  | VStruct _ _ fs _ => forallb field_nonzero fs
  | _ => false
  end.

Definition field_zero (f : fkind) : option value :=
  match f with
  | FNum _ | FBits _ _ _ => Some (VNum 0)
  | FPad _ => None
  | FFixed _ | FString | FRest => Some (VBytes [])
  | FCounted _ => Some (VNums [])
  | FBitArr => Some (VBitArr 0 [])
  end.

Fixpoint fields_zero (fs : list fkind) : list value :=
  match fs with
  | [] => []
  | f :: r => match field_zero f with Some v => v :: fields_zero r | None => fields_zero r end
  end.

(* zero value of a parameter (what Go's zero struct looks like as a tree); fuel bounds nesting *)
Fixpoint zero_param (t : table) (fuel : nat) (tid : N) : value :=
  match fuel with
  | O => VStruct false tid [] []
  | S k =>
    match find_container t false tid with
    | None => VStruct false tid [] []
    | Some c =>
      VStruct false tid (fields_zero (c_fields c))
        (map (fun s => match s_arity s with
                       | One => zero_param t k (s_tid s)
                       | Opt => VOpt None
                       | Many => VList []
                       end) (c_subs c))
    end
  end.
