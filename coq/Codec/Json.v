(* The JSON form of LLRP values (C01, JSON clause): what encoding/json produces for the generated
   structs of pkg/llrp (no json tags, no custom (Un)MarshalJSON / MarshalText), and what it reads back.
   Table-driven like Encode.v / Decode.v: a [jtable] (Codec/JsonTable.v, generated from
   spec/llrp_layout.json) gives, per container, the Go field names in struct order and the
   Go-type facts that decide the JSON shape:

     uintN / intN / named numeric types     number (intN: negative numbers; uint64 printed exactly)
     bool                                    true / false
     []byte, []uint8                         base64 string (StdEncoding, padded); null for nil
     string                                  string; invalid UTF-8 is replaced by U+FFFD when marshalling
     []uint16, []uint32, ...                 array of numbers; null for nil
     bit array                               two members: <name>NumBits (number), <name> (base64 / null)
     sub-parameter T / *T / []T              object / null or object / null or array of objects
     `type X uint16` (inline container)      a bare number (or bare true/false) instead of an object
     padding                                 no member

   Value trees identify nil and empty ([] everywhere): the model prints them as Go prints nil
   (null; the empty string for a text field) and reads null / [] / "" back as [].

   Model only; proofs are in Codec/JsonProofs.v. *)
From Coq Require Import NArith ZArith List Bool.
From Coq Require String.
Import String.StringSyntax.
Delimit Scope string_scope with string.
From LLRP Require Import Codec.Schema Codec.Encode Codec.Base64.
Import ListNotations.
Open Scope N_scope.

Notation name := String.string.

(* ---------- JSON trees ---------- *)
Inductive json :=
| JNull
| JBool (b : bool)
| JNum (z : Z)                       (* only integers occur *)
| JStr (bs : list N)                 (* the string's UTF-8 bytes (after unescaping) *)
| JArr (l : list json)
| JObj (m : list (name * json)).     (* members in document order *)

(* ---------- UTF-8, as unicode/utf8.DecodeRune accepts it ---------- *)
Definition utf8_cont (b : N) : bool := (128 <=? b) && (b <=? 191).

(* length (1..4) of the well-formed UTF-8 sequence at the head of l; O if there is none.
   Second-byte ranges as in utf8.acceptRanges: E0 A0..BF, ED 80..9F, F0 90..BF, F4 80..8F. *)
Definition utf8_len (l : list N) : nat :=
  match l with
  | [] => O
  | b0 :: r =>
    if b0 <? 128 then 1%nat
    else if (194 <=? b0) && (b0 <=? 223) then
      match r with
      | b1 :: _ => if utf8_cont b1 then 2%nat else O
      | _ => O
      end
    else if (224 <=? b0) && (b0 <=? 239) then
      match r with
      | b1 :: b2 :: _ =>
        if ((if b0 =? 224 then 160 else 128) <=? b1) && (b1 <=? (if b0 =? 237 then 159 else 191))
           && utf8_cont b2 then 3%nat else O
      | _ => O
      end
    else if (240 <=? b0) && (b0 <=? 244) then
      match r with
      | b1 :: b2 :: b3 :: _ =>
        if ((if b0 =? 240 then 144 else 128) <=? b1) && (b1 <=? (if b0 =? 244 then 143 else 191))
           && utf8_cont b2 && utf8_cont b3 then 4%nat else O
      | _ => O
      end
    else O
  end.

(* [skip]: bytes of the current sequence still to be passed over *)
Fixpoint utf8_valid_from (skip : nat) (l : list N) : bool :=
  match l with
  | [] => true
  | _ :: r =>
    match skip with
    | S k => utf8_valid_from k r
    | O => match utf8_len l with
           | O => false
           | S k => utf8_valid_from k r
           end
    end
  end.

Definition utf8_valid (l : list N) : bool := utf8_valid_from 0 l.

(* what json.Marshal makes of a Go string: every byte that does not start a well-formed
   sequence becomes U+FFFD (EF BF BD); everything else is kept *)
Fixpoint utf8_sanitize_from (skip : nat) (l : list N) : list N :=
  match l with
  | [] => []
  | b :: r =>
    match skip with
    | S k => b :: utf8_sanitize_from k r
    | O => match utf8_len l with
           | O => 239 :: 191 :: 189 :: utf8_sanitize_from 0 r
           | S k => b :: utf8_sanitize_from k r
           end
    end
  end.

Definition utf8_sanitize (l : list N) : list N := utf8_sanitize_from 0 l.

(* ---------- the JSON view of the layout table ---------- *)
Inductive jfield :=
| JFNum (nm : name) (signed : bool) (bits : N)   (* uintN / intN (or a named type of that kind) *)
| JFBool (nm : name)
| JFBytes (nm : name)                            (* []byte holding a VBytes *)
| JFByteNums (nm : name)                         (* []byte / []uint8 holding a counted list (VNums) *)
| JFString (nm : name)
| JFNums (nm : name) (signed : bool) (bits : N)  (* []uintN / []intN, not bytes *)
| JFBitArr (nm : name).                          (* <nm>NumBits uint16, <nm> []byte *)

Record jsub := { js_name : name; js_tid : N; js_arity : arity }.

Record jcontainer := {
  j_msg : bool; j_tid : N;
  j_inline : bool;                (* Go type is `type X <numeric|bool>`, not a struct *)
  j_fields : list jfield;         (* one per non-padding field, struct order *)
  j_subs : list jsub }.

Definition jtable := list jcontainer.

Fixpoint find_jc (jt : jtable) (msg : bool) (tid : N) : option jcontainer :=
  match jt with
  | [] => None
  | c :: jt' => if Bool.eqb (j_msg c) msg && (j_tid c =? tid) then Some c else find_jc jt' msg tid
  end.

Definition jf_name (jf : jfield) : name :=
  match jf with
  | JFNum nm _ _ | JFBool nm | JFBytes nm | JFByteNums nm | JFString nm | JFNums nm _ _ | JFBitArr nm => nm
  end.

Definition numbits_name (nm : name) : name := String.append nm "NumBits"%string.

(* ---------- numbers ---------- *)
(* value trees hold the unsigned bit pattern; Go prints an intN as a signed number *)
Definition num_to_z (signed : bool) (bits n : N) : Z :=
  if signed && (2 ^ (bits - 1) <=? n) then (Z.of_N n - Z.of_N (2 ^ bits))%Z else Z.of_N n.

(* Unmarshal rejects a number that does not fit the Go type *)
Definition num_of_z (signed : bool) (bits : N) (z : Z) : option N :=
  if signed then
    if ((- Z.of_N (2 ^ (bits - 1)) <=? z) && (z <? Z.of_N (2 ^ (bits - 1))))%Z
    then Some (Z.to_N (z mod Z.of_N (2 ^ bits))) else None
  else
    if ((0 <=? z) && (z <? Z.of_N (2 ^ bits)))%Z then Some (Z.to_N z) else None.

(* ---------- value -> JSON (json.Marshal) ---------- *)
Definition bytes_json (bs : list N) : json :=
  match bs with [] => JNull | _ => JStr (b64_encode bs) end.

Definition nums_json (signed : bool) (bits : N) (ns : list N) : json :=
  match ns with [] => JNull | _ => JArr (map (fun n => JNum (num_to_z signed bits n)) ns) end.

Definition field_members (jf : jfield) (v : value) : option (list (name * json)) :=
  match jf, v with
  | JFNum nm sg bits, VNum n => Some [(nm, JNum (num_to_z sg bits n))]
  | JFBool nm, VNum n => Some [(nm, JBool (negb (n =? 0)))]
  | JFBytes nm, VBytes bs => Some [(nm, bytes_json bs)]
  | JFByteNums nm, VNums ns => Some [(nm, bytes_json ns)]
  | JFString nm, VBytes bs => Some [(nm, JStr (utf8_sanitize bs))]
  | JFNums nm sg bits, VNums ns => Some [(nm, nums_json sg bits ns)]
  | JFBitArr nm, VBitArr nb bs => Some [(numbits_name nm, JNum (Z.of_N nb)); (nm, bytes_json bs)]
  | _, _ => None
  end.

Fixpoint to_json_fields (jfs : list jfield) (vs : list value) : option (list (name * json)) :=
  match jfs, vs with
  | [], [] => Some []
  | jf :: jfs', v :: vs' =>
    match field_members jf v, to_json_fields jfs' vs' with
    | Some m, Some r => Some (m ++ r)
    | _, _ => None
    end
  | _, _ => None
  end.

(* the single value of an inline container, printed bare *)
Definition scalar_json (jf : jfield) (v : value) : option json :=
  match jf, v with
  | JFNum _ sg bits, VNum n => Some (JNum (num_to_z sg bits n))
  | JFBool _, VNum n => Some (JBool (negb (n =? 0)))
  | _, _ => None
  end.

Section SubsToJson.
  (* [e] prints one parameter value *)
  Variable e : value -> option json.

  Fixpoint to_json_many (tid : N) (l : list value) : option (list json) :=
    match l with
    | [] => Some []
    | x :: l' =>
      if is_param tid x then
        match e x, to_json_many tid l' with
        | Some j, Some r => Some (j :: r)
        | _, _ => None
        end
      else None
    end.

  (* every sub-parameter is a struct field and therefore a member: T as its object, *T as null
     or its object, []T as null (nil) or an array. Mutually exclusive alternatives are plain
     struct fields: all are printed. *)
  Fixpoint to_json_subs (subs : list jsub) (vs : list value) {struct vs} : option (list (name * json)) :=
    match vs, subs with
    | [], [] => Some []
    | v' :: vs', s :: subs' =>
      match
        (match js_arity s, v' with
         | One, VStruct _ _ _ _ => if is_param (js_tid s) v' then e v' else None
         | Opt, VOpt None => Some JNull
         | Opt, VOpt (Some x) => if is_param (js_tid s) x then e x else None
         | Many, VList l =>
             match l with
             | [] => Some JNull
             | _ => match to_json_many (js_tid s) l with Some js => Some (JArr js) | None => None end
             end
         | _, _ => None
         end), to_json_subs subs' vs' with
      | Some j, Some r => Some ((js_name s, j) :: r)
      | _, _ => None
      end
    | _, _ => None
    end.
End SubsToJson.

Fixpoint to_json (jt : jtable) (v : value) {struct v} : option json :=
  match v with
  | VStruct msg tid fs ss =>
    match find_jc jt msg tid with
    | None => None
    | Some jc =>
      if j_inline jc then
        match j_fields jc, fs, ss with
        | [jf], [x], [] => scalar_json jf x
        | _, _, _ => None
        end
      else
        match to_json_fields (j_fields jc) fs, to_json_subs (to_json jt) (j_subs jc) ss with
        | Some fm, Some sm => Some (JObj (fm ++ sm))
        | _, _ => None
        end
    end
  | _ => None
  end.

(* ---------- JSON -> value (json.Unmarshal into a fresh zero value) ----------
   A partial model: defined on objects whose members are exactly the struct's fields in struct
   order — which is what Marshal emits.  Unmarshal's leniencies (unknown members ignored, missing
   members left zero, case-insensitive names, duplicates, null into a non-pointer) are not
   modelled; on such input [of_json] answers None. *)
Definition of_bytes_json (j : json) : option (list N) :=
  match j with
  | JNull => Some []
  | JStr s => b64_decode s
  | _ => None
  end.

Fixpoint of_nums_json (signed : bool) (bits : N) (l : list json) : option (list N) :=
  match l with
  | [] => Some []
  | JNum z :: r =>
    match num_of_z signed bits z, of_nums_json signed bits r with
    | Some n, Some ns => Some (n :: ns)
    | _, _ => None
    end
  | _ => None
  end.

Definition scalar_of_json (jf : jfield) (j : json) : option value :=
  match jf, j with
  | JFNum _ sg bits, JNum z => match num_of_z sg bits z with Some n => Some (VNum n) | None => None end
  | JFBool _, JBool b => Some (VNum (if b then 1 else 0))
  | _, _ => None
  end.

(* one member (not a bit array) *)
Definition field_of_json (jf : jfield) (j : json) : option value :=
  match jf with
  | JFNum _ _ _ | JFBool _ => scalar_of_json jf j
  | JFBytes _ => match of_bytes_json j with Some bs => Some (VBytes bs) | None => None end
  | JFByteNums _ => match of_bytes_json j with Some bs => Some (VNums bs) | None => None end
  | JFString _ => match j with JStr bs => Some (VBytes bs) | _ => None end
  | JFNums _ sg bits =>
    match j with
    | JNull => Some (VNums [])
    | JArr l => match of_nums_json sg bits l with Some ns => Some (VNums ns) | None => None end
    | _ => None
    end
  | JFBitArr _ => None
  end.

Inductive mspec := MF (f : jfield) | MS (s : jsub).

Definition members_spec (jc : jcontainer) : list mspec :=
  map MF (j_fields jc) ++ map MS (j_subs jc).

Section MembersOfJson.
  (* [d tid j] reads one parameter of type tid *)
  Variable d : N -> json -> option value.

  Fixpoint of_json_many (tid : N) (l : list json) : option (list value) :=
    match l with
    | [] => Some []
    | j :: l' =>
      match d tid j, of_json_many tid l' with
      | Some v, Some r => Some (v :: r)
      | _, _ => None
      end
    end.

  (* the members of an object against the struct's fields, in order; one value per field / sub *)
  Fixpoint of_json_members (specs : list mspec) (m : list (name * json)) {struct m} : option (list value) :=
    match specs with
    | [] => match m with [] => Some [] | _ => None end
    | MF (JFBitArr nm) :: specs' =>
      match m with
      | (k1, j1) :: (k2, j2) :: r =>
        if String.eqb k1 (numbits_name nm) && String.eqb k2 nm then
          match j1 with
          | JNum z =>
            match num_of_z false 16 z, of_bytes_json j2, of_json_members specs' r with
            | Some nb, Some bs, Some vs => Some (VBitArr nb bs :: vs)
            | _, _, _ => None
            end
          | _ => None
          end
        else None
      | _ => None
      end
    | MF jf :: specs' =>
      match m with
      | (k, j) :: r =>
        if String.eqb k (jf_name jf) then
          match field_of_json jf j, of_json_members specs' r with
          | Some v, Some vs => Some (v :: vs)
          | _, _ => None
          end
        else None
      | [] => None
      end
    | MS s :: specs' =>
      match m with
      | (k, j) :: r =>
        if String.eqb k (js_name s) then
          match
            (match js_arity s with
             | One => d (js_tid s) j
             | Opt => match j with
                      | JNull => Some (VOpt None)
                      | _ => match d (js_tid s) j with Some x => Some (VOpt (Some x)) | None => None end
                      end
             | Many => match j with
                       | JNull => Some (VList [])
                       | JArr l => match of_json_many (js_tid s) l with Some vs => Some (VList vs) | None => None end
                       | _ => None
                       end
             end), of_json_members specs' r with
          | Some v, Some vs => Some (v :: vs)
          | _, _ => None
          end
        else None
      | [] => None
      end
    end.
End MembersOfJson.

Fixpoint of_json (jt : jtable) (msg : bool) (tid : N) (j : json) {struct j} : option value :=
  match find_jc jt msg tid with
  | None => None
  | Some jc =>
    if j_inline jc then
      match j_fields jc with
      | [jf] => match scalar_of_json jf j with
                | Some x => Some (VStruct msg tid [x] [])
                | None => None
                end
      | _ => None
      end
    else
      match j with
      | JObj m =>
        match of_json_members (of_json jt false) (members_spec jc) m with
        | Some vals =>
          let nf := length (j_fields jc) in
          Some (VStruct msg tid (firstn nf vals) (skipn nf vals))
        | None => None
        end
      | _ => None
      end
  end.

(* marshal, then unmarshal into a fresh value *)
Definition json_roundtrip_of (jt : jtable) (v : value) : option value :=
  match v with
  | VStruct msg tid _ _ =>
    match to_json jt v with
    | Some j => of_json jt msg tid j
    | None => None
    end
  | _ => None
  end.

(* ---------- the premise "text fields hold valid UTF-8" ---------- *)
Definition field_text_ok (jf : jfield) (v : value) : bool :=
  match jf, v with
  | JFString _, VBytes bs => utf8_valid bs
  | _, _ => true
  end.

Fixpoint fields_text_ok (jfs : list jfield) (vs : list value) : bool :=
  match jfs, vs with
  | jf :: jfs', v :: vs' => field_text_ok jf v && fields_text_ok jfs' vs'
  | _, _ => true
  end.

Fixpoint text_ok (jt : jtable) (v : value) {struct v} : bool :=
  match v with
  | VStruct msg tid fs ss =>
    match find_jc jt msg tid with
    | None => true
    | Some jc => fields_text_ok (j_fields jc) fs && forallb (text_ok jt) ss
    end
  | VOpt (Some x) => text_ok jt x
  | VList l => forallb (text_ok jt) l
  | _ => true
  end.

(* ---------- the JSON view agrees with the layout table ---------- *)
Definition field_compat (f : fkind) (jf : jfield) : bool :=
  match f, jf with
  | FNum s, JFNum _ _ bits => (bits =? 8 * N.of_nat s) && (0 <? bits)
  | FBits b _ _, JFNum _ false bits => (N.of_nat b <=? bits) && (0 <? bits)
  | FBits b _ _, JFBool _ => Nat.eqb b 1
  | FFixed _, JFBytes _ => true
  | FRest, JFBytes _ => true
  | FCounted e, JFNums _ _ bits => (bits =? 8 * N.of_nat e) && (0 <? bits)
  | FCounted e, JFByteNums _ => Nat.eqb e 1
  | FString, JFString _ => true
  | FBitArr, JFBitArr _ => true
  | _, _ => false
  end.

Fixpoint fields_compat (fs : list fkind) (jfs : list jfield) : bool :=
  match fs with
  | [] => match jfs with [] => true | _ => false end
  | FPad _ :: fs' => fields_compat fs' jfs
  | f :: fs' =>
    match jfs with
    | jf :: jfs' => field_compat f jf && fields_compat fs' jfs'
    | [] => false
    end
  end.

Definition arity_eqb (a b : arity) : bool :=
  match a, b with One, One | Opt, Opt | Many, Many => true | _, _ => false end.

Fixpoint subs_compat (ss : list sub) (jss : list jsub) : bool :=
  match ss, jss with
  | [], [] => true
  | s :: ss', js :: jss' => (s_tid s =? js_tid js) && arity_eqb (s_arity s) (js_arity js) && subs_compat ss' jss'
  | _, _ => false
  end.

Definition inline_ok (jc : jcontainer) : bool :=
  if j_inline jc then
    match j_fields jc, j_subs jc with
    | [JFNum _ _ _], [] | [JFBool _], [] => true
    | _, _ => false
    end
  else true.

Definition jc_compat (c : container) (jc : jcontainer) : bool :=
  fields_compat (c_fields c) (j_fields jc) && subs_compat (c_subs c) (j_subs jc) && inline_ok jc.

(* every container of the layout table has a JSON view of the same shape *)
Definition jt_ok (t : table) (jt : jtable) : bool :=
  forallb (fun c => match find_jc jt (is_msg_kind (c_kind c)) (c_tid c) with
                    | Some jc => jc_compat c jc
                    | None => false
                    end) t.

(* member names of one container are pairwise distinct (Go struct fields are); with this a
   by-name reader and the positional reader above agree on Marshal's output *)
Fixpoint member_names (jfs : list jfield) : list name :=
  match jfs with
  | [] => []
  | JFBitArr nm :: r => numbits_name nm :: nm :: member_names r
  | jf :: r => jf_name jf :: member_names r
  end.

Fixpoint names_distinct (l : list name) : bool :=
  match l with
  | [] => true
  | x :: r => negb (existsb (String.eqb x) r) && names_distinct r
  end.

Definition jt_names_ok (jt : jtable) : bool :=
  forallb (fun jc => names_distinct (member_names (j_fields jc) ++ map js_name (j_subs jc))) jt.

(* ---------- the domain of the JSON round trip ----------
   Weaker than Wf.wfv: no constraint on encoded sizes, on fixed lengths, on bit-array byte
   counts, on exclusive groups or on required lists. *)
Definition jbytes (bs : list N) : Prop := Forall (fun b => b < 256) bs.

Definition jdom_field (jf : jfield) (v : value) : Prop :=
  match jf, v with
  | JFNum _ _ bits, VNum n => 0 < bits /\ n < 2 ^ bits
  | JFBool _, VNum n => n < 2
  | JFBytes _, VBytes bs => jbytes bs
  | JFByteNums _, VNums ns => jbytes ns
  | JFString _, VBytes bs => utf8_valid bs = true
  | JFNums _ _ bits, VNums ns => 0 < bits /\ Forall (fun x => x < 2 ^ bits) ns
  | JFBitArr _, VBitArr nb bs => nb < 65536 /\ jbytes bs
  | _, _ => False
  end.

Fixpoint jdom_fields (jfs : list jfield) (vs : list value) : Prop :=
  match jfs, vs with
  | [], [] => True
  | jf :: jfs', v :: vs' => jdom_field jf v /\ jdom_fields jfs' vs'
  | _, _ => False
  end.

Section JDomSubs.
  Variable w : value -> Prop.

  Fixpoint jdom_many (tid : N) (l : list value) : Prop :=
    match l with
    | [] => True
    | x :: l' => is_param tid x = true /\ w x /\ jdom_many tid l'
    end.

  Fixpoint jdom_subs (subs : list jsub) (vs : list value) {struct vs} : Prop :=
    match vs, subs with
    | [], [] => True
    | v' :: vs', s :: subs' =>
      (match js_arity s, v' with
       | One, VStruct _ _ _ _ => is_param (js_tid s) v' = true /\ w v'
       | Opt, VOpt None => True
       | Opt, VOpt (Some x) => is_param (js_tid s) x = true /\ w x
       | Many, VList l => jdom_many (js_tid s) l
       | _, _ => False
       end) /\ jdom_subs subs' vs'
    | _, _ => False
    end.
End JDomSubs.

Fixpoint jdom (jt : jtable) (v : value) {struct v} : Prop :=
  match v with
  | VStruct msg tid fs ss =>
    match find_jc jt msg tid with
    | None => False
    | Some jc =>
      jdom_fields (j_fields jc) fs /\ jdom_subs (jdom jt) (j_subs jc) ss /\ inline_ok jc = true
    end
  | _ => False
  end.
