(* C01, JSON clause: reading back (of_json) what Marshal prints (to_json) gives the value back.
   1. [json_roundtrip_dom]  for every JSON view and every value of the JSON domain [jdom];
   2. [wfv_jdom]            well-formed values (Wf.wfv) whose text fields hold valid UTF-8 are in [jdom],
                            whenever the JSON view agrees with the layout table ([jt_ok]);
   3. [json_roundtrip]      1 + 2. *)
From Coq Require Import NArith ZArith List Bool Arith Lia ZifyN ZifyNat ZifyBool.
From Coq Require String.
From LLRP Require Import Codec.Schema Codec.Encode Codec.Decode Codec.Wf Codec.RoundTrip
                         Codec.Base64 Codec.Base64Proofs Codec.Json.
Import ListNotations.
Open Scope N_scope.

(* ---------- UTF-8: a valid string is printed as it is ---------- *)
Lemma utf8_valid_sanitize_from : forall l k,
  utf8_valid_from k l = true -> utf8_sanitize_from k l = l.
Proof.
  induction l as [|b r IH]; intros k H; [reflexivity|].
  cbn [utf8_valid_from utf8_sanitize_from] in *.
  destruct k as [|k].
  - destruct (utf8_len (b :: r)) as [|k]; [discriminate|]. now rewrite (IH k H).
  - now rewrite (IH k H).
Qed.

Theorem utf8_valid_sanitize l : utf8_valid l = true -> utf8_sanitize l = l.
Proof. apply utf8_valid_sanitize_from. Qed.

(* ---------- numbers ---------- *)
Lemma pow2_half bits : 0 < bits -> 2 ^ bits = 2 * 2 ^ (bits - 1).
Proof.
  intros H. replace bits with (N.succ (bits - 1)) at 1 by lia. apply N.pow_succ_r'.
Qed.

Lemma num_roundtrip sg bits n :
  0 < bits -> n < 2 ^ bits -> num_of_z sg bits (num_to_z sg bits n) = Some n.
Proof.
  intros Hb Hn. unfold num_to_z, num_of_z.
  pose proof (pow2_half bits Hb) as Hp. remember (2 ^ (bits - 1)) as p eqn:Ep.
  rewrite Hp in *. clear Hp Ep.
  destruct sg; cbn [andb].
  - destruct (N.leb_spec p n) as [Hge|Hlt].
    + replace ((- Z.of_N p <=? Z.of_N n - Z.of_N (2 * p))%Z) with true by (symmetry; apply Z.leb_le; lia).
      replace ((Z.of_N n - Z.of_N (2 * p) <? Z.of_N p)%Z) with true by (symmetry; apply Z.ltb_lt; lia).
      cbn [andb]. f_equal.
      assert (E : ((Z.of_N n - Z.of_N (2 * p)) mod Z.of_N (2 * p) = Z.of_N n)%Z).
      { symmetry. apply (Z.mod_unique _ _ (-1)%Z); lia. }
      rewrite E. apply N2Z.id.
    + replace ((- Z.of_N p <=? Z.of_N n)%Z) with true by (symmetry; apply Z.leb_le; lia).
      replace ((Z.of_N n <? Z.of_N p)%Z) with true by (symmetry; apply Z.ltb_lt; lia).
      cbn [andb]. f_equal. rewrite Z.mod_small by lia. apply N2Z.id.
  - replace ((0 <=? Z.of_N n)%Z) with true by (symmetry; apply Z.leb_le; lia).
    replace ((Z.of_N n <? Z.of_N (2 * p))%Z) with true by (symmetry; apply Z.ltb_lt; lia).
    cbn [andb]. f_equal. apply N2Z.id.
Qed.

(* ---------- single members ---------- *)
Lemma bytes_json_rt bs : jbytes bs -> of_bytes_json (bytes_json bs) = Some bs.
Proof.
  intros H. destruct bs as [|b r]; [reflexivity|].
  cbn [bytes_json of_bytes_json]. apply b64_roundtrip, H.
Qed.

Lemma bytes_json_not_obj bs : forall z, bytes_json bs <> JNum z.
Proof. destruct bs; cbn; discriminate. Qed.

Lemma of_nums_json_rt sg bits ns :
  0 < bits -> Forall (fun x => x < 2 ^ bits) ns ->
  of_nums_json sg bits (map (fun n => JNum (num_to_z sg bits n)) ns) = Some ns.
Proof.
  intros Hb H. induction H as [|x l Hx Hl IH]; [reflexivity|].
  cbn [map of_nums_json]. now rewrite (num_roundtrip sg bits x Hb Hx), IH.
Qed.

Lemma nums_json_rt sg bits ns :
  0 < bits -> Forall (fun x => x < 2 ^ bits) ns ->
  match nums_json sg bits ns with
  | JNull => Some (VNums [])
  | JArr l => match of_nums_json sg bits l with Some ns' => Some (VNums ns') | None => None end
  | _ => None
  end = Some (VNums ns).
Proof.
  intros Hb H. destruct ns as [|x l]; [reflexivity|].
  unfold nums_json. now rewrite (of_nums_json_rt sg bits (x :: l) Hb H).
Qed.

Lemma bool_rt n : n < 2 -> (if negb (n =? 0) then 1 else 0) = n.
Proof. intros H. destruct (N.eqb_spec n 0); cbn [negb]; lia. Qed.

(* a field that is not a bit array is one member, read back by field_of_json *)
Lemma field_rt jf v :
  jdom_field jf v -> (forall nm, jf <> JFBitArr nm) ->
  exists j, field_members jf v = Some [(jf_name jf, j)] /\ field_of_json jf j = Some v.
Proof.
  intros H Hnb.
  destruct jf as [nm sg bits|nm|nm|nm|nm|nm sg bits|nm]; destruct v as [n|bs|nb bs|ns| | |];
    cbn [jdom_field] in H; try contradiction; cbn [field_members jf_name field_of_json scalar_of_json].
  - destruct H as [Hb Hn]. eexists; split; [reflexivity|]. cbn [field_of_json scalar_of_json].
    now rewrite (num_roundtrip sg bits n Hb Hn).
  - eexists; split; [reflexivity|]. cbn [field_of_json scalar_of_json]. now rewrite (bool_rt n H).
  - eexists; split; [reflexivity|]. cbn [field_of_json]. now rewrite (bytes_json_rt bs H).
  - eexists; split; [reflexivity|]. cbn [field_of_json]. now rewrite (bytes_json_rt ns H).
  - eexists; split; [reflexivity|]. cbn [field_of_json]. now rewrite (utf8_valid_sanitize bs H).
  - destruct H as [Hb Hn]. eexists; split; [reflexivity|]. cbn [field_of_json].
    apply nums_json_rt; assumption.
  - exfalso. now apply (Hnb nm).
Qed.

(* ---------- the field members of an object ---------- *)
Lemma jdom_fields_length jfs : forall fs, jdom_fields jfs fs -> length fs = length jfs.
Proof.
  induction jfs as [|jf jfs IH]; intros [|v fs] H; cbn [jdom_fields] in H; try contradiction; [reflexivity|].
  cbn [length]. f_equal. apply IH, H.
Qed.

Section Members.
  Variable d : N -> json -> option value.

  Lemma fields_members_rt jfs : forall fs specs' m',
    jdom_fields jfs fs ->
    exists fm, to_json_fields jfs fs = Some fm /\
      of_json_members d (map MF jfs ++ specs') (fm ++ m') =
      match of_json_members d specs' m' with Some vs => Some (fs ++ vs) | None => None end.
  Proof.
    induction jfs as [|jf jfs IH]; intros [|v fs] specs' m' H; cbn [jdom_fields] in H; try contradiction.
    - exists []. split; [reflexivity|]. cbn [map app].
      destruct (of_json_members d specs' m'); reflexivity.
    - destruct H as [Hf Hr]. destruct (IH fs specs' m' Hr) as (fm & Efm & Dfm).
      cbn [to_json_fields]. rewrite Efm.
      destruct jf as [nm sg bits|nm|nm|nm|nm|nm sg bits|nm].
      7: { (* bit array: two members *)
        destruct v as [n|bs|nb bs|ns| | |]; cbn [jdom_field] in Hf; try contradiction.
        destruct Hf as [Hnb Hbs]. cbn [field_members].
        eexists; split; [reflexivity|].
        cbn [map app of_json_members]. rewrite !String.eqb_refl. cbn [andb].
        assert (E : num_of_z false 16 (Z.of_N nb) = Some nb).
        { pose proof (num_roundtrip false 16 nb ltac:(lia) Hnb) as X. exact X. }
        rewrite E, (bytes_json_rt bs Hbs), Dfm.
        destruct (of_json_members d specs' m'); reflexivity. }
      all: match goal with |- context[field_members ?jf ?x] =>
             destruct (field_rt jf x Hf ltac:(intros; discriminate)) as (j & Em & Dj) end;
           rewrite Em; eexists; (split; [reflexivity|]);
           cbn [map app of_json_members]; cbn [jf_name] in *; rewrite String.eqb_refl, Dj, Dfm;
           destruct (of_json_members d specs' m'); reflexivity.
  Qed.
End Members.

Lemma firstn_len_app {A} (a b : list A) : firstn (length a) (a ++ b) = a.
Proof. induction a as [|x a IH]; cbn; [now destruct b|now rewrite IH]. Qed.

Lemma skipn_len_app {A} (a b : list A) : skipn (length a) (a ++ b) = b.
Proof. induction a as [|x a IH]; cbn; [reflexivity|exact IH]. Qed.

(* ---------- 1. the round trip on the JSON domain ---------- *)
Section RT.
  Variable jt : jtable.

  (* a container value prints as a JSON value other than null that reads back as the value *)
  Definition gs (v : value) : Prop :=
    forall msg tid fs ss, v = VStruct msg tid fs ss -> jdom jt v ->
    exists j, to_json jt v = Some j /\ j <> JNull /\ of_json jt msg tid j = Some v.

  Definition good (v : value) : Prop :=
    match v with
    | VStruct _ _ _ _ => gs v
    | VOpt (Some x) => gs x
    | VList l => Forall gs l
    | _ => True
    end.

  Lemma many_rt tid l :
    Forall gs l -> jdom_many (jdom jt) tid l ->
    exists js, to_json_many (to_json jt) tid l = Some js /\ length js = length l /\
               of_json_many (of_json jt false) tid js = Some l.
  Proof.
    induction l as [|x l IH]; intros Hg Hd.
    - exists []. repeat split.
    - inversion Hg as [|? ? Hgx Hgl]; subst. cbn [jdom_many] in Hd. destruct Hd as (P & Hx & Hl).
      destruct (is_param_inv _ _ P) as (fs & ss & ->).
      destruct (Hgx _ _ _ _ eq_refl Hx) as (j & Ej & _ & Dj).
      destruct (IH Hgl Hl) as (js & Ejs & Hlen & Djs).
      exists (j :: js). cbn [to_json_many of_json_many length]. rewrite P, Ej, Ejs, Dj, Djs, Hlen.
      repeat split.
  Qed.

  Lemma subs_rt ss : forall jsubs,
    Forall good ss -> jdom_subs (jdom jt) jsubs ss ->
    exists sm, to_json_subs (to_json jt) jsubs ss = Some sm /\
               of_json_members (of_json jt false) (map MS jsubs) sm = Some ss.
  Proof.
    induction ss as [|v' ss IH]; intros jsubs Hg Hd.
    - destruct jsubs; cbn [jdom_subs] in Hd; [|contradiction]. exists []. split; reflexivity.
    - destruct jsubs as [|s jsubs]; cbn [jdom_subs] in Hd; [contradiction|].
      destruct Hd as [Hv Hr]. inversion Hg as [|? ? Hgv Hgr]; subst.
      destruct (IH jsubs Hgr Hr) as (sm & Esm & Dsm).
      cbn [to_json_subs]. rewrite Esm.
      destruct (js_arity s) eqn:A; destruct v' as [| | | |m tid0 fs0 ss0|o|l]; try contradiction.
      + (* One *)
        destruct Hv as [P Hx]. destruct (is_param_inv _ _ P) as (fs & ss' & Ev).
        injection Ev as -> -> -> ->. cbn [good] in Hgv.
        destruct (Hgv _ _ _ _ eq_refl Hx) as (j & Ej & _ & Dj).
        rewrite P, Ej. eexists; split; [reflexivity|].
        cbn [map of_json_members]. rewrite String.eqb_refl, A, Dj, Dsm. reflexivity.
      + (* Opt *)
        destruct o as [x|].
        * destruct Hv as [P Hx]. destruct (is_param_inv _ _ P) as (fs & ss' & ->).
          cbn [good] in Hgv. destruct (Hgv _ _ _ _ eq_refl Hx) as (j & Ej & Hnn & Dj).
          rewrite P, Ej. eexists; split; [reflexivity|].
          cbn [map of_json_members]. rewrite String.eqb_refl, A.
          destruct j; try congruence; rewrite Dj, Dsm; reflexivity.
        * eexists; split; [reflexivity|].
          cbn [map of_json_members]. rewrite String.eqb_refl, A, Dsm. reflexivity.
      + (* Many *)
        cbn [good] in Hgv. destruct l as [|x l].
        * eexists; split; [reflexivity|].
          cbn [map of_json_members]. rewrite String.eqb_refl, A, Dsm. reflexivity.
        * destruct (many_rt (js_tid s) (x :: l) Hgv Hv) as (js & Ejs & _ & Djs).
          rewrite Ejs. eexists; split; [reflexivity|].
          cbn [map of_json_members]. rewrite String.eqb_refl, A, Djs, Dsm. reflexivity.
  Qed.

  Lemma good_struct msg tid fs ss : Forall good ss -> good (VStruct msg tid fs ss).
  Proof.
    intros Hg. cbn [good]. intros msg' tid' fs' ss' Ev Hd. symmetry in Ev. injection Ev as -> -> -> ->.
    cbn [jdom] in Hd. destruct (find_jc jt msg tid) as [jc|] eqn:F; [|contradiction].
    destruct Hd as (Hf & Hs & Hin). cbn [to_json]. rewrite F.
    destruct (j_inline jc) eqn:I.
    - (* `type X uint16`: a bare number / bool *)
      unfold inline_ok in Hin. rewrite I in Hin.
      destruct (j_fields jc) as [|jf [|? ?]] eqn:Efs; try (destruct jf; discriminate); try discriminate.
      destruct (j_subs jc) eqn:Ess; [|destruct jf; discriminate].
      destruct fs as [|x [|? ?]]; cbn [jdom_fields] in Hf; try contradiction; [|destruct Hf as [_ []]].
      destruct Hf as [Hx _].
      destruct ss; cbn [jdom_subs] in Hs; [|contradiction].
      destruct jf as [nm sg bits|nm|nm|nm|nm|nm sg bits|nm]; try discriminate;
        destruct x as [n| | | | | |]; cbn [jdom_field] in Hx; try contradiction; cbn [scalar_json].
      + destruct Hx as [Hb Hn]. eexists; split; [reflexivity|]. split; [discriminate|].
        cbn [of_json]. rewrite F, I, Efs. cbn [scalar_of_json].
        rewrite (num_roundtrip sg bits n Hb Hn). reflexivity.
      + eexists; split; [reflexivity|]. split; [discriminate|].
        cbn [of_json]. rewrite F, I, Efs. cbn [scalar_of_json]. rewrite (bool_rt n Hx). reflexivity.
    - (* a struct: an object with one member per field and per sub-parameter *)
      destruct (subs_rt ss (j_subs jc) Hg Hs) as (sm & Esm & Dsm).
      destruct (fields_members_rt (of_json jt false) (j_fields jc) fs (map MS (j_subs jc)) sm Hf)
        as (fm & Efm & Dfm).
      rewrite Efm, Esm. eexists; split; [reflexivity|]. split; [discriminate|].
      cbn [of_json]. rewrite F, I. unfold members_spec. rewrite Dfm, Dsm.
      rewrite <- (jdom_fields_length _ _ Hf), firstn_len_app, skipn_len_app. reflexivity.
  Qed.

  Theorem all_good : forall v, good v.
  Proof.
    apply value_ind'; try (intros; exact I).
    - apply good_struct.
    - intros x Hx. cbn [good]. destruct x; try (intros ? ? ? ? Ev; discriminate Ev).
      cbn [good] in Hx. apply Hx.
    - intros l Hl. cbn [good]. apply Forall_forall. intros x Hin.
      rewrite Forall_forall in Hl. specialize (Hl x Hin).
      destruct x; try (intros ? ? ? ? Ev; discriminate Ev). cbn [good] in Hl. apply Hl.
  Qed.
End RT.

(* every value of the JSON domain has a JSON form, and reading it back yields the value *)
Theorem json_roundtrip_dom jt msg tid fs ss :
  jdom jt (VStruct msg tid fs ss) ->
  exists j, to_json jt (VStruct msg tid fs ss) = Some j /\
            of_json jt msg tid j = Some (VStruct msg tid fs ss).
Proof.
  intros Hd. pose proof (all_good jt (VStruct msg tid fs ss)) as G. cbn [good] in G.
  destruct (G _ _ _ _ eq_refl Hd) as (j & Ej & _ & Dj). eauto.
Qed.

Corollary json_roundtrip_of_dom jt v : jdom jt v -> json_roundtrip_of jt v = Some v.
Proof.
  destruct v as [| | | |msg tid fs ss| |]; try contradiction. intros Hd.
  destruct (json_roundtrip_dom jt msg tid fs ss Hd) as (j & Ej & Dj).
  unfold json_roundtrip_of. now rewrite Ej.
Qed.

(* ---------- 2. well-formed values (Wf.wfv) with valid UTF-8 text are in the JSON domain ---------- *)
Lemma find_jc_of t jt msg tid c :
  jt_ok t jt = true -> find_container t msg tid = Some c ->
  exists jc, find_jc jt msg tid = Some jc /\
    fields_compat (c_fields c) (j_fields jc) = true /\
    subs_compat (c_subs c) (j_subs jc) = true /\ inline_ok jc = true.
Proof.
  intros Hok F. destruct (find_container_spec _ _ _ _ F) as (Hin & Hm & Ht).
  unfold jt_ok in Hok. rewrite forallb_forall in Hok. specialize (Hok c Hin).
  rewrite Hm, Ht in Hok. destruct (find_jc jt msg tid) as [jc|]; [|discriminate].
  exists jc. split; [reflexivity|]. unfold jc_compat in Hok.
  apply andb_true_iff in Hok as [Hok H3]. apply andb_true_iff in Hok as [H1 H2]. auto.
Qed.

Lemma pow2_pos b : 0 < 2 ^ b.
Proof. pose proof (N.pow_nonzero 2 b ltac:(lia)). lia. Qed.

Lemma field_dom f jf v :
  field_compat f jf = true -> wf_field f v -> field_text_ok jf v = true -> jdom_field jf v.
Proof.
  intros Hc Hw Ht.
  destruct f as [s|b bit p|k|k|e| | | ]; destruct jf as [nm sg bits|nm|nm|nm|nm|nm sg bits|nm];
    cbn [field_compat] in Hc; try discriminate;
    destruct v as [x|bs|nb bs|ns| | |]; cbn [wf_field] in Hw; try contradiction; cbn [jdom_field].
  - apply andb_true_iff in Hc as [E P]. apply N.eqb_eq in E. apply N.ltb_lt in P. subst bits. split; assumption.
  - destruct sg; [discriminate|]. apply andb_true_iff in Hc as [E P]. apply N.leb_le in E. apply N.ltb_lt in P.
    split; [assumption|]. eapply N.lt_le_trans; [exact Hw|]. apply N.pow_le_mono_r; lia.
  - apply Nat.eqb_eq in Hc. subst b. exact Hw.
  - exact (proj2 Hw).
  - apply Nat.eqb_eq in Hc. subst e. exact (proj2 Hw).
  - apply andb_true_iff in Hc as [E P]. apply N.eqb_eq in E. apply N.ltb_lt in P. subst bits.
    split; [assumption|exact (proj2 Hw)].
  - exact Ht.
  - destruct Hw as (A & _ & B). split; assumption.
  - exact Hw.
Qed.

Lemma fields_dom fs : forall jfs vs,
  fields_compat fs jfs = true -> wf_fields fs vs -> fields_text_ok jfs vs = true ->
  jdom_fields jfs vs.
Proof.
  induction fs as [|f fs IH]; intros jfs vs Hc Hw Ht.
  - cbn in Hw. subst vs. destruct jfs; [exact I|discriminate].
  - destruct f as [s|b bit p|k|k|e| | | ].
    3: { cbn [fields_compat wf_fields] in Hc, Hw. apply IH; assumption. }
    all: cbn [fields_compat wf_fields] in Hc, Hw;
         destruct jfs as [|jf jfs]; [discriminate|]; destruct vs as [|v vs]; [contradiction|];
         apply andb_true_iff in Hc as [Hc1 Hc2]; destruct Hw as [Hw1 Hw2];
         cbn [fields_text_ok] in Ht; apply andb_true_iff in Ht as [Ht1 Ht2];
         cbn [jdom_fields]; (split; [eapply field_dom; eassumption|apply IH; assumption]).
Qed.

Lemma fields_zero_dom fs : forall jfs,
  fields_compat fs jfs = true -> jdom_fields jfs (fields_zero fs).
Proof.
  induction fs as [|f fs IH]; intros jfs Hc.
  - destruct jfs; [exact I|discriminate].
  - destruct f as [s|b bit p|k|k|e| | | ].
    3: { cbn [fields_compat fields_zero field_zero] in *. apply IH, Hc. }
    all: cbn [fields_compat] in Hc; destruct jfs as [|jf jfs]; [discriminate|];
         apply andb_true_iff in Hc as [Hc1 Hc2];
         cbn [fields_zero field_zero jdom_fields]; (split; [|apply IH, Hc2]);
         destruct jf as [nm sg bits|nm|nm|nm|nm|nm sg bits|nm]; cbn [field_compat] in Hc1; try discriminate;
         cbn [jdom_field].
    + apply andb_true_iff in Hc1 as [_ P]. apply N.ltb_lt in P. split; [assumption|apply pow2_pos].
    + destruct sg; [discriminate|]. apply andb_true_iff in Hc1 as [_ P]. apply N.ltb_lt in P.
      split; [assumption|apply pow2_pos].
    + lia.
    + constructor.
    + constructor.
    + apply andb_true_iff in Hc1 as [_ P]. apply N.ltb_lt in P. split; [assumption|constructor].
    + reflexivity.
    + split; [lia|constructor].
    + constructor.
Qed.

Lemma subs_compat_nil jss : subs_compat [] jss = true -> jss = [].
Proof. destruct jss; [reflexivity|discriminate]. Qed.

Section Bridge.
  Variable t : table.
  Variable jt : jtable.
  Hypothesis Hwf : wf_schema t = true.
  Hypothesis Hok : jt_ok t jt = true.

  (* the zero value of a parameter without sub-parameters (a mutually exclusive alternative that
     was not chosen) is in the JSON domain although it need not be well-formed *)
  Lemma zero_leaf_jdom tid c :
    find_container t false tid = Some c -> c_subs c = [] -> jdom jt (zero_leaf t tid).
  Proof.
    intros F Hs. unfold zero_leaf. rewrite F. cbn [jdom].
    destruct (find_jc_of t jt false tid c Hok F) as (jc & Fj & Cf & Cs & Ci). rewrite Fj.
    rewrite Hs in Cs. rewrite (subs_compat_nil _ Cs).
    split; [apply fields_zero_dom, Cf|]. split; [exact I|exact Ci].
  Qed.

  Definition bs_ (v : value) : Prop :=
    forall msg tid fs ss, v = VStruct msg tid fs ss -> wfv t v -> text_ok jt v = true -> jdom jt v.

  Definition bgood (v : value) : Prop :=
    match v with
    | VStruct _ _ _ _ => bs_ v
    | VOpt (Some x) => bs_ x
    | VList l => Forall bs_ l
    | _ => True
    end.

  Lemma many_dom tid l :
    Forall bs_ l -> wf_many (wfv t) tid l -> forallb (text_ok jt) l = true ->
    jdom_many (jdom jt) tid l.
  Proof.
    induction l as [|x l IH]; intros Hg Hw Ht; [exact I|].
    inversion Hg as [|? ? Hgx Hgl]; subst. cbn [wf_many] in Hw. destruct Hw as (P & Hx & Hl).
    cbn [forallb] in Ht. apply andb_true_iff in Ht as [Tx Tl].
    destruct (is_param_inv _ _ P) as (fs & ss & ->).
    cbn [jdom_many]. split; [exact P|]. split; [exact (Hgx _ _ _ _ eq_refl Hx Tx)|apply IH; assumption].
  Qed.

  Lemma arity_eqb_eq a b : arity_eqb a b = true -> a = b.
  Proof. destruct a, b; cbn; congruence. Qed.

  Lemma subs_dom ss : forall subs jsubs chosen pending,
    Forall bgood ss -> subs_compat subs jsubs = true -> forallb (wf_sub t) subs = true ->
    wf_subs t (wfv t) subs ss chosen pending -> forallb (text_ok jt) ss = true ->
    jdom_subs (jdom jt) jsubs ss.
  Proof.
    induction ss as [|v' ss IH]; intros subs jsubs chosen pending Hg Hc Hs Hw Ht.
    - destruct subs; cbn [wf_subs] in Hw; [|contradiction].
      rewrite (subs_compat_nil _ Hc). exact I.
    - destruct subs as [|s subs]; cbn [wf_subs] in Hw; [contradiction|].
      destruct jsubs as [|js jsubs]; [discriminate|]. cbn [subs_compat] in Hc.
      apply andb_true_iff in Hc as [Hc Hc']. apply andb_true_iff in Hc as [Etid Ear].
      apply N.eqb_eq in Etid. apply arity_eqb_eq in Ear.
      inversion Hg as [|? ? Hgv Hgr]; subst.
      cbn [forallb] in Hs, Ht. apply andb_true_iff in Hs as [Hs1 Hs']. apply andb_true_iff in Ht as [Tv Tr].
      cbn [jdom_subs]. rewrite <- Ear, <- Etid.
      destruct (s_arity s) eqn:A; destruct v' as [| | | |m tid0 fs0 ss0|o|l]; try contradiction.
      + (* One *)
        destruct Hw as (P & Hw). cbn [bgood] in Hgv.
        destruct (s_group s =? 0) eqn:G.
        * destruct Hw as (_ & Hx & Hw). split; [split; [exact P|]|].
          -- exact (Hgv _ _ _ _ eq_refl Hx Tv).
          -- eapply IH; eassumption.
        * (* a mutually exclusive alternative: well-formed, or the zero value *)
          assert (Hz : jdom jt (zero_leaf t (s_tid s))).
          { unfold wf_sub in Hs1. destruct (find_container t false (s_tid s)) as [c'|] eqn:F; [|discriminate].
            rewrite G, A in Hs1. apply (zero_leaf_jdom _ c' F).
            destruct (c_subs c'); [reflexivity|discriminate]. }
          destruct Hw as (_ & Hw).
          destruct (chosen =? s_group s).
          -- destruct Hw as (E & Hw). split; [split; [exact P|now rewrite E]|eapply IH; eassumption].
          -- destruct (alt_nonzero (VStruct m tid0 fs0 ss0)).
             ++ destruct Hw as (Hx & Hw).
                split; [split; [exact P|exact (Hgv _ _ _ _ eq_refl Hx Tv)]|eapply IH; eassumption].
             ++ destruct Hw as (E & Hw). split; [split; [exact P|now rewrite E]|eapply IH; eassumption].
      + (* Opt *)
        destruct o as [x|].
        * destruct Hw as (_ & P & Hx & Hw). destruct (is_param_inv _ _ P) as (fs & ss' & ->).
          cbn [bgood] in Hgv. cbn [text_ok] in Tv. fold (text_ok jt (VStruct false (s_tid s) fs ss')) in Tv.
          split; [split; [exact P|exact (Hgv _ _ _ _ eq_refl Hx Tv)]|eapply IH; eassumption].
        * destruct Hw as (_ & Hw). split; [exact I|eapply IH; eassumption].
      + (* Many *)
        destruct Hw as (_ & _ & Hm & Hw). cbn [bgood] in Hgv. cbn [text_ok] in Tv.
        split; [apply many_dom; assumption|eapply IH; eassumption].
  Qed.

  Lemma bgood_struct msg tid fs ss : Forall bgood ss -> bgood (VStruct msg tid fs ss).
  Proof.
    intros Hg. cbn [bgood]. intros msg' tid' fs' ss' Ev Hw Ht. symmetry in Ev. injection Ev as -> -> -> ->.
    cbn [wfv] in Hw. destruct (find_container t msg tid) as [c|] eqn:F; [|contradiction].
    destruct Hw as (Hf & Hs & _).
    destruct (find_jc_of t jt msg tid c Hok F) as (jc & Fj & Cf & Cs & Ci).
    cbn [text_ok] in Ht. rewrite Fj in Ht. apply andb_true_iff in Ht as [Tf Ts].
    cbn [jdom]. rewrite Fj.
    destruct (container_parts t c (find_container_wf _ _ _ _ Hwf F)) as (_ & _ & _ & Hsubs & _).
    split; [eapply fields_dom; eassumption|]. split; [|exact Ci].
    eapply subs_dom; eassumption.
  Qed.

  Theorem all_bgood : forall v, bgood v.
  Proof.
    apply value_ind'; try (intros; exact I).
    - apply bgood_struct.
    - intros x Hx. cbn [bgood]. destruct x; try (intros ? ? ? ? Ev; discriminate Ev).
      cbn [bgood] in Hx. apply Hx.
    - intros l Hl. cbn [bgood]. apply Forall_forall. intros x Hin.
      rewrite Forall_forall in Hl. specialize (Hl x Hin).
      destruct x; try (intros ? ? ? ? Ev; discriminate Ev). cbn [bgood] in Hl. apply Hl.
  Qed.
End Bridge.

Theorem wfv_jdom t jt v :
  wf_schema t = true -> jt_ok t jt = true -> wfv t v -> text_ok jt v = true -> jdom jt v.
Proof.
  intros Hwf Hok Hw Ht. destruct v as [| | | |msg tid fs ss| |]; try contradiction.
  pose proof (all_bgood t jt Hwf Hok (VStruct msg tid fs ss)) as G. cbn [bgood] in G.
  exact (G _ _ _ _ eq_refl Hw Ht).
Qed.

(* ---------- 3. the JSON clause of C01 ---------- *)
(* For every layout table and every JSON view that agrees with it: a well-formed value whose text
   fields hold valid UTF-8 has a JSON form, and unmarshalling that form into a fresh value gives
   the value back (value trees identify nil and empty). *)
Theorem json_roundtrip t jt msg tid fs ss :
  wf_schema t = true -> jt_ok t jt = true ->
  wfv t (VStruct msg tid fs ss) -> text_ok jt (VStruct msg tid fs ss) = true ->
  exists j, to_json jt (VStruct msg tid fs ss) = Some j /\
            of_json jt msg tid j = Some (VStruct msg tid fs ss).
Proof.
  intros Hwf Hok Hw Ht. apply json_roundtrip_dom. eapply wfv_jdom; eassumption.
Qed.

Corollary json_roundtrip_of_wf t jt v :
  wf_schema t = true -> jt_ok t jt = true -> wfv t v -> text_ok jt v = true ->
  json_roundtrip_of jt v = Some v.
Proof. intros. apply json_roundtrip_of_dom. eapply wfv_jdom; eassumption. Qed.
