(* Well-formedness: of a layout table (boolean, checked by computation on the pinned table)
   and of a value with respect to a table (the domain of C01/C02). *)
From Coq Require Import NArith List Bool Arith.
From LLRP Require Import Codec.Schema Codec.Encode Codec.Decode.
Import ListNotations.
Open Scope N_scope.

(* ---------- values ---------- *)
Definition byte_list (bs : bytes) : Prop := Forall (fun b => b < 256) bs.

Definition wf_field (f : fkind) (v : value) : Prop :=
  match f, v with
  | FNum s, VNum x => x < 2 ^ (8 * N.of_nat s)
  | FBits bits _ _, VNum x => x < 2 ^ N.of_nat bits
  | FFixed n, VBytes bs => length bs = n /\ byte_list bs
  | FCounted e, VNums ns => len ns < 65536 /\ Forall (fun x => x < 2 ^ (8 * N.of_nat e)) ns
  | FString, VBytes bs => len bs < 65536 /\ byte_list bs
  | FBitArr, VBitArr n bs => n < 65536 /\ len bs = bitarr_nbytes n /\ byte_list bs
  | FRest, VBytes bs => byte_list bs
  | _, _ => False
  end.

Fixpoint wf_fields (fs : list fkind) (vs : list value) : Prop :=
  match fs with
  | [] => vs = []
  | FPad _ :: fs' => wf_fields fs' vs
  | f :: fs' => match vs with
                | [] => False
                | v :: vs' => wf_field f v /\ wf_fields fs' vs'
                end
  end.

(* zero value of a parameter without sub-parameters *)
Definition zero_leaf (t : table) (tid : N) : value :=
  match find_container t false tid with
  | Some c => VStruct false tid (fields_zero (c_fields c)) []
  | None => VStruct false tid [] []
  end.

Section WfSubs.
  Variable t : table.
  Variable w : value -> Prop.   (* well-formedness of one parameter value *)

  Fixpoint wf_many (tid : N) (l : list value) : Prop :=
    match l with
    | [] => True
    | x :: l' => is_param tid x = true /\ w x /\ wf_many tid l'
    end.

  (* [chosen]: exclusive group whose alternative has been seen; [pending]: exclusive group
     entered but not yet served.  Exactly one alternative of a group is non-zero and the
     others are the zero value. *)
  Fixpoint wf_subs (subs : list sub) (vs : list value) (chosen pending : N) {struct vs} : Prop :=
    match vs, subs with
    | [], [] => pending = 0
    | v' :: vs', s :: subs' =>
      match s_arity s, v' with
      | One, VStruct _ _ _ _ =>
        is_param (s_tid s) v' = true /\
        if s_group s =? 0 then pending = 0 /\ w v' /\ wf_subs subs' vs' chosen 0
        else (pending = 0 \/ pending = s_group s) /\
             if chosen =? s_group s then v' = zero_leaf t (s_tid s) /\ wf_subs subs' vs' chosen 0
             else if alt_nonzero v' then w v' /\ wf_subs subs' vs' (s_group s) 0
             else v' = zero_leaf t (s_tid s) /\ wf_subs subs' vs' chosen (s_group s)
      | Opt, VOpt None => pending = 0 /\ wf_subs subs' vs' chosen 0
      | Opt, VOpt (Some x) => pending = 0 /\ is_param (s_tid s) x = true /\ w x /\ wf_subs subs' vs' chosen 0
      | Many, VList l => pending = 0 /\ (s_req s = true -> l <> []) /\ wf_many (s_tid s) l /\
                         wf_subs subs' vs' chosen 0
      | _, _ => False
      end
    | _, _ => False
    end.
End WfSubs.

(* a value of container (msg, tid) is well-formed: every field fits its width, lengths fit
   16 bits, bit arrays have ceil(bits/8) bytes, sub-parameters have the declared shapes,
   exactly one alternative of each exclusive group is non-zero, and every TLV's size fits
   its 16-bit length field *)
Fixpoint wfv (t : table) (v : value) {struct v} : Prop :=
  match v with
  | VStruct msg tid fs ss =>
    match find_container t msg tid with
    | None => False
    | Some c =>
      wf_fields (c_fields c) fs /\
      wf_subs t (wfv t) (c_subs c) ss 0 0 /\
      (is_msg_kind (c_kind c) = false ->
       match enc t v with Some (_, sz) => sz < 65536 | None => False end)
    end
  | _ => False
  end.

Fixpoint depth (v : value) : nat :=
  match v with
  | VStruct _ _ _ ss => S (fold_right (fun x a => Nat.max (depth x) a) O ss)
  | VOpt (Some x) => depth x
  | VList l => fold_right (fun x a => Nat.max (depth x) a) O l
  | _ => O
  end.

(* ---------- tables ---------- *)

(* field lists: runs of sub-byte fields are closed, do not overlap, stay inside their byte;
   a 'rest' field is last *)
Fixpoint wf_fspecs (used : nat) (fs : list fkind) : bool :=
  match fs with
  | [] => Nat.eqb used 0
  | FBits bits bit partial :: r =>
      Nat.leb used bit && Nat.leb 1 bits && Nat.leb (bit + bits) 8 &&
      wf_fspecs (if partial then bit + bits else 0)%nat r
  | FRest :: r => Nat.eqb used 0 && match r with [] => true | _ => false end
  | _ :: r => Nat.eqb used 0 && wf_fspecs 0 r
  end.

Definition has_rest (fs : list fkind) : bool :=
  existsb (fun f => match f with FRest => true | _ => false end) fs.

(* LL(1): an optional / repeatable / alternative sub-parameter's type code differs from the
   type codes of all later sub-parameters of the same container *)
Fixpoint wf_sub_order (subs : list sub) : bool :=
  match subs with
  | [] => true
  | s :: r =>
    (match s_arity s, s_group s =? 0 with
     | One, true => true
     | _, _ => negb (existsb (fun s' => s_tid s' =? s_tid s) r)
     end) && wf_sub_order r
  end.

Definition wf_sub (t : table) (s : sub) : bool :=
  match find_container t false (s_tid s) with
  | None => false
  | Some c' =>
    (if s_group s =? 0 then true
     else match s_arity s, c_subs c' with One, [] => true | _, _ => false end)
  end.

Definition wf_container (t : table) (c : container) : bool :=
  wf_fspecs 0 (c_fields c) &&
  (negb (has_rest (c_fields c)) || match c_subs c with [] => true | _ => false end) &&
  wf_sub_order (c_subs c) &&
  forallb (wf_sub t) (c_subs c) &&
  match c_kind c with
  | KMsg => true
  | KTV => (c_tid c <? 128) && match c_subs c with [] => true | _ => false end &&
           match fixed_fields_size (c_fields c) with Some _ => true | None => false end
  | KTLV => (128 <=? c_tid c) && (c_tid c <? 1024)
  end.

Definition wf_schema (t : table) : bool := forallb (wf_container t) t.
