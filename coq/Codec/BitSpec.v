(* C02: the LLRP binary layout read as a picture — a purely bit-level denotation of a value,
   MSB first, with no byte arithmetic, shifts or masks.  Independent of Codec/Encode.v. *)
From Coq Require Import NArith List Bool.
From LLRP Require Import Base.Bits Codec.Schema.
Import ListNotations.
Open Scope N_scope.

Definition zeros (n : nat) : list bool := repeat false n.
Definition lenN {A} (l : list A) : N := N.of_nat (length l).

(* fields at their declared widths; [used] = bits of the current octet already laid out by a
   run of sub-octet fields: a field at bit position [bit] is preceded by (bit - used) reserved
   zero bits, a run is closed by zero bits up to the octet boundary *)
Fixpoint field_bits (fs : list fkind) (vs : list value) (used : nat) : option (list bool) :=
  match fs with
  | [] => match vs with [] => Some [] | _ => None end
  | FPad n :: fs' => option_map (app (zeros (8 * n))) (field_bits fs' vs 0)
  | f :: fs' =>
    match vs with
    | [] => None
    | v :: vs' =>
      match f, v with
      | FNum s, VNum x => option_map (app (bits_be (8 * s) x)) (field_bits fs' vs' 0)
      | FBits bits bit partial, VNum x =>
          option_map (fun r => zeros (bit - used) ++ bits_be bits x ++ r)
            (if partial then field_bits fs' vs' (bit + bits)
             else option_map (app (zeros (8 - bit - bits))) (field_bits fs' vs' 0))
      | FFixed _, VBytes bs => option_map (app (bytes_to_bits bs)) (field_bits fs' vs' 0)
      | FRest, VBytes bs => option_map (app (bytes_to_bits bs)) (field_bits fs' vs' 0)
      | FCounted e, VNums ns =>
          option_map (fun r => bits_be 16 (lenN ns) ++ flat_map (bits_be (8 * e)) ns ++ r)
                     (field_bits fs' vs' 0)
      | FString, VBytes bs =>
          option_map (fun r => bits_be 16 (lenN bs) ++ bytes_to_bits bs ++ r) (field_bits fs' vs' 0)
      | FBitArr, VBitArr n bs =>
          option_map (fun r => bits_be 16 n ++ bytes_to_bits bs ++ r) (field_bits fs' vs' 0)
      | _, _ => None
      end
    end
  end.

Definition is_paramb (tid : N) (v : value) : bool :=
  match v with VStruct false tid' _ _ => tid' =? tid | _ => false end.

Section SubsBits.
  Variable pb : value -> option (list bool).   (* bits of one parameter *)

  Fixpoint bits_many (tid : N) (l : list value) : option (list bool) :=
    match l with
    | [] => Some []
    | x :: l' =>
      if is_paramb tid x then
        match pb x, bits_many tid l' with
        | Some b, Some r => Some (b ++ r)
        | _, _ => None end
      else None
    end.

  (* sub-parameters in the specified order; of mutually exclusive alternatives the one that
     is present (non-zero) *)
  Fixpoint bits_subs (subs : list sub) (vs : list value) (chosen : N) {struct vs} : option (list bool) :=
    match vs, subs with
    | [], [] => Some []
    | v' :: vs', s :: subs' =>
      match s_arity s, v' with
      | One, VStruct _ _ _ _ =>
        if negb (is_paramb (s_tid s) v') then None
        else if s_group s =? 0 then
          match pb v', bits_subs subs' vs' chosen with
          | Some b, Some r => Some (b ++ r) | _, _ => None end
        else if (chosen =? s_group s) || negb (alt_nonzero v') then bits_subs subs' vs' chosen
        else match pb v', bits_subs subs' vs' (s_group s) with
             | Some b, Some r => Some (b ++ r) | _, _ => None end
      | Opt, VOpt None => bits_subs subs' vs' chosen
      | Opt, VOpt (Some x) =>
        if negb (is_paramb (s_tid s) x) then None
        else match pb x, bits_subs subs' vs' chosen with
             | Some b, Some r => Some (b ++ r) | _, _ => None end
      | Many, VList l =>
        match bits_many (s_tid s) l, bits_subs subs' vs' chosen with
        | Some b, Some r => Some (b ++ r) | _, _ => None end
      | _, _ => None
      end
    | _, _ => None
    end.
End SubsBits.

(* TLV = 6 reserved zero bits, 10-bit type, 16-bit length in octets of the WHOLE parameter
   (computed here from what actually follows), then fields and sub-parameters;
   TV = a 1 bit, 7-bit type, then the fields; a message = fields then sub-parameters *)
Fixpoint value_bits (t : table) (v : value) {struct v} : option (list bool) :=
  match v with
  | VStruct msg tid fs ss =>
    match find_container t msg tid with
    | None => None
    | Some c =>
      match field_bits (c_fields c) fs 0, bits_subs (value_bits t) (c_subs c) ss 0 with
      | Some fb, Some sb =>
        let body := fb ++ sb in
        match c_kind c with
        | KMsg => Some body
        | KTV => Some (true :: bits_be 7 tid ++ body)
        | KTLV => Some (zeros 6 ++ bits_be 10 tid ++
                        bits_be 16 (N.of_nat (4 + Nat.div (length body) 8)) ++ body)
        end
      | _, _ => None
      end
    end
  | _ => None
  end.
