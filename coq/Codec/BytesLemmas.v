From Coq Require Import NArith ZArith List Bool Arith Lia ZifyN ZifyNat ZifyBool.
From LLRP Require Import Codec.Schema Codec.Encode Codec.Decode Codec.Wf.
Import ListNotations.
Open Scope N_scope.
Ltac Zify.zify_post_hook ::= Z.div_mod_to_equations.

Lemma be_length s x : length (be s x) = s.
Proof. induction s as [|k IH]; cbn [be length]; [reflexivity|now rewrite IH]. Qed.

Lemma be_bytes s x : byte_list (be s x).
Proof.
  induction s as [|k IH]; cbn [be]; constructor; [|exact IH].
  apply N.mod_lt. discriminate.
Qed.

Lemma pow8_succ k : 2 ^ (8 * N.of_nat (S k)) = 256 * 2 ^ (8 * N.of_nat k).
Proof.
  replace (8 * N.of_nat (S k)) with (8 + 8 * N.of_nat k) by lia.
  rewrite N.pow_add_r. reflexivity.
Qed.

Lemma from_be_be_gen s : forall x acc,
  from_be (be s x) acc = acc * 2 ^ (8 * N.of_nat s) + x mod 2 ^ (8 * N.of_nat s).
Proof.
  induction s as [|k IH]; intros x acc.
  - cbn. rewrite N.mod_1_r. lia.
  - cbn [be from_be]. rewrite IH. rewrite pow8_succ.
    rewrite N.shiftr_div_pow2.
    set (m := 2 ^ (8 * N.of_nat k)).
    assert (Hm : m <> 0) by (apply N.pow_nonzero; discriminate).
    rewrite (N.mul_comm 256 m).
    rewrite (N.mod_mul_r x m 256) by (try assumption; discriminate).
    lia.
Qed.

Lemma from_be_be s x : x < 2 ^ (8 * N.of_nat s) -> from_be (be s x) 0 = x.
Proof. intros H. rewrite from_be_be_gen. rewrite N.mod_small by exact H. lia. Qed.

Lemma take_exact_app {A} (a b : list A) : take_exact (length a) (a ++ b) = Some (a, b).
Proof. induction a as [|x a IH]; cbn; [reflexivity|now rewrite IH]. Qed.

Lemma take_exact_app_n {A} n (a b : list A) : length a = n -> take_exact n (a ++ b) = Some (a, b).
Proof. intros <-. apply take_exact_app. Qed.

Lemma be2_u16 n r : n < 65536 -> take_u16 (be 2 n ++ r) = Some (n, r).
Proof.
  intros H. cbn [be app take_u16]. f_equal. f_equal.
  rewrite !N.shiftr_div_pow2. change (8 * N.of_nat 1) with 8. change (8 * N.of_nat 0) with 0.
  change (2 ^ 8) with 256. change (2 ^ 0) with 1. rewrite N.div_1_r.
  rewrite (N.mod_small (n / 256)) by lia. lia.
Qed.

Lemma take_nums_flat e ns r :
  Forall (fun x => x < 2 ^ (8 * N.of_nat e)) ns ->
  take_nums (length ns) e (flat_map (be e) ns ++ r) = Some (ns, r).
Proof.
  induction 1 as [|x l Hx Hl IH]; cbn [length take_nums flat_map]; [reflexivity|].
  rewrite <- app_assoc. rewrite (take_exact_app_n e) by apply be_length.
  rewrite IH. rewrite from_be_be by exact Hx. reflexivity.
Qed.

Lemma len_nat {A} (l : list A) : N.to_nat (len l) = length l.
Proof. unfold len. lia. Qed.

Lemma len_app {A} (a b : list A) : len (a ++ b) = len a + len b.
Proof. unfold len. rewrite app_length. lia. Qed.

Lemma len_repeat {A} (x : A) n : len (repeat x n) = N.of_nat n.
Proof. unfold len. now rewrite repeat_length. Qed.

Lemma len_be s x : len (be s x) = N.of_nat s.
Proof. unfold len. now rewrite be_length. Qed.

Lemma len_flat_be e ns : len (flat_map (be e) ns) = len ns * N.of_nat e.
Proof.
  induction ns as [|x l IH]; cbn [flat_map]; [reflexivity|].
  rewrite len_app, IH, len_be. unfold len. cbn [length]. lia.
Qed.
