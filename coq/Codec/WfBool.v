(* A boolean version of the value well-formedness predicate, sound w.r.t. Wf.wfv: lets concrete
   values (examples, and every case the correspondence run compares) be shown to lie in the
   domain of the C01/C02 theorems by computation. *)
From Coq Require Import NArith List Bool Arith Lia.
From LLRP Require Import Codec.Schema Codec.Encode Codec.Decode Codec.Wf Codec.RoundTrip.
Import ListNotations.
Open Scope N_scope.

Definition byte_listb (bs : bytes) : bool := forallb (fun b => b <? 256) bs.

Definition wf_fieldb (f : fkind) (v : value) : bool :=
  match f, v with
  | FNum s, VNum x => x <? 2 ^ (8 * N.of_nat s)
  | FBits bits _ _, VNum x => x <? 2 ^ N.of_nat bits
  | FFixed n, VBytes bs => Nat.eqb (length bs) n && byte_listb bs
  | FCounted e, VNums ns => (len ns <? 65536) && forallb (fun x => x <? 2 ^ (8 * N.of_nat e)) ns
  | FString, VBytes bs => (len bs <? 65536) && byte_listb bs
  | FBitArr, VBitArr n bs => (n <? 65536) && (len bs =? bitarr_nbytes n) && byte_listb bs
  | FRest, VBytes bs => byte_listb bs
  | _, _ => false
  end.

Fixpoint wf_fieldsb (fs : list fkind) (vs : list value) : bool :=
  match fs with
  | [] => match vs with [] => true | _ => false end
  | FPad _ :: fs' => wf_fieldsb fs' vs
  | f :: fs' => match vs with
                | [] => false
                | v :: vs' => wf_fieldb f v && wf_fieldsb fs' vs'
                end
  end.

Fixpoint list_eqb (a b : list N) : bool :=
  match a, b with
  | [], [] => true
  | x :: a', y :: b' => (x =? y) && list_eqb a' b'
  | _, _ => false
  end.

Definition leaf_eqb (a b : value) : bool :=
  match a, b with
  | VNum x, VNum y => x =? y
  | VBytes x, VBytes y => list_eqb x y
  | VBitArr n x, VBitArr m y => (n =? m) && list_eqb x y
  | VNums x, VNums y => list_eqb x y
  | _, _ => false
  end.

Fixpoint leaves_eqb (a b : list value) : bool :=
  match a, b with
  | [], [] => true
  | x :: a', y :: b' => leaf_eqb x y && leaves_eqb a' b'
  | _, _ => false
  end.

Definition is_zero_leafb (t : table) (tid : N) (v : value) : bool :=
  match v with
  | VStruct false tid' fs [] =>
    (tid' =? tid) &&
    leaves_eqb fs (match find_container t false tid with
                   | Some c => fields_zero (c_fields c)
                   | None => []
                   end)
  | _ => false
  end.

Section WfSubsB.
  Variable t : table.
  Variable w : value -> bool.

  Fixpoint wf_manyb (tid : N) (l : list value) : bool :=
    match l with
    | [] => true
    | x :: l' => is_param tid x && w x && wf_manyb tid l'
    end.

  Fixpoint wf_subsb (subs : list sub) (vs : list value) (chosen pending : N) {struct vs} : bool :=
    match vs, subs with
    | [], [] => pending =? 0
    | v' :: vs', s :: subs' =>
      match s_arity s, v' with
      | One, VStruct _ _ _ _ =>
        is_param (s_tid s) v' &&
        if s_group s =? 0 then (pending =? 0) && w v' && wf_subsb subs' vs' chosen 0
        else ((pending =? 0) || (pending =? s_group s)) &&
             if chosen =? s_group s then is_zero_leafb t (s_tid s) v' && wf_subsb subs' vs' chosen 0
             else if alt_nonzero v' then w v' && wf_subsb subs' vs' (s_group s) 0
             else is_zero_leafb t (s_tid s) v' && wf_subsb subs' vs' chosen (s_group s)
      | Opt, VOpt None => (pending =? 0) && wf_subsb subs' vs' chosen 0
      | Opt, VOpt (Some x) => (pending =? 0) && is_param (s_tid s) x && w x && wf_subsb subs' vs' chosen 0
      | Many, VList l =>
        (pending =? 0) && (negb (s_req s) || match l with [] => false | _ => true end) &&
        wf_manyb (s_tid s) l && wf_subsb subs' vs' chosen 0
      | _, _ => false
      end
    | _, _ => false
    end.
End WfSubsB.

Fixpoint wfvb (t : table) (v : value) {struct v} : bool :=
  match v with
  | VStruct msg tid fs ss =>
    match find_container t msg tid with
    | None => false
    | Some c =>
      wf_fieldsb (c_fields c) fs &&
      wf_subsb t (wfvb t) (c_subs c) ss 0 0 &&
      (is_msg_kind (c_kind c) ||
       match enc t v with Some (_, sz) => sz <? 65536 | None => false end)
    end
  | _ => false
  end.

(* ---------- soundness ---------- *)
Lemma byte_listb_sound bs : byte_listb bs = true -> byte_list bs.
Proof.
  unfold byte_listb, byte_list. rewrite forallb_forall, Forall_forall.
  intros H x Hx. apply N.ltb_lt, H, Hx.
Qed.

Lemma wf_fieldb_sound f v : wf_fieldb f v = true -> wf_field f v.
Proof.
  destruct f, v; cbn; try discriminate; intros H;
    repeat match goal with
           | H : _ && _ = true |- _ => apply andb_true_iff in H; destruct H
           end;
    repeat split;
    try (apply N.ltb_lt; assumption);
    try (apply byte_listb_sound; assumption);
    try (apply Nat.eqb_eq; assumption);
    try (apply N.eqb_eq; assumption).
  rewrite Forall_forall. intros x Hx.
  match goal with H : forallb _ _ = true |- _ => rewrite forallb_forall in H; apply N.ltb_lt, H, Hx end.
Qed.

Lemma wf_fieldsb_sound fs : forall vs, wf_fieldsb fs vs = true -> wf_fields fs vs.
Proof.
  induction fs as [|f fs IH]; intros vs H; cbn [wf_fieldsb wf_fields] in *.
  - destruct vs; [reflexivity|discriminate].
  - destruct f; try (apply IH; exact H);
      (destruct vs as [|v vs]; [discriminate|];
       apply andb_true_iff in H as [H1 H2]; split; [apply wf_fieldb_sound, H1|apply IH, H2]).
Qed.

Lemma list_eqb_sound a : forall b, list_eqb a b = true -> a = b.
Proof.
  induction a as [|x a IH]; intros [|y b] H; cbn in H; try discriminate; [reflexivity|].
  apply andb_true_iff in H as [H1 H2]. apply N.eqb_eq in H1. subst. f_equal. apply IH, H2.
Qed.

Lemma leaf_eqb_sound a b : leaf_eqb a b = true -> a = b.
Proof.
  destruct a, b; cbn; try discriminate; intros H.
  - apply N.eqb_eq in H. now subst.
  - apply list_eqb_sound in H. now subst.
  - apply andb_true_iff in H as [H1 H2]. apply N.eqb_eq in H1. apply list_eqb_sound in H2. now subst.
  - apply list_eqb_sound in H. now subst.
Qed.

Lemma leaves_eqb_sound a : forall b, leaves_eqb a b = true -> a = b.
Proof.
  induction a as [|x a IH]; intros [|y b] H; cbn in H; try discriminate; [reflexivity|].
  apply andb_true_iff in H as [H1 H2]. apply leaf_eqb_sound in H1. subst. f_equal. apply IH, H2.
Qed.

Lemma is_zero_leafb_sound t tid v : is_zero_leafb t tid v = true -> v = zero_leaf t tid.
Proof.
  unfold is_zero_leafb, zero_leaf.
  destruct v as [| | | |m tid' fs ss| |]; try discriminate.
  destruct m; try discriminate. destruct ss; try discriminate.
  intros H. apply andb_true_iff in H as [H1 H2].
  apply N.eqb_eq in H1. apply leaves_eqb_sound in H2. subst.
  destruct (find_container t false tid); reflexivity.
Qed.

Section Sound.
  Variable t : table.

  Definition sound_at (v : value) : Prop := wfvb t v = true -> wfv t v.

  Definition sound (v : value) : Prop :=
    match v with
    | VStruct _ _ _ _ => sound_at v
    | VOpt (Some x) => sound_at x
    | VList l => Forall sound_at l
    | _ => True
    end.

  Lemma wf_manyb_sound tid l :
    Forall sound_at l -> wf_manyb (wfvb t) tid l = true -> wf_many (wfv t) tid l.
  Proof.
    induction 1 as [|x l Hx Hl IH]; cbn [wf_manyb wf_many]; [trivial|].
    intros H. apply andb_true_iff in H as [H H3]. apply andb_true_iff in H as [H1 H2].
    repeat split; auto.
  Qed.

  Lemma wf_subsb_sound vs : forall subs chosen pending,
    Forall sound vs -> wf_subsb t (wfvb t) subs vs chosen pending = true ->
    wf_subs t (wfv t) subs vs chosen pending.
  Proof.
    induction vs as [|v' vs IH]; intros subs chosen pending Hg H.
    - destruct subs; cbn in *; [apply N.eqb_eq, H|discriminate].
    - destruct subs as [|s subs]; cbn [wf_subsb wf_subs] in *; [discriminate|].
      inversion Hg as [|? ? Hv Hvs]; subst.
      destruct (s_arity s); destruct v' as [| | | |m tid0 fs0 ss0|o|l]; try discriminate.
      + apply andb_true_iff in H as [P H]. split; [exact P|].
        cbn [sound] in Hv.
        destruct (s_group s =? 0).
        * apply andb_true_iff in H as [H H3]. apply andb_true_iff in H as [H1 H2].
          repeat split; [apply N.eqb_eq, H1|apply Hv, H2|apply IH; assumption].
        * apply andb_true_iff in H as [Hp H]. split.
          { apply orb_true_iff in Hp as [Hp|Hp]; apply N.eqb_eq in Hp; auto. }
          destruct (chosen =? s_group s).
          -- apply andb_true_iff in H as [H1 H2]. split; [apply is_zero_leafb_sound, H1|apply IH; assumption].
          -- destruct (alt_nonzero (VStruct m tid0 fs0 ss0)).
             ++ apply andb_true_iff in H as [H1 H2]. split; [apply Hv, H1|apply IH; assumption].
             ++ apply andb_true_iff in H as [H1 H2]. split; [apply is_zero_leafb_sound, H1|apply IH; assumption].
      + destruct o as [x|].
        * apply andb_true_iff in H as [H H4]. apply andb_true_iff in H as [H H3].
          apply andb_true_iff in H as [H1 H2]. cbn [sound] in Hv.
          repeat split; [apply N.eqb_eq, H1|exact H2|apply Hv, H3|apply IH; assumption].
        * apply andb_true_iff in H as [H1 H2]. split; [apply N.eqb_eq, H1|apply IH; assumption].
      + apply andb_true_iff in H as [H H4]. apply andb_true_iff in H as [H H3].
        apply andb_true_iff in H as [H1 H2]. cbn [sound] in Hv.
        repeat split; [apply N.eqb_eq, H1| |apply wf_manyb_sound; assumption|apply IH; assumption].
        intros Hr Hnil. rewrite Hr in H2. subst l. discriminate H2.
  Qed.

  Theorem wfvb_sound : forall v, wfvb t v = true -> wfv t v.
  Proof.
    assert (A : forall v, sound v).
    { apply value_ind'; try (intros; exact I).
      - intros msg tid fs ss Hss. cbn [sound]. unfold sound_at. cbn [wfvb wfv].
        destruct (find_container t msg tid) as [c|]; [|discriminate].
        intros H. apply andb_true_iff in H as [H H3]. apply andb_true_iff in H as [H1 H2].
        repeat split.
        + apply wf_fieldsb_sound, H1.
        + apply wf_subsb_sound; assumption.
        + intros Hm. rewrite Hm in H3. cbn [orb] in H3.
          destruct (enc t (VStruct msg tid fs ss)) as [[bs sz]|]; [|discriminate H3].
          apply N.ltb_lt; exact H3.
      - intros x Hx. cbn [sound]. destruct x; try (intros H; discriminate H). exact Hx.
      - intros l Hl. cbn [sound]. apply Forall_forall. intros x Hin.
        rewrite Forall_forall in Hl. specialize (Hl x Hin).
        destruct x; try (intros H; discriminate H). exact Hl. }
    intros v H. specialize (A v). destruct v; try discriminate H. exact (A H).
  Qed.
End Sound.
