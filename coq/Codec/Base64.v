(* Base64 as encoding/json uses it for []byte fields: base64.StdEncoding
   (alphabet A-Z a-z 0-9 + /, '=' padding to a multiple of four characters).
   Model only; the round trip is proved in Codec/Base64Proofs.v.
   Bytes and characters are numbers (characters = ASCII codes). *)
From Coq Require Import NArith List Bool.
Import ListNotations.
Open Scope N_scope.

(* sextet (0..63) -> ASCII code of its character *)
Definition b64_char (s : N) : N :=
  if s <? 26 then s + 65            (* 'A'.. *)
  else if s <? 52 then s + 71       (* 'a'.. = 97 - 26 *)
  else if s <? 62 then s - 4        (* '0'.. = 48 - 52 *)
  else if s =? 62 then 43           (* '+' *)
  else 47.                          (* '/' *)

(* ASCII code -> sextet; None for anything outside the alphabet (incl. '=') *)
Definition b64_val (c : N) : option N :=
  if (65 <=? c) && (c <=? 90) then Some (c - 65)
  else if (97 <=? c) && (c <=? 122) then Some (c - 71)
  else if (48 <=? c) && (c <=? 57) then Some (c + 4)
  else if c =? 43 then Some 62
  else if c =? 47 then Some 63
  else None.

Definition b64_pad : N := 61.       (* '=' *)

(* three bytes -> four characters; a last group of one or two bytes is padded with '=' *)
Fixpoint b64_encode (bs : list N) : list N :=
  match bs with
  | [] => []
  | a :: [] =>
      [b64_char (a / 4); b64_char ((a mod 4) * 16); b64_pad; b64_pad]
  | a :: b :: [] =>
      [b64_char (a / 4); b64_char ((a mod 4) * 16 + b / 16); b64_char ((b mod 16) * 4); b64_pad]
  | a :: b :: c :: r =>
      b64_char (a / 4) :: b64_char ((a mod 4) * 16 + b / 16) ::
      b64_char ((b mod 16) * 4 + c / 64) :: b64_char (c mod 64) :: b64_encode r
  end.

(* four characters -> three bytes; '=' only in the last group ("xx==" one byte, "xxx=" two bytes).
   Like Go's non-strict StdEncoding, the unused low bits of the last sextet before the padding
   are ignored.  (Go additionally skips '\r' and '\n'; not modelled.) *)
Fixpoint b64_decode (cs : list N) : option (list N) :=
  match cs with
  | [] => Some []
  | c0 :: c1 :: c2 :: c3 :: r =>
    match b64_val c0, b64_val c1 with
    | Some s0, Some s1 =>
      if c2 =? b64_pad then
        match r with
        | [] => if c3 =? b64_pad then Some [s0 * 4 + s1 / 16] else None
        | _ => None
        end
      else
        match b64_val c2 with
        | None => None
        | Some s2 =>
          if c3 =? b64_pad then
            match r with
            | [] => Some [s0 * 4 + s1 / 16; (s1 mod 16) * 16 + s2 / 4]
            | _ => None
            end
          else
            match b64_val c3 with
            | None => None
            | Some s3 =>
              match b64_decode r with
              | Some bs => Some (s0 * 4 + s1 / 16 :: (s1 mod 16) * 16 + s2 / 4 :: (s2 mod 4) * 64 + s3 :: bs)
              | None => None
              end
            end
        end
    | _, _ => None
    end
  | _ => None
  end.
