(* C01, the readings of the device service as a function of the HISTORY of replies.

   "A value that additionally passes through the JSON form the device service uses for commands and readings
   survives unchanged."  A reading is produced by decoding the Reader's reply and serialising the decoded value
   (later, asynchronously) to JSON.  [readings] is that path with a FRESH receiver per reply — what
   handleReadCommands / the report handlers do; [readings_are_of_their_replies]: for every history, the i-th
   reading is the JSON form of the i-th value sent and reads back as that value, whatever was sent before or after.

   The generated UnmarshalBinary does not reset its receiver: numbers and fixed arrays are overwritten, a
   string / array / bit-array's bytes / rest of length 0 leaves the old one, an optional sub-parameter that is
   absent leaves the old one, repeated sub-parameters are APPENDED, of an exclusive group only the alternative on
   the wire is written.  [merge_into] is that behaviour as a function on value trees (tied to Go on every run:
   oracle `merge`, Go worker `dinto`); [merge_into_zero]: into a fresh (zero) receiver it is the identity on
   well-formed values, for every well-formed table and any nesting depth; [reused_receiver_refuted]: with one receiver kept per resource the
   second reading of the same reply is NOT the JSON form of what was sent.  So "the receiver is fresh" is an
   obligation on every caller (checked structurally by the decode-site scan and dynamically at driver level). *)
From Coq Require Import NArith List Bool Lia.
From LLRP Require Import Codec.Schema Codec.Encode Codec.Decode Codec.Wf Codec.SchemaTable Codec.RoundTrip Codec.WfBool.
From LLRP Require Import Codec.Json Codec.JsonTable Codec.JsonProofs.
Import ListNotations.
Open Scope N_scope.

(* ---------- fresh receiver per reply ---------- *)
Definition reading (t : table) (jt : jtable) (fuel : nat) (tid : N) (reply : bytes) : option json :=
  match decode t fuel true tid reply with
  | Some v => to_json jt v
  | None => None
  end.

(* a history: (message type, payload) of the replies / reports, in the order they arrived *)
Definition readings (t : table) (jt : jtable) (fuel : nat) (h : list (N * bytes)) : list (option json) :=
  map (fun r => reading t jt fuel (fst r) (snd r)) h.

(* the Reader sent the well-formed message v (valid UTF-8 in its text fields) as r *)
Definition sent (t : table) (jt : jtable) (fuel : nat) (v : value) (r : N * bytes) : Prop :=
  exists fs ss, v = VStruct true (fst r) fs ss /\ wfv t v /\ text_ok jt v = true /\
                (depth v <= fuel)%nat /\ encode t v = Some (snd r).

Definition is_reading_of (jt : jtable) (v : value) (o : option json) : Prop :=
  exists j, o = Some j /\ to_json jt v = Some j /\
            match v with VStruct msg tid _ _ => of_json jt msg tid j = Some v | _ => False end.

Theorem readings_are_of_their_replies t jt fuel vs h :
  wf_schema t = true -> jt_ok t jt = true ->
  Forall2 (sent t jt fuel) vs h ->
  Forall2 (is_reading_of jt) vs (readings t jt fuel h).
Proof.
  intros Hwf Hok H. induction H as [|v r vs h Hs _ IH]; [constructor|].
  cbn [readings map]. constructor; [|exact IH].
  destruct Hs as (fs & ss & -> & Hw & Ht & Hd & He).
  unfold reading. rewrite (decode_encode t true (fst r) fs ss (snd r) fuel Hwf Hw Hd He).
  destruct (json_roundtrip t jt true (fst r) fs ss Hwf Hok Hw Ht) as (j & Hj & Ho).
  exists j. repeat split; assumption.
Qed.

(* ---------- what UnmarshalBinary leaves in a receiver that already holds a value ---------- *)
Definition merge_field (o n : value) : value :=
  match o, n with
  | VBytes ob, VBytes [] => VBytes ob
  | VNums os, VNums [] => VNums os
  | VBitArr _ ob, VBitArr nn [] => VBitArr nn ob
  | _, _ => n
  end.

Fixpoint merge_fields (os ns : list value) : list value :=
  match os, ns with
  | o :: os', n :: ns' => merge_field o n :: merge_fields os' ns'
  | _, _ => ns
  end.

Section MergeSubs.
  Variable rec : value -> value -> value.     (* one level down *)

  (* [chosen] as in Encode.enc_subs: the exclusive group whose alternative is on the wire has been served *)
  Fixpoint merge_subs (subs : list sub) (os ns : list value) (chosen : N) : list value :=
    match subs, os, ns with
    | s :: subs', o :: os', n :: ns' =>
      match s_arity s with
      | One =>
        if s_group s =? 0 then rec o n :: merge_subs subs' os' ns' chosen
        else if (chosen =? s_group s) || negb (alt_nonzero n) then o :: merge_subs subs' os' ns' chosen
        else rec o n :: merge_subs subs' os' ns' (s_group s)
      | Opt => match n with VOpt None => o | _ => n end :: merge_subs subs' os' ns' chosen
      | Many => match o, n with
                | VList ol, VList nl => VList (ol ++ nl)
                | _, _ => n
                end :: merge_subs subs' os' ns' chosen
      end
    | _, _, _ => ns
    end.
End MergeSubs.

Fixpoint merge_into (t : table) (fuel : nat) (o n : value) : value :=
  match fuel with
  | O => n
  | S k =>
    match o, n with
    | VStruct _ _ ofs oss, VStruct msg tid nfs nss =>
      match find_container t msg tid with
      | Some c => VStruct msg tid (merge_fields ofs nfs) (merge_subs (merge_into t k) (c_subs c) oss nss 0)
      | None => n
      end
    | _, _ => n
    end
  end.

(* the zero value of a message or parameter type (Go's zero struct) *)
Definition zero_of (t : table) (fuel : nat) (msg : bool) (tid : N) : value :=
  match find_container t msg tid with
  | Some c => VStruct msg tid (fields_zero (c_fields c))
                (map (fun s => match s_arity s with
                               | One => zero_param t fuel (s_tid s)
                               | Opt => VOpt None
                               | Many => VList []
                               end) (c_subs c))
  | None => VStruct msg tid [] []
  end.

(* ---------- into a fresh receiver, merge_into is the identity: UnmarshalBinary on a zero value yields the value ---------- *)
Definition zero_field_value (z : value) : Prop :=
  z = VNum 0 \/ z = VBytes [] \/ z = VNums [] \/ z = VBitArr 0 [].

Lemma merge_field_zero z n : zero_field_value z -> merge_field z n = n.
Proof.
  intros [-> | [-> | [-> | ->]]]; destruct n as [| [|] | ? [|] | [|] | | |]; reflexivity.
Qed.

Lemma merge_fields_zero l : forall fs, merge_fields (fields_zero l) fs = fs.
Proof.
  induction l as [|f l IH]; intros fs; cbn [fields_zero].
  - destruct fs; reflexivity.
  - destruct (field_zero f) as [z|] eqn:E; [|apply IH].
    destruct fs as [|n fs]; [reflexivity|]. cbn [merge_fields]. rewrite IH. f_equal.
    apply merge_field_zero. unfold zero_field_value.
    destruct f; cbn in E; inversion E; auto.
Qed.

Lemma zero_param_S t k tid : zero_param t (S k) tid = zero_of t k false tid.
Proof.
  unfold zero_of. cbn [zero_param]. destruct (find_container t false tid); reflexivity.
Qed.

Lemma zero_param_leaf t k tid c :
  find_container t false tid = Some c -> c_subs c = [] -> zero_param t (S k) tid = zero_leaf t tid.
Proof.
  intros Hf Hs. cbn [zero_param]. unfold zero_leaf. rewrite Hf, Hs. reflexivity.
Qed.

Definition zsub (t : table) (k : nat) (s : sub) : value :=
  match s_arity s with
  | One => zero_param t k (s_tid s)
  | Opt => VOpt None
  | Many => VList []
  end.

Lemma depth_sub_le m tid fs ss x : In x ss -> (depth x <= pred (depth (VStruct m tid fs ss)))%nat.
Proof.
  cbn [depth pred]. induction ss as [|y ss IH]; [intros []|].
  intros [->|H]; cbn [fold_right]; [lia|]. specialize (IH H). lia.
Qed.

Section Subs.
  Variable t : table.
  Variable k : nat.
  Variable rec : value -> value -> value.
  Hypothesis Hrec : forall tid x, wfv t x -> is_param tid x = true -> (depth x <= k)%nat ->
                                  rec (zero_param t k tid) x = x.

  Lemma merge_subs_zero : forall subs ss chosen pending,
    forallb (wf_sub t) subs = true ->
    wf_subs t (wfv t) subs ss chosen pending ->
    (forall x, In x ss -> (depth x <= k)%nat) ->
    merge_subs rec subs (map (zsub t k) subs) ss chosen = ss.
  Proof.
    induction subs as [|s subs IH]; intros ss chosen pending Hs Hw Hd.
    - destruct ss; reflexivity.
    - destruct ss as [|v ss]; [reflexivity|].
      cbn [forallb] in Hs. apply andb_prop in Hs as [Hs1 Hs2].
      cbn [map merge_subs]. cbn [wf_subs] in Hw.
      assert (Hdv : (depth v <= k)%nat) by (apply Hd; left; reflexivity).
      assert (Hd' : forall x, In x ss -> (depth x <= k)%nat) by (intros x Hx; apply Hd; right; exact Hx).
      assert (Ez : zsub t k s = match s_arity s with One => zero_param t k (s_tid s) | Opt => VOpt None | Many => VList [] end) by reflexivity.
      rewrite Ez; clear Ez.
      destruct (s_arity s) eqn:Ea; cbv iota.
      + destruct v as [| | | |m tid fs' ss'| |]; try contradiction.
        destruct Hw as [Hp Hw].
        destruct (s_group s =? 0) eqn:Eg.
        * destruct Hw as (_ & Hwv & Hw). rewrite (Hrec _ _ Hwv Hp Hdv). f_equal. eapply IH; eassumption.
        * destruct Hw as (_ & Hw).
          assert (Hz : zero_param t k (s_tid s) = zero_leaf t (s_tid s)).
          { unfold wf_sub in Hs1. destruct (find_container t false (s_tid s)) as [c'|] eqn:Ef; [|discriminate].
            rewrite Eg, Ea in Hs1. destruct (c_subs c') eqn:Ec; [|discriminate].
            destruct k as [|k']; [cbn [depth] in Hdv; lia|]. eapply zero_param_leaf; eassumption. }
          destruct (chosen =? s_group s) eqn:Ec; cbn [orb].
          -- destruct Hw as [-> Hw]. rewrite Hz. f_equal. eapply IH; eassumption.
          -- destruct (alt_nonzero (VStruct m tid fs' ss')) eqn:En; cbn [negb].
             ++ destruct Hw as [Hwv Hw]. rewrite (Hrec _ _ Hwv Hp Hdv). f_equal. eapply IH; eassumption.
             ++ destruct Hw as [-> Hw]. rewrite Hz. f_equal. eapply IH; eassumption.
      + destruct v as [| | | | |[x|]|]; try contradiction.
        * destruct Hw as (_ & _ & _ & Hw). f_equal. eapply IH; eassumption.
        * destruct Hw as (_ & Hw). f_equal. eapply IH; eassumption.
      + destruct v as [| | | | | |l]; try contradiction.
        destruct Hw as (_ & _ & _ & Hw). cbn [app]. f_equal. eapply IH; eassumption.
  Qed.
End Subs.

Theorem merge_into_zero t : wf_schema t = true ->
  forall k fuel msg tid fs ss,
    wfv t (VStruct msg tid fs ss) -> (depth (VStruct msg tid fs ss) <= S k)%nat ->
    merge_into t fuel (zero_of t k msg tid) (VStruct msg tid fs ss) = VStruct msg tid fs ss.
Proof.
  intros Hwf. induction k as [|k IH]; intros fuel msg tid fs ss Hw Hd.
  - (* no sub-parameter can be a struct *)
    destruct fuel as [|f]; [reflexivity|].
    pose proof Hw as Hw0. cbn [wfv] in Hw. destruct (find_container t msg tid) as [c|] eqn:Ef; [|contradiction].
    destruct Hw as (_ & Hs & _).
    unfold zero_of. rewrite Ef. cbn [merge_into]. rewrite Ef. rewrite merge_fields_zero. f_equal.
    pose proof (find_container_wf t msg tid c Hwf Ef) as Hc. unfold wf_container in Hc.
    repeat (apply andb_prop in Hc as [Hc ?]).
    change (map _ (c_subs c)) with (map (zsub t 0) (c_subs c)).
    eapply merge_subs_zero with (pending := 0); try eassumption.
    + intros tid' x Hx Hp Hdx. destruct x; try discriminate. cbn [depth] in Hdx. lia.
    + intros x Hx. pose proof (depth_sub_le msg tid fs ss x Hx). lia.
  - destruct fuel as [|f]; [reflexivity|].
    pose proof Hw as Hw0. cbn [wfv] in Hw. destruct (find_container t msg tid) as [c|] eqn:Ef; [|contradiction].
    destruct Hw as (_ & Hs & _).
    unfold zero_of. rewrite Ef. cbn [merge_into]. rewrite Ef. rewrite merge_fields_zero. f_equal.
    pose proof (find_container_wf t msg tid c Hwf Ef) as Hc. unfold wf_container in Hc.
    repeat (apply andb_prop in Hc as [Hc ?]).
    change (map _ (c_subs c)) with (map (zsub t (S k)) (c_subs c)).
    eapply merge_subs_zero with (pending := 0); try eassumption.
    + intros tid' x Hx Hp Hdx. rewrite zero_param_S.
      destruct x as [| | | |m' tid'' fs' ss'| |]; try discriminate.
      cbn [is_param] in Hp. destruct m'; [discriminate|]. apply N.eqb_eq in Hp. subst tid''.
      apply IH; assumption.
    + intros x Hx. pose proof (depth_sub_le msg tid fs ss x Hx). lia.
Qed.

(* ---------- one receiver kept per resource ---------- *)
Fixpoint readings_reused (t : table) (jt : jtable) (fuel : nat) (tid : N) (recv : value) (h : list bytes) : list (option json) :=
  match h with
  | [] => []
  | bs :: h' =>
    match decode t fuel true tid bs with
    | Some v => let r := merge_into t fuel recv v in to_json jt r :: readings_reused t jt fuel tid r h'
    | None => None :: readings_reused t jt fuel tid recv h'
    end
  end.

(* GetReaderConfigResponse (12) with one AntennaProperties (221), sent twice *)
Definition config_reply : value :=
  VStruct true 12 [] [VStruct false 287 [VNum 0; VBytes []] [VOpt None; VOpt None]; VOpt None;
                      VList [VStruct false 221 [VNum 1; VNum 1; VNum 65386] []]; VList []; VOpt None; VOpt None; VOpt None;
                      VOpt None; VOpt None; VList []; VList []; VOpt None; VList []].

Example config_reply_wf : wfv llrp_table config_reply /\ text_ok llrp_jtable config_reply = true /\ depth config_reply = 2%nat.
Proof. split; [apply wfvb_sound; vm_compute; reflexivity|]. split; vm_compute; reflexivity. Qed.

Theorem reused_receiver_refuted :
  exists v bs, wfv llrp_table v /\ text_ok llrp_jtable v = true /\ encode llrp_table v = Some bs /\
    (* fresh receivers: both readings are the JSON form of v *)
    readings llrp_table llrp_jtable 2 [(12, bs); (12, bs)] = [to_json llrp_jtable v; to_json llrp_jtable v] /\
    (* one receiver, starting from the zero value: the first reading is, the second is not *)
    exists j1 j2, readings_reused llrp_table llrp_jtable 2 12 (zero_of llrp_table 2 true 12) [bs; bs] = [Some j1; Some j2] /\
                  to_json llrp_jtable v = Some j1 /\ j2 <> j1.
Proof.
  exists config_reply.
  destruct (encode llrp_table config_reply) as [bs|] eqn:E; [|vm_compute in E; discriminate].
  exists bs. split; [apply config_reply_wf|]. split; [apply config_reply_wf|]. split; [reflexivity|].
  vm_compute in E. injection E as <-.
  split; [vm_compute; reflexivity|].
  eexists. eexists. split; [vm_compute; reflexivity|]. split; [vm_compute; reflexivity|]. discriminate.
Qed.

(* ---------- an exchange that is asked twice: the reply value handed to the second attempt ---------- *)
(* A command may take several requests (the service asks again after a failure).  The reading must be the reply that DECIDED the
   exchange, i.e. the last one.  With a fresh reply value per attempt that is [reading] of the last reply.  Handing the SAME reply
   value to the next attempt after a reply had been decoded into it is [readings_reused]: the failure's ErrorDescription / FieldError
   and its repeated sub-parameters stay.  Witness: GetReaderConfigResponse with status 401 (R_DeviceError), description "busy", a
   FieldError and one AntennaProperties, then the successful reply of [config_reply]. *)
Definition config_failure : value :=
  VStruct true 12 [] [VStruct false 287 [VNum 401; VBytes [98; 117; 115; 121]] [VOpt (Some (VStruct false 288 [VNum 3; VNum 101] [])); VOpt None]; VOpt None;
                      VList [VStruct false 221 [VNum 0; VNum 7; VNum 0] []]; VList []; VOpt None; VOpt None; VOpt None;
                      VOpt None; VOpt None; VList []; VList []; VOpt None; VList []].

Example config_failure_wf : wfv llrp_table config_failure /\ text_ok llrp_jtable config_failure = true /\ depth config_failure = 3%nat.
Proof. split; [apply wfvb_sound; vm_compute; reflexivity|]. split; vm_compute; reflexivity. Qed.

Definition last_reading (t : table) (jt : jtable) (fuel : nat) (tid : N) (attempts : list bytes) : option json :=
  last (map (reading t jt fuel tid) attempts) None.

(* for EVERY exchange — any number of earlier answers of any content — that ends with the encoding of a well-formed message *)
Theorem exchange_reading_is_of_deciding_reply t jt fuel tid earlier v bs :
  wf_schema t = true -> jt_ok t jt = true -> sent t jt fuel v (tid, bs) ->
  is_reading_of jt v (last_reading t jt fuel tid (earlier ++ [bs])).
Proof.
  intros Hwf Hok Hs. unfold last_reading. rewrite map_app. cbn [map]. rewrite last_last.
  pose proof (readings_are_of_their_replies t jt fuel [v] [(tid, bs)] Hwf Hok (Forall2_cons _ _ Hs (Forall2_nil _))) as H.
  inversion H; subst. assumption.
Qed.

Theorem retry_into_same_reply_refuted :
  exists f s bf bs, wfv llrp_table f /\ wfv llrp_table s /\ encode llrp_table f = Some bf /\ encode llrp_table s = Some bs /\
    (* a fresh reply value per attempt: the reading is the JSON form of the reply that decided the exchange *)
    last_reading llrp_table llrp_jtable 3 12 [bf; bs] = to_json llrp_jtable s /\
    (* the same reply value for both attempts: it is not *)
    exists j, last (readings_reused llrp_table llrp_jtable 3 12 (zero_of llrp_table 3 true 12) [bf; bs]) None = Some j /\
              Some j <> to_json llrp_jtable s.
Proof.
  exists config_failure, config_reply.
  destruct (encode llrp_table config_failure) as [bf|] eqn:Ef; [|vm_compute in Ef; discriminate].
  destruct (encode llrp_table config_reply) as [bs|] eqn:Es; [|vm_compute in Es; discriminate].
  exists bf, bs. split; [exact (proj1 config_failure_wf)|]. split; [exact (proj1 config_reply_wf)|].
  split; [reflexivity|]. split; [reflexivity|].
  vm_compute in Ef. injection Ef as <-. vm_compute in Es. injection Es as <-.
  split; [vm_compute; reflexivity|].
  eexists. split; [vm_compute; reflexivity|]. vm_compute. discriminate.
Qed.
