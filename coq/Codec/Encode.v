(* Table-driven model of the generated LLRP encoder:
   generated_encoder.go (getHeader / EncodeFields), generated_marshal.go, msg_builder.go (encodeParams). *)
From Coq Require Import NArith List Bool.
From LLRP Require Import Codec.Schema.
Import ListNotations.
Open Scope N_scope.

Definition len {A} (l : list A) : N := N.of_nat (length l).

(* EncodeFields.  [acc] is the byte under construction by a run of FBits fields.
   Returns the bytes and the size getHeader declares for them (unwrapped sum). *)
Fixpoint enc_fields (fs : list fkind) (vs : list value) (acc : N) : option (bytes * N) :=
  match fs with
  | [] => match vs with [] => Some ([], 0) | _ => None end
  | FPad n :: fs' =>
      match enc_fields fs' vs 0 with
      | Some (r, sz) => Some (repeat 0 n ++ r, N.of_nat n + sz)
      | None => None
      end
  | f :: fs' =>
      match vs with
      | [] => None
      | v :: vs' =>
        match f, v with
        | FNum size, VNum x =>
            match enc_fields fs' vs' 0 with
            | Some (r, sz) => Some (be size x ++ r, N.of_nat size + sz)
            | None => None end
        | FBits bits bit partial, VNum x =>
            (* byte(x) << shift, OR-ed into the byte *)
            let acc' := N.lor acc ((N.shiftl (x mod 256) (N.of_nat (8 - bits - bit))) mod 256) in
            if partial then enc_fields fs' vs' acc'
            else match enc_fields fs' vs' 0 with
                 | Some (r, sz) => Some (acc' :: r, 1 + sz)
                 | None => None end
        | FFixed n, VBytes bs =>
            match enc_fields fs' vs' 0 with
            | Some (r, sz) => Some (bs ++ r, N.of_nat n + sz)
            | None => None end
        | FCounted esize, VNums ns =>
            match enc_fields fs' vs' 0 with
            | Some (r, sz) => Some (be 2 (len ns) ++ flat_map (be esize) ns ++ r,
                                    2 + len ns * N.of_nat esize + sz)
            | None => None end
        | FString, VBytes bs =>
            match enc_fields fs' vs' 0 with
            | Some (r, sz) => Some (be 2 (len bs) ++ bs ++ r, 2 + len bs + sz)
            | None => None end
        | FBitArr, VBitArr nbits bs =>
            match enc_fields fs' vs' 0 with
            | Some (r, sz) => Some (be 2 nbits ++ bs ++ r, 2 + bitarr_nbytes nbits + sz)
            | None => None end
        | FRest, VBytes bs =>
            match enc_fields fs' vs' 0 with
            | Some (r, sz) => Some (bs ++ r, len bs + sz)
            | None => None end
        | _, _ => None
        end
      end
  end.

Definition header_bytes (k : ckind) (tid sz : N) : bytes :=
  match k with
  | KMsg => []
  | KTV => [N.lor (tid mod 256) 128]
  | KTLV => [(N.shiftr tid 8) mod 256; tid mod 256; (N.shiftr sz 8) mod 256; sz mod 256]
  end.

Definition header_size (k : ckind) : N :=
  match k with KMsg => 0 | KTV => 1 | KTLV => 4 end.

Section Subs.
  (* [e] encodes one parameter value: (bytes incl. header, declared size) *)
  Variable e : value -> option (bytes * N).

  Definition is_param (tid : N) (v : value) : bool :=
    match v with VStruct false tid' _ _ => tid' =? tid | _ => false end.

  Fixpoint enc_many (tid : N) (l : list value) : option (bytes * N) :=
    match l with
    | [] => Some ([], 0)
    | x :: l' =>
      if is_param tid x then
        match e x, enc_many tid l' with
        | Some (b, z), Some (r, sz) => Some (b ++ r, z + sz)
        | _, _ => None end
      else None
    end.

  (* the sub-parameters in table order: repeatable ones all, optional ones when present,
     of mutually exclusive alternatives the first non-zero one ([chosen] = group already served) *)
  Fixpoint enc_subs (subs : list sub) (vs : list value) (chosen : N) {struct vs} : option (bytes * N) :=
    match vs, subs with
    | [], [] => Some ([], 0)
    | v' :: vs', s :: subs' =>
      match s_arity s, v' with
      | One, VStruct _ _ _ _ =>
        if negb (is_param (s_tid s) v') then None
        else if s_group s =? 0 then
          match e v', enc_subs subs' vs' chosen with
          | Some (b, z), Some (r, sz) => Some (b ++ r, z + sz)
          | _, _ => None end
        else if (chosen =? s_group s) || negb (alt_nonzero v') then enc_subs subs' vs' chosen
        else
          match e v', enc_subs subs' vs' (s_group s) with
          | Some (b, z), Some (r, sz) => Some (b ++ r, z + sz)
          | _, _ => None end
      | Opt, VOpt None => enc_subs subs' vs' chosen
      | Opt, VOpt (Some x) =>
        if negb (is_param (s_tid s) x) then None
        else match e x, enc_subs subs' vs' chosen with
             | Some (b, z), Some (r, sz) => Some (b ++ r, z + sz)
             | _, _ => None end
      | Many, VList l =>
        match enc_many (s_tid s) l, enc_subs subs' vs' chosen with
        | Some (b, z), Some (r, sz) => Some (b ++ r, z + sz)
        | _, _ => None end
      | _, _ => None
      end
    | _, _ => None
    end.
End Subs.

(* enc v = Some (bytes, declared size).  For a parameter the bytes include its TLV/TV header and
   the declared size is what getHeader puts in [sz] before uint16 truncation; for a message the
   bytes are the payload. *)
Fixpoint enc (t : table) (v : value) {struct v} : option (bytes * N) :=
  match v with
  | VStruct msg tid fs ss =>
    match find_container t msg tid with
    | None => None
    | Some c =>
      match enc_fields (c_fields c) fs 0 with
      | None => None
      | Some (fb, fsz) =>
        match enc_subs (enc t) (c_subs c) ss 0 with
        | None => None
        | Some (sb, ssz) =>
          let sz := header_size (c_kind c) + fsz + ssz in
          Some (header_bytes (c_kind c) tid sz ++ fb ++ sb, sz)
        end
      end
    end
  | _ => None
  end.

Definition encode (t : table) (v : value) : option bytes :=
  match enc t v with Some (b, _) => Some b | None => None end.

(* true iff every TLV inside the value declares a size that fits 16 bits
   (Go truncates silently otherwise); used by the oracle to flag values outside
   the property's domain. Computed by re-encoding sub-values. *)
Fixpoint fits (t : table) (v : value) {struct v} : bool :=
  match v with
  | VStruct msg _ _ ss =>
    match enc t v with
    | Some (_, sz) => (msg || (sz <? 65536)) &&
        (fix all (l : list value) : bool :=
           match l with
           | [] => true
           | x :: l' =>
             (match x with
              | VStruct _ _ _ _ => fits t x
              | VOpt (Some y) => fits t y
              | VList ys => (fix allm (ys : list value) : bool :=
                               match ys with [] => true | y :: ys' => fits t y && allm ys' end) ys
              | _ => true
              end) && all l'
           end) ss
    | None => false
    end
  | _ => true
  end.
