(** * Race/DisciplineSound.v — soundness of the access-discipline checker (C20)

    Every execution ([conforms]) of a table accepted by the checker ([all_disciplined]) under
    the lock semantics [wf_trace] is data-race free ([race_free]); the five named rules each
    imply the pairwise criterion; the criterion is not vacuous (a racy table is rejected and
    has a racy execution). *)

From Coq Require Import List String Bool Arith Lia.
From LLRP Require Import Race.Discipline.
Import ListNotations.
Open Scope string_scope.

(* ------------------------------------------------------------------------------------------ *)
(** ** Basic facts *)

Lemma ev_fun : forall tr i e1 e2, ev tr i e1 -> ev tr i e2 -> e1 = e2.
Proof. unfold ev; intros; congruence. Qed.

Lemma lmode_eq_dec : forall a b : lmode, {a = b} + {a <> b}.
Proof. decide equality. Qed.

Lemma op_eq_dec : forall a b : op, {a = b} + {a <> b}.
Proof. decide equality; auto using string_dec, Nat.eq_dec, lmode_eq_dec. Qed.

Lemma event_eq_dec : forall a b : event, {a = b} + {a <> b}.
Proof. decide equality; auto using op_eq_dec, Nat.eq_dec. Qed.

Lemma ev_dec : forall tr k e, ev tr k e \/ ~ ev tr k e.
Proof.
  intros tr k e. unfold ev. destruct (nth_error tr k) as [e'|].
  - destruct (event_eq_dec e' e); [left; subst; auto | right; congruence].
  - right; congruence.
Qed.

Lemma bounded_search : forall (p : nat -> Prop), (forall k, p k \/ ~ p k) ->
  forall lo hi, (exists k, lo < k /\ k < hi /\ p k) \/ (forall k, lo < k -> k < hi -> ~ p k).
Proof.
  intros p dec lo hi. induction hi.
  - right; intros; lia.
  - destruct IHhi as [[k [? [? ?]]] | Hn].
    + left; exists k; repeat split; auto; lia.
    + destruct (dec hi) as [Hp|Hp].
      * destruct (lt_dec lo hi).
        -- left; exists hi; repeat split; auto.
        -- right; intros; lia.
      * right; intros k ? ?. destruct (Nat.eq_dec k hi); [subst; auto | apply Hn; lia].
Qed.

Lemma acc_of_acc_op : forall x s w a, acc_of (acc_op x s w a) = Some (x, s, w, a).
Proof. destruct w, a; reflexivity. Qed.

Lemma acc_op_not_rel : forall x s w a l m, acc_op x s w a <> Rel l m.
Proof. destruct w, a; discriminate. Qed.

Lemma kind_matches_spec : forall k w a, kind_matches k w a = true ->
  is_write k = w /\ is_atomic k = a.
Proof. destruct k, w, a; simpl; intros; try discriminate; auto. Qed.

Lemma phase_eqb_eq : forall a b, phase_eqb a b = true <-> a = b.
Proof. destruct a, b; simpl; split; intros; try discriminate; auto. Qed.

Lemma lmode_eqb_eq : forall a b, lmode_eqb a b = true <-> a = b.
Proof. destruct a, b; simpl; split; intros; try discriminate; auto. Qed.

Lemma dedup_In : forall l x, In x (dedup l) <-> In x l.
Proof.
  induction l as [|a l IH]; simpl; intros x; [tauto|].
  destruct (existsb (String.eqb a) l) eqn:E.
  - rewrite IH. split; auto. intros [->|]; auto.
    apply existsb_exists in E. destruct E as [y [Hy E]].
    apply String.eqb_eq in E. subst; auto.
  - simpl. rewrite IH. tauto.
Qed.

Lemma pair_ok_intro : forall P a b,
  negb (kconf (a_kind a) (a_kind b)) = true \/ is_ctor a = true \/ is_ctor b = true
  \/ same_thread P a b = true \/ common_lock a b = true
  \/ pre_ordered P a b = true \/ pre_ordered P b a = true ->
  pair_ok P a b = true.
Proof. unfold pair_ok; intros; repeat rewrite orb_true_iff; tauto. Qed.

Lemma pair_ok_elim : forall P a b, pair_ok P a b = true ->
  negb (kconf (a_kind a) (a_kind b)) = true \/ is_ctor a = true \/ is_ctor b = true
  \/ same_thread P a b = true \/ common_lock a b = true
  \/ pre_ordered P a b = true \/ pre_ordered P b a = true.
Proof. unfold pair_ok; intros P a b H; repeat rewrite orb_true_iff in H; tauto. Qed.

(* ------------------------------------------------------------------------------------------ *)
(** ** The lockset argument *)

Lemma lockset_hb : forall tr, wf_trace tr ->
  forall i j ti tj oi oj l ma mb,
    i < j -> ti <> tj ->
    ev tr i (mkEv ti oi) -> ev tr j (mkEv tj oj) ->
    oi <> Rel l ma ->
    holds tr ti l ma i -> holds tr tj l mb j ->
    (ma = LW \/ mb = LW) -> hb tr i j.
Proof.
  intros tr WF i j ti tj oi oj l ma mb Hij Hne Ei Ej Hnr
         [a1 [Ha1 [Ea1 Na1]]] [a2 [Ha2 [Ea2 Na2]]] Hm.
  assert (a1 <> a2) as Hd.
  { intro; subst. pose proof (ev_fun _ _ _ _ Ea1 Ea2) as E. inversion E. congruence. }
  destruct (lt_dec a2 a1) as [Hlt|Hge].
  - exfalso.
    assert (holds tr tj l mb a1) as H1.
    { exists a2; repeat split; auto. intros k ? ?. apply Na2; lia. }
    destruct (WF _ _ _ _ Ea1 tj mb (fun e => Hne (eq_sym e)) H1) as [? ?].
    destruct Hm; congruence.
  - assert (a1 < a2) as Hlt by lia.
    destruct (bounded_search (fun k => ev tr k (mkEv ti (Rel l ma)))
                (fun k => ev_dec tr k _) a1 a2) as [[k [Hk1 [Hk2 Ek]]] | Hnone].
    + assert (i <= k) as Hik.
      { destruct (le_lt_dec i k); auto. exfalso. apply (Na1 k); auto. }
      assert (i <> k) as Hik'.
      { intro; subst k. pose proof (ev_fun _ _ _ _ Ei Ek) as E. inversion E. auto. }
      apply hb_trans with k.
      * apply hb_po with (mkEv ti oi) (mkEv ti (Rel l ma)); auto. lia.
      * apply hb_trans with a2.
        -- apply hb_lock with ti tj l ma mb; auto.
        -- apply hb_po with (mkEv tj (Acq l mb)) (mkEv tj oj); auto.
    + exfalso.
      assert (holds tr ti l ma a2) as H1.
      { exists a1; repeat split; auto. }
      destruct (WF _ _ _ _ Ea2 ti ma Hne H1) as [? ?].
      destruct Hm; congruence.
Qed.

(* ------------------------------------------------------------------------------------------ *)
(** ** The spawn-ancestry argument *)

Lemma ancestor_spawn : forall P role_of tr, conforms P role_of tr ->
  forall n r w, ancestor P n r w = true ->
  forall j e, ev tr j e -> role_of (e_tid e) = r ->
  exists s u t', s < j /\ ev tr s (mkEv u (Spawn t')) /\ role_of u = w /\ hb tr s j.
Proof.
  intros P role_of tr C. induction n; intros r w H j e Ej Hr; simpl in H; [discriminate|].
  destruct (parent P r) as [p|] eqn:Hp; [|discriminate].
  subst r. destruct (c_parent _ _ _ C j e p Ej Hp) as [s [u [Hs [Es Hu]]]].
  apply orb_true_iff in H. destruct H as [H|H].
  - apply String.eqb_eq in H. subst p. exists s, u, (e_tid e). repeat split; auto.
    eapply hb_spawn; eauto.
  - destruct (IHn p w H s (mkEv u (Spawn (e_tid e))) Es Hu) as [s' [u' [t' [? [? [? ?]]]]]].
    exists s', u', t'. repeat split; auto; try lia.
    eapply hb_trans; eauto. eapply hb_spawn; eauto.
Qed.

Lemma pre_ordered_hb : forall P role_of tr, conforms P role_of tr ->
  forall i j ti ej a b oi,
    ev tr i (mkEv ti oi) -> ev tr j ej ->
    a_role a = role_of ti -> a_role b = role_of (e_tid ej) ->
    (a_phase a = PPre -> forall s t', ev tr s (mkEv ti (Spawn t')) -> i < s) ->
    pre_ordered P a b = true -> hb tr i j.
Proof.
  intros P role_of tr C i j ti ej a b oi Ei Ej Ra Rb Hpre H.
  unfold pre_ordered in H. apply andb_true_iff in H. destruct H as [H Hanc].
  apply andb_true_iff in H. destruct H as [Hp Hrep].
  unfold is_pre in Hp. apply phase_eqb_eq in Hp. apply negb_true_iff in Hrep.
  destruct (ancestor_spawn _ _ _ C _ _ _ Hanc j ej Ej (eq_sym Rb))
    as [s [u [t' [Hs [Es [Hu Hhb]]]]]].
  assert (ti = u) as Htu.
  { apply (c_single _ _ _ C i s (mkEv ti oi) (mkEv u (Spawn t')) Ei Es); simpl.
    - congruence.
    - rewrite <- Ra. exact Hrep. }
  subst u.
  apply hb_trans with s; auto.
  apply hb_po with (mkEv ti oi) (mkEv ti (Spawn t')); auto.
  apply (Hpre Hp s t' Es).
Qed.

(* ------------------------------------------------------------------------------------------ *)
(** ** The key lemma: two instances of a [pair_ok] pair of entries are ordered *)

(** what [c_inst] provides for an access event *)
Definition inst_ok (P : program) (role_of : tid -> role) (tr : trace)
           (i : nat) (t : tid) (a : access) : Prop :=
  instance_of P tr i t a /\ a_role a = role_of t
  /\ (forall l m, In (l, m) (a_locks a) -> holds tr t l m i)
  /\ (a_phase a = PPre -> forall s t', ev tr s (mkEv t (Spawn t')) -> i < s).

Theorem pair_sound : forall P role_of tr, wf_trace tr -> conforms P role_of tr ->
  forall i j ti tj a b,
    inst_ok P role_of tr i ti a -> inst_ok P role_of tr j tj b ->
    a_loc a = a_loc b -> ti <> tj ->
    kconf (a_kind a) (a_kind b) = true ->
    pair_ok P a b = true ->
    hb tr i j \/ hb tr j i.
Proof.
  intros P role_of tr WF C i j ti tj a b [Ia [Ra [La Pa]]] [Ib [Rb [Lb Pb]]] Hloc Hne Hk Hok.
  pose proof Ia as Ia'. pose proof Ib as Ib'.
  destruct Ia' as [xa [sa [wa [ata [Ei [Na [Xa Ka]]]]]]].
  destruct Ib' as [xb [sb [wb [atb [Ej [Nb [Xb Kb]]]]]]].
  apply pair_ok_elim in Hok.
  destruct Hok as [H|[H|[H|[H|[H|[H|H]]]]]].
  - (* not conflicting *)
    rewrite Hk in H. discriminate.
  - (* a is constructor-phase *)
    unfold is_ctor in H. apply phase_eqb_eq in H.
    destruct (c_escape _ _ _ C i j ti tj a b Ia Ib Hloc H) as [H1 H2].
    destruct (a_phase b) eqn:Eb.
    + exfalso. apply Hne. apply H2. reflexivity.
    + left. apply H1. discriminate.
    + left. apply H1. discriminate.
  - (* b is constructor-phase *)
    unfold is_ctor in H. apply phase_eqb_eq in H.
    destruct (c_escape _ _ _ C j i tj ti b a Ib Ia (eq_sym Hloc) H) as [H1 H2].
    destruct (a_phase a) eqn:Ea.
    + exfalso. apply Hne. symmetry. apply H2. reflexivity.
    + right. apply H1. discriminate.
    + right. apply H1. discriminate.
  - (* same thread *)
    exfalso. unfold same_thread in H. apply andb_true_iff in H. destruct H as [Hr Hrep].
    apply String.eqb_eq in Hr. apply negb_true_iff in Hrep.
    apply Hne.
    apply (c_single _ _ _ C i j _ _ Ei Ej); simpl.
    + congruence.
    + rewrite <- Ra. exact Hrep.
  - (* common lock *)
    unfold common_lock in H. apply existsb_exists in H. destruct H as [[l ma] [Hla H]].
    apply existsb_exists in H. destruct H as [[l' mb] [Hlb H]].
    unfold lock_pair_excl in H. simpl in H. apply andb_true_iff in H. destruct H as [Hl Hm].
    apply String.eqb_eq in Hl. subst l'.
    apply orb_true_iff in Hm. rewrite !lmode_eqb_eq in Hm.
    pose proof (La _ _ Hla) as Ha. pose proof (Lb _ _ Hlb) as Hb.
    destruct (lt_eq_lt_dec i j) as [[Hlt|Heq]|Hgt].
    + left. eapply (lockset_hb tr WF i j ti tj); eauto. apply acc_op_not_rel.
    + exfalso. subst j. pose proof (ev_fun _ _ _ _ Ei Ej) as E. inversion E. auto.
    + right. eapply (lockset_hb tr WF j i tj ti); eauto.
      * apply acc_op_not_rel.
      * tauto.
  - (* a is pre-spawn, b by a descendant *)
    left. eapply (pre_ordered_hb P role_of tr C i j ti (mkEv tj _) a b); eauto.
  - right. eapply (pre_ordered_hb P role_of tr C j i tj (mkEv ti _) b a); eauto.
Qed.

Print Assumptions pair_sound.

(* ------------------------------------------------------------------------------------------ *)
(** ** From the table criterion to race freedom *)

Lemma conflict_entries : forall P role_of tr, conforms P role_of tr ->
  forall i j e1 e2, ev tr i e1 -> ev tr j e2 -> conflicting e1 e2 ->
  exists x a b,
    (exists s w at_, acc_of (e_op e1) = Some (x, s, w, at_))
    /\ (exists s w at_, acc_of (e_op e2) = Some (x, s, w, at_))
    /\ inst_ok P role_of tr i (e_tid e1) a /\ inst_ok P role_of tr j (e_tid e2) b
    /\ a_loc a = x /\ a_loc b = x /\ In a (p_accs P) /\ In b (p_accs P)
    /\ kconf (a_kind a) (a_kind b) = true.
Proof.
  intros P role_of tr C i j [t1 o1] [t2 o2] Ei Ej [Hne Hc]. simpl in *.
  destruct Hc as [x [s1 [w1 [a1 [s2 [w2 [a2 [H1 [H2 H3]]]]]]]]].
  assert (acc_of o1 <> None) as N1 by (rewrite H1; discriminate).
  assert (acc_of o2 <> None) as N2 by (rewrite H2; discriminate).
  destruct (c_inst _ _ _ C i t1 o1 Ei N1) as [a Ia].
  destruct (c_inst _ _ _ C j t2 o2 Ej N2) as [b Ib].
  pose proof Ia as [[xa [sa [wa [ata [Eia [Na [Xa Ka]]]]]]] _].
  pose proof Ib as [[xb [sb [wb [atb [Ejb [Nb [Xb Kb]]]]]]] _].
  pose proof (ev_fun _ _ _ _ Ei Eia) as E1. injection E1 as E1'.
  pose proof (ev_fun _ _ _ _ Ej Ejb) as E2. injection E2 as E2'.
  rewrite E1', acc_of_acc_op in H1.
  assert (xa = x /\ sa = s1 /\ wa = w1 /\ ata = a1) as [Q1 [Q2 [Q3 Q4]]]
    by (inversion H1; auto).
  rewrite E2', acc_of_acc_op in H2.
  assert (xb = x /\ sb = s2 /\ wb = w2 /\ atb = a2) as [R1 [R2 [R3 R4]]]
    by (inversion H2; auto).
  clear H1 H2. subst sa wa ata sb wb atb.
  rewrite Q1 in Xa. rewrite R1 in Xb. rewrite Q1 in E1'. rewrite R1 in E2'.
  exists x, a, b. repeat split; auto.
  - exists s1, w1, a1. rewrite E1'. apply acc_of_acc_op.
  - exists s2, w2, a2. rewrite E2'. apply acc_of_acc_op.
  - apply Ia.
  - apply Ia.
  - apply Ia.
  - apply Ia.
  - apply Ib.
  - apply Ib.
  - apply Ib.
  - apply Ib.
  - eapply nth_error_In; eauto.
  - eapply nth_error_In; eauto.
  - destruct (kind_matches_spec _ _ _ Ka) as [Wa Aa].
    destruct (kind_matches_spec _ _ _ Kb) as [Wb Ab].
    unfold kconf. rewrite Wa, Aa, Wb, Ab. exact H3.
Qed.

Lemma loc_disciplined_pair : forall P x a b, loc_disciplined P x = true ->
  In a (p_accs P) -> In b (p_accs P) -> a_loc a = x -> a_loc b = x -> pair_ok P a b = true.
Proof.
  intros P x a b H Ha Hb Xa Xb. unfold loc_disciplined in H.
  rewrite forallb_forall in H.
  assert (In a (accs_of P x)) as Ha'.
  { unfold accs_of. apply filter_In. split; auto. apply String.eqb_eq; auto. }
  assert (In b (accs_of P x)) as Hb'.
  { unfold accs_of. apply filter_In. split; auto. apply String.eqb_eq; auto. }
  specialize (H a Ha'). rewrite forallb_forall in H. apply H; auto.
Qed.

Lemma all_disciplined_loc : forall P a, all_disciplined P = true -> In a (p_accs P) ->
  loc_disciplined P (a_loc a) = true.
Proof.
  intros P a H Ha. unfold all_disciplined in H. rewrite forallb_forall in H. apply H.
  unfold locs_of. apply dedup_In. apply in_map. exact Ha.
Qed.

(** per-location version: a disciplined location is never raced on *)
Theorem loc_discipline_sound : forall P x, loc_disciplined P x = true ->
  forall role_of tr, wf_trace tr -> conforms P role_of tr ->
  forall i j e1 e2, i <> j -> ev tr i e1 -> ev tr j e2 -> conflicting e1 e2 ->
    (exists s w at_, acc_of (e_op e1) = Some (x, s, w, at_)) ->
    hb tr i j \/ hb tr j i.
Proof.
  intros P x HD role_of tr WF C i j e1 e2 _ Ei Ej Hc [s [w [at_ Hx]]].
  destruct (conflict_entries P role_of tr C i j e1 e2 Ei Ej Hc)
    as [x' [a [b [[s' [w' [at' Hx']]] [_ [Ia [Ib [Xa [Xb [Ha [Hb Hk]]]]]]]]]]].
  assert (x' = x) as Hxx by congruence.
  apply (pair_sound P role_of tr WF C i j (e_tid e1) (e_tid e2) a b Ia Ib).
  - rewrite Xa, Xb. reflexivity.
  - apply Hc.
  - exact Hk.
  - apply loc_disciplined_pair with x; auto; congruence.
Qed.

Print Assumptions loc_discipline_sound.

Theorem discipline_sound : forall P, all_disciplined P = true ->
  forall role_of tr, wf_trace tr -> conforms P role_of tr -> race_free tr.
Proof.
  intros P HD role_of tr WF C i j e1 e2 Hij Ei Ej Hc.
  destruct (conflict_entries P role_of tr C i j e1 e2 Ei Ej Hc)
    as [x [a [b [Hx [_ [Ia [Ib [Xa [Xb [Ha [Hb Hk]]]]]]]]]]].
  apply (loc_discipline_sound P x) with role_of e1 e2; auto.
  rewrite <- Xa. apply all_disciplined_loc; auto.
Qed.

Print Assumptions discipline_sound.

(* ------------------------------------------------------------------------------------------ *)
(** ** The five named rules are sufficient *)

Lemma post_suff : forall P x,
  (forall a b, In a (post P x) -> In b (post P x) -> pair_ok P a b = true) ->
  loc_disciplined P x = true.
Proof.
  intros P x H. unfold loc_disciplined. apply forallb_forall. intros a Ha.
  apply forallb_forall. intros b Hb.
  destruct (is_ctor a) eqn:Ca; [apply pair_ok_intro; tauto|].
  destruct (is_ctor b) eqn:Cb; [apply pair_ok_intro; tauto|].
  apply H; unfold post; apply filter_In; split; auto.
  - rewrite Ca; reflexivity.
  - rewrite Cb; reflexivity.
Qed.

Theorem rule_readonly_sufficient : forall P x,
  rule_readonly P x = true -> loc_disciplined P x = true.
Proof.
  intros P x H. unfold rule_readonly in H. rewrite forallb_forall in H.
  apply post_suff. intros a b Ha Hb. apply pair_ok_intro. left.
  pose proof (H a Ha) as Wa. pose proof (H b Hb) as Wb.
  apply negb_true_iff in Wa. apply negb_true_iff in Wb.
  unfold kconf. rewrite Wa, Wb. reflexivity.
Qed.

Theorem rule_atomic_sufficient : forall P x,
  rule_atomic P x = true -> loc_disciplined P x = true.
Proof.
  intros P x H. unfold rule_atomic in H. apply orb_true_iff in H.
  apply post_suff. intros a b Ha Hb. apply pair_ok_intro. left.
  destruct H as [H|H]; rewrite forallb_forall in H;
    pose proof (H a Ha) as Wa; pose proof (H b Hb) as Wb; cbv beta in *.
  - unfold kconf. rewrite Wa, Wb. simpl. rewrite andb_false_r. reflexivity.
  - unfold kconf. destruct (a_kind a); try discriminate; destruct (a_kind b); try discriminate;
      reflexivity.
Qed.

Theorem rule_owner_sufficient : forall P x,
  rule_owner P x = true -> loc_disciplined P x = true.
Proof.
  intros P x H. unfold rule_owner in H.
  apply post_suff. intros a b Ha Hb.
  destruct (post P x) as [|a0 l] eqn:E; [destruct Ha|].
  apply andb_true_iff in H. destruct H as [Hrep H]. rewrite forallb_forall in H.
  pose proof (H a Ha) as Wa. pose proof (H b Hb) as Wb. cbv beta in *.
  apply String.eqb_eq in Wa. apply String.eqb_eq in Wb.
  apply pair_ok_intro. right; right; right; left.
  unfold same_thread. rewrite Wa, Wb, String.eqb_refl. exact Hrep.
Qed.

Theorem rule_init_sufficient : forall P x,
  rule_init P x = true -> loc_disciplined P x = true.
Proof.
  intros P x H. unfold rule_init in H.
  destruct (filter is_pre (post P x)) as [|a0 l] eqn:E.
  - apply rule_readonly_sufficient; auto.
  - cbv zeta in H. apply andb_true_iff in H. destruct H as [Hrep Hall].
    rewrite forallb_forall in Hall.
    apply post_suff. intros a b Ha Hb.
    pose proof (Hall a Ha) as Wa. pose proof (Hall b Hb) as Wb. cbv beta in *.
    apply pair_ok_intro.
    destruct (is_pre a) eqn:Ea, (is_pre b) eqn:Eb.
    + apply String.eqb_eq in Wa. apply String.eqb_eq in Wb.
      right; right; right; left.
      unfold same_thread. rewrite Wa, Wb, String.eqb_refl. exact Hrep.
    + apply String.eqb_eq in Wa.
      apply andb_true_iff in Wb. destruct Wb as [_ Wb]. apply orb_true_iff in Wb.
      destruct Wb as [Wb|Wb].
      * apply String.eqb_eq in Wb. right; right; right; left.
        unfold same_thread. rewrite Wa, Wb, String.eqb_refl. exact Hrep.
      * right; right; right; right; right; left.
        unfold pre_ordered. rewrite Ea, Wa, Hrep, Wb. reflexivity.
    + apply String.eqb_eq in Wb.
      apply andb_true_iff in Wa. destruct Wa as [_ Wa]. apply orb_true_iff in Wa.
      destruct Wa as [Wa|Wa].
      * apply String.eqb_eq in Wa. right; right; right; left.
        unfold same_thread. rewrite Wa, Wb, String.eqb_refl. exact Hrep.
      * right; right; right; right; right; right.
        unfold pre_ordered. rewrite Eb, Wb, Hrep, Wa. reflexivity.
    + apply andb_true_iff in Wa. destruct Wa as [Wa _].
      apply andb_true_iff in Wb. destruct Wb as [Wb _].
      apply negb_true_iff in Wa. apply negb_true_iff in Wb.
      left. unfold kconf. rewrite Wa, Wb. reflexivity.
Qed.

Theorem rule_lockset_sufficient : forall P x,
  rule_lockset P x = true -> loc_disciplined P x = true.
Proof.
  intros P x H. unfold rule_lockset in H. rewrite forallb_forall in H.
  apply post_suff. intros a b Ha Hb.
  specialize (H a Ha). rewrite forallb_forall in H. specialize (H b Hb).
  apply orb_true_iff in H. apply pair_ok_intro. tauto.
Qed.

Print Assumptions rule_readonly_sufficient.
Print Assumptions rule_atomic_sufficient.
Print Assumptions rule_owner_sufficient.
Print Assumptions rule_init_sufficient.
Print Assumptions rule_lockset_sufficient.

(** consequently every location that [rule_of] classifies 1..6 is disciplined *)
Theorem rule_of_sound : forall P x, rule_of P x <> 0 -> loc_disciplined P x = true.
Proof.
  intros P x H. unfold rule_of in H.
  destruct (rule_readonly P x) eqn:E3; [apply rule_readonly_sufficient; auto|].
  destruct (rule_atomic P x) eqn:E4; [apply rule_atomic_sufficient; auto|].
  destruct (rule_owner P x) eqn:E2; [apply rule_owner_sufficient; auto|].
  destruct (rule_init P x) eqn:E1; [apply rule_init_sufficient; auto|].
  destruct (rule_lockset P x) eqn:E5; [apply rule_lockset_sufficient; auto|].
  destruct (loc_disciplined P x); auto; congruence.
Qed.

(* ------------------------------------------------------------------------------------------ *)
(** ** Dropping the undisciplined locations leaves a disciplined table *)

Lemma ancestor_restrict : forall P keep n r w,
  ancestor (restrict P keep) n r w = ancestor P n r w.
Proof.
  intros P keep. induction n; intros r w; simpl; auto.
  change (parent (restrict P keep) r) with (parent P r).
  destruct (parent P r); auto. rewrite IHn. reflexivity.
Qed.

Lemma pair_ok_restrict : forall P keep a b,
  pair_ok (restrict P keep) a b = pair_ok P a b.
Proof.
  intros. unfold pair_ok, same_thread, pre_ordered.
  rewrite !ancestor_restrict. reflexivity.
Qed.

Theorem without_disciplined : forall P,
  all_disciplined (without P (undisciplined_locs P)) = true.
Proof.
  intros P. unfold all_disciplined. apply forallb_forall. intros x Hx.
  unfold locs_of in Hx. apply (proj1 (dedup_In _ _)) in Hx. apply in_map_iff in Hx.
  destruct Hx as [a [Ha Hin]].
  unfold without, restrict in Hin. simpl in Hin. apply filter_In in Hin.
  destruct Hin as [Hin Hk].
  assert (loc_disciplined P x = true) as HD.
  { destruct (loc_disciplined P x) eqn:E; auto. exfalso.
    apply negb_true_iff in Hk.
    assert (existsb (String.eqb (a_loc a)) (undisciplined_locs P) = true) as Hex.
    { apply existsb_exists. exists x. split.
      - unfold undisciplined_locs. apply filter_In. split.
        + unfold locs_of. apply dedup_In. rewrite <- Ha. apply in_map. exact Hin.
        + rewrite E. reflexivity.
      - rewrite Ha. apply String.eqb_refl. }
    congruence. }
  unfold loc_disciplined. apply forallb_forall. intros c Hc.
  apply forallb_forall. intros d Hd.
  unfold without. rewrite pair_ok_restrict.
  unfold accs_of in Hc, Hd. apply filter_In in Hc. apply filter_In in Hd.
  destruct Hc as [Hc Xc]. destruct Hd as [Hd Xd].
  simpl in Hc, Hd. apply filter_In in Hc. apply filter_In in Hd.
  apply String.eqb_eq in Xc. apply String.eqb_eq in Xd.
  apply loc_disciplined_pair with x; tauto.
Qed.

Print Assumptions without_disciplined.

(* ------------------------------------------------------------------------------------------ *)
(** ** The criterion is not vacuous *)

Definition racy_prog : program := mkProgram
  [mkRole "connect" false None; mkRole "loop" false (Some "connect")]
  [mkAccess "X.v" KWrite "connect" PShared [] "w-site";
   mkAccess "X.v" KRead "loop" PShared [] "r-site"].

Definition racy_trace : trace :=
  [mkEv 0 (Spawn 1); mkEv 0 (Wr "X.v" 0); mkEv 1 (Rd "X.v" 1)].

Definition racy_role (t : tid) : role := if Nat.eqb t 0 then "connect" else "loop".

Lemma racy_prog_undisciplined : all_disciplined racy_prog = false.
Proof. vm_compute. reflexivity. Qed.

Lemma racy_ev : forall i e, ev racy_trace i e ->
  (i = 0 /\ e = mkEv 0 (Spawn 1)) \/ (i = 1 /\ e = mkEv 0 (Wr "X.v" 0))
  \/ (i = 2 /\ e = mkEv 1 (Rd "X.v" 1)).
Proof.
  intros i e H. unfold ev in H.
  destruct i as [|[|[|i]]]; simpl in H; try (inversion H; auto 6; fail).
  destruct i; discriminate.
Qed.

Lemma racy_trace_wf : wf_trace racy_trace.
Proof.
  intros a t2 l m2 H. exfalso.
  destruct (racy_ev _ _ H) as [[_ E]|[[_ E]|[_ E]]]; discriminate.
Qed.

Lemma racy_trace_conforms : conforms racy_prog racy_role racy_trace.
Proof.
  constructor.
  - intros i t o He Hacc.
    destruct (racy_ev _ _ He) as [[Hi E]|[[Hi E]|[Hi E]]]; inversion E; subst.
    + exfalso. apply Hacc. reflexivity.
    + exists (mkAccess "X.v" KWrite "connect" PShared [] "w-site"). repeat split.
      * exists "X.v", 0, true, false. repeat split.
      * intros l m [].
      * simpl; discriminate.
    + exists (mkAccess "X.v" KRead "loop" PShared [] "r-site"). repeat split.
      * exists "X.v", 1, false, false. repeat split.
      * intros l m [].
      * simpl; discriminate.
  - intros i j e1 e2 H1 H2 Hr _.
    destruct (racy_ev _ _ H1) as [[? ?]|[[? ?]|[? ?]]];
      destruct (racy_ev _ _ H2) as [[? ?]|[[? ?]|[? ?]]]; subst; simpl in *;
      try reflexivity; vm_compute in Hr; discriminate.
  - intros j e p He Hp.
    destruct (racy_ev _ _ He) as [[? ?]|[[? ?]|[? ?]]]; subst; vm_compute in Hp;
      try discriminate.
    inversion Hp. exists 0, 0. repeat split. lia.
  - intros i j ti tj a b [x [s [w [at_ [_ [Hn [_ _]]]]]]] _ _ Hp. exfalso.
    destruct s as [|[|s]]; simpl in Hn.
    + inversion Hn; subst; discriminate.
    + inversion Hn; subst; discriminate.
    + destruct s; discriminate.
Qed.

(** happens-before on the racy trace is exactly: the spawn precedes both accesses *)
Lemma racy_hb_char : forall i j, hb racy_trace i j -> i = 0 /\ (j = 1 \/ j = 2).
Proof.
  induction 1.
  - destruct (racy_ev _ _ H0) as [[? ?]|[[? ?]|[? ?]]];
      destruct (racy_ev _ _ H1) as [[? ?]|[[? ?]|[? ?]]]; subst; simpl in *;
      try discriminate; lia.
  - destruct (racy_ev _ _ H0) as [[_ E]|[[_ E]|[_ E]]]; discriminate.
  - destruct (racy_ev _ _ H0) as [[_ E]|[[_ E]|[_ E]]]; discriminate.
  - destruct (racy_ev _ _ H0) as [[_ E]|[[_ E]|[_ E]]]; discriminate.
  - destruct (racy_ev _ _ H0) as [[? E]|[[? E]|[? E]]]; try discriminate.
    inversion E as [[Ht Hs]].
    destruct (racy_ev _ _ H1) as [[? ?]|[[? ?]|[? ?]]]; subst; simpl in *;
      try discriminate; lia.
  - destruct (racy_ev _ _ H0) as [[_ E]|[[_ E]|[_ E]]]; discriminate.
  - lia.
Qed.

Theorem racy_trace_has_race : ~ race_free racy_trace.
Proof.
  intro RF.
  assert (conflicting (mkEv 0 (Wr "X.v" 0)) (mkEv 1 (Rd "X.v" 1))) as Hc.
  { split; simpl; [discriminate|].
    exists "X.v", 0, true, false, 1, false, false. repeat split. }
  destruct (RF 1 2 _ _ ltac:(lia) eq_refl eq_refl Hc) as [H|H];
    apply racy_hb_char in H; lia.
Qed.

Print Assumptions racy_trace_has_race.

(** the soundness theorem's contrapositive on this instance: the racy execution witnesses that
    [racy_prog] cannot be accepted *)
Corollary racy_prog_rejected_necessarily : all_disciplined racy_prog <> true.
Proof.
  intro H. apply racy_trace_has_race.
  apply (discipline_sound racy_prog H racy_role racy_trace racy_trace_wf racy_trace_conforms).
Qed.

(** the same accesses under a common mutex are accepted *)
Definition good_prog : program := mkProgram
  [mkRole "connect" false None; mkRole "loop" false (Some "connect")]
  [mkAccess "X.v" KWrite "connect" PShared [("X.mu", LW)] "w-site";
   mkAccess "X.v" KRead "loop" PShared [("X.mu", LW)] "r-site"].

Lemma good_prog_disciplined : all_disciplined good_prog = true.
Proof. vm_compute. reflexivity. Qed.

Lemma good_prog_lockset : rule_lockset good_prog "X.v" = true.
Proof. vm_compute. reflexivity. Qed.

(** a real execution of [good_prog]: the hypotheses of [discipline_sound] are satisfiable in the
    lockset case, and the theorem yields its race freedom *)
Definition good_trace : trace :=
  [mkEv 0 (Spawn 1);
   mkEv 0 (Acq "X.mu" LW); mkEv 0 (Wr "X.v" 0); mkEv 0 (Rel "X.mu" LW);
   mkEv 1 (Acq "X.mu" LW); mkEv 1 (Rd "X.v" 1); mkEv 1 (Rel "X.mu" LW)].

Lemma good_ev : forall i e, ev good_trace i e ->
  (i = 0 /\ e = mkEv 0 (Spawn 1))
  \/ (i = 1 /\ e = mkEv 0 (Acq "X.mu" LW))
  \/ (i = 2 /\ e = mkEv 0 (Wr "X.v" 0))
  \/ (i = 3 /\ e = mkEv 0 (Rel "X.mu" LW))
  \/ (i = 4 /\ e = mkEv 1 (Acq "X.mu" LW))
  \/ (i = 5 /\ e = mkEv 1 (Rd "X.v" 1))
  \/ (i = 6 /\ e = mkEv 1 (Rel "X.mu" LW)).
Proof.
  intros i e H. unfold ev in H.
  do 7 (destruct i as [|i]; [simpl in H; inversion H; tauto|]).
  destruct i; discriminate.
Qed.

Ltac good_cases H :=
  destruct (good_ev _ _ H) as [[? ?]|[[? ?]|[[? ?]|[[? ?]|[[? ?]|[[? ?]|[? ?]]]]]]].

Lemma good_trace_wf : wf_trace good_trace.
Proof.
  intros a t2 l m2 Ha t1 m1 Hne [a' [Hlt [Ea' Hnr]]]. exfalso.
  good_cases Ha; try discriminate; subst a.
  - (* the acquire at 1: nothing acquired before *)
    good_cases Ea'; try discriminate; lia.
  - (* the acquire at 4 by thread 1: thread 0 released at 3 *)
    good_cases Ea'; try discriminate; try lia. subst a'.
    match goal with E : mkEv t1 (Acq l m1) = _ |- _ => inversion E; subst end.
    apply (Hnr 3); try lia. reflexivity.
Qed.

Lemma good_trace_conforms : conforms good_prog racy_role good_trace.
Proof.
  constructor.
  - intros i t o He Hacc.
    good_cases He;
      match goal with E : mkEv t o = _ |- _ => inversion E; subst end;
      try (exfalso; apply Hacc; reflexivity).
    + exists (mkAccess "X.v" KWrite "connect" PShared [("X.mu", LW)] "w-site"). repeat split.
      * exists "X.v", 0, true, false. repeat split.
      * intros l m [E|[]]. inversion E; subst. exists 1. repeat split; try lia.
      * simpl; discriminate.
    + exists (mkAccess "X.v" KRead "loop" PShared [("X.mu", LW)] "r-site"). repeat split.
      * exists "X.v", 1, false, false. repeat split.
      * intros l m [E|[]]. inversion E; subst. exists 4. repeat split; try lia.
      * simpl; discriminate.
  - intros i j e1 e2 H1 H2 Hr _.
    good_cases H1; good_cases H2; subst; simpl in *;
      try reflexivity; vm_compute in Hr; discriminate.
  - intros j e p He Hp.
    good_cases He; subst; vm_compute in Hp; try discriminate;
      inversion Hp; exists 0, 0; repeat split; lia.
  - intros i j ti tj a b [x [s [w [at_ [_ [Hn [_ _]]]]]]] _ _ Hp. exfalso.
    destruct s as [|[|s]]; simpl in Hn.
    + inversion Hn; subst; discriminate.
    + inversion Hn; subst; discriminate.
    + destruct s; discriminate.
Qed.

Corollary good_trace_race_free : race_free good_trace.
Proof.
  exact (discipline_sound good_prog good_prog_disciplined racy_role good_trace
           good_trace_wf good_trace_conforms).
Qed.

Print Assumptions good_trace_race_free.
