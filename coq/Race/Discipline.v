(** * Race/Discipline.v — access disciplines for struct fields, and the trace model they are about (C20)

    MODEL ONLY (definitions and computable checkers; proofs are in DisciplineSound.v).

    Part 1: the ACCESS TABLE of an object (one struct instance): for every syntactic access to a
            field, its kind, the goroutine ROLE that performs it, the PHASE of the object's life
            in which it happens, and the locks (syntactically) held.  `tools/go-access`
            regenerates such a table from the Go source on every run.
    Part 2: the DISCIPLINE checker: a boolean function over the table (pairwise criterion
            [pair_ok] plus the five named rules which each imply it).
    Part 3: the TRACE MODEL: events, happens-before, lock semantics ([wf_trace]) and what it
            means for a trace to be an execution of a table ([conforms]).                      *)

From Coq Require Import List String Bool Arith.
Import ListNotations.
Open Scope string_scope.

(* ------------------------------------------------------------------------------------------ *)
(** ** Part 1: access tables *)

Definition loc := string.      (* "Client.version" *)
Definition lockid := string.   (* "Client.awaitMu" *)
Definition role := string.     (* "read-loop", "api-caller" ... *)

Inductive lmode := LR | LW.    (* RWMutex read side / write side; a plain Mutex is always LW *)

Inductive akind :=
| KRead          (* plain read of the field (or of what it refers to: map lookup, method call) *)
| KWrite         (* plain write of the field, or of the map/slice/struct it refers to *)
| KAtomicRead    (* sync/atomic load *)
| KAtomicWrite   (* sync/atomic store / add / swap / compare-and-swap *)
| KChan.         (* channel operation (send, receive, close, select case, len) on a channel-typed
                    field: a plain READ of the field followed by a runtime-synchronised operation *)

Inductive phase :=
| PCtor          (* while the object is being constructed and no other thread can reach it
                    (constructor body before its first `go`, option functions) *)
| PPre           (* in the spawning method (Connect), syntactically before its first `go` statement *)
| PShared.       (* anything else *)

Record access := mkAccess {
  a_loc : loc;
  a_kind : akind;
  a_role : role;
  a_phase : phase;
  a_locks : list (lockid * lmode);
  a_site : string             (* "reader.go:1176 negotiate" — for reports only *)
}.

Record roleinfo := mkRole {
  r_name : role;
  r_repl : bool;               (* true: unboundedly many threads may play this role at once *)
  r_parent : option role       (* Some p: every thread of this role is spawned (go statement)
                                  by a thread of role p; None: it exists independently *)
}.

Record program := mkProgram {
  p_roles : list roleinfo;
  p_accs : list access
}.

Definition lmode_eqb (a b : lmode) : bool :=
  match a, b with LR, LR | LW, LW => true | _, _ => false end.

Definition phase_eqb (a b : phase) : bool :=
  match a, b with PCtor, PCtor | PPre, PPre | PShared, PShared => true | _, _ => false end.

Definition find_role (P : program) (r : role) : option roleinfo :=
  find (fun ri => String.eqb (r_name ri) r) (p_roles P).

(** a role not listed is treated as replicated, parentless (the conservative reading) *)
Definition replicated (P : program) (r : role) : bool :=
  match find_role P r with Some ri => r_repl ri | None => true end.

Definition parent (P : program) (r : role) : option role :=
  match find_role P r with Some ri => r_parent ri | None => None end.

(** [ancestor P n r w]: following at most [n] parent links from [r] (at least one) reaches [w] *)
Fixpoint ancestor (P : program) (n : nat) (r w : role) : bool :=
  match n with
  | O => false
  | S n' => match parent P r with
            | Some p => String.eqb p w || ancestor P n' p w
            | None => false
            end
  end.

(* ------------------------------------------------------------------------------------------ *)
(** ** Part 2: the discipline checker *)

Definition is_write (k : akind) : bool :=
  match k with KWrite | KAtomicWrite => true | _ => false end.

Definition is_atomic (k : akind) : bool :=
  match k with KAtomicRead | KAtomicWrite => true | _ => false end.

(** two access kinds conflict: at least one writes, and they are not both atomic.
    (KChan counts as a plain read of the field.) *)
Definition kconf (k1 k2 : akind) : bool :=
  (is_write k1 || is_write k2) && negb (is_atomic k1 && is_atomic k2).

Definition is_ctor (a : access) : bool := phase_eqb (a_phase a) PCtor.
Definition is_pre (a : access) : bool := phase_eqb (a_phase a) PPre.

(** both accesses are necessarily performed by the same thread *)
Definition same_thread (P : program) (a b : access) : bool :=
  String.eqb (a_role a) (a_role b) && negb (replicated P (a_role a)).

Definition lock_pair_excl (la lb : lockid * lmode) : bool :=
  String.eqb (fst la) (fst lb) && (lmode_eqb (snd la) LW || lmode_eqb (snd lb) LW).

(** some lock is held by both, by at least one of them on the write side *)
Definition common_lock (a b : access) : bool :=
  existsb (fun la => existsb (fun lb => lock_pair_excl la lb) (a_locks b)) (a_locks a).

(** [a] happens in the spawning method before its first `go`, performed by a single thread,
    and [b] is performed by a thread spawned (transitively) by that thread *)
Definition pre_ordered (P : program) (a b : access) : bool :=
  is_pre a && negb (replicated P (a_role a))
  && ancestor P (List.length (p_roles P)) (a_role b) (a_role a).

(** THE criterion: two table entries for the same location can never race *)
Definition pair_ok (P : program) (a b : access) : bool :=
  negb (kconf (a_kind a) (a_kind b))
  || is_ctor a || is_ctor b
  || same_thread P a b
  || common_lock a b
  || pre_ordered P a b || pre_ordered P b a.

Definition accs_of (P : program) (x : loc) : list access :=
  filter (fun a => String.eqb (a_loc a) x) (p_accs P).

Definition loc_disciplined (P : program) (x : loc) : bool :=
  let l := accs_of P x in forallb (fun a => forallb (fun b => pair_ok P a b) l) l.

Fixpoint dedup (l : list string) : list string :=
  match l with
  | [] => []
  | x :: r => if existsb (String.eqb x) r then dedup r else x :: dedup r
  end.

Definition locs_of (P : program) : list loc := dedup (map a_loc (p_accs P)).

Definition all_disciplined (P : program) : bool :=
  forallb (loc_disciplined P) (locs_of P).

(** for reports: the offending pairs of a location (field, site 1, site 2) *)
Definition bad_pairs (P : program) (x : loc) : list (loc * string * string) :=
  let l := accs_of P x in
  flat_map (fun a => flat_map (fun b =>
     if pair_ok P a b then [] else [(x, a_site a, a_site b)]) l) l.

Definition undisciplined (P : program) : list (loc * string * string) :=
  flat_map (fun x => match bad_pairs P x with [] => [] | p :: _ => [p] end) (locs_of P).

Definition undisciplined_locs (P : program) : list loc :=
  filter (fun x => negb (loc_disciplined P x)) (locs_of P).

(** the table restricted to some locations (so that the rest can still be certified when one
    field is racy) *)
Definition restrict (P : program) (keep : loc -> bool) : program :=
  mkProgram (p_roles P) (filter (fun a => keep (a_loc a)) (p_accs P)).

Definition without (P : program) (bad : list loc) : program :=
  restrict P (fun x => negb (existsb (String.eqb x) bad)).

(** *** The five named rules (each is a sufficient condition for [loc_disciplined]; see
    DisciplineSound.v).  They talk about the post-construction accesses only. *)

Definition post (P : program) (x : loc) : list access :=
  filter (fun a => negb (is_ctor a)) (accs_of P x).

(** (3) never written after publication *)
Definition rule_readonly (P : program) (x : loc) : bool :=
  forallb (fun a => negb (is_write (a_kind a))) (post P x).

(** (4) after publication only atomics, or only channel operations *)
Definition rule_atomic (P : program) (x : loc) : bool :=
  forallb (fun a => is_atomic (a_kind a)) (post P x)
  || forallb (fun a => match a_kind a with KChan | KRead => true | _ => false end) (post P x).

(** (2) after publication accessed by one non-replicated role only *)
Definition rule_owner (P : program) (x : loc) : bool :=
  match post P x with
  | [] => true
  | a :: _ => negb (replicated P (a_role a))
              && forallb (fun b => String.eqb (a_role b) (a_role a)) (post P x)
  end.

(** (1) init-then-share: written only before the first spawn (by one non-replicated role w),
    afterwards only read, by w itself or by threads it spawned *)
Definition rule_init (P : program) (x : loc) : bool :=
  match filter is_pre (post P x) with
  | [] => rule_readonly P x
  | a :: _ =>
      let w := a_role a in
      negb (replicated P w)
      && forallb (fun b =>
           if is_pre b then String.eqb (a_role b) w
           else negb (is_write (a_kind b))
                && (String.eqb (a_role b) w || ancestor P (List.length (p_roles P)) (a_role b) w))
         (post P x)
  end.

(** (5) lockset: every two conflicting post-publication accesses hold a common lock, one of them
    on the write side *)
Definition rule_lockset (P : program) (x : loc) : bool :=
  let l := post P x in
  forallb (fun a => forallb (fun b => negb (kconf (a_kind a) (a_kind b)) || common_lock a b) l) l.

(** which named rule certifies the location: 3,4,2,1,5 in this order of preference;
    6 = none of the five alone, but every pair is fine (mixed discipline); 0 = undisciplined *)
Definition rule_of (P : program) (x : loc) : nat :=
  if rule_readonly P x then 3
  else if rule_atomic P x then 4
  else if rule_owner P x then 2
  else if rule_init P x then 1
  else if rule_lockset P x then 5
  else if loc_disciplined P x then 6
  else 0.

Definition classification (P : program) : list (loc * nat) :=
  map (fun x => (x, rule_of P x)) (locs_of P).

(* ------------------------------------------------------------------------------------------ *)
(** ** Part 3: traces, happens-before, executions of a table *)

Definition tid := nat.
Definition chanid := string.
Definition wgid := string.

(** An access event carries the location and (ghost) the index [s] of the table entry it is an
    instance of.  Send/Recv carry the sequence number of the message on that channel so that
    the k-th send is paired with the k-th receive only. *)
Inductive op :=
| Acq (l : lockid) (m : lmode)
| Rel (l : lockid) (m : lmode)
| Rd (x : loc) (s : nat)
| Wr (x : loc) (s : nat)
| ARd (x : loc) (s : nat)
| AWr (x : loc) (s : nat)
| Send (c : chanid) (k : nat)
| Recv (c : chanid) (k : nat)
| Close (c : chanid)
| RecvClosed (c : chanid)
| Spawn (t : tid)
| Done (w : wgid)
| Wait (w : wgid).

Record event := mkEv { e_tid : tid; e_op : op }.

Definition trace := list event.

Definition ev (tr : trace) (i : nat) (e : event) : Prop := nth_error tr i = Some e.

(** happens-before on positions of the trace (Go memory model, restricted to the operations
    above): program order, unlock -> later lock of the same mutex (for an RWMutex only when one
    of the two is the write side), k-th send -> k-th receive, close -> receive-of-closed,
    go statement -> everything the new goroutine does, wg.Done -> later wg.Wait return;
    transitively closed. *)
Inductive hb (tr : trace) : nat -> nat -> Prop :=
| hb_po : forall i j e1 e2, i < j -> ev tr i e1 -> ev tr j e2 -> e_tid e1 = e_tid e2 -> hb tr i j
| hb_lock : forall i j t1 t2 l m1 m2, i < j ->
    ev tr i (mkEv t1 (Rel l m1)) -> ev tr j (mkEv t2 (Acq l m2)) -> (m1 = LW \/ m2 = LW) -> hb tr i j
| hb_send : forall i j t1 t2 c k, i < j ->
    ev tr i (mkEv t1 (Send c k)) -> ev tr j (mkEv t2 (Recv c k)) -> hb tr i j
| hb_close : forall i j t1 t2 c, i < j ->
    ev tr i (mkEv t1 (Close c)) -> ev tr j (mkEv t2 (RecvClosed c)) -> hb tr i j
| hb_spawn : forall i j t1 e2, i < j ->
    ev tr i (mkEv t1 (Spawn (e_tid e2))) -> ev tr j e2 -> hb tr i j
| hb_wg : forall i j t1 t2 w, i < j ->
    ev tr i (mkEv t1 (Done w)) -> ev tr j (mkEv t2 (Wait w)) -> hb tr i j
| hb_trans : forall i j k, hb tr i j -> hb tr j k -> hb tr i k.

(** thread [t] holds lock [l] in mode [m] when event number [i] is executed: it acquired it
    earlier and has not released it since (Go mutexes are not re-entrant) *)
Definition holds (tr : trace) (t : tid) (l : lockid) (m : lmode) (i : nat) : Prop :=
  exists a, a < i /\ ev tr a (mkEv t (Acq l m)) /\
            forall k, a < k -> k < i -> ~ ev tr k (mkEv t (Rel l m)).

(** lock semantics: an acquire succeeds only if no other thread holds the lock, except that
    several threads may hold the read side together *)
Definition wf_trace (tr : trace) : Prop :=
  forall a t2 l m2, ev tr a (mkEv t2 (Acq l m2)) ->
  forall t1 m1, t1 <> t2 -> holds tr t1 l m1 a -> m1 = LR /\ m2 = LR.

(** the access view of an operation: location, table index, writes?, atomic? *)
Definition acc_of (o : op) : option (loc * nat * bool * bool) :=
  match o with
  | Rd x s => Some (x, s, false, false)
  | Wr x s => Some (x, s, true, false)
  | ARd x s => Some (x, s, false, true)
  | AWr x s => Some (x, s, true, true)
  | _ => None
  end.

(** the trace operation a table entry of kind [k] shows up as *)
Definition kind_matches (k : akind) (w at_ : bool) : bool :=
  match k with
  | KRead | KChan => negb w && negb at_
  | KWrite => w && negb at_
  | KAtomicRead => negb w && at_
  | KAtomicWrite => w && at_
  end.

(** the operation with a given access view *)
Definition acc_op (x : loc) (s : nat) (w at_ : bool) : op :=
  match w, at_ with
  | false, false => Rd x s
  | true, false => Wr x s
  | false, true => ARd x s
  | true, true => AWr x s
  end.

(** event [i] of [tr] is an instance of table entry [a] (performed by thread [t]) *)
Definition instance_of (P : program) (tr : trace) (i : nat) (t : tid) (a : access) : Prop :=
  exists x s w at_, ev tr i (mkEv t (acc_op x s w at_))
    /\ nth_error (p_accs P) s = Some a /\ a_loc a = x /\ kind_matches (a_kind a) w at_ = true.

(** [tr] is an execution of the table [P] with thread roles [role_of]:
    - every access event is an instance of the table entry it names, performed by a thread of
      that entry's role, holding (at least) the locks the entry lists;
    - a PPre access precedes every `go` statement executed by its thread;
    - a non-replicated role is played by at most one thread;
    - a thread whose role has a parent role was spawned, before its first event, by a thread of
      that parent role;
    - ESCAPE ASSUMPTION: construction (PCtor accesses) is done by one thread and happens-before
      every later access to the same location (the object is handed to other threads only
      through synchronisation). *)
Record conforms (P : program) (role_of : tid -> role) (tr : trace) : Prop := {
  c_inst : forall i t o, ev tr i (mkEv t o) -> acc_of o <> None ->
           exists a, instance_of P tr i t a /\ a_role a = role_of t
                     /\ (forall l m, In (l, m) (a_locks a) -> holds tr t l m i)
                     /\ (a_phase a = PPre -> forall s t', ev tr s (mkEv t (Spawn t')) -> i < s);
  c_single : forall i j e1 e2, ev tr i e1 -> ev tr j e2 ->
           role_of (e_tid e1) = role_of (e_tid e2) -> replicated P (role_of (e_tid e1)) = false ->
           e_tid e1 = e_tid e2;
  c_parent : forall j e p, ev tr j e -> parent P (role_of (e_tid e)) = Some p ->
           exists s u, s < j /\ ev tr s (mkEv u (Spawn (e_tid e))) /\ role_of u = p;
  c_escape : forall i j ti tj a b, instance_of P tr i ti a -> instance_of P tr j tj b ->
           a_loc a = a_loc b -> a_phase a = PCtor ->
           (a_phase b <> PCtor -> hb tr i j) /\ (a_phase b = PCtor -> ti = tj)
}.

(** two events conflict: accesses to the same location by different threads, at least one
    writes, not both atomic *)
Definition conflicting (e1 e2 : event) : Prop :=
  e_tid e1 <> e_tid e2 /\
  exists x s1 w1 a1 s2 w2 a2,
    acc_of (e_op e1) = Some (x, s1, w1, a1) /\ acc_of (e_op e2) = Some (x, s2, w2, a2) /\
    (w1 || w2) && negb (a1 && a2) = true.

(** no data race: any two conflicting events are ordered by happens-before *)
Definition race_free (tr : trace) : Prop :=
  forall i j e1 e2, i <> j -> ev tr i e1 -> ev tr j e2 -> conflicting e1 e2 ->
                    hb tr i j \/ hb tr j i.
