(* C19 — Message header codec and message-type tables are exact and consistent.
   Only property statements; each closed by [exact] of a lemma proved in Header/HeaderProofs.v
   or Header/TablesCheck.v.

   Part 1 (header codec) is about the model Header.v of Header.UnmarshalBinary / MarshalBinary /
   WriteTo / validateHeader and Client.readHeader / writeHeader; the model is tied to the Go
   code on every run by the exhaustive first-two-bytes x boundary lengths x ids comparison of
   checks/c19.py.  [field i n buf] is the number held in the n bits of the buffer that start at
   bit i, where bit 0 is the most significant bit of the first byte (Base/Bits.v).

   Part 2 (tables) states what a successful boolean check of a dumped table means.  The table
   itself is dumped from the running Go code for all 1024 type codes on every run and the
   closed obligations  checker gen_tables = true  are compiled then (build/gen/C19/*.v); they
   are counted in the evidence of that run. *)
From Coq Require Import NArith List Bool.
From LLRP Require Import Base.Bits Header.Header Header.HeaderProofs Header.TablesCheck.
From LLRP Require Import Header.ClientState Header.ClientStateProofs.
Import ListNotations.
Open Scope N_scope.

(* ---------------------------------------------------------------- Part 1: header codec *)

(* A buffer of at least 10 bytes decodes to: version = bits 3-5, type = bits 6-15 (the low 10
   bits of the first two bytes), payload length = the 32-bit field at bits 16-47 minus 10,
   message id = the 32-bit field at bits 48-79; and it is rejected iff that length field is
   below 10. *)
Theorem C19_decode_spec : forall buf, (10 <= length buf)%nat -> bytes_ok buf ->
  hdr_decode buf =
    if field 16 32 buf <? 10 then HErr ErrLenBelowHeader
    else HOk (mkHdr (field 3 3 buf) (field 6 10 buf) (field 16 32 buf - 10) (field 48 32 buf)).
Proof. exact hdr_decode_spec. Qed.
Print Assumptions C19_decode_spec.

(* declared lengths below 10 are rejected; so are buffers shorter than a header; nothing else *)
Theorem C19_decode_rejects : forall buf, bytes_ok buf ->
  (exists h, hdr_decode buf = HOk h) <-> ((10 <= length buf)%nat /\ 10 <= field 16 32 buf).
Proof. exact hdr_decode_accepts_iff. Qed.
Print Assumptions C19_decode_rejects.

(* readHeader = UnmarshalBinary of the next 10 bytes of the stream, no further checks *)
Theorem C19_read_header : forall s,
  read_header s = if Nat.ltb (length s) 10 then HErr ErrShort else hdr_decode (firstn 10 s).
Proof. exact read_header_spec. Qed.
Print Assumptions C19_read_header.

(* ... and independently of how the transport fragments the bytes: io.ReadFull over a connection
   that delivers the stream in arbitrary pieces (one piece, or less, per Read; empty pieces
   allowed) yields the header of the concatenation *)
Theorem C19_read_header_fragmentation : forall chunks,
  read_header_chunks chunks = read_header (concat chunks).
Proof. exact read_header_chunks_concat. Qed.
Print Assumptions C19_read_header_fragmentation.

Theorem C19_read_header_fragmentation_indep : forall chunks chunks',
  concat chunks = concat chunks' -> read_header_chunks chunks = read_header_chunks chunks'.
Proof. exact read_header_chunks_indep. Qed.
Print Assumptions C19_read_header_fragmentation_indep.

(* encoding inverts decoding: whatever MarshalBinary/WriteTo accept (with a version that fits
   the 3-bit field) decodes to the same header ... *)
Theorem C19_roundtrip_encode_decode : forall h b, wf_hdr h -> h_ver h < 8 ->
  hdr_encode h = Some b -> hdr_decode b = HOk h.
Proof. exact hdr_roundtrip_enc_dec. Qed.
Print Assumptions C19_roundtrip_encode_decode.

(* ... and re-encoding a decoded 10-byte header gives the same bytes back, with the three
   reserved bits zeroed; except that types 900-999 (which the decoder lets through) are refused *)
Theorem C19_roundtrip_decode_encode : forall b h, length b = 10%nat -> bytes_ok b ->
  hdr_decode b = HOk h ->
  hdr_encode h = if (900 <=? h_typ h) && (h_typ h <=? 999) then None else Some (clear_resv b).
Proof. exact hdr_roundtrip_dec_enc. Qed.
Print Assumptions C19_roundtrip_decode_encode.

Theorem C19_roundtrip_decode_encode_exact : forall b h, length b = 10%nat -> bytes_ok b ->
  hd 0 b < 32 -> hdr_decode b = HOk h -> ~ (900 <= h_typ h <= 999) -> hdr_encode h = Some b.
Proof. exact hdr_roundtrip_dec_enc_exact. Qed.
Print Assumptions C19_roundtrip_decode_encode_exact.

(* the encoder refuses exactly: out-of-range types, reserved types, and payload lengths whose
   sum with the header size does not fit 32 bits *)
Theorem C19_encode_refuses : forall h,
  hdr_encode h = None <-> (1023 < h_typ h \/ 900 <= h_typ h <= 999 \/ 2 ^ 32 - 11 < h_len h).
Proof. exact hdr_encode_refuses. Qed.
Print Assumptions C19_encode_refuses.

(* what is accepted is written as 10 bytes, the same bytes writeHeader writes *)
Theorem C19_encode_writes : forall h b, hdr_encode h = Some b ->
  write_header h = b /\ length b = 10%nat /\ bytes_ok b.
Proof.
  exact (fun h b H => conj (write_header_eq_encode h b H)
     (eq_ind _ (fun x => length x = 10%nat /\ bytes_ok x)
        (conj (hdr_write_length h) (hdr_write_bytes h)) _ (write_header_eq_encode h b H))).
Qed.
Print Assumptions C19_encode_writes.

(* value semantics: in a batch of encodings (any order, results kept by the caller until the
   whole batch is done) the i-th result is the encoding of the i-th header, independent of the
   other members of the batch; a retained accepted encoding still decodes to its own header and
   equals what writeHeader wrote for it.  Likewise for decoding. *)
Theorem C19_batch_encode_pointwise : forall hs i h, nth_error hs i = Some h ->
  nth_error (encode_batch hs) i = Some (hdr_encode h, write_header h).
Proof. exact encode_batch_nth. Qed.
Print Assumptions C19_batch_encode_pointwise.

Theorem C19_batch_encode_retained_roundtrip : forall hs i h b w, nth_error hs i = Some h ->
  wf_hdr h -> h_ver h < 8 ->
  nth_error (encode_batch hs) i = Some (Some b, w) -> hdr_decode b = HOk h /\ w = b.
Proof. exact encode_batch_roundtrip. Qed.
Print Assumptions C19_batch_encode_retained_roundtrip.

Theorem C19_batch_decode_pointwise : forall bufs i b, nth_error bufs i = Some b ->
  nth_error (decode_batch bufs) i = Some (hdr_decode b, read_header b).
Proof. exact decode_batch_nth. Qed.
Print Assumptions C19_batch_decode_pointwise.

(* decoding is a function of the header bytes alone.  Client.readHeader is a method and could
   look at anything the Client holds - the version in use, whether the first message has been
   seen, negotiation under way or finished (at 1.0.1, at 1.1, lowered), outstanding requests,
   CloseConnection sent, Close called.  [cstate] is that state, [client_run (c_new v t) evs] the
   state after the connection history evs.  For every state: same result as on the bare bytes ... *)
Theorem C19_read_header_any_state : forall (c : cstate) s,
  client_read_header c true s = read_header s.
Proof. exact client_read_header_stateless. Qed.
Print Assumptions C19_read_header_any_state.

Theorem C19_read_header_state_independent : forall (c c' : cstate) s,
  client_read_header c true s = client_read_header c' true s.
Proof. exact client_read_header_indep. Qed.
Print Assumptions C19_read_header_state_independent.

(* ... i.e. version = bits 3-5, type = bits 6-15, length field - 10, id, whatever the state; and
   only short streams and length fields below 10 are rejected, whatever the state *)
Theorem C19_read_header_any_state_fields : forall (c : cstate) s, (10 <= length s)%nat -> bytes_ok s ->
  client_read_header c true s =
    if field 16 32 s <? 10 then HErr ErrLenBelowHeader
    else HOk (mkHdr (field 3 3 s) (field 6 10 s) (field 16 32 s - 10) (field 48 32 s)).
Proof. exact client_read_header_fields. Qed.
Print Assumptions C19_read_header_any_state_fields.

Theorem C19_read_header_any_state_rejects : forall (c : cstate) s, bytes_ok s ->
  (exists h, client_read_header c true s = HOk h) <-> ((10 <= length s)%nat /\ 10 <= field 16 32 s).
Proof. exact client_read_header_accepts_iff. Qed.
Print Assumptions C19_read_header_any_state_rejects.

(* for all configurations and all connection histories *)
Theorem C19_read_header_after_any_history : forall v timeout (evs : list cevent) s,
  client_read_header (client_run (c_new v timeout) evs) true s = read_header s.
Proof. exact (fun v t => client_read_header_history (c_new v t)). Qed.
Print Assumptions C19_read_header_after_any_history.

(* every header the read side (checkInitialMessage, then the read loop) decodes along a history
   is the header of the bytes it was given at that point *)
Theorem C19_read_side_decodes_along_history : forall v timeout (evs : list cevent),
  client_observe (c_new v timeout) evs = map read_header (client_reads (c_new v timeout) evs).
Proof. exact (fun v t evs => client_observe_reads evs (c_new v t)). Qed.
Print Assumptions C19_read_side_decodes_along_history.

(* encoding by a Client is likewise independent of its state: writeHeader writes the bytes of the
   header; what the encoder accepts is written as its encoding and read back, by a client in any
   other state, as the same header *)
Theorem C19_write_header_state_independent : forall (c c' : cstate) h,
  client_write_header c h = client_write_header c' h.
Proof. exact client_write_header_indep. Qed.
Print Assumptions C19_write_header_state_independent.

Theorem C19_write_read_any_states : forall (c c' : cstate) h b, wf_hdr h -> h_ver h < 8 ->
  hdr_encode h = Some b -> client_read_header c' true (client_write_header c h) = HOk h.
Proof. exact client_write_read_roundtrip. Qed.
Print Assumptions C19_write_read_any_states.

(* the only field of the Client that readHeader consults: with a timeout configured, a connection
   that refuses the read deadline is reported; the configuration is not changed by any history *)
Theorem C19_read_header_deadline : forall v timeout (evs : list cevent) s,
  client_read_header (client_run (c_new v timeout) evs) false s =
    if timeout then HErr ErrDeadline else read_header s.
Proof.
  exact (fun v t evs s => eq_trans (client_read_header_deadline _ s)
     (f_equal (fun b : bool => if b then HErr ErrDeadline else read_header s)
        (client_run_timeout evs (c_new v t)))).
Qed.
Print Assumptions C19_read_header_deadline.

(* "refusing reserved or out-of-range types" on every way a caller can put a message type on the
   connection: the constructors (newMessage, shared by NewHdrOnlyMsg and NewByteMessage) and the
   Client's send APIs built on them (SendNoWait of such a message, SendMessage, SendFor), for a
   client in any state: the message is refused exactly when nothing takes it or the type is above
   1023 or reserved or the length does not fit ... *)
Theorem C19_send_refuses : forall (c : cstate) typ len,
  client_send c typ len = None <->
  (sendable c = false \/ 1023 < typ \/ 900 <= typ <= 999 \/ 2 ^ 32 - 11 < len).
Proof. exact client_send_refused_iff. Qed.
Print Assumptions C19_send_refuses.

(* ... and what is accepted goes out as 10 bytes that decode to exactly that type and length, the
   version the client holds (1.1 for GetSupportedVersion/SetProtocolVersion) and the next ID;
   after every connection history *)
Theorem C19_send_decodes_back : forall v timeout (evs : list cevent) typ len b, v < 8 ->
  let c := client_run (c_new v timeout) evs in
  client_send c typ len = Some b ->
  length b = 10%nat /\
  hdr_decode b = HOk (mkHdr (if (typ =? 46) || (typ =? 47) then 2 else c_ver c) typ len (c_next_id c)).
Proof. exact client_send_decodes_history. Qed.
Print Assumptions C19_send_decodes_back.

(* "encoding is the exact inverse" over a connection that fails inside the header (conn.Write takes
   k bytes and returns an error, a timeout or not): whatever writeHeader reports, the peer has
   received a prefix of the header's encoding; all of it whenever success is reported; a failed
   Write is never reported as success *)
Theorem C19_write_header_faulty_connection : forall (c : cstate) h (f : wfault),
  let r := client_write_header_io c h f in
  (exists rest, client_write_header c h = fst r ++ rest)
  /\ (snd r = true -> fst r = client_write_header c h)
  /\ (snd r = true <-> f = WNoFault).
Proof. exact client_write_header_io_prefix. Qed.
Print Assumptions C19_write_header_faulty_connection.

(* the same through the write loop: a payload only ever follows a complete header *)
Theorem C19_send_faulty_connection : forall (c : cstate) typ len (f : wfault) got ok,
  client_send_io c typ len f = Some (got, ok) ->
  exists hb, client_send c typ len = Some hb
    /\ (ok = true -> f = WNoFault /\ got = hb ++ repeat 0 (N.to_nat len))
    /\ (ok = false -> exists rest, hb = got ++ rest).
Proof. exact client_send_io_prefix. Qed.
Print Assumptions C19_send_faulty_connection.

(* reading a header is all-or-nothing, and a failed header read uses the connection up.  The peer
   sends frames back to back; the connection delivers them in pieces with a pause longer than the
   read deadline between consecutive pieces (a Read returns a deadline error, later the rest does
   arrive).  For a client in any state and any placement of the pauses - inside a header, inside a
   payload, between frames, several of them - the headers its read side reports are an initial part
   of the headers at the frame boundaries of what the peer sent: nothing is ever decoded from ten
   bytes that do not start a frame ... *)
Theorem C19_paused_stream_reports_frame_headers : forall (c : cstate) (pieces : list (list N)),
  exists rest, frame_headers (concat pieces) = client_paused_log c pieces ++ rest.
Proof. exact client_paused_log_prefix. Qed.
Print Assumptions C19_paused_stream_reports_frame_headers.

(* ... where the headers at the frame boundaries are: the decoding of the first 10 bytes, then
   those of the stream behind that frame's payload *)
Theorem C19_frame_headers_layout : forall s h t, frame_headers s = h :: t ->
  hdr_decode (firstn 10 s) = HOk h /\ t = frame_headers (skipn (10 + N.to_nat (h_len h)) s).
Proof. exact frame_headers_unfold. Qed.
Print Assumptions C19_frame_headers_layout.

(* ... and a pause inside the very first header means that no header is reported at all *)
Theorem C19_paused_inside_first_header : forall (c : cstate) p ps, (length p < 10)%nat ->
  client_paused_log c (p :: ps) = [].
Proof. exact client_paused_log_split_header. Qed.
Print Assumptions C19_paused_inside_first_header.

(* writers shared between goroutines (msgWriter.Write; the write loop behind concurrent SendNoWait):
   the calls are served one at a time in SOME order - for every order [items] of the calls, the
   stream carries frame by frame exactly the headers of the accepted calls, each once and each
   followed by its own payload: every header on the wire is the encoding of one written message *)
Theorem C19_shared_writer_stream : forall ver (items : list (N * N * N * N)), ver < 8 ->
  Forall (fun it : N * N * N * N => snd (fst it) < 2 ^ 32) items ->
  frame_headers (msg_writer_stream ver items) = msg_writer_headers ver items.
Proof. exact msg_writer_stream_headers. Qed.
Print Assumptions C19_shared_writer_stream.

(* ---------------------------------------------------------------- Part 2: tables (generic) *)

(* every message type the library can instantiate reports that same type code *)
Theorem C19_instance_type_agree : forall T, instance_type_agree_b T = true ->
  forall t n, t < 1024 -> inst_of T t = Some n -> n = t.
Proof. exact instance_type_agree_sound. Qed.
Print Assumptions C19_instance_type_agree.

(* the pairing is symmetric ... *)
Theorem C19_mirror_symmetric : forall T, mirror_symmetric_b T = true ->
  forall t u, t < 1024 -> mirror_of T t = Some u -> u < 1024 /\ mirror_of T u = Some t.
Proof. exact mirror_symmetric_sound. Qed.
Print Assumptions C19_mirror_symmetric.

(* ... one-to-one ... *)
Theorem C19_mirror_injective : forall T, mirror_symmetric_b T = true ->
  forall t t' u, t < 1024 -> t' < 1024 -> mirror_of T t = Some u -> mirror_of T t' = Some u -> t = t'.
Proof. exact mirror_injective_sound. Qed.
Print Assumptions C19_mirror_injective.

(* ... and covers every LLRP request that has a response (the pinned list llrp_pairs) *)
Theorem C19_mirror_complete : forall T, mirror_complete_b T llrp_pairs = true ->
  forall rq rs, In (rq, rs) llrp_pairs -> mirror_of T rq = Some rs /\ mirror_of T rs = Some rq.
Proof. exact (fun T => mirror_complete_sound T llrp_pairs). Qed.
Print Assumptions C19_mirror_complete.

(* isResponseTo accepts exactly the paired type *)
Theorem C19_response_classification : forall T, resp_consistent_b T = true ->
  forall t, t < 1024 -> resp_of T t = match mirror_of T t with Some u => [u] | None => [] end.
Proof. exact resp_consistent_sound. Qed.
Print Assumptions C19_response_classification.

(* IsValid is exactly the range the encoder accepts (without 0), and nothing invalid can be
   instantiated or paired *)
Theorem C19_valid_consistent : forall T, valid_consistent_b T = true ->
  forall t, t < 1024 ->
  (valid_of T t = true <-> (1 <= t <= 1023 /\ ~ (900 <= t <= 999)))
  /\ (inst_of T t <> None -> valid_of T t = true)
  /\ (mirror_of T t <> None -> valid_of T t = true).
Proof. exact valid_consistent_sound. Qed.
Print Assumptions C19_valid_consistent.

(* ---------------------------------------------------------------- non-vacuity *)

(* KEEPALIVE (type 62), version 1, id 0x01020304, no payload, reserved bits set in byte 0 *)
Example C19_example_decode :
  hdr_decode [228; 62; 0; 0; 0; 10; 1; 2; 3; 4] = HOk (mkHdr 1 62 0 16909060).
Proof. vm_compute. reflexivity. Qed.
Example C19_example_encode :
  hdr_encode (mkHdr 1 62 0 16909060) = Some [4; 62; 0; 0; 0; 10; 1; 2; 3; 4].
Proof. vm_compute. reflexivity. Qed.
Example C19_example_field : field 3 3 [228; 62; 0; 0; 0; 10; 1; 2; 3; 4] = 1
  /\ field 6 10 [228; 62; 0; 0; 0; 10; 1; 2; 3; 4] = 62.
Proof. vm_compute. split; reflexivity. Qed.
Example C19_example_fragmented :
  read_header_chunks [[228; 62; 0]; []; [0; 0; 10; 1]; [2; 3; 4; 99]] = HOk (mkHdr 1 62 0 16909060).
Proof. vm_compute. reflexivity. Qed.
Example C19_example_rejected : hdr_decode [4; 62; 0; 0; 0; 9; 0; 0; 0; 0] = HErr ErrLenBelowHeader.
Proof. vm_compute. reflexivity. Qed.
Example C19_example_refused : hdr_encode (mkHdr 1 950 0 0) = None /\ hdr_encode (mkHdr 1 1024 0 0) = None
  /\ hdr_encode (mkHdr 1 1 4294967286 0) = None.
Proof. vm_compute. repeat split; reflexivity. Qed.
(* connection histories: negotiated 1.1; lowered to 1.0.1; closed while a request is outstanding *)
Example C19_example_state_negotiated :
  client_run (c_new 2 false) [EvConn; EvFirst; EvGsv 1 2; EvSpv] = mkC 2 false PReady 0 false false 2
  /\ client_run (c_new 2 true) [EvConn; EvFirst; EvGsv 1 1; EvReq; EvClose] = mkC 1 true PReady 1 false true 2
  /\ client_run (c_new 2 false) [EvConn; EvFirst; EvGsv 1 2] = mkC 2 false PNegSpv 0 false false 2.
Proof. vm_compute. repeat split; reflexivity. Qed.
(* a client that has negotiated 1.1 decodes a KEEPALIVE stamped 1.0.1 (and one stamped 7) as sent *)
Example C19_example_state_decode :
  client_read_header (client_run (c_new 2 false) [EvConn; EvFirst; EvGsv 1 2; EvSpv]) true
    [4; 62; 0; 0; 0; 10; 1; 2; 3; 4] = HOk (mkHdr 1 62 0 16909060)
  /\ client_observe (c_new 2 false)
       [EvConn; EvFirst; EvGsv 1 2; EvSpv; EvRecv [28; 62; 0; 0; 0; 10; 0; 0; 0; 9]; EvClose;
        EvRecv [4; 63; 0; 0; 0; 11; 0; 0; 0; 1; 255]; EvRecv [4; 62; 0; 0; 0; 10; 0; 0; 0; 2]]
     = [HOk (mkHdr 7 62 0 9); HOk (mkHdr 1 63 1 1)].
Proof. vm_compute. split; reflexivity. Qed.
(* send paths: KEEPALIVE_ACK from a client that negotiated 1.1 (third message of the connection);
   reserved and out-of-range types refused; a write that fails after 4 bytes *)
Example C19_example_send :
  let c := client_run (c_new 2 false) [EvConn; EvFirst; EvGsv 1 2; EvSpv] in
  client_send c 72 0 = Some [8; 72; 0; 0; 0; 10; 0; 0; 0; 2]
  /\ client_send c 950 0 = None /\ client_send c 3073 0 = None /\ client_send c 1024 3 = None
  /\ client_send_all c [(72, 0); (900, 0); (46, 1)] =
       [Some [8; 72; 0; 0; 0; 10; 0; 0; 0; 2]; None; Some [8; 46; 0; 0; 0; 11; 0; 0; 0; 3]]
  /\ client_write_header_io c (mkHdr 1 62 0 7) (WFault 4 true) = ([4; 62; 0; 0], false)
  /\ client_send_io c 72 2 WNoFault = Some ([8; 72; 0; 0; 0; 12; 0; 0; 0; 2; 0; 0], true).
Proof. vm_compute. repeat split; reflexivity. Qed.
(* a connection event (type 63, 2 payload bytes here) and a KEEPALIVE: delivered whole both are
   reported; with a pause after 4 bytes nothing is (bytes 4..13 would read as another header);
   with the pause inside the second header only the first is *)
Example C19_example_paused :
  let c := client_run (c_new 2 true) [EvConn] in
  let f1 := [4; 63; 0; 0; 0; 12; 0; 0; 4; 210; 7; 7] in let f2 := [8; 62; 0; 0; 0; 10; 0; 0; 0; 9] in
  client_paused_log c [f1 ++ f2] = [mkHdr 1 63 2 1234; mkHdr 2 62 0 9]
  /\ client_paused_log c [firstn 4 f1; skipn 4 f1 ++ f2] = []
  /\ client_paused_log c [f1 ++ firstn 3 f2; skipn 3 f2] = [mkHdr 1 63 2 1234]
  /\ frame_headers (skipn 4 f1 ++ f2) <> [].
Proof. vm_compute. repeat split; try reflexivity. discriminate. Qed.
Example C19_example_shared_writer :
  msg_writer_stream 1 [(62, 0, 5, 0); (950, 0, 6, 0); (1, 2, 7, 171)]
    = [4; 62; 0; 0; 0; 10; 0; 0; 0; 5; 4; 1; 0; 0; 0; 12; 0; 0; 0; 7; 171; 171]
  /\ frame_headers (msg_writer_stream 1 [(1, 2, 7, 171); (62, 0, 5, 0)]) = [mkHdr 1 1 2 7; mkHdr 1 62 0 5].
Proof. vm_compute. split; reflexivity. Qed.
(* the version field is not checked by the encoder (not demanded by the property; recorded) *)
Example C19_note_version_unchecked :
  exists h b, wf_hdr h /\ hdr_encode h = Some b /\ hdr_decode b <> HOk h.
Proof. exact hdr_encode_version_unchecked. Qed.
