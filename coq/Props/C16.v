(* C16 — Discovery enumerates exactly the host addresses of each configured subnet.
   Only property statements; each closed by [exact] of a lemma proved elsewhere. *)
From Coq Require Import NArith List.
From LLRP Require Import Discover.Subnet Discover.SubnetProofs Discover.Entries Discover.EntriesProofs.
Import ListNotations.
Open Scope N_scope.

(* for every IPv4 address a and prefix 2..30: the enumeration contains x iff x lies strictly
   between the network address (host bits cleared) and the broadcast address (host bits set) *)
Theorem C16_hosts_exact : forall a p x, a < 2 ^ 32 -> 2 <= p <= 30 ->
  In x (ip_gen a p) <->
  a - a mod 2 ^ (32 - p) < x < a - a mod 2 ^ (32 - p) + 2 ^ (32 - p) - 1.
Proof. exact ip_gen_exact. Qed.
Print Assumptions C16_hosts_exact.

(* each address exactly once (all prefixes) *)
Theorem C16_each_once : forall a p, a < 2 ^ 32 -> p <= 32 -> NoDup (ip_gen a p).
Proof. exact ip_gen_nodup. Qed.
Print Assumptions C16_each_once.

(* /31 and /32: the single network address *)
Theorem C16_point_to_point : forall a p, a < 2 ^ 32 -> 31 <= p <= 32 ->
  ip_gen a p = [a - a mod 2 ^ (32 - p)].
Proof. exact ip_gen_single. Qed.
Print Assumptions C16_point_to_point.

(* ipGenerator handed an IPNet whose IP field is NOT aligned (host bits set): for prefixes up to 30
   the enumeration is the same; /31,/32 send the IP field, which is the network address when aligned *)
Theorem C16_raw_ipnet : forall ip p, ip < 2 ^ 32 -> 2 <= p <= 32 ->
  (p <= 30 -> ip_gen_raw ip p = ip_gen ip p) /\
  (31 <= p -> ip_gen_raw ip p = [ip] /\ (ip mod 2 ^ (32 - p) = 0 -> ip_gen_raw ip p = ip_gen ip p)).
Proof. exact ip_gen_raw_spec. Qed.
Print Assumptions C16_raw_ipnet.

(* the probe-count estimate equals the number enumerated *)
Theorem C16_estimate_eq_count : forall a p, a < 2 ^ 32 -> 2 <= p <= 32 ->
  N.of_nat (length (ip_gen a p)) = compute_net_sz p.
Proof. exact estimate_eq_count. Qed.
Print Assumptions C16_estimate_eq_count.

(* the model loop was given enough iterations: it stopped because ip >= bcast *)
Theorem C16_loop_complete : forall a p, a < 2 ^ 32 -> 2 <= p <= 30 ->
  fst (loop (net_id a p) (bcast a p) (umask_of p)) <? bcast a p = false.
Proof. exact loop_fuel_sufficient. Qed.
Print Assumptions C16_loop_complete.

(* closed form the oracle uses for networks too large to enumerate *)
Theorem C16_nth : forall a p k, a < 2 ^ 32 -> 2 <= p <= 32 ->
  nth_error (ip_gen a p) (N.to_nat k) = ip_gen_nth a p k.
Proof. exact ip_gen_nth_correct. Qed.
Print Assumptions C16_nth.

(* under every schedule of consumer / cancellation events, what was sent is a prefix *)
Theorem C16_sent_is_prefix : forall sel a p evs,
  exists rest, sent (grun sel (gen_init a p) evs) ++ rest = ip_gen a p.
Proof. exact sent_is_prefix. Qed.
Print Assumptions C16_sent_is_prefix.

(* cancelling stops the enumeration instead of blocking: after a cancel, in every reachable
   state the generator is finished or can finish by a step that needs no consumer *)
Theorem C16_cancel_stops : forall a p evs1 evs2,
  let g := grun true (gen_init a p) (evs1 ++ EvCancel :: evs2) in
  finished g = true \/
  exists e, (e = EvSeeDone \/ e = EvReturn) /\ enabled true g e = true
            /\ finished (gstep true g e) = true.
Proof. exact cancel_stops. Qed.
Print Assumptions C16_cancel_stops.

(* a generator that returned without having been cancelled has emitted every host, whatever the
   consumer's pace (any interleaving of consumer-ready / return events) *)
Theorem C16_uncancelled_complete : forall sel a p evs,
  let g := grun sel (gen_init a p) evs in
  finished g = true -> cancelled g = false -> sent g = ip_gen a p.
Proof. exact uncancelled_complete. Qed.
Print Assumptions C16_uncancelled_complete.
(* several configured subnets: the estimate logged by autoDiscover (sum of computeNetSz) is the
   number of addresses enumerated, and every address is enumerated once per configured subnet it
   is a host of - never otherwise *)
Theorem C16_estimate_all : forall nets, Forall net_ok nets ->
  N.of_nat (length (discover_all nets)) = estimate nets.
Proof. exact estimate_all. Qed.
Print Assumptions C16_estimate_all.
Theorem C16_discover_all_count : forall nets x, Forall net_ok nets ->
  count_occ N.eq_dec (discover_all nets) x = length (filter (is_host x) nets).
Proof. exact discover_all_count. Qed.
Print Assumptions C16_discover_all_count.
(* devices already registered and operating are skipped by the workers but enumerated like every
   other address: whatever is registered, probed + skipped = the estimate, and the probed addresses
   are exactly the enumerated ones without a registered operating device *)
Theorem C16_estimate_counts_registered : forall (reg : N -> bool) nets, Forall net_ok nets ->
  (N.of_nat (length (probed reg nets)) + N.of_nat (length (skipped reg nets)) = estimate nets) /\
  (forall x, In x (probed reg nets) <-> In x (discover_all nets) /\ reg x = false).
Proof. exact estimate_counts_registered. Qed.
Print Assumptions C16_estimate_counts_registered.
(* the configured list as autoDiscover reads it: IPv4 networks, genuine IPv6 networks (refused) and entries that are no CIDR.
   Refused and malformed entries add nothing: the estimate is the number of addresses enumerated, and each address is
   enumerated once per ACCEPTED subnet it is a host of *)
Theorem C16_refused_entries_add_nothing : forall es, Forall entry_ok es ->
  estimate_entries false es = N.of_nat (length (discover_entries es)).
Proof. exact refused_entries_add_nothing. Qed.
Print Assumptions C16_refused_entries_add_nothing.
Theorem C16_entries_enumerate_accepted_only : forall es x, Forall entry_ok es ->
  count_occ N.eq_dec (discover_entries es) x = length (filter (is_host x) (accepted es)).
Proof. exact entries_enumerate_accepted_only. Qed.
Print Assumptions C16_entries_enumerate_accepted_only.
(* the code variant that adds an entry's size as soon as it parses, before the IPv6 refusal *)
Theorem C16_estimate_before_refusal_refuted : exists es, Forall entry_ok es /\
  estimate_entries true es <> N.of_nat (length (discover_entries es)).
Proof. exact estimate_before_refusal_refuted. Qed.
Print Assumptions C16_estimate_before_refusal_refuted.
Example C16_entries_example :
  estimate_entries false [EV6 64; EV4 2130706433 30; EBad; EV4 2130706689 31; EV6 128] = 3 /\
  discover_entries [EV6 64; EV4 2130706433 30; EBad; EV4 2130706689 31; EV6 128] = [2130706433; 2130706434; 2130706688].
Proof. exact entries_example. Qed.
Example C16_example_two_nets :
  discover_all [(2130706433, 30); (2130706689, 31)] = [2130706433; 2130706434; 2130706688]
  /\ estimate [(2130706433, 30); (2130706689, 31)] = 3.
Proof. vm_compute. split; reflexivity. Qed.
(* non-vacuity: a concrete unaligned address in a /29 *)
Example C16_example : ip_gen 3232235886 29 =
  [3232235881; 3232235882; 3232235883; 3232235884; 3232235885; 3232235886].
Proof. vm_compute. reflexivity. Qed.
Example C16_example_last_net : ip_gen 4294967295 30 = [4294967293; 4294967294].
Proof. vm_compute. reflexivity. Qed.
