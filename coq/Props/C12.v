(* C12 — LLRP status codes become errors faithfully.
   Only property statements; each closed by [exact] of a lemma proved in Client/StatusProofs.v.
   Model: Client/Status.v ([send_for_outcome] = the decision Client.SendFor makes once the reply
   (type, payload) has arrived; [status_err] = LLRPStatus.Err).
   All theorems quantify over every expected type e, reply type r (unbounded N, so in particular
   all 10-bit message types), every decode behaviour d, every status s: any code (in particular
   all 65536), any description (byte list), any nested FieldError / ParameterError tree. *)
From Coq Require Import NArith List.
From LLRP Require Import Client.Status Client.StatusProofs Client.StatusExchange Client.StatusExchangeProofs
  Client.StatusDriver Client.StatusDriverProofs Client.StatusWire Client.StatusWireProofs
  Client.StatusLimit Client.StatusLimitProofs.
Import ListNotations.
Open Scope N_scope.

(* success exactly when the reply has the expected type and carries status Success
   (setting of the property: the expected type carries a status and the reply decodes) *)
Theorem C12_success_iff_expected_and_status0 : forall e r d s,
  d e = DecStatus s ->
  (out_err (send_for_outcome e r d) = None <-> r = e /\ st_code s = 0).
Proof. exact success_iff_expected_and_status0. Qed.
Print Assumptions C12_success_iff_expected_and_status0.

(* the same without any assumption on decoding: nil is returned only on the expected-type
   branch, and there only for a decoded status Success (or a type without a status) *)
Theorem C12_success_iff_general : forall e r d,
  out_err (send_for_outcome e r d) = None <->
  r = e /\ (d e = DecPlain \/ exists s, d e = DecStatus s /\ st_code s = 0).
Proof. exact success_iff_general. Qed.
Print Assumptions C12_success_iff_general.

(* a reply of the expected type, or an ERROR_MESSAGE, with any code <> 0: the error is a
   *StatusError carrying the same code, description, FieldError and the whole ParameterError
   tree (equality of trees = any depth) *)
Theorem C12_error_exposes_status : forall e r d s,
  r = e \/ r = MsgErrorMessage ->
  d r = DecStatus s -> st_code s <> 0 ->
  out_err (send_for_outcome e r d) =
    Some (EStatus (st_code s) (st_desc s) (st_field s) (st_param s)).
Proof. exact error_exposes_status. Qed.
Print Assumptions C12_error_exposes_status.

(* "any depth" spelt out: level k of the chain in the error is level k of what was sent *)
Theorem C12_error_exposes_every_level : forall e r d s k,
  r = e \/ r = MsgErrorMessage ->
  d r = DecStatus s -> st_code s <> 0 ->
  exists c ds fe pe,
    out_err (send_for_outcome e r d) = Some (EStatus c ds fe pe) /\
    c = st_code s /\ ds = st_desc s /\ fe = st_field s /\
    nth_error (flatten_ope pe) k = nth_error (flatten_ope (st_param s)) k.
Proof. exact error_exposes_every_level. Qed.
Print Assumptions C12_error_exposes_every_level.

(* the flat (outermost-first) list the Go harness reports determines the tree, so comparing
   flat lists compares trees *)
Theorem C12_flat_view_is_faithful : forall a b, flatten_ope a = flatten_ope b -> a = b.
Proof. exact flatten_ope_inj. Qed.
Print Assumptions C12_flat_view_is_faithful.

(* an ERROR_MESSAGE reply to a request that expects some other type is always an error —
   whatever its status (including Success, see DESIGN 7) and even if it does not decode — and
   the caller's response value is not touched.
   (For e = ERROR_MESSAGE the first switch case applies: C12_success_iff_... / C12_error_exposes_status.) *)
Theorem C12_error_message_is_error : forall e d, e <> MsgErrorMessage ->
  out_err (send_for_outcome e MsgErrorMessage d) <> None /\
  out_resp (send_for_outcome e MsgErrorMessage d) = RespUntouched.
Proof. exact error_message_is_error. Qed.
Print Assumptions C12_error_message_is_error.

(* a reply of any other type: the outcome does not depend on the payload at all (no decoder
   result is consulted), the response value is untouched, and an error is returned *)
Theorem C12_other_type_not_decoded : forall e r d d',
  r <> e -> r <> MsgErrorMessage ->
  send_for_outcome e r d = send_for_outcome e r d' /\
  out_resp (send_for_outcome e r d) = RespUntouched /\
  out_err (send_for_outcome e r d) <> None.
Proof. exact other_type_not_decoded. Qed.
Print Assumptions C12_other_type_not_decoded.

(* rendering is total: producing the text of ANY status code — the top-level one or one nested in a
   FieldError / ParameterError — never indexes a text table out of range (in Go: never panics),
   and the text piece chosen identifies the code. This is a statement about the model of
   StatusCode.defaultText only; what fmt / string concatenation do with the pieces is outside the
   model and is covered by the correspondence run alone (every observer of the returned error is
   called under recover for all 65536 codes). *)
Theorem C12_rendering_total : forall c, ref_in_table (default_text_ref c) = true.
Proof. exact default_text_total. Qed.
Print Assumptions C12_rendering_total.

Theorem C12_text_identifies_code : forall c c', default_text_ref c = default_text_ref c' -> c = c'.
Proof. exact default_text_ref_inj. Qed.
Print Assumptions C12_text_identifies_code.

(* non-vacuity: a concrete non-trivial status with a depth-3 ParameterError chain *)
Definition ex_status : status :=
  mkStatus 201 [112; 195; 169] (Some (FieldErr 3 300))
    (Some (ParamErr 177 200 (Some (ParamErr 183 201
       (Some (ParamErr 330 100 None (Some (FieldErr 1 301)))) None)) None)).

Example C12_example_expected :
  send_for_outcome 30 30 (decoded_wf ex_status) =
  mkOutcome (Some (EStatus 201 [112; 195; 169] (st_field ex_status) (st_param ex_status)))
            (RespDecoded (Some ex_status)).
Proof. vm_compute. reflexivity. Qed.

Example C12_example_errmsg :
  send_for_outcome 30 100 (decoded_wf ex_status) =
  mkOutcome (Some (EStatus 201 [112; 195; 169] (st_field ex_status) (st_param ex_status)))
            RespUntouched.
Proof. vm_compute. reflexivity. Qed.

Example C12_example_success :
  send_for_outcome 30 30 (decoded_wf (mkStatus 0 [] None None)) =
  mkOutcome None (RespDecoded (Some (mkStatus 0 [] None None))).
Proof. vm_compute. reflexivity. Qed.

Example C12_example_mismatch :
  send_for_outcome 30 31 (decoded_wf ex_status) = mkOutcome (Some (EOther KMismatch)) RespUntouched.
Proof. vm_compute. reflexivity. Qed.

Example C12_example_errmsg_success :
  send_for_outcome 30 100 (decoded_wf (mkStatus 0 [] None None)) =
  mkOutcome (Some (EOther KErrMsgNoStatus)) RespUntouched.
Proof. vm_compute. reflexivity. Qed.

Example C12_example_flat :
  flatten_ope (st_param ex_status) =
  [(177, 200, None); (183, 201, None); (330, 100, Some (FieldErr 1 301))].
Proof. vm_compute. reflexivity. Qed.

Example C12_example_text_refs :
  map default_text_ref [0; 100; 112; 113; 209; 210; 301; 302; 400; 401; 402; 65535] =
  [TSuccess; TMsg 0; TMsg 12; TUnknown 113; TParam 9; TUnknown 210; TField 1; TUnknown 302;
   TUnknown 400; TDevice 0; TUnknown 402; TUnknown 65535].
Proof. vm_compute. reflexivity. Qed.

(* ==== round 5: the whole exchange, from the wire ===============================================
   Model: Client/StatusExchange.v — requests are registered (XSend id e), given up (XAbandon id),
   frames arrive (XRecv f, f = header version / type / id / payload), the negotiated version changes
   (XNegotiated v); [xresults v evs] = what each caller was told, in order.  All theorems are for ALL
   event lists: any number of outstanding requests, any interleaving of other requests' sends,
   abandons and replies, late / duplicate / never-requested ids, reader-initiated frames, all header
   versions and all negotiated versions (unbounded N, so in particular the 8 values of the 3-bit field). *)

(* the caller of request [id] is told the outcome of ITS OWN reply — the first frame with its id that
   is not a keep-alive / report / event — whatever else happens between the request and that reply *)
Theorem C12_exchange_reports_own_reply : forall v pre id e mid f post,
  Forall (quiet id) mid -> fr_id f = id -> reader_initiated (fr_type f) = false ->
  In (id, XOutcome (send_for_outcome e (fr_type f) (fr_dec f)))
     (xresults v (pre ++ XSend id e :: mid ++ XRecv f :: post)).
Proof. exact own_reply_outcome. Qed.
Print Assumptions C12_exchange_reports_own_reply.

(* ... and nothing else: every outcome a caller is told was computed from a frame that carries the
   caller's request id and arrived while that request was outstanding (never from a frame with
   another id, such as the late answer to an abandoned request) *)
Theorem C12_exchange_outcome_only_from_own_reply : forall v evs id o,
  In (id, XOutcome o) (xresults v evs) ->
  exists pre e mid f post,
    evs = pre ++ XSend id e :: mid ++ XRecv f :: post /\ Forall (quiet id) mid /\
    fr_id f = id /\ reader_initiated (fr_type f) = false /\
    o = send_for_outcome e (fr_type f) (fr_dec f).
Proof. exact outcome_from_own_reply. Qed.
Print Assumptions C12_exchange_outcome_only_from_own_reply.

(* sentence 1 of the property at the level of the exchange: success exactly when the request's own
   reply has the expected type and carries status Success *)
Theorem C12_exchange_success_iff : forall v pre id e mid f post s,
  Forall (quiet id) mid -> fr_id f = id -> reader_initiated (fr_type f) = false ->
  fr_dec f e = DecStatus s ->
  exists o, In (id, XOutcome o) (xresults v (pre ++ XSend id e :: mid ++ XRecv f :: post)) /\
            (out_err o = None <-> fr_type f = e /\ st_code s = 0).
Proof. exact exchange_success_iff. Qed.
Print Assumptions C12_exchange_success_iff.

(* the header version of a frame and the negotiated version of the connection play no part in what
   callers are told *)
Theorem C12_exchange_version_irrelevant : forall v v' evs evs',
  Forall2 same_but_version evs evs' -> xresults v evs = xresults v' evs'.
Proof. exact version_irrelevant. Qed.
Print Assumptions C12_exchange_version_irrelevant.

(* non-vacuity: request 7 is abandoned; while request 8 (expecting type 30) is the only one outstanding
   the reader's late ERROR_MESSAGE for 7 arrives (status 101), then a never-requested id, then 8's own
   reply — stamped with header version 7 on a connection negotiated to 1 — with status Success *)
Definition ex_history : list xevent :=
  [XSend 7 30; XAbandon 7; XSend 8 30;
   XRecv (mkFrame 1 100 7 (decoded_wf (mkStatus 101 [111] None None)));
   XRecv (mkFrame 2 100 4096 (decoded_wf ex_status));
   XRecv (mkFrame 7 30 8 (decoded_wf (mkStatus 0 [] None None)))].

Example C12_example_history :
  xresults 1 ex_history =
  [(7, XAbandoned); (8, XOutcome (mkOutcome None (RespDecoded (Some (mkStatus 0 [] None None)))))].
Proof. vm_compute. reflexivity. Qed.

Example C12_example_history_hyps :
  ex_history = [XSend 7 30; XAbandon 7] ++ XSend 8 30 ::
     [XRecv (mkFrame 1 100 7 (decoded_wf (mkStatus 101 [111] None None)));
      XRecv (mkFrame 2 100 4096 (decoded_wf ex_status))] ++
     XRecv (mkFrame 7 30 8 (decoded_wf (mkStatus 0 [] None None))) :: [] /\
  Forall (quiet 8) [XRecv (mkFrame 1 100 7 (decoded_wf (mkStatus 101 [111] None None)));
                    XRecv (mkFrame 2 100 4096 (decoded_wf ex_status))].
Proof.
  split; [reflexivity|].
  apply Forall_cons; [right; cbn; discriminate|]. apply Forall_cons; [right; cbn; discriminate|]. apply Forall_nil.
Qed.

(* ==== round 6: the device service's exchange (internal/driver: LLRPDevice.TrySend, through which
   Driver.HandleReadCommands, Driver.HandleWriteCommands and onConnect perform every exchange) ============
   Model: Client/StatusDriver.v — [try_send fuel atts]: attempts that find no usable connection are retried
   (at most [fuel] attempts in all); the first attempt that completes a SendFor exchange decides. *)

(* which attempt decides: the first one that is not retried, if it is among the allowed attempts *)
Theorem C12_device_exchange_decided_by_first_completed : forall fuel atts o,
  try_send fuel atts = TSOutcome o <->
  exists pre post, atts = pre ++ AOutcome o :: post /\ forallb retried pre = true /\ (length pre < fuel)%nat.
Proof. exact try_send_decides. Qed.
Print Assumptions C12_device_exchange_decided_by_first_completed.

(* sentence 1 for the device service: success exactly when that attempt's reply has the expected type and
   carries status Success — for every expected type, reply type, status, payload, and any retries before it *)
Theorem C12_device_exchange_success_iff : forall fuel pre post e r d s,
  forallb retried pre = true -> (length pre < fuel)%nat -> d e = DecStatus s ->
  (ts_err (try_send fuel (pre ++ AOutcome (send_for_outcome e r d) :: post)) = None <-> r = e /\ st_code s = 0).
Proof. exact device_exchange_success_iff. Qed.
Print Assumptions C12_device_exchange_success_iff.

(* sentence 2: expected type or ERROR_MESSAGE with any other status -> the error carries code, description,
   FieldError and the whole ParameterError tree *)
Theorem C12_device_exchange_exposes_status : forall fuel pre post e r d s,
  forallb retried pre = true -> (length pre < fuel)%nat ->
  r = e \/ r = MsgErrorMessage -> d r = DecStatus s -> st_code s <> 0 ->
  ts_err (try_send fuel (pre ++ AOutcome (send_for_outcome e r d) :: post)) =
    Some (EStatus (st_code s) (st_desc s) (st_field s) (st_param s)).
Proof. exact device_exchange_exposes_status. Qed.
Print Assumptions C12_device_exchange_exposes_status.

(* no success without a completed exchange *)
Theorem C12_device_exchange_gave_up_is_error : forall fuel atts,
  try_send fuel atts = TSGaveUp -> ts_err (try_send fuel atts) <> None.
Proof. exact device_exchange_gave_up_is_error. Qed.
Print Assumptions C12_device_exchange_gave_up_is_error.

(* non-vacuity: no client, then a closed client, then DELETE_ROSPEC_RESPONSE (31) with status 201 on the
   third and last allowed attempt *)
Example C12_example_device_exchange :
  ts_err (try_send 3 [ANoClient; AClosed; AOutcome (send_for_outcome 31 31 (decoded_wf ex_status))]) =
  Some (EStatus 201 [112; 195; 169] (st_field ex_status) (st_param ex_status)) /\
  ts_err (try_send 2 [ANoClient; AClosed; AOutcome (send_for_outcome 31 31 (decoded_wf ex_status))]) <> None /\
  ts_err (try_send 3 [AOutcome (send_for_outcome 31 31 (decoded_wf (mkStatus 0 [] None None)))]) = None.
Proof. vm_compute. repeat split; discriminate. Qed.

(* ==== round 7: the reply is identified on the wire ==============================================
   Model: Client/StatusWire.v — the write loop numbers every message it originates (requests and
   SendNoWait messages) from ONE counter; [number n0 evs] derives the ids from the order of writes. *)

(* the caller of a request is told the outcome of the reader's answer to THAT message (the frame echoing the
   number the message went out with), for every mix of requests and SendNoWait messages written before and
   after it and every answer to those arriving in between; in particular the answer to a SendNoWait message is
   never taken for the reply of a request *)
Theorem C12_exchange_reply_identified_on_the_wire : forall v n0 pre e mid f post,
  Forall (wquiet (n0 + written pre)) mid ->
  fr_id f = n0 + written pre -> reader_initiated (fr_type f) = false ->
  In (n0 + written pre, XOutcome (send_for_outcome e (fr_type f) (fr_dec f)))
     (wresults v n0 (pre ++ WRequest e :: mid ++ WFrame f :: post)).
Proof. exact wire_own_reply. Qed.
Print Assumptions C12_exchange_reply_identified_on_the_wire.

(* request ids are the positions of their writes: never repeated, never shared with a SendNoWait message *)
Theorem C12_exchange_request_ids_are_write_positions : forall evs n id e,
  In (XSend id e) (number n evs) -> n <= id /\ id < n + written evs.
Proof. exact number_send_ids. Qed.
Print Assumptions C12_exchange_request_ids_are_write_positions.

(* non-vacuity: two SendNoWait messages (ids 0, 1), then a request expecting type 34 (id 2); the reader's Success
   answers to the two fire-and-forget messages arrive while the request is outstanding, then its own reply: 101 *)
Example C12_example_wire :
  wresults 1 0 [WNoWait; WNoWait; WRequest 34;
                WFrame (mkFrame 1 34 0 (decoded_wf (mkStatus 0 [] None None)));
                WFrame (mkFrame 1 34 1 (decoded_wf (mkStatus 0 [] None None)));
                WFrame (mkFrame 1 34 2 (decoded_wf (mkStatus 101 [110; 111] (Some (FieldErr 1 300)) None)))] =
  [(2, XOutcome (mkOutcome (Some (EStatus 101 [110; 111] (Some (FieldErr 1 300)) None))
                           (RespDecoded (Some (mkStatus 101 [110; 111] (Some (FieldErr 1 300)) None)))))].
Proof. vm_compute. reflexivity. Qed.

(* ==== round 8: replies near the buffering limit ====================================================
   Model: Client/StatusLimit.v — the read loop's size check (passToHandler) and Message.data's. *)

(* a reply that arrived completely reaches SendFor with EXACTLY its payload iff its announced length is within the
   limit (every length, every limit, every payload); beyond the limit the exchange is an error (C10's clause) — never an empty or shortened
   payload, so never a decode error or a lost status for a reply within the limit *)
Theorem C12_reply_within_limit_reaches_sendfor_intact : forall lim declared payload,
  reply_bytes lim lim declared payload =
  if declared <=? lim then DBytes payload else DTooLarge.
Proof. exact reply_bytes_same_limit. Qed.
Print Assumptions C12_reply_within_limit_reaches_sendfor_intact.

(* why the two checks have to use the same limit: with a lower threshold in the read loop, every complete reply
   in the gap is decoded from an empty payload *)
Theorem C12_reply_limit_gap_loses_payload : forall lim_loop lim_data declared payload,
  lim_loop < declared -> declared <= lim_data ->
  reply_bytes lim_loop lim_data declared payload = DBytes [].
Proof. exact reply_bytes_gap_loses_payload. Qed.
Print Assumptions C12_reply_limit_gap_loses_payload.

Example C12_example_limit :
  reply_bytes MaxBufferedPayloadSz MaxBufferedPayloadSz 655360 [1; 31] = DBytes [1; 31] /\
  reply_bytes MaxBufferedPayloadSz MaxBufferedPayloadSz 655361 [1; 31] = DTooLarge /\
  reply_bytes (MaxBufferedPayloadSz - 10) MaxBufferedPayloadSz 655351 [1; 31] = DBytes [].
Proof. vm_compute. repeat split. Qed.
