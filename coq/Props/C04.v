(* C04 — Inbound stream stays frame-aligned whatever handlers do.
   Only property statements; each closed by [exact] of a lemma of Client/StreamProofs.v.

   Reading guide.  [serve maxbuf cfg st env bs] is handleIncoming (reader.go 709-738, with
   readHeader, passToHandler, handleGuarded) run on the finite inbound byte stream [bs]:
     maxbuf  MaxBufferedPayloadSz (arbitrary: every theorem holds for every limit)
     cfg     which message types have a MessageHandler, whether a default handler is set, and
             which types are never treated as replies (reader-initiated ones, since the C03 fix)
     st      the awaiting map (ids with a caller blocked in send) and the receivedClosed flag
     env j   for the j-th header read: ids registered by the write loop since the previous
             lookup, what the handler (if one is called) does: HRead k / HPanic k v = read
             k bytes of the offered payload (fewer if fewer exist), then return / panic with a
             value of kind v; and whether this client has sent CloseConnection
   Its result is the list of dispatch records (header fields, what the awaiting caller got,
   what which handler was offered and consumed, whether the payload was discarded), how the
   loop ended, and the bytes left unread.  [frame_bytes f] is what a peer writes for frame f
   (10-byte header with reserved bits, version, type, length = |payload|+10, id; payload).
   [expected_dispatch]/[expected_log]/[entitled] (StreamProofs.v) are the specification side:
   they mention frames only, never bytes or offsets. *)
From Coq Require Import NArith List Bool.
From LLRP Require Import Client.Stream Client.StreamProofs.
From LLRP Require Client.Types Client.Model Client.InvCore Client.Refine Client.Hostile Client.HostileProofs Client.FirstMsg.
Import ListNotations.
Open Scope N_scope.

(* Whatever follows the frames fs on the wire — further frames, a truncated frame, garbage,
   nothing — the loop dispatches exactly fs, in order, and then continues exactly at the first
   byte after them, in the state fs left behind.  For EVERY limit, handler configuration,
   awaiting state, registration pattern and handler behaviour (read k of n for all k, none,
   all, more than there is, panic with any value: string, error, runtime.Error, other). *)
Theorem C04_stream_alignment :
  forall (maxbuf : N) (cfg : config) (fs : list frame) (st : state)
         (env : nat -> env_step) (rest : list byte),
  Forall frame_wf fs ->
  serve maxbuf cfg st env (concat (map frame_bytes fs) ++ rest)
  = prepend (expected_log maxbuf cfg st env O fs)
            (serve_from maxbuf cfg (state_after cfg st env O fs) env (length fs) rest).
Proof. exact serve_alignment. Qed.
Print Assumptions C04_stream_alignment.

(* a stream that consists of whole frames only: exactly these dispatches, nothing left, and the
   loop ends with the clean-EOF outcome *)
Theorem C04_whole_stream :
  forall (maxbuf : N) (cfg : config) (fs : list frame) (st : state) (env : nat -> env_step),
  Forall frame_wf fs ->
  serve maxbuf cfg st env (concat (map frame_bytes fs))
  = mkResult (expected_log maxbuf cfg st env O fs)
             (if s_closed_seen (state_after cfg st env O fs) then EndWaitClose else EndEOF) [].
Proof. exact serve_whole_stream. Qed.
Print Assumptions C04_whole_stream.

(* Each frame is given exactly once to each party entitled to it: the log starts with one
   record per frame (in order); record j carries frame j's header fields; it holds one reply
   delivery iff frame j's id was awaited (the buffered payload, byte for byte, if it fits the
   limit; the header-only message otherwise — C10 judges what the caller makes of that); one
   handler call — the type handler if there is one, else the default handler if there is one,
   else none — that was offered exactly the payload bytes; and the payload was discarded iff
   nobody was entitled.  ([entitled] is spelled out in StreamProofs.v.) *)
Theorem C04_dispatch_exactly_once :
  forall (maxbuf : N) (cfg : config) (fs : list frame) (st : state)
         (env : nat -> env_step) (rest : list byte),
  Forall frame_wf fs ->
  exists l tail,
    r_log (serve maxbuf cfg st env (concat (map frame_bytes fs) ++ rest)) = l ++ tail /\
    all_entitled maxbuf cfg env O (awaited_seq cfg st env O fs) fs l /\
    tail = r_log (serve_from maxbuf cfg (state_after cfg st env O fs) env (length fs) rest).
Proof. exact serve_exactly_once. Qed.
Print Assumptions C04_dispatch_exactly_once.

(* A panicking handler does not end the connection: the frame is logged with the panic, all
   later frames fs2 are dispatched as if nothing had happened, and the loop's ending is that of
   the bytes after the last frame. *)
Theorem C04_panic_does_not_end :
  forall (maxbuf : N) (cfg : config) (fs1 : list frame) (f : frame) (fs2 : list frame)
         (st : state) (env : nat -> env_step) (rest : list byte) (w : who),
  Forall frame_wf (fs1 ++ f :: fs2) ->
  pick_handler cfg (f_typ f) = Some w ->
  hb_panics (e_beh (env (length fs1))) = true ->
  let st1 := state_after cfg st env O fs1 in
  let st2 := state_next cfg st1 (env (length fs1)) f in
  let r := serve maxbuf cfg st env (concat (map frame_bytes (fs1 ++ f :: fs2)) ++ rest) in
  exists d c,
    r_log r = expected_log maxbuf cfg st env O fs1
              ++ d :: expected_log maxbuf cfg st2 env (S (length fs1)) fs2
              ++ r_log (serve_from maxbuf cfg (state_after cfg st2 env (S (length fs1)) fs2) env
                          (length (fs1 ++ f :: fs2)) rest) /\
    d_hdr d = frame_header f /\
    d_handler d = Some c /\ hc_who c = w /\ hc_panicked c = true /\ hc_offered c = f_payload f /\
    r_end r = r_end (serve_from maxbuf cfg (state_after cfg st2 env (S (length fs1)) fs2) env
                          (length (fs1 ++ f :: fs2)) rest).
Proof. exact serve_panic_does_not_end. Qed.
Print Assumptions C04_panic_does_not_end.

(* the fuel (length of the stream + 1) always suffices *)
Theorem C04_fuel_suffices :
  forall (maxbuf : N) (cfg : config) (st : state) (env : nat -> env_step) (bs : list byte),
  r_end (serve maxbuf cfg st env bs) <> EndOutOfFuel.
Proof. exact serve_never_out_of_fuel. Qed.
Print Assumptions C04_fuel_suffices.

(* What the caller awaiting a frame is HANDED (round 5: the clause "delivered ... to the caller
   awaiting that ID ... with exactly the payload bytes the reader sent, for payload sizes from 0
   to beyond the buffering limit").  [caller_data maxbuf sf h r] is Message.data (messages.go
   348-369) run by SendMessage / SendFor / UnmarshalTo on the Message passToHandler put on the
   reply channel; sf = true is the order of checks in the tree (size check first).  For every
   limit, configuration, awaiting state, registration pattern, handler behaviour and every
   continuation of the stream: the j-th record belongs to the j-th frame, and if its id was
   awaited the caller gets, under the frame's type, exactly the frame's payload bytes — or an
   error, and an error only for a payload beyond the limit ([caller_exact], StreamProofs.v).
   Never a success with other (fewer, no, different) bytes. *)
Theorem C04_caller_exact_bytes_or_error :
  forall (maxbuf : N) (cfg : config) (fs : list frame) (st : state)
         (env : nat -> env_step) (rest : list byte),
  Forall frame_wf fs ->
  exists l tail,
    r_log (serve maxbuf cfg st env (concat (map frame_bytes fs) ++ rest)) = l ++ tail /\
    Forall2 (caller_exact maxbuf true) fs l /\
    tail = r_log (serve_from maxbuf cfg (state_after cfg st env O fs) env (length fs) rest).
Proof. exact serve_caller_exact. Qed.
Print Assumptions C04_caller_exact_bytes_or_error.

(* FALSE if Message.data takes its `payload == nil` shortcut before the size check (the order
   the tree had before the fix of F3, and the order a "the limit only matters when we allocate"
   re-ordering gives): limit 4, an awaited reply of type 12 with payload 1 2 3 4 5 is handed to
   its caller as (type 12, no bytes, no error); with the size check first the caller gets an
   error.  More generally EVERY awaited over-limit frame then comes out as an empty success. *)
Theorem C04_caller_exact_bytes_or_error_refuted :
  (exists maxbuf cfg st env f d,
     frame_wf f /\ r_log (serve maxbuf cfg st env (frame_bytes f)) = [d] /\ d_hdr d = frame_header f /\
     caller_handed maxbuf false d = Some (Some (f_typ f, [])) /\ f_payload f <> [] /\
     caller_handed maxbuf true d = Some None) /\
  (forall maxbuf cfg aw e f, awaited cfg aw e f = true -> maxbuf < len (f_payload f) ->
     caller_handed maxbuf false (expected_dispatch maxbuf cfg aw e f) = Some (Some (f_typ f, []))).
Proof.
  split.
  - destruct wit_nil_first_empty_success as [Hwf [d Hd]].
    exists 4, (mkConfig (fun _ => false) false (fun _ => false)), (mkState [7] false),
           (fun _ => mkEnv [] (HRead 0) false), (mkFrame 0 1 12 7 [1; 2; 3; 4; 5]), d.
    split; [exact Hwf|exact Hd].
  - exact expected_dispatch_nil_first_empty.
Qed.
Print Assumptions C04_caller_exact_bytes_or_error_refuted.

(* Reader-initiated messages and the REAL reply (round 6).  KeepAlive, ROAccessReport and
   ReaderEventNotification ([reader_initiated]) are never the reply to anything; a configuration
   that exempts them from the lookup in c.awaiting ([never_reply] true on them — the hypothesis
   is stated for any set of exempt types) delivers such frames to their handler only and keeps
   every awaiting entry: when a request with id (f_id f) is outstanding and the reader sends any
   number of exempt-type frames ris — also ones that carry that very id — and then the real reply
   f, none of ris is delivered to a caller and f is delivered to the caller: the buffered payload
   byte for byte within the limit (header-only beyond it), and what the caller is handed is
   exactly f's bytes under f's type or an error ([caller_exact]).  For every limit, handler
   configuration, registration pattern, handler behaviour and continuation of the stream.
   The check instantiates the model with never_reply = reader_initiated — taken from the
   property, not probed from the tree. *)
Theorem C04_real_reply_after_reader_initiated :
  forall (maxbuf : N) (cfg : config) (ris : list frame) (f : frame) (st : state)
         (env : nat -> env_step) (rest : list byte),
  Forall frame_wf (ris ++ [f]) ->
  Forall (fun r => never_reply cfg (f_typ r) = true) ris ->
  never_reply cfg (f_typ f) = false ->
  mem (f_id f) (s_aw st) = true ->
  exists l d tail,
    r_log (serve maxbuf cfg st env (concat (map frame_bytes (ris ++ [f])) ++ rest)) = l ++ d :: tail /\
    length l = length ris /\
    Forall (fun x => d_reply x = None) l /\
    d_hdr d = frame_header f /\
    d_reply d = Some (if len (f_payload f) <=? maxbuf then RBuffered (f_payload f) else RHeaderOnly) /\
    caller_exact maxbuf true f d.
Proof. exact real_reply_after_exempt_frames. Qed.
Print Assumptions C04_real_reply_after_reader_initiated.

(* FALSE for a configuration that does not exempt ROAccessReport: request 7 outstanding, a
   report carrying id 7, then the real reply of type 12: the caller is handed the report and
   the real reply reaches no caller; with the three reader-initiated types exempt the report
   reaches no caller and the real reply does. *)
Theorem C04_real_reply_after_reader_initiated_refuted :
  exists maxbuf cfg_bad cfg_ok st env fs,
  Forall frame_wf fs /\
  (forall t, never_reply cfg_ok t = reader_initiated t) /\ never_reply cfg_bad 61 = false /\
  map d_reply (r_log (serve maxbuf cfg_bad st env (concat (map frame_bytes fs))))
  = [Some (RBuffered [9; 9]); None] /\
  map d_reply (r_log (serve maxbuf cfg_ok st env (concat (map frame_bytes fs))))
  = [None; Some (RBuffered [1; 2; 3])].
Proof.
  destruct wit_report_not_exempt_steals_reply as [Hwf [Hbad Hok]].
  exists 100, (mkConfig (fun _ => false) true (fun t => (t =? 62) || (t =? 63))),
         (mkConfig (fun _ => false) true reader_initiated), (mkState [7] false),
         (fun _ : nat => mkEnv [] (HRead 0) false), [mkFrame 0 1 61 7 [9; 9]; mkFrame 0 1 12 7 [1; 2; 3]].
  split; [exact Hwf|]. split; [intro t; reflexivity|]. split; [reflexivity|]. split; [exact Hbad|exact Hok].
Qed.
Print Assumptions C04_real_reply_after_reader_initiated_refuted.

(* TIME (round 7).  The client has a read timeout: readHeader arms a deadline before it reads a
   header and nothing re-arms it until the next readHeader.  The reader's stream delivers
   [before], stalls for longer than the timeout, then delivers [after] — before ++ after being
   the bytes of the frames fs, cut at ANY offset.  [serve_stall maxbuf cfg ign st env before
   after] (Client/Stream.v) is the read loop on such a stream; ign = false is the tree as found:
   a drain of the unread payload that the deadline cuts short ends the loop.  Whatever is
   dispatched then was sent by the reader: the log consists of the complete frames, dispatched as
   specified and in order, followed by at most one frame that the stall cut, for which the
   client dispatched that frame's own header, showed a handler a prefix of its payload and gave
   no caller a buffered reply ([stall_sound]); so the j-th dispatched header is the header of the
   j-th frame the reader sent, for every j.  For every limit, configuration, awaiting state,
   registration pattern and handler behaviour. *)
Theorem C04_stall_dispatches_only_what_was_sent :
  forall (maxbuf : N) (cfg : config) (fs : list frame) (st : state) (env : nat -> env_step)
         (before after : list byte),
  Forall frame_wf fs -> before ++ after = concat (map frame_bytes fs) ->
  let log := serve_stall maxbuf cfg false st env before after in
  stall_sound maxbuf cfg env st O fs log /\
  (forall j d, nth_error log j = Some d ->
     exists f, nth_error fs j = Some f /\ d_hdr d = frame_header f /\
               (forall c, d_handler d = Some c -> exists q, f_payload f = hc_offered c ++ q)).
Proof.
  intros maxbuf cfg fs st env before after Hwf Heq log.
  pose proof (serve_stall_sound maxbuf cfg fs st env before after Hwf Heq) as H.
  split; [exact H|]. exact (stall_sound_headers maxbuf cfg env fs st O _ H).
Qed.
Print Assumptions C04_stall_dispatches_only_what_was_sent.

(* FALSE once the error of the cut-short drain is dropped (ign = true): the loop goes on, the
   next readHeader re-arms the deadline and takes the rest of the payload for a message.  One
   frame whose payload is 1 2 3 followed by bytes that look like a frame (type 30, id 99); the
   stream stalls after the third payload byte: two messages are dispatched, the second one never
   sent. *)
Theorem C04_stall_dispatches_only_what_was_sent_refuted :
  exists maxbuf cfg fs st env before after,
  Forall frame_wf fs /\ before ++ after = concat (map frame_bytes fs) /\ length fs = 1%nat /\
  length (serve_stall maxbuf cfg true st env before after) = 2%nat /\
  length (serve_stall maxbuf cfg false st env before after) = 1%nat.
Proof.
  destruct wit_stall_resync as [Hwf [Heq [H1 H2]]].
  eexists 100, _, [_], st0, _, _, _. split; [constructor; [exact Hwf|constructor]|].
  split; [exact Heq|]. split; [reflexivity|].
  split; [rewrite <- (map_length d_hdr), H1; reflexivity|rewrite <- (map_length d_hdr), H2; reflexivity].
Qed.
Print Assumptions C04_stall_dispatches_only_what_was_sent_refuted.

(* The byte-level loop refines the client LTS of Client/Model.v (the model behind C03, C05, C07,
   C08, C09): from an LTS state s whose reader is in readHeader and a byte-level state st that
   agree on the awaited ids and on receivedClosed ([Refine.rel]; [core_inv] is the LTS's proved
   invariant), for every stream concat(map frame_bytes fs) ++ rest the dispatch records the byte
   loop produces — the first |fs| entries of its log — are, through [Refine.view_log], exactly
   what the LTS appends to [delivered] and [handled] when it steps
   RFrame (abs f) (abs_hb ..); RCheck for each f in order; the frames it has read are the
   abstractions of fs ([Refine.frames_sim]: also the awaiting map, saw_close, and that nothing
   on the write side changes).  So the LTS's atomic RFrame is a sound abstraction of header
   decode + dispatch + buffering + handler consumption + drain, and theorems about LTS runs
   speak about real byte streams.  The byte model is taken at maxbuf = max_buffered, with
   registrations as separate LTS events (e_register = []) and e_close_sent = Model.close_sent s
   ([Refine.read_env]); how every way of ending the stream — at a boundary, inside a header,
   inside a payload on each dispatch path — corresponds to PeerEOF is Refine.refine_eof_*. *)
Theorem C04_read_loop_refines_lts :
  forall (tag : list N -> N) (info_of : N -> list N -> Types.info) (cfg : Types.config)
         (fs : list frame) (s : Types.state) (st : state) (env : nat -> env_step) (rest : list byte),
  Forall frame_wf fs -> Types.reader s = Types.RRead -> Types.closed s = false ->
  Refine.rel st s -> InvCore.core_inv cfg s -> Refine.read_env env s ->
  let r := serve Types.max_buffered (Refine.cfg_of cfg) st env (concat (map frame_bytes fs) ++ rest) in
  let log := firstn (length fs) (r_log r) in
  r = prepend log (serve_from Types.max_buffered (Refine.cfg_of cfg)
                     (state_after (Refine.cfg_of cfg) st env O fs) env (length fs) rest) /\
  length log = length fs /\
  Refine.frames_sim tag info_of cfg s (Model.run_from cfg s (Refine.events_of tag info_of env O fs))
                    st env O fs log.
Proof. exact Refine.read_loop_refines_lts. Qed.
Print Assumptions C04_read_loop_refines_lts.

(* The FIRST message of a connection (read by checkInitialMessage, outside the loop) is
   dispatched too: a complete first frame that fits the limit is offered to the handler of its
   type before Connect looks at its type, decodes it or checks the connection status — for
   every type, payload, decoder outcome class D (including panic/hang) and whether Connect then
   goes on or fails.  [first_offers_default]: whether the default handler is offered it when
   no type handler exists (not so in the tree as found: see the refuted statement). *)
Theorem C04_first_message_offered :
  forall maxbuf cfg (fl : Hostile.flags) (D : Hostile.decoders) f rest,
  frame_wf f -> len (f_payload f) <= maxbuf ->
  Hostile.ci_handler_called (Hostile.check_initial maxbuf cfg fl D (frame_bytes f ++ rest))
  = has_handler cfg (f_typ f) || (Hostile.first_offers_default fl && has_default cfg).
Proof. exact FirstMsg.first_message_offered. Qed.
Print Assumptions C04_first_message_offered.

(* FALSE for the tree as found: "... or else the default handler" does not hold for the first
   message: a client with only a default handler accepts the connection event and shows it to
   nobody (limit 4, ReaderEventNotification with 2 payload bytes). *)
Theorem C04_first_message_default_handler_refuted :
  has_default FirstMsg.wit_cfg_default = true /\
  has_handler FirstMsg.wit_cfg_default Hostile.MsgReaderEventNotification = false /\
  (exists rest, Hostile.ci_res (Hostile.check_initial 4 FirstMsg.wit_cfg_default Hostile.flags_as_found
                                  HostileProofs.wit_D HostileProofs.wit_ren) = Hostile.CiOk rest) /\
  Hostile.ci_handler_called (Hostile.check_initial 4 FirstMsg.wit_cfg_default Hostile.flags_as_found
                               HostileProofs.wit_D HostileProofs.wit_ren) = false /\
  Hostile.ci_handler_called (Hostile.check_initial 4 FirstMsg.wit_cfg_default Hostile.flags_repaired
                               HostileProofs.wit_D HostileProofs.wit_ren) = true.
Proof. exact FirstMsg.first_message_default_handler_refuted. Qed.
Print Assumptions C04_first_message_default_handler_refuted.

(* the header codec used above agrees with the wire format for every well-formed frame *)
Theorem C04_header_roundtrip :
  forall f, frame_wf f -> hdr_decode (header_bytes f) = Some (frame_header f).
Proof. exact hdr_decode_header_bytes. Qed.
Print Assumptions C04_header_roundtrip.

(* non-vacuity: limit 4; a handler for type 62 that reads 1 byte and panics, a default handler;
   frames: an awaited over-limit reply, a KeepAlive with 3 payload bytes, an unsolicited type 63;
   then a truncated header. *)
Example C04_example :
  let cfg := mkConfig (fun t => t =? 62) true (fun t => (t =? 62) || (t =? 61) || (t =? 63)) in
  let env := fun j => match j with
                      | O => mkEnv [7] (HRead 2) false
                      | S O => mkEnv [] (HPanic 1 PvRuntimeError) false
                      | _ => mkEnv [] (HRead 100) false end in
  let fs := [mkFrame 0 1 12 7 [1;2;3;4;5]; mkFrame 5 2 62 9 [6;7;8]; mkFrame 0 1 63 7 [9]] in
  serve 4 cfg st0 env (concat (map frame_bytes fs) ++ [4; 63; 0])
  = mkResult
      [ mkDispatch (mkHeader 1 12 5 7) (Some RHeaderOnly)
          (Some (mkCall DefaultHandler false [1;2;3;4;5] 2 false)) false 10;
        mkDispatch (mkHeader 2 62 3 9) None
          (Some (mkCall TypeHandler false [6;7;8] 1 true)) false 10;
        mkDispatch (mkHeader 1 63 1 7) None
          (Some (mkCall DefaultHandler false [9] 1 false)) false 10 ]
      EndShortHeader [].
Proof. vm_compute. reflexivity. Qed.

Example C04_example_wf :
  Forall frame_wf [mkFrame 0 1 12 7 [1;2;3;4;5]; mkFrame 5 2 62 9 [6;7;8]; mkFrame 0 1 63 7 [9]].
Proof. repeat constructor; vm_compute; reflexivity. Qed.

(* non-vacuity of C04_caller_exact_bytes_or_error: limit 4; two awaited replies (ids 7 and 8),
   the first beyond the limit, the second within it: the first caller gets an error, the second
   (type 13, bytes 9 8 7) *)
Example C04_example_caller :
  let cfg := mkConfig (fun _ => false) true (fun _ => false) in
  let env := fun _ : nat => mkEnv [] (HRead 1) false in
  let fs := [mkFrame 0 1 12 7 [1;2;3;4;5]; mkFrame 0 1 13 8 [9;8;7]] in
  map (caller_handed 4 true) (r_log (serve 4 cfg (mkState [7; 8] false) env (concat (map frame_bytes fs))))
  = [Some None; Some (Some (13, [9;8;7]))].
Proof. vm_compute. reflexivity. Qed.

(* STAGES OF A SESSION (round 10).  A client that negotiates versions is not "ready" while its GetSupportedVersion /
   SetProtocolVersion exchange is going on; the property has no such stage: "every message the reader sends is delivered
   exactly once to each party entitled to it".  [serve_staged gated stop maxbuf cfg neg st env] (Client/Stream.v) is the
   read loop with the stage made explicit — [neg i]: the client is still negotiating when the i-th header is read, an
   ARBITRARY placement of the stages over the stream — and gated = stop = false is the tree as found (it is [serve]:
   StreamProofs.serve_staged_faithful).  For every limit, configuration, placement of the stages, awaiting state,
   environment, frames and continuation: the frames are dispatched exactly as specified ([expected_log]: hence
   C04_dispatch_exactly_once / C04_caller_exact_bytes_or_error apply to every stage), and the loop goes on behind them. *)
Theorem C04_delivery_whatever_the_stage :
  forall (maxbuf : N) (cfg : config) (neg : nat -> bool) (fs : list frame) (st : state)
         (env : nat -> env_step) (rest : list byte),
  Forall frame_wf fs ->
  serve_staged false false maxbuf cfg neg st env (concat (map frame_bytes fs) ++ rest)
  = prepend (expected_log maxbuf cfg st env O fs)
            (serve_from maxbuf cfg (state_after cfg st env O fs) env (length fs) rest).
Proof. exact serve_staged_alignment. Qed.
Print Assumptions C04_delivery_whatever_the_stage.

(* FALSE for the loop whose user handlers are eligible only once the client is ready (gated = true): a report (type 61,
   which has a MessageHandler) that arrives while the client negotiates is discarded as unhandled — its handler is never
   called —, where the tree as found calls the handler with exactly its bytes; on a ready client the two agree (which is
   why only scenarios that place messages INSIDE the negotiation can tell them apart). *)
Theorem C04_delivery_whatever_the_stage_refuted :
  exists maxbuf cfg f st env (negotiating ready : nat -> bool),
  frame_wf f /\ pick_handler cfg (f_typ f) = Some TypeHandler /\
  r_log (serve_staged true false maxbuf cfg negotiating st env (frame_bytes f))
  <> expected_log maxbuf cfg st env O [f] /\
  map (fun d => (d_handler d, d_discarded d)) (r_log (serve_staged true false maxbuf cfg negotiating st env (frame_bytes f)))
  = [(None, true)] /\
  map (fun d => (d_handler d, d_discarded d)) (r_log (serve_staged false false maxbuf cfg negotiating st env (frame_bytes f)))
  = [(Some (mkCall TypeHandler false (f_payload f) (len (f_payload f)) false), false)] /\
  serve_staged true false maxbuf cfg ready st env (frame_bytes f) = serve_staged false false maxbuf cfg ready st env (frame_bytes f).
Proof.
  destruct wit_gated_handlers_drop_early_message as [Hwf [Hg [Hf Hr]]].
  exists 100, (mkConfig (fun t => t =? 61) false reader_initiated), (mkFrame 0 2 61 77 [222; 173; 190]), st0,
         (fun _ : nat => mkEnv [] (HRead 3) false), (fun _ : nat => true), (fun _ : nat => false).
  split; [exact Hwf|]. split; [reflexivity|]. split; [vm_compute; discriminate|].
  split; [exact Hg|]. split; [exact Hf|exact Hr].
Qed.
Print Assumptions C04_delivery_whatever_the_stage_refuted.

(* A REFUSED CLOSE (round 10).  The client has sent CloseConnection (e_close_sent) and the reader answers with a
   CloseConnectionResponse [ccr] — whatever its status: a reader that refuses keeps the connection (Shutdown returns the
   refusal, the client stays open) and goes on sending fs2.  For every limit, configuration, stage placement, state,
   environment, and all frames before and behind the response: the log is the specified dispatch of everything up to and
   including the response followed by the specified dispatch of EVERYTHING behind it, from the state the response left —
   the messages behind a close response are delivered like any others, each parsed at its own first byte.  (After an
   ACCEPTED close the client closes itself; the model has no user Close and nothing is demanded there.) *)
Theorem C04_delivery_after_close_response :
  forall (maxbuf : N) (cfg : config) (neg : nat -> bool) (fs1 : list frame) (ccr : frame) (fs2 : list frame)
         (st : state) (env : nat -> env_step),
  Forall frame_wf (fs1 ++ ccr :: fs2) ->
  r_log (serve_staged false false maxbuf cfg neg st env (concat (map frame_bytes (fs1 ++ ccr :: fs2))))
  = expected_log maxbuf cfg st env O (fs1 ++ [ccr])
    ++ expected_log maxbuf cfg (state_after cfg st env O (fs1 ++ [ccr])) env (length fs1 + 1) fs2.
Proof. exact serve_after_close_response. Qed.
Print Assumptions C04_delivery_after_close_response.

(* FALSE for the loop that stops reading once it has dispatched the answer to its CloseConnection (stop = true): the
   reader refuses (status 401) and then sends a report; the report is never dispatched, its bytes stay unread; the tree as
   found dispatches both. *)
Theorem C04_delivery_after_close_response_refuted :
  exists maxbuf cfg neg ccr rep st env,
  Forall frame_wf [ccr; rep] /\ f_typ ccr = MsgCloseConnectionResponse /\ e_close_sent (env O) = true /\
  map d_hdr (r_log (serve_staged false true maxbuf cfg neg st env (concat (map frame_bytes [ccr; rep])))) = [frame_header ccr] /\
  r_rest (serve_staged false true maxbuf cfg neg st env (concat (map frame_bytes [ccr; rep]))) = frame_bytes rep /\
  map d_hdr (r_log (serve_staged false false maxbuf cfg neg st env (concat (map frame_bytes [ccr; rep]))))
  = [frame_header ccr; frame_header rep].
Proof.
  destruct wit_stop_at_close_loses_later_messages as [Hwf [H1 [H2 H3]]].
  exists 100, (mkConfig (fun t => t =? 61) false reader_initiated), (fun _ : nat => false),
         (mkFrame 0 1 4 0 [1; 31; 0; 8; 1; 145; 0; 0]), (mkFrame 0 1 61 41 [202; 254]), st0,
         (fun _ : nat => mkEnv [0] (HRead 2) true).
  split; [exact Hwf|]. split; [reflexivity|]. split; [reflexivity|]. split; [exact H1|]. split; [exact H2|exact H3].
Qed.
Print Assumptions C04_delivery_after_close_response_refuted.

(* non-vacuity of the two round-10 theorems: a negotiating stretch (headers 0 and 1), a refused close in the middle *)
Example C04_example_stages_and_close :
  let cfg := mkConfig (fun t => t =? 61) true reader_initiated in
  let env := fun _ : nat => mkEnv [] (HRead 1) true in
  let neg := fun i => Nat.ltb i 2 in
  let fs := [mkFrame 0 2 61 5 [1; 2]; mkFrame 0 1 4 0 [1; 31; 0; 8; 1; 145; 0; 0]; mkFrame 0 1 30 6 [3]] in
  Forall frame_wf fs /\
  map d_hdr (r_log (serve_staged false false 100 cfg neg (mkState [0] false) env (concat (map frame_bytes fs))))
  = map frame_header fs.
Proof. cbv zeta. split; [repeat constructor; vm_compute; reflexivity|vm_compute; reflexivity]. Qed.

(* WHOEVER AWAITS (round 11).  A caller that gives up (context cancelled) removes its entry from the awaiting map at a moment
   of its own choosing — before the reply's header is read, or while its payload is arriving.  For the read loop that is
   just another awaiting state / registration pattern: for every limit, configuration, frames, and ANY TWO awaiting states
   and environments (who awaits, what handlers do), the loop parses the same headers — each frame's own, in order — and
   consumes the stream to its end.  Who is handed a message depends on who awaits; where the next message starts does not. *)
Theorem C04_alignment_whoever_awaits :
  forall (maxbuf : N) (cfg : config) (fs : list frame) (st st' : state) (env env' : nat -> env_step),
  Forall frame_wf fs ->
  map d_hdr (r_log (serve maxbuf cfg st env (concat (map frame_bytes fs)))) = map frame_header fs /\
  map d_hdr (r_log (serve maxbuf cfg st' env' (concat (map frame_bytes fs)))) = map frame_header fs /\
  r_rest (serve maxbuf cfg st env (concat (map frame_bytes fs))) = [] /\
  r_rest (serve maxbuf cfg st' env' (concat (map frame_bytes fs))) = [].
Proof.
  intros maxbuf cfg fs st st' env env' H.
  destruct (serve_headers_whoever_awaits maxbuf cfg fs st env H) as [A B].
  destruct (serve_headers_whoever_awaits maxbuf cfg fs st' env' H) as [C D]. auto.
Qed.
Print Assumptions C04_alignment_whoever_awaits.
