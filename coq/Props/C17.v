(* C17 — Discovery names readers by rule, skips live devices, ends in bounded time.
   Only property statements; each closed by [exact] of a lemma proved elsewhere.
   Model: Discover/Naming.v (device-name construction of probe, HostnamePrefix),
          Discover/Run.v (makeDeviceMap, ipWorker, probe's blocking structure over abstract timers). *)
From Coq Require Import String Ascii NArith List.
From LLRP Require Import Discover.Naming Discover.NamingProofs Discover.Run Discover.RunProofs.
Import ListNotations.
Open Scope N_scope.

(* The name is <prefix>-<id>. For a MAC-type id (type 0) of at least three octets the id part is
   XX-XX-XX of the LAST three octets, upper case; in every other case — another id type, or a
   MAC-type id of 0, 1 or 2 octets — it is the lower-case hex of the whole reader id
   (for the empty id: the empty string, so the name ends in the dash). All vendors, models, id
   types and byte strings. *)
Theorem C17_name_format : forall vendor model idtype rid,
  (idtype = 0 /\ (3 <= length rid)%nat ->
     exists pre a b c, rid = pre ++ [a; b; c] /\
       device_name vendor model idtype rid =
       prefix vendor model ++ str "-" ++ hex2_upper a ++ str "-" ++ hex2_upper b ++ str "-" ++ hex2_upper c) /\
  (~ (idtype = 0 /\ (3 <= length rid)%nat) ->
     device_name vendor model idtype rid = prefix vendor model ++ str "-" ++ hex_lower rid).
Proof. exact name_format. Qed.
Print Assumptions C17_name_format.

(* what "hex" means, stated independently of the encoder: reading the produced digits back
   (lower-case alphabet only, resp. upper-case alphabet only) gives the bytes, two digits per byte *)
Theorem C17_hex_lower_denotes : forall rid, Forall (fun b => b < 256) rid ->
  unhex unhex_digit_lower (hex_lower rid) = Some rid /\
  Forall is_lower_hex_char (hex_lower rid) /\
  length (hex_lower rid) = (2 * length rid)%nat.
Proof. exact hex_lower_denotes. Qed.
Print Assumptions C17_hex_lower_denotes.

Theorem C17_hex_upper_denotes : forall b, b < 256 ->
  unhex unhex_digit_upper (hex2_upper b) = Some [b] /\ Forall is_upper_hex_char (hex2_upper b) /\
  length (hex2_upper b) = 2%nat.
Proof. exact hex_upper_denotes. Qed.
Print Assumptions C17_hex_upper_denotes.

(* the documented prefix table: Impinj (PEN 25882) Speedway R120/R220/R420/R700/xPortal ->
   "SpeedwayR"; xSpan -> "xSpan"; xArray, xArray EAP, xArray WM -> "xArray"; every other
   vendor/model pair -> "LLRP" *)
Theorem C17_prefix_table : forall vendor model,
  (vendor = 25882 /\ In model [2001001; 2001002; 2001003; 2001009; 2001052] ->
     prefix vendor model = str "SpeedwayR") /\
  (vendor = 25882 /\ In model [2001008] -> prefix vendor model = str "xSpan") /\
  (vendor = 25882 /\ In model [2001004; 2001006; 2001007] -> prefix vendor model = str "xArray") /\
  (~ (vendor = 25882 /\
      In model ([2001001; 2001002; 2001003; 2001009; 2001052] ++ [2001008] ++ [2001004; 2001006; 2001007])) ->
     prefix vendor model = str "LLRP").
Proof. exact prefix_table. Qed.
Print Assumptions C17_prefix_table.

(* the same reader always gets the same name (the name is a function of what the reader sent) *)
Theorem C17_name_deterministic : forall v m t rid v' m' t' rid',
  v = v' -> m = m' -> t = t' -> rid = rid' -> device_name v m t rid = device_name v' m' t' rid'.
Proof. exact name_deterministic. Qed.
Print Assumptions C17_name_deterministic.

(* a probe result exists iff the host sent an Identification; vendor, model and firmware are
   passed through as received (0, 0, "" when no GeneralDeviceCapabilities came) *)
Theorem C17_identity_as_received : forall caps ident i,
  probe_info caps ident = Some i <->
  exists t rid, ident = Some (t, rid) /\
    ((exists v m fw, caps = Some (v, m, fw) /\ i = mk_info (device_name v m t rid) v m fw) \/
     (caps = None /\ i = mk_info (device_name 0 0 t rid) 0 0 [])).
Proof. exact probe_info_spec. Qed.
Print Assumptions C17_identity_as_received.

(* an address = (host, scan port). If some device is registered at exactly that address and every
   device registered at exactly that address is Up, the host is never dialled — for EVERY list of
   registered devices (any number of devices per host on any ports, in any order, duplicates,
   devices without tcp information), every host behaviour, every distribution of addresses over
   workers, every timer setting *)
Theorem C17_registered_up_skipped : forall tm dl devs port hosts work a,
  (exists d, In d devs /\ d_addr d = Some (a, port)) ->
  (forall d, In d devs -> d_addr d = Some (a, port) -> d_state d = Up) ->
  ~ In a (run_probed tm dl (make_device_map devs) port hosts work).
Proof. exact registered_up_skipped. Qed.
Print Assumptions C17_registered_up_skipped.

(* the port is part of the key: whether (host, scan port) is skipped depends only on the devices
   registered at exactly (host, scan port), in their list order — devices on other ports of the
   same host, wherever they stand in the list, change nothing *)
Theorem C17_other_ports_irrelevant : forall devs port a,
  skip (make_device_map devs) port a =
  skip (make_device_map (filter (fun d => match d_addr d with
                                          | Some k => key_eqb k (a, port) | None => false end) devs)) port a.
Proof. exact other_ports_irrelevant. Qed.
Print Assumptions C17_other_ports_irrelevant.

(* an address at which nothing is registered is not skipped *)
Theorem C17_unregistered_not_skipped : forall devs port a,
  (forall d, In d devs -> d_addr d <> Some (a, port)) -> skip (make_device_map devs) port a = false.
Proof. exact skip_unregistered. Qed.
Print Assumptions C17_unregistered_not_skipped.

(* whatever is reported comes from an address that was handed to a worker, was not skipped, and
   whose host answered the whole exchange including an Identification; the reported record is
   exactly the one built from what that host sent *)
Theorem C17_only_identified_reported : forall tm dl m port hosts work a i,
  In (a, i) (run_reported tm dl m port hosts work) ->
  In a (concat work) /\ skip m port a = false /\
  exists c t rid,
    (hosts a = Answer c (Some (t, rid)) \/ hosts a = AnswerNoClose c (Some (t, rid))) /\
    probe_info c (Some (t, rid)) = Some i.
Proof. exact only_identified_reported. Qed.
Print Assumptions C17_only_identified_reported.

(* the deadline of the run's context (Driver.Discover: MaxDiscoverDurationSeconds, see
   discover_deadline) cuts the run off: no dial begins at or after it — whatever the hosts do and
   however many addresses are left. (This is what the harness observes with connection-time-stamping
   listeners when a run is started through Driver.Discover.) *)
Theorem C17_no_dial_after_deadline : forall tm dl m port hosts work t,
  In t (run_dial_times tm dl m port hosts work) -> t < dl.
Proof. exact no_dial_after_deadline. Qed.
Print Assumptions C17_no_dial_after_deadline.

(* FULL STATEMENT WANTED (not provable, and false of the code as it is — see C17_run_time_refuted):
     forall hosts work, run_time (go_timers t s) dl m hosts work <= dl + allowance
   PARTIAL: over abstract timers only (wall-clock time is not expressible; the harness measures),
   and under the hypothesis that every blocking step of a probe is bounded by a timer, i.e. the
   connection has a read deadline. Then a run that starts at 0 with context deadline dl ends by
   dl + (dial + max(send_timeout, read_deadline)). Not covered: time spent by the SDK calls of the
   result collector, scheduling. *)
Theorem C17_run_time_bounded_partial : forall tm r dl m port hosts work,
  read_deadline tm = Some r ->
  exists t, run_time tm dl m port hosts work = Some t /\ t <= dl + allowance tm.
Proof. exact run_time_bounded. Qed.
Print Assumptions C17_run_time_bounded_partial.

(* the same for any per-probe bound A, whatever the timers are *)
Theorem C17_run_time_bounded_by_probe_bound_partial : forall tm dl m port hosts work A,
  (forall b, exists d, probe_time tm b = Some d /\ d <= A) ->
  exists t, run_time tm dl m port hosts work = Some t /\ t <= dl + A.
Proof. exact run_time_bounded_gen. Qed.
Print Assumptions C17_run_time_bounded_by_probe_bound_partial.

(* the code as it is sets no read deadline (go_timers): one host that accepts and stays silent
   — from the start, in the middle of the exchange, or after answering everything without
   closing — makes the run never return, whatever the probe timeout t, sendTimeout s and the
   run's deadline dl > 0 are. Replayed on the Go code by checks/c17.py (probe/run scenarios). *)
Theorem C17_run_time_refuted : forall t s dl, 0 < dl ->
  exists m port hosts work, run_time (go_timers t s) dl m port hosts work = None.
Proof. exact run_time_refuted. Qed.
Print Assumptions C17_run_time_refuted.

(* hypotheses are satisfiable / the definitions compute what the README's examples say *)
Example C17_readme_example_mac :
  device_name 25882 2001002 0 [0x00; 0xef; 0x16; 0x19; 0xfe; 0x16] = str "SpeedwayR-19-FE-16".
Proof. vm_compute. reflexivity. Qed.
Example C17_example_epc :
  device_name 50 50 1 [0x00; 0x1A; 0x00; 0x4F; 0xD9; 0xCA; 0x2B] = str "LLRP-001a004fd9ca2b".
Proof. vm_compute. reflexivity. Qed.
Example C17_example_short_mac : device_name 25882 2001008 0 [0xAB; 0x0C] = str "xSpan-ab0c".
Proof. vm_compute. reflexivity. Qed.
Example C17_example_run :
  (* host 2: an Up reader on the scan port 5084 AND a Down device on port 5085 listed after it;
     host 3: a Down device on the scan port; host 5: Up on another port only *)
  let devs := [mk_device (str "SpeedwayR-19-FE-16") (Some (2, 5084)) Up; mk_device (str "gw") (Some (2, 5085)) Down;
               mk_device (str "old") (Some (3, 5084)) Down; mk_device (str "x") (Some (5, 5085)) Up;
               mk_device (str "noaddr") None Up] in
  let hosts := fun a => if a =? 1 then Refuse else if a =? 4 then Garbage
                        else Answer (Some (25882, 2001002, str "5.14")) (Some (0, [0; 0; a; a; a])) in
  let tm := mk_timers 2 (Some 2) 20 in
  run_probed tm 300 (make_device_map devs) 5084 hosts [[1; 2]; [3; 4; 5]] = [1; 5; 4; 3] /\
  map fst (run_reported tm 300 (make_device_map devs) 5084 hosts [[1; 2]; [3; 4; 5]]) = [5; 3] /\
  run_time tm 300 (make_device_map devs) 5084 hosts [[1; 2]; [3; 4; 5]] = Some 0 /\
  run_time (go_timers 2 20) 300 (make_device_map devs) 5084 (fun _ => Silent) [[1; 2]; [3; 4]] = None.
Proof. vm_compute. repeat split; reflexivity. Qed.
