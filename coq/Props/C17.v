(* C17 — Discovery names readers by rule, skips live devices, ends in bounded time.
   Only property statements; each closed by [exact] of a lemma proved elsewhere.
   Model: Discover/Naming.v (device-name construction of probe, HostnamePrefix),
          Discover/Run.v (makeDeviceMap, ipWorker, probe's blocking structure over abstract timers). *)
From Coq Require Import String Ascii NArith List.
From LLRP Require Import Discover.Naming Discover.NamingProofs Discover.Run Discover.RunProofs Discover.Config Discover.ConfigProofs.
Import ListNotations.
Open Scope N_scope.

(* The name is <prefix>-<id>. For a MAC-type id (type 0) of at least three octets the id part is
   XX-XX-XX of the LAST three octets, upper case; in every other case — another id type, or a
   MAC-type id of 0, 1 or 2 octets — it is the lower-case hex of the whole reader id
   (for the empty id: the empty string, so the name ends in the dash). All vendors, models, id
   types and byte strings. *)
Theorem C17_name_format : forall vendor model idtype rid,
  (idtype = 0 /\ (3 <= length rid)%nat ->
     exists pre a b c, rid = pre ++ [a; b; c] /\
       device_name vendor model idtype rid =
       prefix vendor model ++ str "-" ++ hex2_upper a ++ str "-" ++ hex2_upper b ++ str "-" ++ hex2_upper c) /\
  (~ (idtype = 0 /\ (3 <= length rid)%nat) ->
     device_name vendor model idtype rid = prefix vendor model ++ str "-" ++ hex_lower rid).
Proof. exact name_format. Qed.
Print Assumptions C17_name_format.

(* what "hex" means, stated independently of the encoder: reading the produced digits back
   (lower-case alphabet only, resp. upper-case alphabet only) gives the bytes, two digits per byte *)
Theorem C17_hex_lower_denotes : forall rid, Forall (fun b => b < 256) rid ->
  unhex unhex_digit_lower (hex_lower rid) = Some rid /\
  Forall is_lower_hex_char (hex_lower rid) /\
  length (hex_lower rid) = (2 * length rid)%nat.
Proof. exact hex_lower_denotes. Qed.
Print Assumptions C17_hex_lower_denotes.

Theorem C17_hex_upper_denotes : forall b, b < 256 ->
  unhex unhex_digit_upper (hex2_upper b) = Some [b] /\ Forall is_upper_hex_char (hex2_upper b) /\
  length (hex2_upper b) = 2%nat.
Proof. exact hex_upper_denotes. Qed.
Print Assumptions C17_hex_upper_denotes.

(* the documented prefix table: Impinj (PEN 25882) Speedway R120/R220/R420/R700/xPortal ->
   "SpeedwayR"; xSpan -> "xSpan"; xArray, xArray EAP, xArray WM -> "xArray"; every other
   vendor/model pair -> "LLRP" *)
Theorem C17_prefix_table : forall vendor model,
  (vendor = 25882 /\ In model [2001001; 2001002; 2001003; 2001009; 2001052] ->
     prefix vendor model = str "SpeedwayR") /\
  (vendor = 25882 /\ In model [2001008] -> prefix vendor model = str "xSpan") /\
  (vendor = 25882 /\ In model [2001004; 2001006; 2001007] -> prefix vendor model = str "xArray") /\
  (~ (vendor = 25882 /\
      In model ([2001001; 2001002; 2001003; 2001009; 2001052] ++ [2001008] ++ [2001004; 2001006; 2001007])) ->
     prefix vendor model = str "LLRP").
Proof. exact prefix_table. Qed.
Print Assumptions C17_prefix_table.

(* the same reader always gets the same name (the name is a function of what the reader sent) *)
Theorem C17_name_deterministic : forall v m t rid v' m' t' rid',
  v = v' -> m = m' -> t = t' -> rid = rid' -> device_name v m t rid = device_name v' m' t' rid'.
Proof. exact name_deterministic. Qed.
Print Assumptions C17_name_deterministic.

(* a probe result exists iff the host sent an Identification; vendor, model and firmware are
   passed through as received (0, 0, "" when no GeneralDeviceCapabilities came) *)
Theorem C17_identity_as_received : forall caps ident i,
  probe_info caps ident = Some i <->
  exists t rid, ident = Some (t, rid) /\
    ((exists v m fw, caps = Some (v, m, fw) /\ i = mk_info (device_name v m t rid) v m fw) \/
     (caps = None /\ i = mk_info (device_name 0 0 t rid) 0 0 [])).
Proof. exact probe_info_spec. Qed.
Print Assumptions C17_identity_as_received.

(* an address = (host, scan port). If some device is registered at exactly that address and every
   device registered at exactly that address is Up, the host is never dialled — for EVERY list of
   registered devices (any number of devices per host on any ports, in any order, duplicates,
   devices without tcp information), every host behaviour, every distribution of addresses over
   workers, every timer setting *)
Theorem C17_registered_up_skipped : forall tm dl devs port hosts work a,
  (exists d, In d devs /\ d_addr d = Some (a, port)) ->
  (forall d, In d devs -> d_addr d = Some (a, port) -> d_state d = Up) ->
  ~ In a (run_probed tm dl (make_device_map devs) port hosts work).
Proof. exact registered_up_skipped. Qed.
Print Assumptions C17_registered_up_skipped.

(* the port is part of the key: whether (host, scan port) is skipped depends only on the devices
   registered at exactly (host, scan port), in their list order — devices on other ports of the
   same host, wherever they stand in the list, change nothing *)
Theorem C17_other_ports_irrelevant : forall devs port a,
  skip (make_device_map devs) port a =
  skip (make_device_map (filter (fun d => match d_addr d with
                                          | Some k => key_eqb k (a, port) | None => false end) devs)) port a.
Proof. exact other_ports_irrelevant. Qed.
Print Assumptions C17_other_ports_irrelevant.

(* an address at which nothing is registered is not skipped *)
Theorem C17_unregistered_not_skipped : forall devs port a,
  (forall d, In d devs -> d_addr d <> Some (a, port)) -> skip (make_device_map devs) port a = false.
Proof. exact skip_unregistered. Qed.
Print Assumptions C17_unregistered_not_skipped.

(* whatever is reported comes from an address that was handed to a worker, was not skipped, and
   whose host answered the whole exchange including an Identification; the reported record is
   exactly the one built from what that host sent *)
Theorem C17_only_identified_reported : forall tm dl m port hosts work a i,
  In (a, i) (run_reported tm dl m port hosts work) ->
  In a (concat work) /\ skip m port a = false /\
  exists c t rid,
    (hosts a = Answer c (Some (t, rid)) \/ hosts a = AnswerNoClose c (Some (t, rid)) \/
     (* a scripted host: it sent this Identification in a positive answer to GET_READER_CONFIG; the
        capabilities used are the ones it sent, or none *)
     exists s, hosts a = Script s /\ s_ident s = Some (t, rid) /\ (exists d, s_config s = Ans d true) /\
               (c = s_capsv s \/ c = None)) /\
    probe_info c (Some (t, rid)) = Some i.
Proof. exact only_identified_reported. Qed.
Print Assumptions C17_only_identified_reported.

(* the deadline of the run's context (Driver.Discover: MaxDiscoverDurationSeconds, see
   discover_deadline) cuts the run off: no dial begins at or after it — whatever the hosts do and
   however many addresses are left. (This is what the harness observes with connection-time-stamping
   listeners when a run is started through Driver.Discover.) *)
Theorem C17_no_dial_after_deadline : forall tm dl m port hosts work t,
  In t (run_dial_times tm dl m port hosts work) -> t < dl.
Proof. exact no_dial_after_deadline. Qed.
Print Assumptions C17_no_dial_after_deadline.

(* BOUNDED TIME, all host behaviours. A host is ANY script (Discover/Run.v, [script]): refused / unanswered /
   accepted dial; for the first message and for each request of the exchange an answer after any delay,
   positive or not, or none at all; the TCP connection closed at any moment or never; and unsolicited traffic
   (KeepAlives, events, reports) at any listed times and/or periodically for ever — in particular more often
   than the read deadline, so that the deadline never fires. The named behaviours (Silent, StallExchange, ...)
   are the silent special cases.
   A reply may also be TRICKLED (header at once, then a byte every g ticks, never complete).
   If the probe connection has a read deadline r (llrp.WithTimeout) that bounds the arrival of each WHOLE message
   (armed once per message: idle_deadline = false) and the request goroutine closes the client itself after a
   Shutdown that failed (force_close), then a run that starts at 0 with context deadline dl ends by
   dl + allowance = dl + dial + send_timeout + 4 r, for every assignment of scripts to addresses and every
   distribution of addresses over workers.
   PARTIAL in one respect only: abstract timers (wall-clock time is not expressible; the harness measures it
   against the same allowance + slack). Not covered: time spent by the SDK calls of the result collector. *)
Theorem C17_run_time_bounded_partial : forall tm r dl m port hosts work,
  read_deadline tm = Some r -> force_close tm = true -> idle_deadline tm = false ->
  exists t, run_time tm dl m port hosts work = Some t /\ t <= dl + allowance tm.
Proof. exact run_time_bounded. Qed.
Print Assumptions C17_run_time_bounded_partial.

(* the clause for ONE probe, over all scripts *)
Theorem C17_probe_bounded_all_scripts : forall tm r s,
  read_deadline tm = Some r -> force_close tm = true -> idle_deadline tm = false ->
  exists d, probe_time tm (Script s) = Some d /\ d <= allowance tm.
Proof. exact script_time_bounded. Qed.
Print Assumptions C17_probe_bounded_all_scripts.

(* ... and it needs the forced Close: with a read deadline but WITHOUT closing the client after a failed
   Shutdown, a host that answers the whole exchange, refuses CLOSE_CONNECTION and keeps sending KeepAlives
   with any period 0 < p <= r blocks the probe for ever (the deadline is re-armed by every KeepAlive and nobody
   closes the client), and one such host makes a run never return. Replayed on the Go code by the chatty
   host scripts of checks/c17.py. *)
Theorem C17_chatty_refuser_blocks_without_forced_close : forall tm r p,
  read_deadline tm = Some r -> force_close tm = false -> idle_deadline tm = false -> 0 < send_timeout tm -> 0 < p -> p <= r ->
  probe_time tm (Script (chatty_refuser p)) = None.
Proof. exact chatty_refuser_blocks. Qed.
Print Assumptions C17_chatty_refuser_blocks_without_forced_close.

Theorem C17_run_time_refuted_no_forced_close : forall tm r dl,
  read_deadline tm = Some r -> force_close tm = false -> idle_deadline tm = false -> 0 < r -> 0 < send_timeout tm -> 0 < dl ->
  exists m port hosts work, run_time tm dl m port hosts work = None.
Proof. exact run_time_refuted_no_forced_close. Qed.
Print Assumptions C17_run_time_refuted_no_forced_close.

(* the same for any per-probe bound A, whatever the timers are *)
Theorem C17_run_time_bounded_by_probe_bound_partial : forall tm dl m port hosts work A,
  (forall b, exists d, probe_time tm b = Some d /\ d <= A) ->
  exists t, run_time tm dl m port hosts work = Some t /\ t <= dl + A.
Proof. exact run_time_bounded_gen. Qed.
Print Assumptions C17_run_time_bounded_by_probe_bound_partial.

(* the code before e383910 set no read deadline (go_timers): one host that accepts and stays silent
   — from the start, in the middle of the exchange, or after answering everything without
   closing — makes the run never return, whatever the probe timeout t, sendTimeout s and the
   run's deadline dl > 0 are. Replayed on the Go code by checks/c17.py (probe/run scenarios). *)
Theorem C17_run_time_refuted : forall t s dl, 0 < dl ->
  exists m port hosts work, run_time (go_timers t s) dl m port hosts work = None.
Proof. exact run_time_refuted. Qed.
Print Assumptions C17_run_time_refuted.

(* hypotheses are satisfiable / the definitions compute what the README's examples say *)
Example C17_readme_example_mac :
  device_name 25882 2001002 0 [0x00; 0xef; 0x16; 0x19; 0xfe; 0x16] = str "SpeedwayR-19-FE-16".
Proof. vm_compute. reflexivity. Qed.
Example C17_example_epc :
  device_name 50 50 1 [0x00; 0x1A; 0x00; 0x4F; 0xD9; 0xCA; 0x2B] = str "LLRP-001a004fd9ca2b".
Proof. vm_compute. reflexivity. Qed.
Example C17_example_short_mac : device_name 25882 2001008 0 [0xAB; 0x0C] = str "xSpan-ab0c".
Proof. vm_compute. reflexivity. Qed.
Example C17_example_run :
  (* host 2: an Up reader on the scan port 5084 AND a Down device on port 5085 listed after it;
     host 3: a Down device on the scan port; host 5: Up on another port only *)
  let devs := [mk_device (str "SpeedwayR-19-FE-16") (Some (2, 5084)) Up; mk_device (str "gw") (Some (2, 5085)) Down;
               mk_device (str "old") (Some (3, 5084)) Down; mk_device (str "x") (Some (5, 5085)) Up;
               mk_device (str "noaddr") None Up] in
  let hosts := fun a => if a =? 1 then Refuse else if a =? 4 then Garbage
                        else Answer (Some (25882, 2001002, str "5.14")) (Some (0, [0; 0; a; a; a])) in
  let tm := mk_timers 2 (Some 2) 20 true false in
  run_probed tm 300 (make_device_map devs) 5084 hosts [[1; 2]; [3; 4; 5]] = [1; 5; 4; 3] /\
  map fst (run_reported tm 300 (make_device_map devs) 5084 hosts [[1; 2]; [3; 4; 5]]) = [5; 3] /\
  run_time tm 300 (make_device_map devs) 5084 hosts [[1; 2]; [3; 4; 5]] = Some 0 /\
  run_time (go_timers 2 20) 300 (make_device_map devs) 5084 (fun _ => Silent) [[1; 2]; [3; 4]] = None.
Proof. vm_compute. repeat split; reflexivity. Qed.

(* the hypotheses of the bounded-time theorems are satisfiable (the timers of the code as it is: probe timeout
   300 ms = read deadline, sendTimeout 20 s, forced Close), and what the model says about chatty hosts:
   a host that never answers GET_READER_CONFIG but sends a KeepAlive every 100 ms is given up after sendTimeout
   (+ the next KeepAlive); a chatty host that refuses CLOSE_CONNECTION costs nothing, and is reported (it did
   identify itself); a host that chats for a while and then falls silent is cut off by the read deadline; the
   same refuser WITHOUT the forced Close blocks for ever when it is chatty and is cut off by the read deadline
   when it is silent *)
Example C17_example_chatty :
  let tm := go_timers_deadline 300 20000 in
  let ok := Ans 0 true in
  let host cfg cls chat per := mk_script (DialAccept 0) ok ok None cfg (Some (0, [0; 22; 37])) ok None cls false false None chat per in
  read_deadline tm = Some 300 /\ force_close tm = true /\ allowance tm = 21500 /\
  probe_time tm (Script (host NoAns ok [] (Some 100))) = Some 20100 /\
  probe_result tm (Script (host NoAns ok [] (Some 100))) = None /\
  probe_time tm (Script (host ok (Ans 0 false) [] (Some 100))) = Some 100 /\
  (exists i, probe_result tm (Script (host ok (Ans 0 false) [] (Some 100))) = Some i) /\
  probe_time tm (Script (host NoAns ok [100; 200; 400; 650; 900] None)) = Some 1200 /\
  run_time tm 1000 (fun _ => None) 5084 (fun _ => Script (host ok NoAns [] (Some 100))) [[1; 2]; [3]] = Some 20100 /\
  probe_time (mk_timers 300 (Some 300) 20000 false false) (Script (host ok (Ans 0 false) [] (Some 100))) = None /\
  probe_time (mk_timers 300 (Some 300) 20000 false false) (Script (host ok (Ans 0 false) [] None)) = Some 300 /\
  probe_time (mk_timers 300 (Some 300) 20000 false false) (Script (host ok NoAns [] None)) = Some 300.
Proof. vm_compute. repeat split; try reflexivity. eexists; reflexivity. Qed.

(* ---- "its CONFIGURED maximum duration": which configuration? ----
   Discover/Config.v: the service starts with a configuration c0; then, in any order and any number, the
   configuration provider delivers writable sections (updateWritableConfig), values of another type arrive and are
   ignored, and discovery runs start. For ALL such histories: *)

(* the configuration in force is the last one delivered (the start-up one if none was) *)
Theorem C17_config_in_force_is_last_delivered : forall c0 evs, in_force (crun c0 evs) = last_delivered c0 evs.
Proof. exact in_force_last_delivered. Qed.
Print Assumptions C17_config_in_force_is_last_delivered.

(* every run uses the configuration last delivered before it started — every setting of it: subnets, worker
   limit, probe timeout, scan port, maximum duration *)
Theorem C17_run_uses_last_delivered_config : forall c0 evs,
  used (crun c0 (evs ++ [Discover])) = last_delivered c0 evs :: used (crun c0 evs).
Proof. exact run_uses_last_delivered. Qed.
Print Assumptions C17_run_uses_last_delivered_config.

(* in particular a section delivered at run time and not superseded governs the next run, whatever the history
   before it and whatever runs / ignored deliveries lie in between *)
Theorem C17_delivered_config_governs_next_run : forall c0 evs c evs',
  (forall c', ~ In (Deliver c') evs') ->
  used (crun c0 (evs ++ Deliver c :: evs' ++ [Discover])) = c :: used (crun c0 (evs ++ Deliver c :: evs')).
Proof. exact delivered_then_used. Qed.
Print Assumptions C17_delivered_config_governs_next_run.

(* and the maximum duration that cuts the run off is the one last delivered: the run's context gets the deadline
   1000 ms x that value (none for 0), and no dial begins at or after it *)
Theorem C17_run_deadline_from_config : forall c,
  (c_max_s c = 0 -> run_deadline c = None) /\ (c_max_s c <> 0 -> run_deadline c = Some (1000 * c_max_s c)).
Proof. exact run_deadline_spec. Qed.
Print Assumptions C17_run_deadline_from_config.

Theorem C17_run_obeys_last_delivered_maximum : forall c0 evs tm m hosts work t,
  let c := last_delivered c0 evs in
  c_max_s c <> 0 ->
  In t (run_dial_times tm (1000 * c_max_s c) m (c_port c) hosts work) -> t < 1000 * c_max_s c.
Proof. exact run_obeys_last_delivered_maximum. Qed.
Print Assumptions C17_run_obeys_last_delivered_maximum.

Example C17_example_config_history :
  let c0 := mk_config (str "10.0.0.0/24") 4 2 5084 300 in        (* as shipped: five minutes *)
  let c1 := mk_config (str "10.0.0.0/24") 4 2 5084 0 in          (* no limit *)
  let c2 := mk_config (str "10.0.0.0/16") 50 1 5085 2 in         (* everything changed, two seconds *)
  used (crun c0 [Discover; Deliver c1; DeliverOther; Discover; Deliver c1; Deliver c2; Discover; DeliverOther; Discover]) = [c2; c2; c1; c0] /\
  run_deadline c0 = Some 300000 /\ run_deadline c1 = None /\ run_deadline c2 = Some 2000.
Proof. vm_compute. repeat split; reflexivity. Qed.

(* ---- what the read deadline bounds ----
   The bound above needs the deadline to cover each whole message (one period from the end of the previous message to
   the last byte of this one). If instead it is re-armed before every read — bounding only the time the connection may
   stay idle — a host that answers the first message and the negotiation and then trickles its GET_READER_CONFIG
   reply, one byte every g <= r, holds the probe for ever, with or without the forced Close (the read loop sits inside
   the message and does not see the client being closed), and a run with one such host never returns. *)
Theorem C17_trickler_blocks_with_idle_deadline : forall tm r g,
  read_deadline tm = Some r -> idle_deadline tm = true -> 0 < send_timeout tm -> 0 < g -> g <= r ->
  probe_time tm (Script (trickler g)) = None.
Proof. exact trickler_blocks. Qed.
Print Assumptions C17_trickler_blocks_with_idle_deadline.

Theorem C17_run_time_refuted_idle_deadline : forall tm r dl,
  read_deadline tm = Some r -> idle_deadline tm = true -> 0 < r -> 0 < send_timeout tm -> 0 < dl ->
  exists m port hosts work, run_time tm dl m port hosts work = None.
Proof. exact run_time_refuted_idle_deadline. Qed.
Print Assumptions C17_run_time_refuted_idle_deadline.

(* ---- "reported as received", whatever the run's deadline ----
   What a run reports about a host is what an undisturbed probe of that host returns: the deadline of the run, the
   other hosts, the registered devices and the distribution of addresses over workers decide WHETHER a host is probed,
   never WHAT is reported about it. So a reader that answers the whole exchange is either not reported or reported
   with the name, vendor, model and firmware it sent — wherever the deadline falls during its probe. *)
Theorem C17_reported_is_undisturbed_probe_result : forall tm dl m port hosts work a i,
  In (a, i) (run_reported tm dl m port hosts work) -> probe_result tm (hosts a) = Some i.
Proof. exact reported_is_probe_result. Qed.
Print Assumptions C17_reported_is_undisturbed_probe_result.

Example C17_example_trickle_and_deadlines :
  let tm := go_timers_deadline 600 20000 in
  let ok := Ans 0 true in
  let caps := Some (25882, 2001002, str "5.14") in
  let trick := mk_script (DialAccept 0) ok ok None (Trickle 400) (Some (0, [0; 25; 197; 214])) ok caps ok false true None [] None in
  (* a correct reader that takes 300 ticks for every answer: its probe ends after 1500 *)
  let slow := mk_script (DialAccept 0) (Ans 300 true) (Ans 300 true) None (Ans 300 true) (Some (0, [0; 25; 197; 214]))
                        (Ans 300 true) caps (Ans 300 true) false true None [] None in
  idle_deadline tm = false /\
  probe_time tm (Script trick) = Some 600 /\
  probe_time (mk_timers 600 (Some 600) 20000 true true) (Script trick) = None /\
  probe_time tm (Script slow) = Some 1500 /\
  (* whatever the run's deadline: reported with everything it sent, or not at all *)
  map (fun dl => map (fun ai => (i_name (snd ai), i_vendor (snd ai), i_model (snd ai)))
                     (run_reported tm dl (fun _ => None) 5084 (fun _ => Script slow) [[1]])) [0; 1; 700; 1000; 1300; 5000] =
  [[]; [(str "SpeedwayR-19-C5-D6", 25882, 2001002)]; [(str "SpeedwayR-19-C5-D6", 25882, 2001002)];
   [(str "SpeedwayR-19-C5-D6", 25882, 2001002)]; [(str "SpeedwayR-19-C5-D6", 25882, 2001002)]; [(str "SpeedwayR-19-C5-D6", 25882, 2001002)]].
Proof. vm_compute. repeat split; reflexivity. Qed.
