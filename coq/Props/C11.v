(* C11 — decoding arbitrary bytes always terminates with a value or an error.

   Property: for every message and parameter type and EVERY byte string, decoding returns in time
   proportional to the input length with either a value or an error; it never panics, never loops
   forever, never allocates more than a small multiple of the input size, and leaves the input
   bytes unmodified.

   Model: the decoder IR (DecIR/IR.v) with the Go slice-window semantics of DecIR/Sem.v; the programs are
   regenerated from generated_unmarshal.go on every run (build/gen/C11/DecPrograms.v) and the closed
   obligation `all_decoders_safe : all_safe all = true` is compiled there (Ob_all.v) and fed to the
   theorems below.  Proved here, for any program table accepted by the checker:
     never panics, never runs out of fuel (= every loop consumes input, every call gets a shorter
     window) for every input, window and fuel > len            — C11_safe_decoders_total
     no decoder contains a store through its input            — C11_safe_decoders_pure
     time and allocation are linear in the input length: for a table accepted by all_linear (= all_safe
     plus the "every byte is charged once per nesting level" discipline of DecIR/Linear.v),
       cost  <= coef ps * len + size ps   and   alloc <= coef ps * len + size ps,
     coef ps = 2 * (size ps + 1), size ps = largest block_size of a program  — C11_linear_decoders *)
From Coq Require Import ZArith List Bool Lia.
From LLRP Require Import DecIR.IR DecIR.Sem DecIR.Safe DecIR.SafeLemmas DecIR.SafeSound DecIR.Linear DecIR.Cost.
Import ListNotations.
Open Scope Z_scope.

(* forall ps accepted by safe_prog, forall decoder f of ps, forall input rd, forall window w (any offset,
   0 <= len <= cap), forall fuel > len, forall initial counters: the run returns (value or error). *)
Theorem C11_safe_decoders_total : forall ps, all_safe ps = true -> decoders_total ps.
Proof. exact safe_prog_sound. Qed.
Print Assumptions C11_safe_decoders_total.

(* the same for whole byte strings: UnmarshalBinary(bs) with len = cap = length bs *)
Theorem C11_safe_decoders_total_bytes : forall ps, all_safe ps = true ->
  forall f body, lookup ps f = Some body -> forall bs : list Z,
    classify (decode ps f bs) = OOk \/ classify (decode ps f bs) = OErr.
Proof.
  intros ps H f body L bs. unfold decode, run_top.
  destruct (safe_prog_sound ps H f body L (rd_of bs) (mkW 0 (Z.of_nat (length bs)) (Z.of_nat (length bs)))
              (S (length bs)) 0 0) as (ok & st & E).
  - cbn [wlen wcap]. lia.
  - cbn [wlen]. lia.
  - rewrite E. destruct ok; [left|right]; reflexivity.
Qed.
Print Assumptions C11_safe_decoders_total_bytes.

Theorem C11_safe_decoders_pure : forall ps, all_safe ps = true -> decoders_pure ps.
Proof. exact all_safe_pure. Qed.
Print Assumptions C11_safe_decoders_pure.

(* forall ps accepted by all_linear, forall decoder, input, window, fuel > len and initial counters c a: the run
   returns and has executed at most coef*len+size statements/element copies and allocated at most coef*len+size
   bytes/objects (cost: 1 per statement and loop-guard evaluation + 1 per element copied; alloc: bytes of
   slices and strings made + 1 per fixed-size object). *)
Theorem C11_linear_decoders : forall ps, all_linear ps = true -> decoders_linear ps.
Proof. exact linear_sound. Qed.
Print Assumptions C11_linear_decoders.

Theorem C11_linear_decoders_bytes : forall ps, all_linear ps = true ->
  forall f body, lookup ps f = Some body -> forall bs : list Z,
    exists ok st, decode ps f bs = FRet ok st
      /\ scost st <= coef ps * Z.of_nat (length bs) + size ps
      /\ salloc st <= coef ps * Z.of_nat (length bs) + size ps.
Proof.
  intros ps H f body L bs. unfold decode, run_top.
  destruct (linear_sound ps H f body L (rd_of bs) (mkW 0 (Z.of_nat (length bs)) (Z.of_nat (length bs)))
              (S (length bs)) 0 0) as (ok & st & E & C1 & C2).
  - cbn [wlen wcap]. lia.
  - cbn [wlen]. lia.
  - exists ok, st. cbn [wlen] in C1, C2. split; [exact E|]. split; lia.
Qed.
Print Assumptions C11_linear_decoders_bytes.

(* message-level entry points (Message.data and the client's reply/first-message buffering): with the guards that
   tools/go-ir found in front of every make([]byte, declared length) accepted by entries_ok, a message whose
   header declares n bytes is buffered only if n <= the guard's constant, and buffering plus decoding allocates at
   most (coef+1)*limit + size. *)
Theorem C11_entry_alloc_bound : forall ps gs unguarded, all_linear ps = true -> entries_ok gs unguarded = true ->
  forall g, In g gs -> forall n, 0 <= n -> cmp_eval (fst g) n (snd g) = false ->
  forall f body, lookup ps f = Some body -> forall bs : list Z, Z.of_nat (length bs) = n ->
    exists ok st, decode ps f bs = FRet ok st /\
      n + salloc st <= (coef ps + 1) * entry_limit gs + size ps /\
      scost st <= coef ps * entry_limit gs + size ps.
Proof. exact entry_alloc_bound. Qed.
Print Assumptions C11_entry_alloc_bound.

(* The hypotheses are satisfiable by a non-trivial table: a parameter with a fixed field and a loop of TLV
   sub-parameters decoded by a second (recursive) decoder, written the way the fixed generator writes them. *)
Definition ex_leaf : block :=
  BCons (SIf 0 (CCmp CLe (EConst 2) ELen) BNil (BCons SRetErr BNil))
 (BCons (SEval 1 (ERd 2 (EConst 0)))
 (BCons (SReslice 2 (EConst 2))
 (BCons (SLoop 3 0 (CCmp CGe ELen (EConst 4))
     (BCons (SLet 4 0 (ERd 2 (EConst 0)))
     (BCons (SLet 5 1 (ERd 2 (EConst 2)))
     (BCons (SIf 6 (CCmp CGt (EVar 1) ELen) (BCons SRetErr BNil) BNil)
     (BCons (SIf 7 (CCmp CLt (EVar 1) (EConst 4)) (BCons SRetErr BNil) BNil)
     (BCons (SSwitch 8 (EVar 0)
               (CCons 300 (BCons (SCall 9 0 (EConst 4) (Some (EVar 1))) BNil) CNil)
               (BCons (SBreak 0) BNil))
     (BCons (SReslice 10 (EVar 1)) BNil)))))))
 (BCons (SIf 11 (CCmp CGt ELen (EConst 0)) (BCons SRetErr BNil) BNil)
 (BCons SRetOk BNil))))).
Definition ex_table : programs := [(0, ex_leaf)].

Example C11_example_table_safe : all_safe ex_table = true /\ all_linear ex_table = true.
Proof. vm_compute. split; reflexivity. Qed.
Example C11_example_decodes :
  classify (decode ex_table 0 [0;7; 1;44;0;6;0;9; 1;44;0;12;0;1;1;44;0;6;0;5]) = OOk
  /\ classify (decode ex_table 0 [0;7; 1;44;0;3]) = OErr.
Proof. vm_compute. split; reflexivity. Qed.

(* the same decoder WITHOUT the `subLen < 4` check (the shape of the generator before the fix) is rejected,
   and indeed loops forever / panics: *)
Definition ex_leaf_unfixed : block :=
  BCons (SLoop 3 0 (CCmp CGe ELen (EConst 4))
     (BCons (SLet 4 0 (ERd 2 (EConst 0)))
     (BCons (SLet 5 1 (ERd 2 (EConst 2)))
     (BCons (SIf 6 (CCmp CGt (EVar 1) ELen) (BCons SRetErr BNil) BNil)
     (BCons (SSwitch 8 (EVar 0)
               (CCons 300 (BCons (SCall 9 0 (EConst 4) (Some (EVar 1))) BNil)
               (CCons 301 (BCons (SEval 12 (ERd 2 (EConst 4))) BNil) CNil))
               (BCons (SBreak 0) BNil))
     (BCons (SReslice 10 (EVar 1)) BNil))))))
 (BCons SRetOk BNil).
Example C11_example_unfixed_rejected :
  safe_prog [(0, ex_leaf_unfixed)] ex_leaf_unfixed = false
  /\ classify (decode [(0, ex_leaf_unfixed)] 0 [1;45;0;0;9;9]) = OHang 3
  /\ classify (decode [(0, ex_leaf_unfixed)] 0 [1;44;0;2]) = OPanic 9.
Proof. vm_compute. repeat split; reflexivity. Qed.

(* a decoder that is memory-safe and always terminates but re-decodes the rest of the buffer for every element
   (data[4:] instead of data[4:subLen]) is accepted by safe_prog and rejected by the linear discipline: *)
Definition ex_leaf_quadratic : block :=
  BCons (SIf 0 (CCmp CLe (EConst 2) ELen) BNil (BCons SRetErr BNil))
 (BCons (SReslice 2 (EConst 2))
 (BCons (SLoop 3 0 (CCmp CGe ELen (EConst 4))
     (BCons (SLet 5 1 (ERd 2 (EConst 2)))
     (BCons (SIf 6 (CCmp CGt (EVar 1) ELen) (BCons SRetErr BNil) BNil)
     (BCons (SIf 7 (CCmp CLt (EVar 1) (EConst 4)) (BCons SRetErr BNil) BNil)
     (BCons (SCall 9 0 (EConst 4) None)
     (BCons (SReslice 10 (EVar 1)) BNil))))))
 (BCons SRetOk BNil))).
Example C11_example_quadratic_rejected :
  all_safe [(0, ex_leaf_quadratic)] = true /\ all_linear [(0, ex_leaf_quadratic)] = false.
Proof. vm_compute. split; reflexivity. Qed.
