(* C07 — Every keep-alive is acknowledged exactly once.
   Only property statements; proofs in Client/InvAck.v and Client/C07Proofs.v over the client LTS
   Client/Model.v. Runs are arbitrary event lists: any placement of keep-alives in the inbound
   stream, any ids, any caller activity, any point of the connection set-up.

   Vocabulary: [acked s] = ids of the frames in [out s] that the write loop wrote on its own behalf;
   [ka_log s] = (id, queue length found) for every run of the ackHandler; [ka_enqueued s] = ids of
   the runs that found fewer than 5 pending (the others are dropped: the documented backlog);
   [ack_in_hand s] = the acknowledgement the write loop is holding, if any; [ackq s] = the queue. *)
From Coq Require Import NArith List Bool Sorted.
From LLRP Require Import Client.Types Client.Model Client.InvAck Client.C07Proofs.
From LLRP Require Client.C07Liveness Client.DeviceHandler Client.DeviceHandlerProofs.
Import ListNotations.
Open Scope N_scope.

(* 1. at every point of every run the acknowledgements written are a prefix of the keep-alives
      enqueued: same ids, same order, none twice (position-wise), none invented *)
Theorem C07_acks_match_keepalives : forall cfg evs,
  exists rest, ka_enqueued (run cfg evs) = acked (run cfg evs) ++ rest.
Proof. exact acks_prefix_of_enqueued. Qed.
Print Assumptions C07_acks_match_keepalives.

(* 2. exactly once: while the write loop has not died, every enqueued keep-alive is either
      already acknowledged on the wire, or in the write loop's hand, or still in the queue —
      nothing is lost and nothing is duplicated *)
Theorem C07_nothing_lost : forall cfg evs,
  let s := run cfg evs in
  writer s <> WDead ->
  ka_enqueued s = acked s ++ ack_in_hand s ++ ackq s.
Proof. exact acks_exact_while_writer_lives. Qed.
Print Assumptions C07_nothing_lost.

(* 3. every keep-alive frame that reaches the read loop of a client with the built-in handler is
      logged, and is enqueued iff fewer than 5 acknowledgements are pending in the queue
      (for ANY state, reachable or not; ack_cap = 5) *)
Theorem C07_keepalive_dispatch : forall cfg s f h,
  ack_handler cfg = true -> f_typ f = T_KeepAlive -> reader s = RRead ->
  let s' := step cfg s (RFrame f h) in
  ka_log s' = ka_log s ++ [(f_id f, length (ackq s))] /\
  ((length (ackq s) < ack_cap)%nat -> ackq s' = ackq s ++ [f_id f]) /\
  ((ack_cap <= length (ackq s))%nat -> ackq s' = ackq s).
Proof. exact keepalive_dispatch. Qed.
Print Assumptions C07_keepalive_dispatch.

(* 4. the log is exactly the keep-alives received, in arrival order: the logged ids are the ids of
      KeepAlive frames of the inbound stream at increasing positions. With 1. this gives "never
      acknowledges any other message" and "in order" *)
Theorem C07_log_is_received_keepalives : forall cfg evs,
  let s := run cfg evs in
  exists seqs : list nat,
    StronglySorted lt seqs /\
    Forall2 (fun q p => exists f, nth_error (peer_sent s) q = Some f /\ f_typ f = T_KeepAlive /\ f_id f = fst p)
            seqs (ka_log s).
Proof. exact ka_log_is_received_keepalives. Qed.
Print Assumptions C07_log_is_received_keepalives.

(* 5. every frame the write loop writes on its own behalf is a header-only KeepAliveAck whose id
      is an enqueued keep-alive's id *)
Theorem C07_own_frames_are_acks : forall cfg evs o,
  let s := run cfg evs in
  In o (out s) -> is_own o = true ->
  f_typ (o_frame o) = T_KeepAliveAck /\ f_len (o_frame o) = 0 /\ In (f_id (o_frame o)) (ka_enqueued s).
Proof. exact own_frames_are_acks. Qed.
Print Assumptions C07_own_frames_are_acks.

(* 6. acknowledging does not wait for application traffic: in ANY state in which the queue is not
      empty and the write loop is at one of its two selects, taking the acknowledgement is enabled —
      whatever the await map, the callers (queued or not) and the connection phase (negotiation
      included) are; they are left untouched — and the next write-loop step puts it on the wire. The acknowledgement
      carries the version that is current when the write loop TAKES it (reader.go stamps msg.version right after the
      select, before it blocks in Write): one taken while negotiation was still running keeps that version even if
      the negotiated version has changed by the time the peer reads it (found by the model-based walks, round 5) *)
Theorem C07_ack_not_blocked : forall cfg s i q,
  writer s = WTop \/ writer s = WInner -> ackq s = i :: q ->
  writer (step cfg s WTakeAck) = WHolding (stamp_o cfg (version s) (ack_frame i)) /\ ackq (step cfg s WTakeAck) = q /\
  awaiting (step cfg s WTakeAck) = awaiting s /\ callers (step cfg s WTakeAck) = callers s /\
  phase (step cfg s WTakeAck) = phase s.
Proof. exact ack_not_blocked. Qed.
Print Assumptions C07_ack_not_blocked.

Theorem C07_ack_written_next : forall cfg s v i,
  writer s = WHolding (stamp_o cfg v (ack_frame i)) ->
  out (step cfg s WWriteHdr) = out s ++ [stamp_o cfg v (ack_frame i)] /\
  writer (step cfg s WWriteHdr) = WTop /\
  f_id (o_frame (stamp_o cfg v (ack_frame i))) = i /\
  f_typ (o_frame (stamp_o cfg v (ack_frame i))) = T_KeepAliveAck.
Proof. exact ack_written_next. Qed.
Print Assumptions C07_ack_written_next.

(* 7. (added after the round-3 seeded changes) no bound on outstanding requests: accepting a queued
      request never looks at how many requests are already awaiting replies — for ANY state, i.e. any
      size of the awaiting map — and leaves the acknowledgement queue alone; with 6. acknowledging is
      enabled whatever the awaiting map is, and "take it, write it" is a two-step run from any state *)
Theorem C07_accept_any_outstanding : forall cfg s c r,
  writer s = WInner -> lookup c (callers s) = Some (Queued r) -> q_wait r = true ->
  let s' := step cfg s (WAccept c) in
  let id := if q_id r =? 0 then next_id s else q_id r in
  (exists o, writer s' = WHolding o /\ o_src o = Some c /\ f_id (o_frame o) = id) /\
  lookup id (awaiting s') = Some c /\ ackq s' = ackq s /\ ka_log s' = ka_log s.
Proof. exact C07Liveness.accept_any_outstanding. Qed.
Print Assumptions C07_accept_any_outstanding.

(* 8. liveness after an overflow of the backlog: from ANY state with the write loop at its select —
      whatever the history is, in particular however many keep-alives were dropped before (ka_log
      arbitrary), and whatever is outstanding — once the peer reads, the queued acknowledgements are
      written in order and the queue is empty ... *)
Theorem C07_backlog_drains : forall cfg q s,
  writer s = WTop -> ackq s = q ->
  let s' := run_from cfg s (C07Liveness.drain_events (length q)) in
  writer s' = WTop /\ ackq s' = [] /\ acked s' = acked s ++ q /\
  reader s' = reader s /\ ka_log s' = ka_log s /\ awaiting s' = awaiting s /\ closed s' = closed s.
Proof. exact C07Liveness.drain_acks. Qed.
Print Assumptions C07_backlog_drains.

(* ... and a keep-alive that arrives after the drain finds an empty queue, is enqueued and is
      acknowledged by the next two write-loop steps.  (The handler table is part of [config], constant
      during a run: "a panic does not unregister the handler" is tied to the code by the
      overflow-then-drain scripts of the check, not proved.) *)
Theorem C07_ack_after_overflow_and_drain : forall cfg s f h,
  ack_handler cfg = true -> f_typ f = T_KeepAlive ->
  writer s = WTop -> reader s = RRead ->
  let s1 := run_from cfg s (C07Liveness.drain_events (length (ackq s))) in
  let s2 := run_from cfg s1 [RFrame f h; WTakeAck; WWriteHdr] in
  acked s1 = acked s ++ ackq s /\ ackq s1 = [] /\
  ka_log s2 = ka_log s ++ [(f_id f, O)] /\
  acked s2 = acked s ++ ackq s ++ [f_id f] /\ ackq s2 = [] /\ writer s2 = WTop.
Proof. exact C07Liveness.ack_after_drain. Qed.
Print Assumptions C07_ack_after_overflow_and_drain.

(* ---- non-vacuity: negotiation in progress, two requests outstanding, a burst of 7 keep-alives
   while the peer does not read: the first is in the write loop's hand, five are queued, the
   seventh is dropped; then the peer reads and all six acknowledgements come out in order ---- *)
Definition cfg11 : config := mkConfig false false 2 true [] false.
Definition ren_ok : frame := mkFrame 2 T_ReaderEventNotification 0 22 9 (IConn 0).
Definition ka (i : N) : frame := mkFrame 2 T_KeepAlive i 0 0 IOpaque.
Definition burst : list event :=
  [ConnStart; ConnFirst ren_ok HBNone; NegSubmit 1000; RCheck;
   WDefault; WAccept 1000; WWriteHdr;                         (* GetSupportedVersion on the wire, unanswered *)
   RFrame (ka 11) HBNone; RCheck; WTakeAck;                   (* in hand: the peer does not read *)
   RFrame (ka 12) HBNone; RCheck; RFrame (ka 13) HBNone; RCheck; RFrame (ka 14) HBNone; RCheck;
   RFrame (ka 15) HBNone; RCheck; RFrame (ka 16) HBNone; RCheck;
   RFrame (ka 4294967295) HBNone; RCheck].                    (* seventh: queue full, dropped *)
Definition drain6 : list event :=
  [WWriteHdr; WTakeAck; WWriteHdr; WTakeAck; WWriteHdr; WTakeAck; WWriteHdr; WTakeAck; WWriteHdr; WTakeAck; WWriteHdr].

Example C07_example_backlog :
  let s := run cfg11 burst in
  phase s = PNegotiating NGsv (Some 1000) /\
  ack_in_hand s = [11] /\ ackq s = [12; 13; 14; 15; 16] /\ ka_dropped s = [4294967295] /\ acked s = [] /\
  acked (run cfg11 (burst ++ drain6)) = [11; 12; 13; 14; 15; 16] /\
  map (fun o => f_ver (o_frame o)) (out (run cfg11 (burst ++ drain6))) = [2; 2; 2; 2; 2; 2; 2].
Proof. vm_compute. repeat split; reflexivity. Qed.

(* ---- 9.-11. "Acknowledgement does not wait for application traffic" — the device service's handlers ----
   In the client LTS a handler runs to completion inside the RFrame event: that registered handlers RETURN is a premise
   of everything above (the library's own ackHandler returns by construction: non-blocking select). The device service
   (internal/driver/device.go) registers handlers for tag reports and reader events which publish to EdgeX through the
   asynchronous-values channel; its consumer is not under the service's control. Client/DeviceHandler.v models that
   corner — read loop, handler, channel of capacity cap (0 = unbuffered), consumer — in the two shapes forwarding can
   take. As the code does it (the handler hands the value to a goroutine of its own, which does the channel send):

   9.  the read loop is at its head after every step of every schedule — it never waits for the channel; *)
Theorem C07_device_handlers_never_hold_the_read_loop : forall cap evs s,
  DeviceHandler.rloop s = DeviceHandler.RLHead ->
  DeviceHandler.rloop (DeviceHandler.drun false cap evs s) = DeviceHandler.RLHead.
Proof. exact DeviceHandlerProofs.spawn_read_loop_never_blocks. Qed.
Print Assumptions C07_device_handlers_never_hold_the_read_loop.

(* 10. for every channel capacity, every inbound sequence of reports / events and keep-alives, and every schedule that
       lets the read loop take its |items| steps — whatever forwarding and consuming events are interleaved with them,
       in particular NO consuming event at all (EdgeX stalled for good) — exactly the keep-alive ids reach the
       acknowledgement queue, in order (from there on theorems 1-8 apply); *)
Theorem C07_device_acks_independent_of_application : forall cap items evs,
  filter DeviceHandler.is_read evs = repeat DeviceHandler.DRead (length items) ->
  DeviceHandler.acks (DeviceHandler.drun false cap evs (DeviceHandler.dinit items)) = DeviceHandler.ka_ids items.
Proof. exact DeviceHandlerProofs.spawn_keepalives_reach_ack_queue. Qed.
Print Assumptions C07_device_acks_independent_of_application.

(* 11. whereas a handler that does the channel send itself makes acknowledgement wait for the application: capacity 1,
       two tag reports and then keep-alive 7 — in EVERY schedule without a consuming event the keep-alive is never even
       read. The clause is FALSE of that shape. Which shape the code has is decided on the running device service: check
       scenarios "device-service" (harness/driver/c07_test.go: a real LLRPDevice from Driver.NewLLRPDevice, consumer of
       the channel stalled / slow, more reports than the channel holds, keep-alives in between). *)
Theorem C07_inline_forwarding_starves_keepalive_refuted : forall evs,
  forallb (fun e => negb (DeviceHandler.is_consume e)) evs = true ->
  DeviceHandler.acks (DeviceHandler.drun true 1 evs (DeviceHandler.dinit DeviceHandlerProofs.starving)) = [] /\
  DeviceHandler.ka_ids DeviceHandlerProofs.starving = [7].
Proof. exact DeviceHandlerProofs.inline_starves_keepalive. Qed.
Print Assumptions C07_inline_forwarding_starves_keepalive_refuted.

(* non-vacuity of 10: unbuffered channel, nobody consumes; report, keep-alive 1, two reports, keep-alive 2, with a
   (futile) forwarding attempt in between: both ids are queued, three forwarders are still waiting, nothing is in
   the channel — and on the same schedule the inline shape has acknowledged nothing *)
Example C07_device_example :
  let items := [DeviceHandler.IReport; DeviceHandler.IKeepAlive 1; DeviceHandler.IReport; DeviceHandler.IReport;
                DeviceHandler.IKeepAlive 2] in
  let evs := [DeviceHandler.DRead; DeviceHandler.DRead; DeviceHandler.DForward; DeviceHandler.DRead;
              DeviceHandler.DRead; DeviceHandler.DRead] in
  filter DeviceHandler.is_read evs = repeat DeviceHandler.DRead (length items) /\
  DeviceHandler.acks (DeviceHandler.drun false 0 evs (DeviceHandler.dinit items)) = [1; 2] /\
  DeviceHandler.forwarders (DeviceHandler.drun false 0 evs (DeviceHandler.dinit items)) = 3%nat /\
  DeviceHandler.acks (DeviceHandler.drun true 0 evs (DeviceHandler.dinit items)) = [].
Proof. cbv zeta. split; [reflexivity|]. split; [vm_compute; reflexivity|]. split; vm_compute; reflexivity. Qed.

(* ---- round 7: an abandoned Shutdown ----
   Shutdown is SendMessage(CloseConnection) + Close on an acceptable reply; until the write loop TAKES the CloseConnection
   nothing of it exists for the connection. Here Shutdown (caller 50) waits at the gate while negotiation is running and its
   context ends; a keep-alive that arrived meanwhile and one that arrives afterwards are both queued and acknowledged: the
   dispatch (theorem 3, any state) and the write loop (theorems 6-8) never look at whether somebody called Shutdown. The
   check family abandoned-shutdown ties this to the code (a flag raised by the CALL and consulted by the ackHandler is the
   change it reports). *)
Definition abandoned_shutdown_evs : list event :=
  [ConnStart; ConnFirst ren_ok HBNone; NegSubmit 1000; RCheck; WDefault; WAccept 1000; WWriteHdr;
   Submit 50 (mkReq T_CloseConnection 0 0 0 1 true true);
   RFrame (ka 21) HBNone; RCheck; WTakeAck; WWriteHdr;
   Cancel 50;
   RFrame (mkFrame 2 T_GetSupportedVersionResponse 0 10 7 (IVer 2 2 0)) HBNone; RCheck; NegStep; ConnReady;
   RFrame (ka 22) HBNone; RCheck; WTakeAck; WWriteHdr].
Example C07_abandoned_shutdown_example :
  let s := run cfg11 abandoned_shutdown_evs in
  caller_result s 50 = Some RErrCtx /\ phase s = PReady /\ closed s = false /\
  acked s = [21; 22] /\ ackq s = [] /\ writer s = WTop /\
  map (fun o => f_typ (o_frame o)) (out s) = [T_GetSupportedVersion; T_KeepAliveAck; T_KeepAliveAck].
Proof.
  cbv zeta. split; [vm_compute; reflexivity|]. split; [vm_compute; reflexivity|]. split; [vm_compute; reflexivity|].
  split; [vm_compute; reflexivity|]. split; [vm_compute; reflexivity|]. split; vm_compute; reflexivity.
Qed.
