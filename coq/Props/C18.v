(* C18 — Retry and back-off obey their limits for all inputs.
   Only property statements; each closed by [exact] of a lemma proved in
   Retry/NextWaitProofs.v or Retry/RetryLoopProofs.v.

   Reading of the history (Retry/RetryLoop.v): [pre] = ctx already ended on entry,
   [first] = outcome of the first call of f, [steps] = one event per loop iteration:
   StExceeds (wait would pass the deadline), StCtx c (ctx.Done wins the select: the
   context ended before or during the wait), StRun o (timer fires, f runs with outcome o),
   StRunCtxEnded c o (context already ended AND timer due; the runtime picked the timer). *)
From Coq Require Import ZArith List Bool.
From LLRP Require Import Retry.NextWait Retry.NextWaitProofs Retry.RetryLoop Retry.RetryLoopProofs.
From LLRP Require GoFn.IR Retry.NextWaitTie Retry.Relabel.
Import ListNotations.
Open Scope Z_scope.

(* ================================================================== the pause *)

(* never negative, never above the maximum in force — for every int64 BackOff/Max a caller can
   configure, every n (also <= 0 and >= 62) and every draw; the maximum in force is Max, or
   MaxInt64 when Max <= 0 was configured ("no maximum") *)
Theorem C18_pause_bounds : forall jitter base max n r,
  in_int64 base -> in_int64 max -> 0 <= r ->
  0 <= pause jitter base max n r <= norm_max max.
Proof. exact pause_bounds. Qed.
Print Assumptions C18_pause_bounds.

Theorem C18_pause_le_configured_max : forall jitter base max n r,
  in_int64 base -> in_int64 max -> 0 < max -> 0 <= r ->
  0 <= pause jitter base max n r <= max.
Proof. exact pause_le_configured_max. Qed.
Print Assumptions C18_pause_le_configured_max.

(* without jitter: min(max, base*2^(n-1)), simply max from the 63rd on, 0 for n <= 0 *)
Theorem C18_pause_nojitter : forall base max n r,
  in_int64 base -> in_int64 max ->
  pause false base max n r =
    if n <=? 0 then 0 else if 63 <=? n then norm_max max
    else Z.min (norm_max max) (norm_base base * 2 ^ (n - 1)).
Proof. exact pause_nojitter. Qed.
Print Assumptions C18_pause_nojitter.

(* with jitter: in [0, min(max, base*(2^n-1))] for every draw 0 <= r < 2^n *)
Theorem C18_pause_jitter : forall base max n r,
  in_int64 base -> in_int64 max -> 1 <= n -> 0 <= r < 2 ^ n ->
  0 <= pause true base max n r <= Z.min (norm_max max) (norm_base base * (2 ^ n - 1)).
Proof. exact pause_jitter. Qed.
Print Assumptions C18_pause_jitter.

(* also where naive arithmetic would overflow: no shift or product computed on the branch taken
   leaves int64, no divisor is 0, the argument of rand.Int63n is positive *)
Theorem C18_pause_no_overflow : forall jitter base max n r,
  in_int64 base -> in_int64 max ->
  (jitter = true -> 1 <= n <= 62 -> 0 <= r < 2 ^ n) ->
  next_wait_chk jitter (norm_base base) (norm_max max) n r = Some (pause jitter base max n r).
Proof. exact pause_no_overflow. Qed.
Print Assumptions C18_pause_no_overflow.

(* the same four facts about nextWait itself on the values RetryWithCtx can pass *)
Theorem C18_next_wait_bounds : forall jitter base max n r,
  1 <= base <= max_int64 -> 0 <= max <= max_int64 -> 0 <= r ->
  0 <= next_wait jitter base max n r <= max.
Proof. exact next_wait_bounds. Qed.
Print Assumptions C18_next_wait_bounds.

Theorem C18_next_wait_nojitter : forall base max n r,
  1 <= base <= max_int64 -> 0 <= max <= max_int64 ->
  next_wait false base max n r =
    if n <=? 0 then 0 else if 63 <=? n then max else Z.min max (base * 2 ^ (n - 1)).
Proof. exact next_wait_nojitter_formula. Qed.
Print Assumptions C18_next_wait_nojitter.

Theorem C18_next_wait_jitter : forall base max n r,
  1 <= base <= max_int64 -> 0 <= max <= max_int64 -> 1 <= n -> 0 <= r < 2 ^ n ->
  0 <= next_wait true base max n r <= Z.min max (base * (2 ^ n - 1)).
Proof. exact next_wait_jitter_range. Qed.
Print Assumptions C18_next_wait_jitter.

(* exact value with jitter: min(max, base * draw) *)
Theorem C18_next_wait_jitter_exact : forall base max n r,
  1 <= base <= max_int64 -> 0 <= max <= max_int64 -> 0 <= r ->
  next_wait true base max n r =
    if n <=? 0 then 0 else if 63 <=? n then max else Z.min max (base * r).
Proof. exact next_wait_jitter_formula. Qed.
Print Assumptions C18_next_wait_jitter_exact.

Theorem C18_next_wait_no_overflow : forall jitter base max n r,
  1 <= base <= max_int64 -> 0 <= max <= max_int64 ->
  (jitter = true -> 1 <= n <= 62 -> 0 <= r < 2 ^ n) ->
  next_wait_chk jitter base max n r = Some (next_wait jitter base max n r).
Proof. exact next_wait_no_overflow. Qed.
Print Assumptions C18_next_wait_no_overflow.

(* raw nextWait with BackOff = 0 (unreachable through Retry*, which turns BackOff <= 0 into 1)
   returns Max, not min(Max, 0): recorded, not part of the property (DESIGN §7) *)
Theorem C18_next_wait_base0 : forall jitter max n r,
  next_wait jitter 0 max n r = if n <=? 0 then 0 else max.
Proof. exact next_wait_base0. Qed.
Print Assumptions C18_next_wait_base0.

(* ================================================================== number of runs *)

(* runs at least once unless the context had ended on entry, then not at all *)
Theorem C18_runs_at_least_once : forall retries keep first steps,
  (1 <= runs (retry_run retries keep None first steps))%nat.
Proof. exact run_runs_ge1. Qed.
Print Assumptions C18_runs_at_least_once.

(* never more than the configured number of times in total *)
Theorem C18_runs_at_most_limit : forall retries keep pre first steps, retries <> -1 ->
  Z.of_nat (runs (retry_run retries keep pre first steps)) <= Z.max 1 retries.
Proof. exact run_runs_le. Qed.
Print Assumptions C18_runs_at_most_limit.

(* a count below one behaves as one: identical result, and exactly one run *)
Theorem C18_count_below_one_is_one : forall retries keep pre first steps,
  retries <> -1 -> retries < 1 ->
  retry_run retries keep pre first steps = retry_run 1 keep pre first steps.
Proof. exact run_below_one. Qed.
Print Assumptions C18_count_below_one_is_one.

Theorem C18_one_run : forall retries keep first steps,
  retries <> -1 -> retries <= 1 -> runs (retry_run retries keep None first steps) = 1%nat.
Proof. exact run_once. Qed.
Print Assumptions C18_one_run.

(* re-run until it has run the configured number of times: while every run fails recoverably
   and no context event intervenes, it runs exactly max(1, retries) times and then reports
   retries exhausted — whatever the history holds after that *)
Theorem C18_runs_until_limit : forall retries keep e0 s1 s2,
  forallb continuing s1 = true -> retries <> -1 ->
  Z.of_nat (length s1) + 1 = Z.max 1 retries ->
  let R := retry_run retries keep None (Rec e0) (s1 ++ s2) in
  ran R = Rec e0 :: flat_map out_of s1 /\ exists fe, res R = RetErr fe /\ main fe = ERetriesExceeded.
Proof. exact run_exhaust. Qed.
Print Assumptions C18_runs_until_limit.

(* 'forever' removes the limit: after ANY number of recoverable failures it still goes on *)
Theorem C18_forever_unbounded : forall retries keep e0 s1,
  forallb continuing s1 = true -> retries = -1 ->
  exists fe, retry_run retries keep None (Rec e0) s1 = mkRes (Rec e0 :: flat_map out_of s1) (RetMore fe).
Proof. exact run_forever. Qed.
Print Assumptions C18_forever_unbounded.

(* ================================================================== stops at once *)

(* an already ended context: f is not run *)
Theorem C18_ctx_ended_on_entry : forall retries keep c first steps,
  retry_run retries keep (Some c) first steps = mkRes [] (RetErr (mkFE (ECtx c) [] 0 0 0)).
Proof. exact run_pre_ended. Qed.
Print Assumptions C18_ctx_ended_on_entry.

(* first run: success or an unrecoverable error ends the call, whatever the history holds *)
Theorem C18_first_ok : forall retries keep steps,
  retry_run retries keep None Ok steps = mkRes [Ok] RetNil.
Proof. exact run_first_ok. Qed.
Print Assumptions C18_first_ok.

Theorem C18_first_fatal : forall retries keep e steps, exists fe,
  retry_run retries keep None (Fatal e) steps = mkRes [Fatal e] (RetErr fe) /\
  ferr_is fe (EUser e) = true /\ main fe = ERetriesExceeded.
Proof. exact run_first_fatal. Qed.
Print Assumptions C18_first_fatal.

(* later runs: after any number of recoverable failures (limit permitting) the next event
   decides at once and nothing that follows in the history ([s2]) matters: success, an
   unrecoverable error, the context ending before or in the middle of the wait, or a wait that
   would pass the deadline *)
Theorem C18_stops_at_once : forall retries keep e0 s1 ev s2,
  forallb continuing s1 = true ->
  (retries = -1 \/ Z.of_nat (length s1) + 1 < retries) ->
  let R := retry_run retries keep None (Rec e0) (s1 ++ ev :: s2) in
  let before := Rec e0 :: flat_map out_of s1 in
  match ev with
  | StRun Ok | StRunCtxEnded _ Ok => ran R = before ++ [Ok] /\ res R = RetNil
  | StRun (Fatal e) | StRunCtxEnded _ (Fatal e) =>
      ran R = before ++ [Fatal e] /\ exists fe, res R = RetErr fe /\ main fe = EUser e
  | StCtx c => ran R = before /\ exists fe, res R = RetErr fe /\ main fe = ECtx c
  | StExceeds => ran R = before /\ exists fe, res R = RetErr fe /\ main fe = EWaitExceedsDeadline
  | StRun (Rec _) | StRunCtxEnded _ (Rec _) => True
  end.
Proof. exact run_stops_at_once. Qed.
Print Assumptions C18_stops_at_once.

(* for EVERY history: once an event other than a recoverable failure occurs at iteration k,
   f is not called again (runs <= 1 + k (+1 if the event itself is a run)) *)
Theorem C18_no_run_after_stop : forall retries keep pre first steps k s,
  nth_error steps k = Some s -> continuing s = false ->
  (runs (retry_run retries keep pre first steps) <= 1 + k + length (out_of s))%nat.
Proof. exact run_stops. Qed.
Print Assumptions C18_no_run_after_stop.

(* FULL statement for the context, which is FALSE of the faithful model:
     forall retries keep first steps k s, nth_error steps k = Some s -> ctx_ended_at s = true ->
       (runs (retry_run retries keep None first steps) <= 1 + k)%nat
   ("once the context has ended f is not called again").  What is proved instead is the
   statement above for s = StCtx c (the select takes ctx.Done), i.e. for every wait in which the
   timer is not yet due when the context ends.  Missing: the iteration in which the context
   has already ended AND the timer is already due when the select is evaluated (a wait of 0 or
   of a few ns after the context ended during f): the loop does not look at ctx.Err() after
   <-delay.C, Go picks a ready case at random, and f is called again. *)
Theorem C18_no_run_after_ctx_end_refuted : exists retries keep first steps k s,
  nth_error steps k = Some s /\ ctx_ended_at s = true /\
  (1 + k < runs (retry_run retries keep None first steps))%nat.
Proof. exact run_after_ctx_end. Qed.
Print Assumptions C18_no_run_after_ctx_end_refuted.

(* ================================================================== success / failure *)

(* reports success exactly when its last run succeeded; every earlier run failed recoverably *)
Theorem C18_success_iff_last_ok : forall retries keep pre first steps,
  let R := retry_run retries keep pre first steps in
  res R = RetNil <-> exists l, ran R = l ++ [Ok].
Proof. exact run_success_iff_last_ok. Qed.
Print Assumptions C18_success_iff_last_ok.

Theorem C18_all_but_last_recoverable : forall retries keep pre first steps l o,
  ran (retry_run retries keep pre first steps) = l ++ [o] -> forallb is_rec l = true.
Proof. exact run_all_but_last_rec. Qed.
Print Assumptions C18_all_but_last_recoverable.

(* the failure returned matches (errors.Is) the reason it stopped — complete case analysis:
   context ended on entry | unrecoverable error of the last run | limit reached (then the
   number of runs is exactly max(1, retries)) | wait would exceed the deadline at the
   iteration after the last run | context ended at that iteration *)
Theorem C18_failure_reason_matches : forall retries keep pre first steps fe,
  let R := retry_run retries keep pre first steps in
  res R = RetErr fe ->
  (exists c, pre = Some c /\ runs R = O /\ ferr_is fe (ECtx c) = true) \/
  (pre = None /\ exists e, last (ran R) Ok = Fatal e /\ ferr_is fe (EUser e) = true) \/
  (pre = None /\ retries <> -1 /\ Z.of_nat (runs R) = Z.max 1 retries /\ ferr_is fe ERetriesExceeded = true) \/
  (pre = None /\ nth_error steps (runs R - 1) = Some StExceeds /\ ferr_is fe EWaitExceedsDeadline = true) \/
  (pre = None /\ exists c, nth_error steps (runs R - 1) = Some (StCtx c) /\ ferr_is fe (ECtx c) = true).
Proof. exact run_reason. Qed.
Print Assumptions C18_failure_reason_matches.

(* what errors.Is means for an FError and a plain target *)
Theorem C18_is_spec : forall fe t,
  ferr_is fe t = true <-> main fe = t \/ Forall (fun e => e = t) (others fe).
Proof. exact ferr_is_spec. Qed.
Print Assumptions C18_is_spec.

(* recorded, not demanded by the property: the FError for a context that had ended on entry
   has no Others, so its Is method answers true for every target *)
Theorem C18_is_vacuous_without_others : forall m t, ferr_is (mkFE m [] 0 0 0) t = true.
Proof. exact ferr_is_no_others. Qed.
Print Assumptions C18_is_vacuous_without_others.

(* ================================================================== kept errors *)

(* at most max(1, configured) errors are retained, and each is an error some run returned *)
Theorem C18_kept_errors_bound : forall retries keep pre first steps fe,
  ret_fe (res (retry_run retries keep pre first steps)) = Some fe ->
  Z.of_nat (length (others fe)) <= Z.max 1 keep.
Proof. exact run_kept_bound. Qed.
Print Assumptions C18_kept_errors_bound.

Theorem C18_kept_errors_were_seen : forall retries keep pre first steps fe,
  ret_fe (res (retry_run retries keep pre first steps)) = Some fe ->
  incl (others fe) (errs_seen (ran (retry_run retries keep pre first steps))).
Proof. exact run_kept_seen. Qed.
Print Assumptions C18_kept_errors_were_seen.

(* ================================================================== configuration -> pauses -> deadline *)

(* RetryWithCtx gets the CONFIGURED BackOff/Max (retry_run_cfg, to_steps): every pause the loop asks
   for is in [0, Max in force], and is at most the configured Max whenever a positive Max is
   configured — also for Max < BackOff, Max = BackOff, huge BackOff *)
Theorem C18_loop_pauses_bounded : forall ts cfg n w,
  in_int64 (c_backoff cfg) -> in_int64 (c_max cfg) ->
  Forall (fun t => 0 <= t_draw t) ts ->
  In w (pauses cfg n ts) ->
  0 <= w <= norm_max (c_max cfg) /\ (0 < c_max cfg -> w <= c_max cfg).
Proof. exact cfg_pauses_bounded. Qed.
Print Assumptions C18_loop_pauses_bounded.

(* the deadline pre-check of iteration k stops the call exactly when that pause is longer than
   the time left until the deadline *)
Theorem C18_deadline_precheck : forall ts cfg n k t,
  nth_error ts k = Some t ->
  (nth_error (to_steps cfg n ts) k = Some StExceeds <->
   exists d, t_remaining t = Some d /\ d < pause_of cfg (n + Z.of_nat k) (t_draw t)).
Proof. exact cfg_exceeds_iff. Qed.
Print Assumptions C18_deadline_precheck.

(* hence a deadline at least the configured Max away never ends the retries early *)
Theorem C18_far_deadline_never_stops : forall ts cfg n k t d,
  in_int64 (c_backoff cfg) -> in_int64 (c_max cfg) ->
  nth_error ts k = Some t -> 0 <= t_draw t ->
  t_remaining t = Some d -> norm_max (c_max cfg) <= d ->
  nth_error (to_steps cfg n ts) k = Some (ev_step (t_ev t)).
Proof. exact cfg_far_deadline. Qed.
Print Assumptions C18_far_deadline_never_stops.

(* ================================================================== non-vacuity *)

(* Quick = {50ms, 30s}: the 10th pause without jitter is 25.6s, the 11th is capped at 30s;
   5s base, 30min max overflows naive arithmetic at n = 62 and is capped *)
Example C18_example_quick :
  map (fun n => pause false 50000000 30000000000 n 0) [0; 1; 2; 10; 11; 62; 63; 70] =
  [0; 50000000; 100000000; 25600000000; 30000000000; 30000000000; 30000000000; 30000000000].
Proof. vm_compute. reflexivity. Qed.

Example C18_example_overflow_guard :
  5000000000 * 2 ^ 61 > max_int64 /\
  pause false 5000000000 1800000000000 62 0 = 1800000000000 /\
  pause true 5000000000 0 62 (2 ^ 62 - 1) = max_int64 /\
  pause false 0 0 62 0 = 2 ^ 61.
Proof. vm_compute. repeat split; reflexivity. Qed.

(* three recoverable failures with KeepErrs = 2, cancelled during the third wait *)
Example C18_example_run :
  let R := retry_run 7 2 None (Rec 0%nat)
             [StRun (Rec 1%nat); StRun (Rec 2%nat); StCtx Canceled; StRun Ok] in
  runs R = 3%nat /\
  exists fe, res R = RetErr fe /\ main fe = ECtx Canceled /\ length (others fe) = 2%nat /\
             ferr_is fe (ECtx Canceled) = true /\ ferr_is fe ERetriesExceeded = false.
Proof. vm_compute. split; [reflexivity|]. eexists. repeat split; reflexivity. Qed.

(* BackOff = 2h, Max = 2ms, deadline 1h away: all three runs happen and the limit ends the call;
   with no Max configured the first pause (2h) does not fit and the call ends after one run *)
Example C18_example_max_below_backoff :
  let h := 3600000000000 in
  let evs := [(0, WRun (Rec 1%nat)); (0, WRun (Rec 2%nat)); (0, WRun Ok)] in
  let run mx := let cfg := mkCfg (2 * h) mx false in
                retry_run_cfg cfg 3 2 None (Rec 0%nat) (sched cfg (Some h) 1 0 evs) in
  (runs (run 2000000) = 3%nat /\ exists fe, res (run 2000000) = RetErr fe /\ main fe = ERetriesExceeded) /\
  (runs (run 0) = 1%nat /\ exists fe, res (run 0) = RetErr fe /\ main fe = EWaitExceedsDeadline).
Proof. vm_compute. repeat split; try reflexivity; eexists; split; reflexivity. Qed.

(* limits beyond the point where nextWait saturates (n >= 63): a permanently failing operation
   stops after exactly 64, 70, 100 runs, Forever is still going after 100 *)
Example C18_example_limit_past_63 :
  let hist := repeat (StRun (Rec 1%nat)) 120 in
  map (fun r => runs (retry_run r 2 None (Rec 0%nat) hist)) [63; 64; 65; 70; 100; -1] =
    [63; 64; 65; 70; 100; 121]%nat /\
  exists fe, res (retry_run 64 2 None (Rec 0%nat) hist) = RetErr fe /\ main fe = ERetriesExceeded.
Proof. vm_compute. split; [reflexivity|]. eexists. split; reflexivity. Qed.

(* ================================================================== failure values

   Whether the operation is re-run is decided by the bool it returns, the limit and the context —
   never by the VALUE of the failure.  Renaming the failure values of a history by ANY function
   (also a non-injective one: every failure becomes one and the same value, e.g. the
   context.DeadlineExceeded of some other context) renames the result and changes nothing else. *)
Theorem C18_failure_values_do_not_matter : forall (f : nat -> nat) retries keep pre first steps,
  retry_run retries keep pre (Relabel.rl_out f first) (map (Relabel.rl_step f) steps) =
  Relabel.rl_res f (retry_run retries keep pre first steps).
Proof. exact Relabel.retry_run_relabel. Qed.
Print Assumptions C18_failure_values_do_not_matter.

Theorem C18_failure_values_same_runs : forall (f : nat -> nat) retries keep pre first steps,
  runs (retry_run retries keep pre (Relabel.rl_out f first) (map (Relabel.rl_step f) steps)) =
  runs (retry_run retries keep pre first steps) /\
  map is_rec (ran (retry_run retries keep pre (Relabel.rl_out f first) (map (Relabel.rl_step f) steps))) =
  map is_rec (ran (retry_run retries keep pre first steps)).
Proof. exact Relabel.relabel_same_runs. Qed.
Print Assumptions C18_failure_values_same_runs.

Example C18_example_all_failures_one_value :
  let steps := [StRun (Rec 1); StRun (Rec 2); StRun (Fatal 3); StRun Ok] in
  runs (retry_run 7 2 None (Rec 0) steps) = 4%nat /\
  runs (retry_run 7 2 None (Relabel.rl_out (fun _ => 9%nat) (Rec 0)) (map (Relabel.rl_step (fun _ => 9%nat)) steps)) = 4%nat.
Proof. vm_compute. split; reflexivity. Qed.

(* ================================================================== the code (Way 1)

   [f], [fm], [fb] are Go functions in the embedding GoFn/IR.v: nextWait and the normalisation of
   Max / BackOff in RetryWithCtx as translated from internal/retry/retry.go by tools/go-fn-ir on
   every run.  The per-run obligation (build/gen/C18/Ob_retry_*.v) proves the three hypotheses for
   THAT translation; then the pause the code computes before the n-th re-run — normalise, call
   nextWait with attempt n and draw r — is the model's [pause] for ALL int64 BackOff, Max, n, so
   every theorem above about [pause] is a theorem about the code, in particular its bounds. *)
Theorem C18_code_pause_is_model : forall f fm fb,
  NextWaitTie.code_is_next_wait f ->
  NextWaitTie.code_is_norm fm (fun _ m => norm_max m) ->
  NextWaitTie.code_is_norm fb (fun b _ => norm_base b) ->
  forall jitter base max keep retries n r,
    in_int64 base -> in_int64 max -> in_int64 retries -> in_int64 n ->
    NextWaitTie.draw_ok jitter n r -> 0 <= r ->
    exists b m,
      IR.run fb (NextWaitTie.ebo_args jitter base max keep retries) r = Some b /\
      IR.run fm (NextWaitTie.ebo_args jitter base max keep retries) r = Some m /\
      IR.run f (NextWaitTie.ebo_args jitter b m keep n) r = Some (pause jitter base max n r) /\
      0 <= pause jitter base max n r <= m.
Proof. exact NextWaitTie.code_pause_is_model. Qed.
Print Assumptions C18_code_pause_is_model.
