(* C20 — Struct fields shared between goroutines follow an access discipline that excludes data races.
   Only property statements; each closed by [exact] of a lemma proved in Race/DisciplineSound.v.

   The generic theorems below are about the ABSTRACT access program (Race/Discipline.v): a table
   of accesses (location, kind, goroutine role, phase, locks held) and the traces that are
   executions of it ([conforms]) under mutex semantics ([wf_trace]).  The per-run obligation
   [all_disciplined table = true] on the table regenerated from the Go source on every run
   (build/gen/C20/Obligation.v) instantiates [C20_discipline_sound].

   PARTIAL: that the regenerated table covers every memory access of the compiled code (and that
   roles, phases and held locks are attributed correctly, i.e. that real executions [conforms]
   to it, including the escape assumption for constructor-phase accesses) is TRUSTED; it is
   validated dynamically by the race detector. *)
From Coq Require Import List String Bool Arith.
From LLRP Require Import Race.Discipline Race.DisciplineSound.
Import ListNotations.
Open Scope string_scope.

(* MAIN: every execution of a table accepted by the checker is data-race free, where
     race_free tr := forall i j e1 e2, i <> j -> ev tr i e1 -> ev tr j e2 ->
                       conflicting e1 e2 -> hb tr i j \/ hb tr j i
   (any two accesses of one location by different threads, one of them a write, not both
   atomic, are ordered by happens-before) *)
Theorem C20_discipline_sound : forall P, all_disciplined P = true ->
  forall role_of tr, wf_trace tr -> conforms P role_of tr -> race_free tr.
Proof. exact discipline_sound. Qed.
Print Assumptions C20_discipline_sound.

(* per location: a disciplined location is never raced on, whatever the other locations do *)
Theorem C20_loc_discipline_sound : forall P x, loc_disciplined P x = true ->
  forall role_of tr, wf_trace tr -> conforms P role_of tr ->
  forall i j e1 e2, i <> j -> ev tr i e1 -> ev tr j e2 -> conflicting e1 e2 ->
    (exists s w at_, acc_of (e_op e1) = Some (x, s, w, at_)) ->
    hb tr i j \/ hb tr j i.
Proof. exact loc_discipline_sound. Qed.
Print Assumptions C20_loc_discipline_sound.

(* the five named rules each imply the pairwise criterion *)

(* (1) init-then-share: written only before the first spawn by one non-replicated role,
   afterwards only read, by that role or by threads it (transitively) spawned *)
Theorem C20_rule1_init_then_share : forall P x,
  rule_init P x = true -> loc_disciplined P x = true.
Proof. exact rule_init_sufficient. Qed.
Print Assumptions C20_rule1_init_then_share.

(* (2) after publication accessed by one non-replicated role only *)
Theorem C20_rule2_single_owner : forall P x,
  rule_owner P x = true -> loc_disciplined P x = true.
Proof. exact rule_owner_sufficient. Qed.
Print Assumptions C20_rule2_single_owner.

(* (3) never written after publication *)
Theorem C20_rule3_read_only : forall P x,
  rule_readonly P x = true -> loc_disciplined P x = true.
Proof. exact rule_readonly_sufficient. Qed.
Print Assumptions C20_rule3_read_only.

(* (4) after publication only atomics, or only channel operations / reads *)
Theorem C20_rule4_atomic_or_channel : forall P x,
  rule_atomic P x = true -> loc_disciplined P x = true.
Proof. exact rule_atomic_sufficient. Qed.
Print Assumptions C20_rule4_atomic_or_channel.

(* (5) lockset: every two conflicting post-publication accesses hold a common lock, one of
   them on the write side *)
Theorem C20_rule5_lockset : forall P x,
  rule_lockset P x = true -> loc_disciplined P x = true.
Proof. exact rule_lockset_sufficient. Qed.
Print Assumptions C20_rule5_lockset.

(* removing the undisciplined locations from a table leaves a disciplined table, so the rest
   of the fields can still be certified when one field is racy *)
Theorem C20_restriction : forall P,
  all_disciplined (without P (undisciplined_locs P)) = true.
Proof. exact without_disciplined. Qed.
Print Assumptions C20_restriction.

(* non-vacuity of the criterion: an unsynchronised write/read pair is rejected, and it has a
   well-formed conforming execution that does race *)
Theorem C20_criterion_not_vacuous :
  all_disciplined racy_prog = false
  /\ wf_trace racy_trace
  /\ conforms racy_prog racy_role racy_trace
  /\ ~ race_free racy_trace.
Proof.
  exact (conj racy_prog_undisciplined
          (conj racy_trace_wf (conj racy_trace_conforms racy_trace_has_race))).
Qed.
Print Assumptions C20_criterion_not_vacuous.

(* non-vacuity of the theorem: its hypotheses are satisfiable (same accesses under a mutex) *)
Example C20_hypotheses_satisfiable :
  wf_trace good_trace /\ conforms good_prog racy_role good_trace
  /\ all_disciplined good_prog = true.
Proof. exact (conj good_trace_wf (conj good_trace_conforms good_prog_disciplined)). Qed.
Print Assumptions C20_hypotheses_satisfiable.
