(* C05 — The outbound stream is a sequence of whole, correctly sized frames.
   Only property statements; proofs in Client/InvOut.v and Client/C05Proofs.v over the client LTS
   Client/Model.v. Runs are arbitrary event lists: any set of concurrent senders, any interleaving
   with acknowledgements, cancellations, closes, write failures.

   Vocabulary: [wire s] = every Write the write loop performed, in order ([CHdr o] = the 10 header
   bytes [hdr_bytes (o_frame o)], [CPay o] = the payload bytes, [CPartial] = a failed Write);
   [out s] = the frames completely written; [chunks_of o] = the Writes a complete frame consists of;
   [o_src o] = the caller a frame belongs to (None: the write loop's own KeepAliveAck). *)
From Coq Require Import NArith List Bool.
From LLRP Require Import Client.Types Client.Model Client.StepFacts Client.InvOut Client.C05Proofs.
Import ListNotations.
Open Scope N_scope.

(* 1. concatenation of complete frames, never interleaved: everything written is the frames of
      [out], one after the other, each header immediately followed by its own payload — plus at
      most one unfinished frame at the very end: the header whose payload the write loop is about
      to write, or the fragment of a Write that failed (after which nothing is written at all) *)
Theorem C05_outbound_is_frame_concat : forall cfg evs,
  exists tail, wire (run cfg evs) = flat_map chunks_of (out (run cfg evs)) ++ tail /\
               tail_ok (writer (run cfg evs)) tail.
Proof. exact wire_is_whole_frames. Qed.
Print Assumptions C05_outbound_is_frame_concat.

(* 2. the length field: payload lengths stay within what NewByteMessage / validateHeader accept,
      so the uint32 sum payloadLen + 10 written into the header does not wrap *)
Theorem C05_length_field_exact : forall cfg evs o,
  In o (out (run cfg evs)) ->
  f_len (o_frame o) <= max_payload /\ wire_len_field (o_frame o) = f_len (o_frame o) + 10.
Proof. exact length_field_exact. Qed.
Print Assumptions C05_length_field_exact.

(* 3. every frame that belongs to a caller carries exactly that caller's message type and
      payload (length and content tag) and the id the write loop assigned to it *)
Theorem C05_frame_carries_callers_request : forall cfg evs o c,
  let s := run cfg evs in
  In o (out s) -> o_src o = Some c ->
  exists p, lookup c (callers s) = Some p /\
    f_typ (o_frame o) = q_typ (req_of p) /\ f_len (o_frame o) = q_len (req_of p) /\
    f_tag (o_frame o) = q_tag (req_of p) /\ In (c, f_id (o_frame o)) (assigned s).
Proof. exact frame_carries_callers_request. Qed.
Print Assumptions C05_frame_carries_callers_request.

(* 4. every request appears at most once ... *)
Theorem C05_request_at_most_once : forall cfg evs c,
  (length (frames_of c (out (run cfg evs))) <= 1)%nat.
Proof. exact request_at_most_once. Qed.
Print Assumptions C05_request_at_most_once.

(* 5. ... and exactly once if its caller obtained a reply — unless the reply came while the write
      loop still held the request (a peer answering a request it has not received in full; the
      frame is then still to be written) or the write loop died with a write error *)
Theorem C05_exactly_once_if_replied : forall cfg evs c q f,
  let s := run cfg evs in
  caller_result s c = Some (ROk q f) ->
  length (frames_of c (out s)) = 1%nat \/
  (exists o, In o (held (writer s)) /\ o_src o = Some c) \/
  writer s = WDead.
Proof. exact exactly_once_if_replied. Qed.
Print Assumptions C05_exactly_once_if_replied.

(* 6. message ids on one connection are pairwise distinct, as long as no caller chose its own id
      (impossible through the exported API) and no more than 2^32 requests were accepted: the
      k-th accepted request gets id k mod 2^32 — the uint32 counter wraps *)
Theorem C05_ids_pairwise_distinct : forall cfg evs,
  no_preset evs ->
  N.of_nat (length (assigned (run cfg evs))) <= two32 ->
  NoDup (ids_assigned (run cfg evs)).
Proof. exact ids_pairwise_distinct. Qed.
Print Assumptions C05_ids_pairwise_distinct.

Theorem C05_id_is_counter_mod_2_32 : forall cfg evs k i,
  no_preset evs -> nth_error (ids_assigned (run cfg evs)) k = Some i -> i = (N.of_nat k) mod two32.
Proof. exact ids_wrap_statement. Qed.
Print Assumptions C05_id_is_counter_mod_2_32.

(* 8. a started frame is finished, or the connection is dead. Once the header of a frame has been written
      (the write loop is in WPayload o) every possible next event — of any caller, of the read loop, of Connect,
      Close, cancellations included — either leaves wire/out/the write loop untouched, or is the payload Write
      (the complete payload, then the loop goes on), or is a failing Write (the write loop dies: by theorem 1
      nothing is ever written after that). There is no transition that abandons a frame and goes on writing.
      What stays abstract: the payload Write is ONE event — how io.Copy chunks the payload is not modelled; a
      chunked copy that could be given up between chunks would be exactly the missing transition, and its absence in
      the code is checked dynamically (check family cancel-midframe: the peer stalls at every point of a large frame,
      the sender is cancelled, other traffic queues up, the raw wire must still parse as whole frames). *)
Theorem C05_started_frame_finished_or_dead : forall cfg evs o e,
  let s := run cfg evs in
  writer s = WPayload o ->
  let s' := step cfg s e in
  (writer s' = WPayload o /\ wire s' = wire s /\ out s' = out s) \/
  (e = WWritePay /\ wire s' = wire s ++ [CPay o] /\ out s' = out s ++ [o] /\ writer s' = after_frame o) \/
  (exists k, e = WriteFail k /\ writer s' = WDead /\ wire s' = wire s ++ [CPartial o true k] /\ out s' = out s).
Proof. exact started_frame_finished_or_dead. Qed.
Print Assumptions C05_started_frame_finished_or_dead.

(* 9. a caller giving up (context cancelled, or client closed) never touches the write side — in ANY state *)
Theorem C05_cancel_leaves_write_side : forall cfg s c,
  wire (step cfg s (Cancel c)) = wire s /\ out (step cfg s (Cancel c)) = out s /\ writer (step cfg s (Cancel c)) = writer s /\
  wire (step cfg s (SeeClosed c)) = wire s /\ out (step cfg s (SeeClosed c)) = out s /\ writer (step cfg s (SeeClosed c)) = writer s.
Proof. exact cancel_leaves_write_side. Qed.
Print Assumptions C05_cancel_leaves_write_side.

(* every complete frame is its header Write followed — iff the payload is not empty — by its
   payload Write; this includes CloseConnection frames (the write loop parks only after the whole
   frame, reader.go after commit 1713ba3) *)
Theorem C05_chunks_of_frame : forall o,
  chunks_of o = if f_len (o_frame o) =? 0 then [CHdr o] else [CHdr o; CPay o].
Proof. reflexivity. Qed.
Print Assumptions C05_chunks_of_frame.

(* History: before 1713ba3 the write loop parked right after the *header* of a CloseConnection, so
   SendMessage(MsgCloseConnection, non-empty payload) left a header announcing bytes that never
   followed. This check found it (signature closeconnection-payload-dropped, notes/C05.md); the
   scenario stays in the check, judged on Go's bytes. The model follows the fixed code: *)
Definition cfg_today : config := mkConfig true true 1 true [] false.
Definition ren_ok : frame := mkFrame 1 T_ReaderEventNotification 0 22 9 (IConn 0).
Definition close_with_payload : list event :=
  [ConnStart; ConnFirst ren_ok HBNone; ConnReady;
   Submit 1 (mkReq T_CloseConnection 5 77 0 1 true true); PassGate 1; WDefault; WAccept 1; WWriteHdr; WWritePay].

Example C05_close_connection_with_payload_is_whole :
  let s := run cfg_today close_with_payload in
  exists o, out s = [o] /\ wire s = [CHdr o; CPay o] /\ wire_len_field (o_frame o) = 15 /\ writer s = WParked.
Proof. eexists. vm_compute. repeat split; reflexivity. Qed.

(* ---- non-vacuity: two callers and an acknowledgement interleaved, a cancellation of a queued
   caller, header-only and payload frames ---- *)
Definition rq (typ len tag : N) : req := mkReq typ len tag 0 1 true true.
Definition example_evs : list event :=
  [ConnStart; ConnFirst ren_ok HBNone; ConnReady; RCheck;
   Submit 1 (rq 2 5 101); Submit 2 (rq 3 0 0); Submit 3 (rq 20 7 103);
   PassGate 1; PassGate 2; PassGate 3;
   WDefault; WAccept 2; WWriteHdr;                      (* header-only frame of caller 2, id 0 *)
   RFrame (mkFrame 1 T_KeepAlive 9 0 0 IOpaque) HBNone; RCheck;
   WTakeAck; WWriteHdr;                                 (* the acknowledgement goes first *)
   Cancel 3;                                            (* caller 3 gives up while queued: never written *)
   WDefault; WAccept 1; WWriteHdr].                     (* caller 1: header written, payload pending *)

Example C05_example :
  let s := run cfg_today example_evs in
  map (fun o => (o_src o, f_typ (o_frame o), f_id (o_frame o), f_len (o_frame o))) (out s)
    = [(Some 2, 3, 0, 0); (None, T_KeepAliveAck, 9, 0)] /\
  (exists o, writer s = WPayload o /\ o_src o = Some 1 /\ wire s = flat_map chunks_of (out s) ++ [CHdr o]) /\
  ids_assigned s = [0; 1] /\
  frames_of 3 (out s) = [] /\
  hdr_bytes (mkFrame 1 3 0 0 0 IOpaque) = [4; 3; 0; 0; 0; 10; 0; 0; 0; 0].
Proof. vm_compute. repeat split; try reflexivity. eexists. repeat split; reflexivity. Qed.

(* 10. The connection's outbound stream ends with a CloseConnection frame. Once a CloseConnection message has gone
      out completely — submitted by Shutdown or by a caller's own SendMessage, and whatever the reader answers, a
      refusal (status other than Success, the connection stays open) included — then for EVERY continuation of the
      run (further requests, keep-alives, cancellations, Close, ...) no byte is written, no frame is added and no
      request is given an id. So "the message ids given to requests on one connection are pairwise distinct"
      (theorem 6) is not endangered by traffic after a refused CloseConnection: there is no transition that makes the
      write loop resume. A write loop that did resume would have to carry its id counter across the pause; the check
      family after-close (requests, Shutdown answered with a non-Success status, further requests on the same
      connection) compares the code with this model and judges the ids it sees on the wire. *)
Theorem C05_nothing_written_after_close_connection : forall cfg evs evs' o,
  let s := run cfg evs in
  In o (out s) -> f_typ (o_frame o) = T_CloseConnection ->
  let s' := run_from cfg s evs' in
  out s' = out s /\ wire s' = wire s /\ assigned s' = assigned s.
Proof. exact nothing_written_after_close_connection. Qed.
Print Assumptions C05_nothing_written_after_close_connection.

(* non-vacuity: a request answered, Shutdown (caller 2) whose CloseConnection (id 1) the reader refuses with status
   101; then a third caller submits a request, a keep-alive arrives and the write loop is offered every move it
   has: the stream still ends with the CloseConnection frame, ids are [0; 1], caller 3 stays queued, the
   acknowledgement stays in the queue *)
Definition refused_shutdown : list event :=
  [ConnStart; ConnFirst ren_ok HBNone; ConnReady; RCheck;
   Submit 1 (rq 2 5 101); PassGate 1; WDefault; WAccept 1; WWriteHdr; WWritePay;
   RFrame (mkFrame 1 12 0 3 7 IOpaque) HBNone; RCheck;
   Submit 2 (mkReq T_CloseConnection 0 0 0 1 true true); PassGate 2; WDefault; WAccept 2; WWriteHdr;
   RFrame (mkFrame 1 T_CloseConnectionResponse 1 8 55 (IStatus 101)) HBNone; RCheck].
Definition after_refusal : list event :=
  [ShutdownClose 2; Submit 3 (rq 20 7 103); PassGate 3; WDefault; WAccept 3; WWriteHdr; WWritePay;
   RFrame (mkFrame 1 T_KeepAlive 9 0 0 IOpaque) HBNone; RCheck; WTakeAck; WWriteHdr; WSeeDone].

Example C05_refused_shutdown_example :
  let s := run cfg_today refused_shutdown in
  let s' := run_from cfg_today s after_refusal in
  map (fun o => (f_typ (o_frame o), f_id (o_frame o))) (out s) = [(2, 0); (T_CloseConnection, 1)] /\
  caller_result s 2 = Some (ROk 2%nat (mkFrame 1 T_CloseConnectionResponse 1 8 55 (IStatus 101))) /\
  closed s' = false /\ out s' = out s /\ ids_assigned s' = [0; 1] /\
  caller_phase s' 3 = Some (Queued (rq 20 7 103)) /\ ackq s' = [9] /\ writer s' = WParked.
Proof. vm_compute. repeat split; reflexivity. Qed.

(* ---- round 7: two more runs the theorems above already cover, written out ----
   (a) An application that replaced the built-in KeepAlive handler acknowledges by hand: it submits a header-only
   KeepAliveAck through SendNoWait. DECISION: such a message is a request for theorem 6 — everything taken from the
   send queue with id 0 is numbered by the counter ([assigned] does not look at the type), so its id cannot depend on
   anything the reader chose: here the reader's keep-alive carries id 1 (an id the counter has already given), the
   hand-written acknowledgement gets the next id, 2.
   (b) Close() lands between the header and the payload of a frame (theorem 8): the write loop is still in WPayload,
   the next write-loop step writes the complete payload, and only then the loop sees done. *)
Definition cfg_noack : config := mkConfig true true 1 false [T_KeepAlive] false.
Definition manual_ack_evs : list event :=
  [ConnStart; ConnFirst ren_ok HBNone; ConnReady; RCheck;
   Submit 1 (rq 2 5 101); PassGate 1; WDefault; WAccept 1; WWriteHdr; WWritePay;
   Submit 2 (rq 3 0 0); PassGate 2; WDefault; WAccept 2; WWriteHdr;
   RFrame (mkFrame 1 T_KeepAlive 1 0 0 IOpaque) HBNone; RCheck;
   Submit 3 (mkReq T_KeepAliveAck 0 0 0 1 false true); PassGate 3; WDefault; WAccept 3; WWriteHdr].
Example C05_manual_ack_example :
  let s := run cfg_noack manual_ack_evs in
  ids_assigned s = [0; 1; 2] /\ ackq s = [] /\
  map (fun o => (o_src o, f_typ (o_frame o), f_id (o_frame o))) (out s) = [(Some 1, 2, 0); (Some 2, 3, 1); (Some 3, T_KeepAliveAck, 2)].
Proof. cbv zeta. split; [vm_compute; reflexivity|]. split; vm_compute; reflexivity. Qed.

Definition close_midframe_evs : list event :=
  [ConnStart; ConnFirst ren_ok HBNone; ConnReady; RCheck;
   Submit 1 (rq 2 40000 101); PassGate 1; WDefault; WAccept 1; WWriteHdr; Close; ConnSelect false; SeeClosed 1].
Example C05_close_midframe_example :
  let s := run cfg_today close_midframe_evs in
  let o := mkOFrame (mkFrame 1 2 0 40000 101 IOpaque) (Some 1) in
  let s' := run_from cfg_today s [WSeeDone; WWritePay; WSeeDone] in
  writer s = WPayload o /\ wire s = [CHdr o] /\ out s = [] /\
  out s' = [o] /\ wire s' = [CHdr o; CPay o] /\ writer s' = WExit /\
  closed s = true /\ caller_result s 1 = Some RErrClosed.
Proof.
  cbv zeta. split; [vm_compute; reflexivity|]. split; [vm_compute; reflexivity|]. split; [vm_compute; reflexivity|].
  split; [vm_compute; reflexivity|]. split; [vm_compute; reflexivity|]. split; [vm_compute; reflexivity|].
  split; vm_compute; reflexivity.
Qed.
