(* C08 — Nothing is sent before a successful connection event; requests wait for setup.
   Only property statements; each closed by [exact] of a lemma proved in Client/C08Proofs.v
   (invariants: Client/InvC08.v, Client/InvC08Gate.v). The model is the client LTS Client/Model.v;
   a run is an arbitrary event list = an arbitrary first frame (or none), arbitrary replies, and an
   arbitrary schedule of any number of callers, the two loops, Connect, Close.

   Vocabulary. [peer_sent s]: the frames read from the connection, in order (frame 0 is the one
   checkInitialMessage reads). [f_info f] is what a correct decoder sees in the payload:
   [IConn st] = "decodes as ReaderEventNotification and carries ConnectionAttemptEvent = st".
   [out s] / [wire s]: frames completely written / every Write that happened. [ready s]: c.ready is
   closed. A request has [q_gate = true] when it came through SendMessage / SendNoWait / Shutdown (they
   wait for c.ready); negotiate's internal sends have [q_gate = false]. *)
From Coq Require Import NArith List Bool.
From LLRP Require Import Client.Types Client.Model Client.InvC08 Client.InvC08Gate Client.C08Proofs Client.C08Timeout Client.C08Wire Client.C08Neg.
From LLRP Require Client.Stream Client.Hostile Client.HostileProofs Client.C08Bytes.
Import ListNotations.
Open Scope N_scope.

(* what the initial check accepts, spelled out *)
Theorem C08_first_ok_spec : forall f, first_ok f = true <->
  f_typ f = T_ReaderEventNotification /\ f_len f <= max_buffered /\ f_info f = IConn Status_Success.
Proof. exact first_ok_spec. Qed.
Print Assumptions C08_first_ok_spec.

(* one step: in checkInitialMessage, a first frame takes Connect on to negotiation iff it is a
   ReaderEventNotification within the size limit that decodes and reports Success; any other frame
   ends Connect with an error, the client closed (and the gate opened onto a closed client) *)
Theorem C08_check_initial_decides : forall cfg s f h, phase s = PCheckInitial ->
  let s' := step cfg s (ConnFirst f h) in
  (first_ok f = true -> (exists st, phase s' = PNegotiating st None) /\ closed s' = closed s /\ ready s' = ready s) /\
  (first_ok f = false -> phase s' = PReturned CErrInit /\ closed s' = true /\ ready s' = true).
Proof. exact check_initial_decides. Qed.
Print Assumptions C08_check_initial_decides.

Theorem C08_no_first_message_fails : forall cfg s, phase s = PCheckInitial ->
  let s' := step cfg s ConnFirstFail in phase s' = PReturned CErrInit /\ closed s' = true.
Proof. exact no_first_message_fails. Qed.
Print Assumptions C08_no_first_message_fails.

(* the read deadline (client built WithTimeout) as an environment event: in EVERY state in which the client is reading — Connect in
   checkInitialMessage, before any loop exists, as well as the read loop — the timeout is enabled and ends that read with an error:
   in the initial check Connect fails, the client is closed, nothing has been or is written; in the read loop the loop reports its
   error (the orderly end after CloseConnectionResponse, [saw_close], is C09's business). A reader that accepts the connection and
   then sends nothing, or part of a message, cannot hold a client that has a timeout. *)
Theorem C08_read_timeout_ends_every_read : forall cfg s,
  (phase s = PCheckInitial ->
     let s' := step cfg s ConnFirstFail in
     phase s' = PReturned CErrInit /\ closed s' = true /\ ready s' = true /\ out s' = out s /\ wire s' = wire s) /\
  (reader s = RRead -> saw_close s = false ->
     forall p, p = EofBoundary \/ p = EofMidHeader ->
     let s' := step cfg s (PeerEOF p) in reader s' = RDead /\ errs s' = errs s ++ [ERead]).
Proof. exact read_timeout_ends_every_read. Qed.
Print Assumptions C08_read_timeout_ends_every_read.

Theorem C08_first_read_timeout_over_runs : forall cfg evs,
  let s := run cfg evs in
  phase s = PCheckInitial ->
  let s' := step cfg s ConnFirstFail in
  phase s' = PReturned CErrInit /\ closed s' = true /\ out s' = [] /\ wire s' = [].
Proof. exact first_read_timeout_over_runs. Qed.
Print Assumptions C08_first_read_timeout_over_runs.

(* over every run: Connect is past the initial check exactly when frame 0 of the inbound stream
   passes it; and when the check failed, frame 0 (if there is one) does not pass it and no other
   frame was ever read *)
Theorem C08_connect_ok_iff_conn_success : forall cfg evs,
  let s := run cfg evs in
  (passed (phase s) = true <-> exists f, nth_error (peer_sent s) 0 = Some f /\ first_ok f = true) /\
  (phase s = PReturned CErrInit -> peer_sent s = [] \/ exists f, peer_sent s = [f] /\ first_ok f = false).
Proof. exact connect_ok_iff_conn_success. Qed.
Print Assumptions C08_connect_ok_iff_conn_success.

(* as long as the initial check has not succeeded nothing has been written — not a frame, not a
   byte — and neither loop exists *)
Theorem C08_nothing_written_before_ok : forall cfg evs,
  let s := run cfg evs in
  passed (phase s) = false -> out s = [] /\ wire s = [] /\ writer s = WNone /\ reader s = RNone.
Proof. exact nothing_written_before_ok. Qed.
Print Assumptions C08_nothing_written_before_ok.

(* ... and for ever, whatever happens afterwards, if the check failed *)
Theorem C08_nothing_written_after_failed_check : forall cfg evs evs',
  phase (run cfg evs) = PReturned CErrInit ->
  let s' := run cfg (evs ++ evs') in
  phase s' = PReturned CErrInit /\ out s' = [] /\ wire s' = [] /\ closed s' = true.
Proof. exact nothing_written_after_failed_check. Qed.
Print Assumptions C08_nothing_written_after_failed_check.

(* early requests. [exported_only evs]: external callers use the exported API (every Submit is gated);
   the unexported send is used by negotiate only (NegSubmit). *)
(* (a) while the gate is shut a request is at the gate (or has given up with ctx / closed error),
       has not been handed to the write loop, and nothing of it is written *)
Theorem C08_early_requests_held_back : forall cfg evs, exported_only evs ->
  let s := run cfg evs in
  ready s = false ->
  forall c p, lookup c (callers s) = Some p -> q_gate (req_of p) = true ->
    at_gate p /\ (forall o, In o (out s) -> o_src o <> Some c) /\
    (forall o, writer s = WHolding o \/ writer s = WPayload o -> o_src o <> Some c).
Proof. exact held_back_until_ready. Qed.
Print Assumptions C08_early_requests_held_back.

(* (b) the gate is open only when setup is over: negotiation finished (PReady or later) — or the
       initial check failed, in which case nothing is ever written (above) *)
Theorem C08_gate_opens_after_setup : forall cfg evs, exported_only evs ->
  ready (run cfg evs) = true -> setup_over (phase (run cfg evs)).
Proof. exact ready_means_setup_over. Qed.
Print Assumptions C08_gate_opens_after_setup.

(* (c) on the wire every negotiation frame precedes every frame of a caller's request *)
Theorem C08_early_requests_after_negotiation : forall cfg evs, exported_only evs ->
  let s := run cfg evs in
  forall i j oi oj ci cj pi pj,
    nth_error (out s) i = Some oi -> nth_error (out s) j = Some oj ->
    o_src oi = Some ci -> lookup ci (callers s) = Some pi -> q_gate (req_of pi) = false ->
    o_src oj = Some cj -> lookup cj (callers s) = Some pj -> q_gate (req_of pj) = true ->
    (i < j)%nat.
Proof. exact negotiation_frames_first. Qed.
Print Assumptions C08_early_requests_after_negotiation.

(* (d) if setup fails in negotiation the gate never opens: for ever after, the client is closed,
       every request is still at the gate or has returned an error, and none of it is ever written.
       (If setup fails in the initial check the gate is opened onto a closed client and nothing at all is
       ever written: C08_nothing_written_after_failed_check. That a caller waiting on a closed client has
       its way out enabled is C09_no_caller_stuck.) *)
Theorem C08_setup_failure_fails_callers : forall cfg evs evs' r, exported_only (evs ++ evs') ->
  phase (run cfg evs) = PReturned r -> ready (run cfg evs) = false ->
  let s' := run cfg (evs ++ evs') in
  closed s' = true /\ ready s' = false /\
  forall c p, lookup c (callers s') = Some p -> q_gate (req_of p) = true ->
    at_gate p /\ (forall o, In o (out s') -> o_src o <> Some c).
Proof. exact setup_failure_fails_callers. Qed.
Print Assumptions C08_setup_failure_fails_callers.

(* ---- non-vacuity ---------------------------------------------------------------------- *)
Definition cfg11 : config := mkConfig true true 2 true [] false.     (* a 1.1 client, today's code *)
Definition ren (st : N) : frame := mkFrame 2 T_ReaderEventNotification 0 22 9 (IConn st).
Definition rq (typ len tag : N) : req := mkReq typ len tag 0 1 true true.
Definition gsvr : frame := mkFrame 2 T_GetSupportedVersionResponse 0 10 50 (IVer 1 2 0).
Definition spvr : frame := mkFrame 2 T_SetProtocolVersionResponse 1 8 51 (IStatus 0).

(* a caller before Connect, one during negotiation; reader at 1.0.1 able to do 1.1: GetSupportedVersion,
   SetProtocolVersion, and only then the two requests *)
Definition evs_ok : list event :=
  [Submit 1 (rq 20 5 101); ConnStart; ConnFirst (ren 0) HBNone;
   NegSubmit 1000; WDefault; WAccept 1000; WWriteHdr; RCheck;
   Submit 2 (rq 2 0 0);
   RFrame gsvr HBNone; NegStep;
   NegSubmit 1001; WDefault; WAccept 1001; WWriteHdr; WWritePay; RCheck; RFrame spvr HBNone; NegStep;
   ConnReady; PassGate 1; PassGate 2; WDefault; WAccept 2; WWriteHdr; WDefault; WAccept 1; WWriteHdr; WWritePay].

Example C08_example_ok :
  let s := run cfg11 evs_ok in
  exported_only evs_ok /\
  map (fun o => (f_typ (o_frame o), f_ver (o_frame o), f_id (o_frame o), o_src o)) (out s) =
    [(T_GetSupportedVersion, 2, 0, Some 1000); (T_SetProtocolVersion, 2, 1, Some 1001); (2, 2, 2, Some 2); (20, 2, 3, Some 1)] /\
  ready s = true /\ phase s = PReady /\ version s = 2.
Proof. vm_compute. repeat split; auto. repeat constructor. Qed.

(* before ConnReady the same run has both callers at the gate and only negotiation frames out *)
Example C08_example_held :
  let s := run cfg11 (firstn 19 evs_ok) in
  ready s = false /\ length (out s) = 2%nat /\
  caller_phase s 1 = Some (Gate (rq 20 5 101)) /\ caller_phase s 2 = Some (Gate (rq 2 0 0)).
Proof. vm_compute. repeat split; reflexivity. Qed.

(* "reader already connected" as the first message: Connect fails, nothing is ever written, callers get the
   closed error *)
Definition evs_bad : list event :=
  [Submit 1 (rq 20 5 101); ConnStart; ConnFirst (ren 2) HBNone; Submit 2 (rq 2 0 0); PassGate 2; WDefault; WAccept 2;
   SeeClosed 1; SeeClosed 2].
Example C08_example_bad :
  let s := run cfg11 evs_bad in
  phase s = PReturned CErrInit /\ out s = [] /\ wire s = [] /\
  caller_result s 1 = Some RErrClosed /\ caller_result s 2 = Some RErrClosed.
Proof. vm_compute. repeat split; reflexivity. Qed.

(* ---- round-5 addenda ---------------------------------------------------------------------- *)
(* (e) the same on the wire, by message type: while the gate is shut, every frame the write loop has taken on (written,
       or in its hand) is one of its own KeepAliveAcks, a GetSupportedVersion or a SetProtocolVersion. No request of a
       caller — and in particular no CloseConnection of a Shutdown issued before Connect, before the first message or
       while negotiation is outstanding — gets ahead of negotiation. (Client/C08Wire.v) *)
Theorem C08_only_negotiation_frames_before_setup_is_over : forall cfg evs, exported_only evs ->
  let s := run cfg evs in
  ready s = false ->
  forall o, In o (out s) \/ writer s = WHolding o \/ writer s = WPayload o ->
    o_src o = None \/ f_typ (o_frame o) = T_GetSupportedVersion \/ f_typ (o_frame o) = T_SetProtocolVersion.
Proof. exact only_negotiation_frames_before_ready. Qed.
Print Assumptions C08_only_negotiation_frames_before_setup_is_over.

(* a Shutdown before Connect and another one while GetSupportedVersion is outstanding (reader at 1.1): both wait at the gate,
   the wire holds the negotiation frame only; after ConnReady the first to pass writes CloseConnection *)
Definition shutdown_rq : req := mkReq T_CloseConnection 0 0 0 1 true true.
Definition gsvr22 : frame := mkFrame 2 T_GetSupportedVersionResponse 0 10 50 (IVer 2 2 0).
Definition evs_shutdown : list event :=
  [Submit 1 shutdown_rq; ConnStart; ConnFirst (ren 0) HBNone;
   NegSubmit 1000; WDefault; WAccept 1000; WWriteHdr; RCheck;
   Submit 2 shutdown_rq; PassGate 1; PassGate 2; WDefault; WAccept 1; WAccept 2;
   RFrame gsvr22 HBNone; NegStep].
Example C08_example_shutdown_held :
  let s := run cfg11 evs_shutdown in
  exported_only evs_shutdown /\ ready s = false /\
  map (fun o => f_typ (o_frame o)) (out s) = [T_GetSupportedVersion] /\
  caller_phase s 1 = Some (Gate shutdown_rq) /\ caller_phase s 2 = Some (Gate shutdown_rq) /\
  map (fun o => f_typ (o_frame o))
      (out (run cfg11 (evs_shutdown ++ [ConnReady; PassGate 1; WDefault; WAccept 1; WWriteHdr]))) =
    [T_GetSupportedVersion; T_CloseConnection].
Proof. vm_compute. repeat split; auto. repeat constructor. Qed.

(* (f) the first message read off the BYTES the reader delivers (Client/C08Bytes.v, on the byte-level model of
       checkInitialMessage, Hostile.check_initial): for every byte stream, Connect gets past the initial check exactly
       when the stream holds a complete header, the announced payload fits the limit, ALL the announced payload bytes
       are there, the type is ReaderEventNotification and those bytes decode to ConnectionAttemptEvent = Success *)
Theorem C08_first_message_bytes_accepted_iff : forall maxbuf cfg fl D bs rest',
  Hostile.ci_res (Hostile.check_initial maxbuf cfg fl D bs) = Hostile.CiOk rest' <->
  exists h rest pl,
    Stream.read_header bs = Stream.RhOk h rest /\ Stream.h_len h <= maxbuf /\
    Stream.split_at (Stream.h_len h) rest = (pl, rest') /\ Stream.len pl = Stream.h_len h /\
    Stream.h_typ h = Hostile.MsgReaderEventNotification /\ Hostile.dec_ren D pl = Hostile.DOk (Some 0).
Proof. exact C08Bytes.first_message_accepted_iff. Qed.
Print Assumptions C08_first_message_bytes_accepted_iff.

(* ... in particular a first message cut short by the end of the stream fails the attempt whatever the part that did
   arrive decodes to — even a complete, well-formed success event, when the header announced more *)
Theorem C08_first_message_cut_short_fails : forall maxbuf cfg fl D bs h rest,
  Stream.read_header bs = Stream.RhOk h rest -> Stream.len rest < Stream.h_len h ->
  Hostile.ci_res (Hostile.check_initial maxbuf cfg fl D bs) = Hostile.CiErr.
Proof. exact C08Bytes.first_message_cut_short_fails. Qed.
Print Assumptions C08_first_message_cut_short_fails.

Theorem C08_first_message_without_header_fails : forall maxbuf cfg fl D bs,
  (forall h rest, Stream.read_header bs <> Stream.RhOk h rest) ->
  Hostile.ci_res (Hostile.check_initial maxbuf cfg fl D bs) = Hostile.CiErr.
Proof. exact C08Bytes.first_message_without_header_fails. Qed.
Print Assumptions C08_first_message_without_header_fails.

(* non-vacuity: a decoder that reads exactly the two bytes [1; 2] as a success event. The honest frame is accepted; the
   same two bytes behind a header that announces three are rejected (and so is the header alone) *)
Definition dec_two : Hostile.decoders :=
  Hostile.mkDec (fun bs => match bs with [1; 2] => Hostile.DOk (Some 0) | _ => Hostile.DErr end)
                (fun _ => Hostile.DOk 0) (fun _ => Hostile.DOk (1, 2, 0)) (fun _ => Hostile.DOk 0) (fun _ => Hostile.DOk 0) (fun _ => Hostile.DOk 0).
Example C08_example_cut_short :
  let honest := Stream.frame_bytes (Stream.mkFrame 0 1 63 0 [1; 2]) in
  let longer := Stream.header_bytes (Stream.mkFrame 0 1 63 0 [1; 2; 3]) in
  Hostile.ci_res (Hostile.check_initial 16 HostileProofs.wit_cfg Hostile.flags_repaired dec_two honest) = Hostile.CiOk [] /\
  Hostile.ci_res (Hostile.check_initial 16 HostileProofs.wit_cfg Hostile.flags_repaired dec_two (longer ++ [1; 2])) = Hostile.CiErr /\
  Hostile.ci_res (Hostile.check_initial 16 HostileProofs.wit_cfg Hostile.flags_repaired dec_two longer) = Hostile.CiErr.
Proof. vm_compute. repeat split; reflexivity. Qed.

(* ---- round-6 addendum: the message TYPE of an early request gives it no way round the gate ----
   (g) what IS on the wire while the gate is shut, frame by frame: a frame that belongs to no caller is a header-only KeepAliveAck
       whose id the keep-alive handler enqueued for a keep-alive the reader sent (C07_log_is_received_keepalives); a frame that belongs
       to a caller is a GetSupportedVersion or SetProtocolVersion of negotiate. A KeepAliveAck (or a CloseConnection, a
       GetSupportedVersion ...) handed in by a caller through SendMessage / SendFor / SendNoWait is a gated request whatever its
       type (C08_early_requests_held_back): it is not among them. That the code's gate does not look at the type is tied by the
       `early-types` scripts of checks/c08.py. *)
Theorem C08_wire_before_setup_is_over : forall cfg evs, exported_only evs ->
  let s := run cfg evs in
  ready s = false ->
  forall o, In o (out s) ->
    (o_src o = None /\ f_typ (o_frame o) = T_KeepAliveAck /\ f_len (o_frame o) = 0 /\ In (f_id (o_frame o)) (ka_enqueued s)) \/
    (o_src o <> None /\ (f_typ (o_frame o) = T_GetSupportedVersion \/ f_typ (o_frame o) = T_SetProtocolVersion)).
Proof. exact wire_before_ready. Qed.
Print Assumptions C08_wire_before_setup_is_over.

(* a KeepAliveAck through SendNoWait before Connect and a keep-alive from the reader during negotiation: the reader's keep-alive is
   acknowledged at once (the loop's own frame, id 77), the caller's acknowledgement (id 4040) waits at the gate; after ConnReady it
   is written behind the negotiation frame *)
Definition ack_rq : req := mkReq T_KeepAliveAck 0 0 4040 1 false true.
Definition evs_ack : list event :=
  [Submit 1 ack_rq; ConnStart; ConnFirst (ren 0) HBNone;
   NegSubmit 1000; WDefault; WAccept 1000; WWriteHdr; RCheck;
   RFrame (mkFrame 2 T_KeepAlive 77 0 0 IOpaque) HBNone; RCheck; WTakeAck; WWriteHdr; PassGate 1;
   RFrame gsvr22 HBNone; NegStep].
Example C08_example_early_ack_held :
  let s := run cfg11 evs_ack in
  exported_only evs_ack /\ ready s = false /\
  map (fun o => (f_typ (o_frame o), f_id (o_frame o), o_src o)) (out s) = [(T_GetSupportedVersion, 0, Some 1000); (T_KeepAliveAck, 77, None)] /\
  caller_phase s 1 = Some (Gate ack_rq) /\
  map (fun o => (f_typ (o_frame o), f_id (o_frame o), o_src o))
      (out (run cfg11 (evs_ack ++ [ConnReady; PassGate 1; WDefault; WAccept 1; WWriteHdr]))) =
    [(T_GetSupportedVersion, 0, Some 1000); (T_KeepAliveAck, 77, None); (T_KeepAliveAck, 4040, Some 1)].
Proof. vm_compute. repeat split; auto. repeat constructor. Qed.

(* ---- round-7 addendum: WHEN negotiation is complete ----------------------------------------
   The gate opens at ConnReady, enabled only in [PNegotiating NDone _] (C08_gate_opens_after_setup). Which replies take negotiate
   there (Client/C08Neg.v): only an expected-type response with status Success — *)
Theorem C08_spv_confirmed_spec : forall f, spv_ok f = true <->
  f_len f <= max_buffered /\ f_typ f = T_SetProtocolVersionResponse /\ f_info f = IStatus Status_Success.
Proof. exact spv_ok_spec. Qed.
Print Assumptions C08_spv_confirmed_spec.

(* (h) the reply to SetProtocolVersion decides: confirmed -> negotiation done (gate still shut, ConnReady next); ANYTHING else — an
       ErrorMessage whatever its status, another type, an error status, an oversized reply — -> Connect returns the negotiation error on a
       closed client with the gate shut (and C08_setup_failure_fails_callers takes over) *)
Theorem C08_spv_reply_decides : forall cfg s c r seq f,
  phase s = PNegotiating NSpv (Some c) -> lookup c (callers s) = Some (Done r (ROk seq f)) ->
  let s' := step cfg s NegStep in
  ready s' = ready s /\
  (spv_ok f = true -> phase s' = PNegotiating NDone None /\ closed s' = closed s) /\
  (spv_ok f = false -> phase s' = PReturned CErrNeg /\ closed s' = true).
Proof. exact spv_reply_decides. Qed.
Print Assumptions C08_spv_reply_decides.

(* (i) the reply to GetSupportedVersion: a GetSupportedVersionResponse with Success (or ErrorMessage VersionUnsupported = a
       1.0.1 reader; an ErrorMessage claiming Success fails setup since /repo 6e714d1) settles the version v = min(max, wanted); negotiation is done iff the reader's current version is v, otherwise
       SetProtocolVersion follows; any other reply fails setup *)
Theorem C08_gsv_outcome_spec : forall f cur mx, gsv_outcome f = Some (cur, mx) ->
  f_len f <= max_buffered /\
  ((f_typ f = T_GetSupportedVersionResponse /\ f_info f = IVer cur mx Status_Success) \/
   (f_typ f = T_ErrorMessage /\ cur = 1 /\ mx = 1 /\ f_info f = IStatus Status_VerUnsupported)).
Proof. exact gsv_outcome_spec. Qed.
Print Assumptions C08_gsv_outcome_spec.

Theorem C08_gsv_reply_decides : forall cfg s c r seq f,
  phase s = PNegotiating NGsv (Some c) -> lookup c (callers s) = Some (Done r (ROk seq f)) ->
  let s' := step cfg s NegStep in
  ready s' = ready s /\
  (forall cur mx, gsv_outcome f = Some (cur, mx) ->
     let v := if mx <? version s then mx else version s in
     version s' = v /\ closed s' = closed s /\
     phase s' = PNegotiating (if cur =? v then NDone else NSpv) None) /\
  (gsv_outcome f = None -> phase s' = PReturned CErrNeg /\ closed s' = true).
Proof. exact gsv_reply_decides. Qed.
Print Assumptions C08_gsv_reply_decides.

(* (j) a negotiation send that ends without a reply (context over, client closed, zero Message) fails setup as well *)
Theorem C08_neg_send_without_reply_fails : forall cfg s st c r res,
  phase s = PNegotiating st (Some c) -> st <> NDone -> lookup c (callers s) = Some (Done r res) ->
  (forall seq f, res <> ROk seq f) ->
  let s' := step cfg s NegStep in
  ready s' = ready s /\ closed s' = true /\ exists e, phase s' = PReturned e.
Proof. exact neg_send_without_reply_fails. Qed.
Print Assumptions C08_neg_send_without_reply_fails.

(* non-vacuity: reader at 1.0.1 able to do 1.1 answers SetProtocolVersion with an ErrorMessage carrying Success: setup fails, the
   early caller's request is never written, it gets the closed error *)
Definition gsvr12 : frame := mkFrame 2 T_GetSupportedVersionResponse 0 10 50 (IVer 1 2 0).
Definition errmsg_success : frame := mkFrame 2 T_ErrorMessage 1 8 52 (IStatus 0).
Definition evs_spv_errmsg : list event :=
  [Submit 1 (rq 20 5 101); ConnStart; ConnFirst (ren 0) HBNone;
   NegSubmit 1000; WDefault; WAccept 1000; WWriteHdr; RCheck; RFrame gsvr12 HBNone; NegStep;
   NegSubmit 1001; WDefault; WAccept 1001; WWriteHdr; WWritePay; RCheck; RFrame errmsg_success HBNone; NegStep;
   ConnReady; PassGate 1; SeeClosed 1].
Example C08_example_spv_answered_by_error_message_success :
  let s := run cfg11 evs_spv_errmsg in
  spv_ok errmsg_success = false /\ phase s = PReturned CErrNeg /\ ready s = false /\ closed s = true /\
  map (fun o => f_typ (o_frame o)) (out s) = [T_GetSupportedVersion; T_SetProtocolVersion] /\
  caller_result s 1 = Some RErrClosed.
Proof. vm_compute. repeat split; reflexivity. Qed.
