(* C09 — Close, shutdown, failure and cancellation never leave a caller stuck.
   Only property statements; each closed by [exact] of a lemma in Client/C09Proofs.v (invariant:
   Client/InvC09.v). Model: the client LTS Client/Model.v, and Client/ModelX.v = the same LTS plus, under
   [watch = true], the one transition of the FIXED Connect (it takes <-errs while negotiate runs).
   [xrun false] is today's code ([xstep false = step] by computation), [xrun true] the fixed code.

   PARTIAL by nature: "promptly" / "returns once the connection ends" are statements about time. The model
   proves ENABLEDNESS (in the states in question the caller / Connect has a step that leads to its return,
   and that step needs nothing from the peer); checks/c09.py MEASURES that the calls return (the runner
   waits for process-wide quiescence: a call that has not returned then is parked for good). Not modelled:
   Go scheduler fairness, net.Conn deadlines (a Write blocked on a silent peer ends only with the connection). *)
From Coq Require Import NArith List Bool.
From LLRP Require Import Client.Types Client.Model Client.ModelX Client.InvC08 Client.InvC09 Client.C09Proofs Client.Handoff Client.C09Flood Client.C09Api Client.C09CloseResp Client.AwaitLock.
Import ListNotations.
Open Scope N_scope.

(* ---- callers ---- *)
(* on a closed client every call that has not returned — waiting at the gate, queued for the write loop,
   or waiting for its reply — has its <-c.done case enabled, and taking it returns ErrClientClosed.
   Holds in every state, hence in every reachable one. (A reply that arrives first is the other way out.) *)
Theorem C09_no_caller_stuck : forall cfg s c p,
  closed s = true -> lookup c (callers s) = Some p -> not_done p ->
  lookup c (callers (step cfg s (SeeClosed c))) = Some (Done (req_of p) RErrClosed).
Proof. exact see_closed_releases. Qed.
Print Assumptions C09_no_caller_stuck.

(* the same, spelled out per kind of call and per blocking position: SendMessage / SendFor / Shutdown (gate + reply), SendNoWait
   (gate, no reply), the internal send (no gate) — waiting at the ready gate, queued for a write loop that may be parked after
   CloseConnection, stuck in a Write or gone, or holding a token and waiting for the reply: on a closed client the <-c.done case
   of the select it sits in is enabled and returns ErrClientClosed. The request's flags play no part. *)
Theorem C09_every_send_released_on_closed_client : forall cfg s c p r,
  closed s = true -> lookup c (callers s) = Some p -> blocked_at p r ->
  caller_result (step cfg s (SeeClosed c)) c = Some RErrClosed.
Proof. exact every_send_released_on_closed_client. Qed.
Print Assumptions C09_every_send_released_on_closed_client.

Theorem C09_sendnowait_released_on_closed_client : forall cfg s c typ len tag,
  closed s = true ->
  (lookup c (callers s) = Some (Gate (sendnowait_req typ len tag)) \/ lookup c (callers s) = Some (Queued (sendnowait_req typ len tag))) ->
  caller_result (step cfg s (SeeClosed c)) c = Some RErrClosed.
Proof. exact sendnowait_released_on_closed_client. Qed.
Print Assumptions C09_sendnowait_released_on_closed_client.

(* a send started after close is not Done yet only until it looks at done: its first select can take
   <-c.done at once, and that returns ErrClientClosed *)
Theorem C09_submit_after_close_fails : forall cfg s c r,
  closed s = true -> is_fresh c s = true -> (q_gate r = true \/ q_len r <= max_payload) ->
  let s1 := step cfg s (Submit c r) in
  closed s1 = true /\ (exists p, lookup c (callers s1) = Some p /\ not_done p /\ req_of p = r) /\
  caller_result (step cfg s1 (SeeClosed c)) c = Some RErrClosed.
Proof. exact submit_after_close_fails. Qed.
Print Assumptions C09_submit_after_close_fails.

(* ---- what Connect returns ---- *)
(* Close on a healthy connection (no loop has reported anything): the final select can only take <-c.done *)
Theorem C09_close_on_healthy_connection : forall cfg s,
  phase s = PReady -> errs s = [] -> closed s = true ->
  step cfg s (ConnSelect true) = s /\ phase (step cfg s (ConnSelect false)) = PDraining CErrClosed.
Proof. exact close_on_healthy_connection. Qed.
Print Assumptions C09_close_on_healthy_connection.

(* a loop failed first (nobody has closed): the select can only take <-errs, the value is the first error
   reported, it is a genuine failure (not ErrClientClosed), and Connect closes the client *)
Theorem C09_loop_error_first : forall cfg s e rest,
  c09_inv s -> phase s = PReady -> closed s = false -> errs s = e :: rest ->
  step cfg s (ConnSelect false) = s /\
  phase (step cfg s (ConnSelect true)) = PDraining (CErrLoop e) /\ closed (step cfg s (ConnSelect true)) = true /\
  (e = EWrite \/ e = ERead).
Proof. exact loop_error_first. Qed.
Print Assumptions C09_loop_error_first.

Theorem C09_inv_holds : forall w cfg evs, c09_inv (xrun w cfg evs).
Proof. intros. apply x_inv_run. Qed.
Print Assumptions C09_inv_holds.

(* over every run (today's and the fixed Connect): once Connect has chosen its result the client is closed,
   and a result taken from a loop is the first error any loop reported *)
Theorem C09_connect_result_reason : forall w cfg evs r e,
  let s := xrun w cfg evs in
  phase s = PDraining r \/ phase s = PReturned r ->
  closed s = true /\ (r = CErrLoop e -> hd_error (errs s) = Some e).
Proof. exact connect_result_is_first_error. Qed.
Print Assumptions C09_connect_result_reason.

Theorem C09_drain_returns_same_result : forall cfg s r,
  phase s = PDraining r -> writer_over (writer s) = true -> reader_over (reader s) = true ->
  phase (step cfg s ConnReturn) = PReturned r.
Proof. exact drain_returns_same_result. Qed.
Print Assumptions C09_drain_returns_same_result.

(* ---- the wire after CloseConnection ---- *)
Theorem C09_silent_after_close_conn : forall w cfg evs i o,
  let s := xrun w cfg evs in
  nth_error (out s) i = Some o -> f_typ (o_frame o) = T_CloseConnection ->
  S i = length (out s) /\ (writer s = WParked \/ writer s = WExit).
Proof. exact silent_after_close_conn. Qed.
Print Assumptions C09_silent_after_close_conn.

(* ---- Close twice: the second call only records "already closed" (the model's step is total: no panic) ---- *)
Theorem C09_double_close_reports : forall cfg s,
  (closed s = true -> step cfg s Close = set_close_calls (close_calls s ++ [false]) s) /\
  (closed s = false -> step cfg s Close = set_closed true (set_close_calls (close_calls s ++ [true]) s)).
Proof. exact double_close_reports. Qed.
Print Assumptions C09_double_close_reports.

(* ---- cancellation ---- *)
(* cancelling a caller that waits for its reply: its entry becomes Done ctx-error, its own await entry goes,
   no other caller, neither loop, Connect, the wire, the error history change; a later frame with its id finds
   nobody waiting in the normal dispatch (and so goes to the handlers / is discarded, frame-aligned: C04).
   Hypothesis: awaiting[i] is the caller's own entry or already gone — true whenever message ids are distinct
   (C05_ids_pairwise_distinct; with colliding preset ids the cancel func closes another request's channel,
   which the model keeps as RZero). *)
Theorem C09_cancel_isolated : forall cfg s c r i,
  lookup c (callers s) = Some (HasToken r i) ->
  (lookup i (awaiting s) = Some c \/ lookup i (awaiting s) = None) ->
  let s' := step cfg s (Cancel c) in
  lookup c (callers s') = Some (Done r RErrCtx) /\
  (forall c', c' <> c -> lookup c' (callers s') = lookup c' (callers s)) /\
  awaiting s' = remove i (awaiting s) /\ same_ctl s s' /\
  (forall whole seq f, f_id f = i -> take_waiter cfg whole seq f s' = (s', false)).
Proof. exact cancel_isolated. Qed.
Print Assumptions C09_cancel_isolated.

Theorem C09_cancel_waiting_caller : forall cfg s c p,
  lookup c (callers s) = Some p -> (exists r, p = Gate r \/ p = Queued r) ->
  let s' := step cfg s (Cancel c) in
  lookup c (callers s') = Some (Done (req_of p) RErrCtx) /\
  (forall c', c' <> c -> lookup c' (callers s') = lookup c' (callers s)) /\
  awaiting s' = awaiting s /\ same_ctl s s'.
Proof. exact cancel_waiting_caller. Qed.
Print Assumptions C09_cancel_waiting_caller.

(* ---- the assumption behind the atomic [RFrame] ----
   In the LTS, looking a reply's id up, deleting the await entry, reading the payload and handing the Message over are ONE
   event, so [C09_cancel_isolated] considers a cancel before or after the whole of it. In reader.go the payload is read between
   the lookup and the hand-off, and the caller may leave in that window (its cancel func then finds no entry). The atomic event
   is faithful only because the hand-off cannot block: the channel has capacity 1 and carries one value. Client/Handoff.v is the
   window on its own, with the capacity as a flag (checks/c09.py opens the window on the real code: the split-cancel and split-close families). *)
Theorem C09_handoff_never_blocks : forall evs,
  h_reader (hrun true evs) = HAtSend -> h_reader (hstep true (hrun true evs) HReaderSend) = HDelivered.
Proof. exact handoff_never_blocks. Qed.
Print Assumptions C09_handoff_never_blocks.

Theorem C09_handoff_buffer_empty_before_send : forall evs,
  h_reader (hrun true evs) <> HDelivered -> h_chan (hrun true evs) = false.
Proof. exact chan_empty_until_sent. Qed.
Print Assumptions C09_handoff_buffer_empty_before_send.

(* with an unbuffered channel the statement is false: the caller leaves while the payload is arriving, the read loop reaches
   its send, and no event is enabled any more (the read loop never reads another frame; Connect waits for it for ever) *)
Theorem C09_handoff_unbuffered_refuted :
  exists evs, let s := hrun false evs in
    h_reader s = HAtSend /\ h_caller s = HLeft /\ forall e, hstep false s e = s.
Proof. exact handoff_unbuffered_refuted. Qed.
Print Assumptions C09_handoff_unbuffered_refuted.

(* ---- the read loop never parks in a handler: keep-alive floods of any length ----
   The reader may send keep-alives (and reports, and anything else) faster than the client can get its acknowledgements out —
   in the extreme the peer reads nothing and the write loop sits in its first Write. [flood cfg fs s] reads ANY list of frames
   [fs] (unbounded length), each followed by the loop's look at done. From a reading, open client: the read loop is reading
   again after every frame, the ack queue never exceeds max(what it held, ack_cap), and Connect, the write loop, the closed
   flag and the error history are untouched — so the end of the connection is still noticed (flood_then_eof: the loop reports
   its error / waits for done after CloseConnectionResponse) and so is a local Close (flood_then_close: after Close the next
   look at done returns). The ackHandler's non-blocking send (reader.go 864-869) is what [ack_enqueue] models; with a handler
   that waits for room RFrame would have no successor with the reader back in its loop (checks/c09.py: flood families). *)
Theorem C09_read_loop_never_parks_in_dispatch : forall cfg s f h,
  reader s = RRead -> reader (step cfg s (RFrame f h)) = RTop.
Proof. exact rframe_returns_to_loop. Qed.
Print Assumptions C09_read_loop_never_parks_in_dispatch.

Theorem C09_flood_keeps_reading : forall cfg fs s b,
  reader s = RRead -> closed s = false -> (ack_cap <= b)%nat -> (length (ackq s) <= b)%nat ->
  let s' := flood cfg fs s in
  reader s' = RRead /\ closed s' = false /\ writer s' = writer s /\ phase s' = phase s /\ errs s' = errs s /\
  (length (ackq s') <= b)%nat.
Proof. exact flood_keeps_reading. Qed.
Print Assumptions C09_flood_keeps_reading.

Theorem C09_flood_then_eof : forall cfg fs s,
  reader s = RRead -> closed s = false ->
  let s' := step cfg (flood cfg fs s) (PeerEOF EofBoundary) in
  (saw_close (flood cfg fs s) = false -> reader s' = RDead /\ errs s' = errs s ++ [ERead]) /\
  (saw_close (flood cfg fs s) = true -> reader s' = RWaitDone).
Proof. exact flood_then_eof. Qed.
Print Assumptions C09_flood_then_eof.

Theorem C09_flood_then_close : forall cfg fs s f h,
  reader s = RRead -> closed s = false ->
  let s1 := step cfg (flood cfg fs s) Close in
  let s2 := step cfg (step cfg (step cfg s1 (RFrame f h)) RCheck) RSeeDone in
  closed s1 = true /\ reader s2 = RExit.
Proof. exact flood_then_close. Qed.
Print Assumptions C09_flood_then_close.

(* ---- "the serving call returns once the connection ends" ----
   FULL STATEMENT (enabledness): in every reachable state in which a loop has reported an error and Connect has
   not chosen its result, Connect has an enabled step that chooses it. For the final select this is
   C09_loop_error_first / step_conn_select. While NEGOTIATING it is FALSE of today's code: *)
Definition cfg11 : config := mkConfig true true 2 true [] false.
Definition ren0 : frame := mkFrame 2 T_ReaderEventNotification 0 22 9 (IConn 0).
Definition gsvr : frame := mkFrame 2 T_GetSupportedVersionResponse 0 10 50 (IVer 2 2 0).
(* the reader greets, the client writes GetSupportedVersion, the reader closes the connection *)
Definition stuck_evs : list event :=
  [ConnStart; ConnFirst ren0 HBNone; NegSubmit 1000; WDefault; WAccept 1000; WWriteHdr; RCheck; PeerEOF EofBoundary].
(* every event that is not an action of the environment (Close, a caller's context, a new caller, the peer) *)
Definition internal_events : list event :=
  [SeeClosed 1000; PassGate 1000; NegStep; NegSubmit 2000; ConnReady; ConnSelect true; ConnSelect false; ConnReturn;
   ConnStart; ConnFirst ren0 HBNone; ConnFirstFail; WDefault; WAccept 1000; WTakeAck; WWriteHdr; WWritePay; WSeeDone;
   RCheck; RSeeDone; PeerEOF EofBoundary; RFrame gsvr HBNone].
Definition still_stuck (s : state) : bool :=
  match phase s, lookup 1000 (callers s) with
  | PNegotiating NGsv (Some c), Some (HasToken _ _) => (c =? 1000) && negb (closed s)
  | _, _ => false
  end.

Theorem C09_connect_stuck_refuted :
  exists evs, let s := xrun false cfg11 evs in
    errs s = [ERead] /\ reader s = RDead /\ still_stuck s = true /\
    forallb (fun e1 => still_stuck (step cfg11 s e1) &&
             forallb (fun e2 => still_stuck (step cfg11 (step cfg11 s e1) e2)) internal_events) internal_events = true.
Proof. exists stuck_evs. vm_compute. repeat split; reflexivity. Qed.
Print Assumptions C09_connect_stuck_refuted.

(* the fixed Connect: whenever a loop has reported an error while negotiating, taking <-errs is enabled and
   returns that error on a closed client (so C09_no_caller_stuck releases negotiate's send and every caller) *)
Theorem C09_connect_watching_returns : forall cfg s st o e rest,
  phase s = PNegotiating st o -> errs s = e :: rest ->
  let s' := xstep true cfg s (ConnSelect true) in
  phase s' = PReturned (CErrLoop e) /\ closed s' = true.
Proof. exact connect_watching_returns. Qed.
Print Assumptions C09_connect_watching_returns.

Example C09_witness_on_fixed :
  let s := xrun true cfg11 (stuck_evs ++ [ConnSelect true; SeeClosed 1000]) in
  phase s = PReturned (CErrLoop ERead) /\ closed s = true /\ caller_result s 1000 = Some RErrClosed.
Proof. vm_compute. repeat split; reflexivity. Qed.

(* ---- non-vacuity: a session with two requests, Shutdown, and the peer's close ---- *)
Definition cfg10 : config := mkConfig true true 1 true [] false.
Definition ren1 : frame := mkFrame 1 T_ReaderEventNotification 0 22 9 (IConn 0).
Definition rq (typ len tag : N) : req := mkReq typ len tag 0 1 true true.
Definition session : list event :=
  [ConnStart; ConnFirst ren1 HBNone; ConnReady; RCheck;
   Submit 1 (rq 2 5 101); PassGate 1; WDefault; WAccept 1; WWriteHdr; WWritePay;
   Submit 2 (rq 3 0 0); PassGate 2; WDefault; WAccept 2; WWriteHdr;
   Cancel 2;                                                       (* caller 2 gives up: isolated *)
   RFrame (mkFrame 1 13 1 4 7 IOpaque) HBNone; RCheck;             (* its late reply: nobody waits *)
   RFrame (mkFrame 1 12 0 6 8 IOpaque) HBNone; RCheck;             (* caller 1's reply *)
   Submit 3 (mkReq T_CloseConnection 0 0 0 1 true true); PassGate 3; WDefault; WAccept 3; WWriteHdr;   (* Shutdown *)
   RFrame (mkFrame 1 T_CloseConnectionResponse 2 8 9 (IStatus 0)) HBNone; ShutdownClose 3;
   Close;                                                          (* a second close *)
   WSeeDone; RCheck; RSeeDone; ConnSelect false; ConnReturn].
Example C09_example :
  let s := xrun false cfg10 session in
  phase s = PReturned CErrClosed /\ close_calls s = [true; false] /\
  caller_result s 2 = Some RErrCtx /\ length (delivered s) = 2%nat /\
  map (fun o => f_typ (o_frame o)) (out s) = [2; 3; T_CloseConnection] /\ writer s = WExit.
Proof. vm_compute. repeat split; reflexivity. Qed.

(* ---- an unsolicited CloseConnectionResponse (round-5 addendum; Client/C09CloseResp.v) ----
   handleIncoming takes the end of the stream for the orderly end of a session (and waits for <-c.done instead of
   reporting a failure) only after a CloseConnectionResponse that answers a CloseConnection THIS client wrote.
   Over every run, today's and the fixed Connect, whatever the reader sends — CloseConnectionResponse frames with
   any message id, any number of them, anywhere in the session: receivedClosed implies that the write loop has had a
   CloseConnection in its hand ... *)
Theorem C09_close_response_counts_only_after_close_connection : forall w cfg evs,
  let s := xrun w cfg evs in saw_close s = true -> close_sent s = true.
Proof. exact close_response_counts_only_after_close_connection. Qed.
Print Assumptions C09_close_response_counts_only_after_close_connection.

(* ... so on a client that has not sent CloseConnection the end of the stream — at a frame boundary, inside a header,
   inside the payload of any frame — ends the read loop with a read error: the failure Connect reports
   (C09_loop_error_first in the final select, C09_connect_watching_returns while negotiating), which closes the client
   and releases every caller (C09_no_caller_stuck). *)
Theorem C09_unsolicited_close_response_then_eof_fails : forall w cfg evs p,
  let s := xrun w cfg evs in
  close_sent s = false -> reader s = RRead ->
  let s' := xstep w cfg s (PeerEOF p) in
  reader s' = RDead /\ errs s' = errs s ++ [ERead].
Proof. exact unsolicited_close_response_then_eof_fails. Qed.
Print Assumptions C09_unsolicited_close_response_then_eof_fails.

(* non-vacuity: a served 1.0.1 connection with a request in flight (message id 0); the reader sends CloseConnectionResponse
   frames with id 0 (handed to that caller as its reply), with the next id and with 2^32-1 (nobody waits: dropped), then
   hangs up: the read loop dies, Connect takes the error, closes the client and returns the read failure *)
Definition ccr (id : N) : frame := mkFrame 1 T_CloseConnectionResponse id 8 9 (IStatus 0).
Definition unsolicited_session : list event :=
  [ConnStart; ConnFirst ren1 HBNone; ConnReady; RCheck;
   Submit 1 (rq 2 5 101); PassGate 1; WDefault; WAccept 1; WWriteHdr; WWritePay;
   RFrame (ccr 0) HBNone; RCheck; RFrame (ccr 1) HBNone; RCheck; RFrame (ccr 4294967295) HBNone; RCheck;
   PeerEOF EofBoundary; ConnSelect true; SeeClosed 1; WSeeDone; ConnReturn].
Example C09_example_unsolicited_close_response :
  let s := xrun false cfg10 unsolicited_session in
  close_sent s = false /\ saw_close s = false /\ length (peer_sent s) = 4%nat /\
  phase s = PReturned (CErrLoop ERead) /\ closed s = true /\ caller_result s 1 = Some (ROk 1%nat (ccr 0)).
Proof. vm_compute. repeat split; reflexivity. Qed.

(* ---- round-6 addendum: CloseConnection that nobody waits for ----
   C09_silent_after_close_conn speaks of every frame of type CloseConnection in [out], whatever request put it there: the write loop
   parks on the message TYPE (after_frame), not on the sender having asked for a reply. Non-vacuity for the fire-and-forget case:
   CloseConnection through SendNoWait (q_wait = false) on a served 1.0.1 connection, then a keep-alive from the reader (its
   acknowledgement is queued) and another request: nothing is written after the CloseConnection frame, the write loop is parked,
   and the read loop takes the reader's response for the announced end of the session. *)
Definition close_nowait_session : list event :=
  [ConnStart; ConnFirst ren1 HBNone; ConnReady; RCheck;
   Submit 1 (rq 2 5 101); PassGate 1; WDefault; WAccept 1; WWriteHdr; WWritePay;
   Submit 3 (sendnowait_req T_CloseConnection 0 0); PassGate 3; WDefault; WAccept 3; WWriteHdr;
   RFrame (mkFrame 1 T_KeepAlive 77 0 0 IOpaque) HBNone; RCheck; WTakeAck; WDefault; WWriteHdr;
   Submit 4 (rq 3 0 0); PassGate 4; WDefault; WAccept 4; WWriteHdr;
   RFrame (mkFrame 1 T_CloseConnectionResponse 1 8 9 (IStatus 0)) HBNone; RCheck; PeerEOF EofBoundary].
Example C09_example_close_connection_without_waiting :
  let s := xrun false cfg10 close_nowait_session in
  map (fun o => f_typ (o_frame o)) (out s) = [2; T_CloseConnection] /\ writer s = WParked /\
  caller_result s 3 = Some RSent /\ ackq s = [77] /\ caller_phase s 4 = Some (Queued (rq 3 0 0)) /\
  close_sent s = true /\ saw_close s = true /\ reader s = RWaitDone /\ errs s = [].
Proof. vm_compute. repeat split; reflexivity. Qed.

(* ---- round-7 addendum: the await-map lock while the read loop sits in a half-received frame (Client/AwaitLock.v) ----
   [Cancel c] / [SeeClosed c] / [WAccept c] are atomic events of the LTS, enabled whatever the read loop is doing
   (C09_cancel_waiting_caller, C09_no_caller_stuck). In reader.go each of them takes c.awaitMu; so does passToHandler, for the lookup
   and the delete only — it lets go BEFORE it reads the payload. The atomic events are faithful only under that discipline.
   AwaitLock.v is the lock on its own (read loop / a leaving caller / the write loop registering a request), with "the read loop keeps
   the lock to the end of the frame" as a flag. The code (hold = false), over every schedule — in particular with the reader gone
   quiet in the middle of a payload: a caller whose context was cancelled (or who saw done) returns, and the write loop registers and
   writes the next request, by INTERNAL steps alone (nothing from the peer, nothing from the environment): *)
Theorem C09_leaving_caller_needs_nothing_from_the_peer : forall evs,
  let s := lrun false evs in
  l_caller s = LCWant ->
  forallb internal (caller_plan s) = true /\ l_caller (lrun_from false s (caller_plan s)) = LCLeft.
Proof. intros evs s H. split; [apply plans_internal|exact (leaving_caller_returns evs H)]. Qed.
Print Assumptions C09_leaving_caller_needs_nothing_from_the_peer.

Theorem C09_write_loop_registers_without_the_peer : forall evs,
  let s := lrun false evs in
  l_writer s = LWWant ->
  forallb internal (writer_plan s) = true /\ l_writer (lrun_from false s (writer_plan s)) = LWWritten.
Proof. intros evs s H. split; [apply plans_internal|exact (write_loop_registers evs H)]. Qed.
Print Assumptions C09_write_loop_registers_without_the_peer.

(* with the lock held across the payload the statement is false: header read, lookup done, the reader goes quiet; a context is cancelled
   and a request is queued — and no internal event changes anything *)
Theorem C09_lock_held_across_payload_refuted :
  exists evs, let s := lrun true evs in
    l_reader s = LRPayload /\ l_caller s = LCWant /\ l_writer s = LWWant /\
    forall e, internal e = true -> lstep true s e = s.
Proof. exact lock_held_across_payload_refuted. Qed.
Print Assumptions C09_lock_held_across_payload_refuted.
