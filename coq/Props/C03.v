(* C03 — Replies are delivered to the request that caused them, and only to it.
   Only property statements; each closed by [exact] of a lemma proved in Client/C03Proofs.v
   (invariant: Client/InvCore.v). The model is the client LTS Client/Model.v; a run is an arbitrary
   event list = an arbitrary schedule of any number of callers, the write loop, the read loop and
   Connect, with arbitrary inbound frames (any reply order, any unsolicited frames with any ids). *)
From Coq Require Import NArith List Bool.
From LLRP Require Import Client.Types Client.Model Client.InvCore Client.C03Proofs Client.C05Proofs Client.C03Zero.
Import ListNotations.
Open Scope N_scope.

(* [delivered s] lists (caller, frame number, frame) for every frame handed to a caller as the
   reply to its request. For every run and every such entry:
   - the frame's id is the id the write loop assigned to that caller's request (the one it
     carried on the wire), and a caller's request has only one id;
   - the frame is the q-th frame the peer sent: same type, same payload (length and content tag);
   - the caller's SendMessage holds exactly this frame as its result;
   - that frame went to no other caller, this caller got no other frame, nothing is delivered twice;
   - if the client does not consult the await map for unsolicited message types
     ([filter_unsolicited cfg = true]) the frame is not a KeepAlive / ROAccessReport /
     ReaderEventNotification. *)
Theorem C03_replies_only_to_requester : forall cfg evs c q f,
  let s := run cfg evs in
  In (c, q, f) (delivered s) ->
  In (c, f_id f) (assigned s) /\
  (forall i, In (c, i) (assigned s) -> i = f_id f) /\
  nth_error (peer_sent s) q = Some f /\
  caller_result s c = Some (ROk q f) /\
  (forall c' f', In (c', q, f') (delivered s) -> c' = c /\ f' = f) /\
  (forall q' f', In (c, q', f') (delivered s) -> q' = q /\ f' = f) /\
  NoDup (delivered s) /\
  (filter_unsolicited cfg = true -> is_unsolicited (f_typ f) = false).
Proof. exact replies_only_to_requester. Qed.
Print Assumptions C03_replies_only_to_requester.

(* conversely: whenever a caller's SendMessage returns a reply, it is a delivered frame (so all of
   the above holds for it) *)
Theorem C03_result_is_delivery : forall cfg evs c q f,
  caller_result (run cfg evs) c = Some (ROk q f) -> In (c, q, f) (delivered (run cfg evs)).
Proof. exact result_is_delivery. Qed.
Print Assumptions C03_result_is_delivery.

(* ... and what SendMessage returns for it is the frame's type and, for payloads within the
   buffering limit, its payload (beyond the limit the payload is dropped: that is C10's F3) *)
Theorem C03_reply_payload_exact : forall f,
  f_len f <= max_buffered -> reply_view f = (f_typ f, f_len f, f_tag f).
Proof. exact reply_view_exact. Qed.
Print Assumptions C03_reply_payload_exact.

(* the liveness half: in every reachable state in which the read loop waits for a header, a frame whose type
   consults the await map and whose id is registered there is handed to exactly the registered caller by the
   single RFrame event — whatever the handler does — the entry is consumed and the read loop is back at its loop
   head: it cannot stay inside the dispatch (for the read loop alone: C09_read_loop_never_parks_in_dispatch,
   Client/C09Flood.v). Abstract here: the hand-over is part of the RFrame event, i.e. the reply channel always has
   room for the one reply of its request (capacity 1, one channel per request); the check demands the delivery on
   the running code (pred_c03: reply-not-delivered). *)
Theorem C03_awaited_reply_is_delivered : forall cfg evs f h c,
  let s := run cfg evs in
  reader s = RRead -> consults cfg (f_typ f) = true -> lookup (f_id f) (awaiting s) = Some c ->
  let s' := step cfg s (RFrame f h) in
  In (c, length (peer_sent s), f) (delivered s') /\
  caller_result s' c = Some (ROk (length (peer_sent s)) f) /\
  lookup (f_id f) (awaiting s') = None /\
  reader s' = RTop.
Proof. exact awaited_reply_is_delivered. Qed.
Print Assumptions C03_awaited_reply_is_delivered.

(* The full property, with the last clause unconditional, for a client that filters: *)
Theorem C03_full_when_filtering : forall cfg evs c q f,
  filter_unsolicited cfg = true ->
  In (c, q, f) (delivered (run cfg evs)) ->
  In (c, f_id f) (assigned (run cfg evs)) /\
  nth_error (peer_sent (run cfg evs)) q = Some f /\
  (forall c' f', In (c', q, f') (delivered (run cfg evs)) -> c' = c /\ f' = f) /\
  is_unsolicited (f_typ f) = false.
Proof.
  intros cfg evs c q f Hf Hin.
  destruct (replies_only_to_requester cfg evs c q f Hin) as (A & _ & B & _ & C & _ & _ & D).
  auto.
Qed.
Print Assumptions C03_full_when_filtering.

(* ---- today's code (filter_unsolicited = false): the last clause is FALSE ----
   passToHandler looks up awaiting[hdr.id] whatever hdr.typ is (reader.go:891-894). Witness: one
   caller's request gets id 0 and is written; the peer sends a KeepAlive with id 0; the caller
   receives the KeepAlive as its reply. *)
Definition cfg_today : config := mkConfig false false 1 true [] false.
Definition cfg_fixed : config := mkConfig true false 1 true [] false.
Definition ren_ok : frame := mkFrame 1 T_ReaderEventNotification 0 22 9 (IConn 0).
Definition req1 : req := mkReq 2 5 1001 0 1 true true.
Definition ka0 : frame := mkFrame 1 T_KeepAlive 0 0 0 IOpaque.
Definition witness_evs : list event :=
  [ConnStart; ConnFirst ren_ok HBNone; ConnReady;
   Submit 1 req1; PassGate 1; WDefault; WAccept 1; WWriteHdr; WWritePay;
   RCheck; RFrame ka0 HBNone].

Theorem C03_unsolicited_collision_refuted :
  exists evs c q f,
    In (c, q, f) (delivered (run cfg_today evs)) /\
    In (c, f_id f) (assigned (run cfg_today evs)) /\
    is_unsolicited (f_typ f) = true /\
    caller_result (run cfg_today evs) c = Some (ROk q f).
Proof.
  exists witness_evs, 1, 1%nat, ka0. vm_compute. repeat split; auto.
Qed.
Print Assumptions C03_unsolicited_collision_refuted.

(* the same schedule on a filtering client: nothing is delivered, the caller keeps waiting and
   the keep-alive is acknowledged *)
Example C03_witness_on_fixed :
  delivered (run cfg_fixed witness_evs) = [] /\
  caller_result (run cfg_fixed witness_evs) 1 = None /\
  ackq (run cfg_fixed witness_evs) = [0].
Proof. vm_compute. repeat split; reflexivity. Qed.

(* ---- non-vacuity: three callers, replies out of order, a keep-alive (non-colliding id) and a
   tag report in between, one caller cancelled and its late reply dropped ---- *)
Definition rq (typ len tag : N) : req := mkReq typ len tag 0 1 true true.
Definition fr (typ id len tag : N) : frame := mkFrame 1 typ id len tag IOpaque.
Definition example_evs : list event :=
  [ConnStart; ConnFirst ren_ok HBNone; ConnReady; RCheck;
   Submit 1 (rq 2 5 101); Submit 2 (rq 3 9 102); Submit 3 (rq 20 0 0);
   PassGate 2; PassGate 1; PassGate 3;
   WDefault; WAccept 2; WWriteHdr; WWritePay;          (* caller 2 first: id 0 *)
   WDefault; WAccept 1; WWriteHdr; WWritePay;          (* caller 1: id 1 *)
   RFrame (fr T_KeepAlive 77 0 0) HBNone; RCheck;      (* keep-alive between request and reply *)
   WTakeAck; WWriteHdr;
   WDefault; WAccept 3; WWriteHdr;                     (* caller 3: id 2, header only *)
   RFrame (fr 12 1 7 201) HBNone; RCheck;              (* reply to caller 1 before caller 2's *)
   RFrame (fr T_ROAccessReport 555 40 301) HBNone; RCheck;
   Cancel 3;
   RFrame (fr 30 2 3 203) HBNone; RCheck;              (* late reply for the cancelled caller: dropped *)
   RFrame (fr 13 0 4 202) HBNone; RCheck].             (* reply to caller 2 *)

Example C03_example :
  let s := run cfg_today example_evs in
  delivered s = [(1, 2%nat, fr 12 1 7 201); (2, 5%nat, fr 13 0 4 202)] /\
  assigned s = [(2, 0); (1, 1); (3, 2)] /\
  caller_result s 3 = Some RErrCtx /\
  acked s = [77] /\
  length (peer_sent s) = 6%nat.
Proof. vm_compute. repeat split; reflexivity. Qed.

(* ---- nobody is handed a reply that was never sent ----
   send() takes whatever comes out of its reply channel as the reply; a CLOSED channel yields the zero Message with a nil
   error — SendMessage would return (type 0, no payload, nil) for a request the reader never answered. In the model that
   outcome is the result [RZero]; the only transition producing it is the clean-up closure of ANOTHER request carrying the
   same id. With pairwise distinct ids (no caller-chosen ids — impossible through the exported API — and at most 2^32
   accepted requests, C05_ids_pairwise_distinct) it never happens, for any schedule and any faults: failing Writes, the
   write loop's exit, Close, EOF and cancellations included. Every success a caller sees is therefore an [ROk] result, i.e.
   (C03_result_is_delivery) a frame the peer sent with the id of that caller's request. *)
Theorem C03_no_fabricated_reply : forall cfg evs c r,
  no_preset evs -> N.of_nat (length (assigned (run cfg evs))) <= two32 ->
  caller_phase (run cfg evs) c <> Some (Done r RZero).
Proof. exact no_fabricated_reply. Qed.
Print Assumptions C03_no_fabricated_reply.

(* the fault the clause is most exposed to, stated for ANY state: a Write that fails (after any number of bytes) touches no
   caller, no await entry and delivers nothing — the senders waiting for replies are woken later, through c.done, with an
   error. (Check family wfail: the Write of a request whose sender already waits blocks and then fails, read side healthy.) *)
Theorem C03_write_failure_wakes_nobody : forall cfg s k,
  callers (step cfg s (WriteFail k)) = callers s /\ awaiting (step cfg s (WriteFail k)) = awaiting s /\
  delivered (step cfg s (WriteFail k)) = delivered s.
Proof. exact write_failure_wakes_nobody. Qed.
Print Assumptions C03_write_failure_wakes_nobody.

(* non-vacuity: caller 1's request is accepted (it holds its token, id 0), the header Write fails after 4 bytes; Connect
   sees the write loop's error and closes the client; the caller then returns the closed-client error, the await map is
   empty again and nothing was delivered *)
Definition write_fails_evs : list event :=
  [ConnStart; ConnFirst ren_ok HBNone; ConnReady; RCheck;
   Submit 1 req1; PassGate 1; WDefault; WAccept 1; WriteFail 4; ConnSelect true; SeeClosed 1].
Example C03_write_failure_example :
  let s := run cfg_fixed write_fails_evs in
  caller_phase (run cfg_fixed (firstn 9%nat write_fails_evs)) 1 = Some (HasToken req1 0) /\
  writer s = WDead /\ closed s = true /\
  caller_result s 1 = Some RErrClosed /\ awaiting s = [] /\ delivered s = [] /\
  no_preset write_fails_evs.
Proof.
  cbv zeta. split; [vm_compute; reflexivity|]. split; [vm_compute; reflexivity|]. split; [vm_compute; reflexivity|].
  split; [vm_compute; reflexivity|]. split; [vm_compute; reflexivity|]. split; [vm_compute; reflexivity|].
  unfold no_preset, write_fails_evs.
  repeat (apply Forall_cons; [first [exact I | reflexivity] |]). apply Forall_nil.
Qed.

(* ---- requests outstanding ACROSS a Shutdown; a reply of exactly the buffering limit (round 6) ----
   [C03_awaited_reply_is_delivered] holds in every reachable state in which the read loop waits for a header — it does
   not ask what the write loop is doing: caller 1's request (id 0) is on the wire when caller 2's CloseConnection (id 1)
   goes out and the write loop parks; the reader then answers caller 1 with a payload of exactly max_buffered bytes and
   only afterwards refuses the CloseConnection: caller 1 holds its reply — type, all 655360 bytes — and caller 2 the
   refusal; nothing is closed. *)
Definition across_shutdown_evs : list event :=
  [ConnStart; ConnFirst ren_ok HBNone; ConnReady; RCheck;
   Submit 1 req1; PassGate 1; WDefault; WAccept 1; WWriteHdr; WWritePay;
   Submit 2 (mkReq T_CloseConnection 0 0 0 1 true true); PassGate 2; WDefault; WAccept 2; WWriteHdr;
   RFrame (mkFrame 1 12 0 max_buffered 4242 IOpaque) HBNone; RCheck;
   RFrame (mkFrame 1 T_CloseConnectionResponse 1 8 55 (IStatus 101)) HBNone; RCheck].
Example C03_across_shutdown_example :
  let s := run cfg_fixed across_shutdown_evs in
  writer s = WParked /\ closed s = false /\
  caller_result s 1 = Some (ROk 1%nat (mkFrame 1 12 0 max_buffered 4242 IOpaque)) /\
  reply_view (mkFrame 1 12 0 max_buffered 4242 IOpaque) = (12, 655360, 4242) /\
  delivered s = [(1, 1%nat, mkFrame 1 12 0 max_buffered 4242 IOpaque);
                 (2, 2%nat, mkFrame 1 T_CloseConnectionResponse 1 8 55 (IStatus 101))].
Proof.
  cbv zeta. split; [vm_compute; reflexivity|]. split; [vm_compute; reflexivity|]. split; [vm_compute; reflexivity|].
  split; vm_compute; reflexivity.
Qed.
