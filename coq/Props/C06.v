(* C06 — Version negotiation settles on min(client max, reader max) and sticks to it.
   Only property statements; each closed by [exact] of a lemma from Client/NegotiateProofs.v.
   Model: Client/Negotiate.v.  Versions: 1 = 1.0.1, 2 = 1.1; reader_ver b = top three bits of
   the byte the reader put in GET_SUPPORTED_VERSION_RESPONSE (data[0] >> 5 in the Go decoder). *)
From Coq Require Import NArith List Bool.
From LLRP Require Import Client.Negotiate Client.NegotiateProofs.
From LLRP Require Client.Types Client.Model Client.NegRefine.
Import ListNotations.
Open Scope N_scope.

(* "a client limited to 1.0.1 sends no negotiation messages" (and Connect proceeds at 1.0.1),
   whatever the reader would have answered, under every configuration *)
Theorem v101_no_negotiation : forall cfg cmax r1 r2, cmax <= V1_0_1 ->
  negotiate cfg cmax r1 r2 = mkRes [] Proceeds cmax.
Proof. exact v101_no_negotiation_l. Qed.
Print Assumptions v101_no_negotiation.

(* "a client whose maximum exceeds 1.0.1 first asks the reader for its supported versions" *)
Theorem query_first : forall cfg cmax r1 r2, V1_0_1 < cmax ->
  exists rest, n_frames (negotiate cfg cmax r1 r2)
               = mkMsg V1_1 MsgGetSupportedVersion [] :: rest.
Proof. exact first_frame_is_query. Qed.
Print Assumptions query_first.

(* "settles on the lower of its own maximum and the reader's maximum" — for every client maximum,
   every pair of bytes the reader reports and every reaction to the second message *)
Theorem negotiation_settles_min : forall cfg cmax cb mb r2, V1_0_1 < cmax ->
  n_version (negotiate cfg cmax (Resp cb mb StatusSuccess) r2) = N.min cmax (reader_ver mb).
Proof. exact negotiation_settles_min_l. Qed.
Print Assumptions negotiation_settles_min.

(* "(1.0.1 if the reader rejects the query as an unsupported version)": exactly one frame, the
   query; Connect proceeds; version 1.0.1 *)
Theorem negotiation_settles_min_unsupported : forall cfg cmax r2, V1_0_1 < cmax ->
  negotiate cfg cmax (ErrMsg StatusMsgVerUnsupported) r2
  = mkRes [mkMsg V1_1 MsgGetSupportedVersion []] Proceeds V1_0_1.
Proof. exact negotiation_unsupported_l. Qed.
Print Assumptions negotiation_settles_min_unsupported.

(* "asks the reader to switch only if the reader is not already using that version": if the
   reader's current version is the chosen one, the query is the only frame and Connect proceeds;
   otherwise the query is followed by exactly one SET_PROTOCOL_VERSION naming the chosen version *)
Theorem set_only_if_different : forall cfg cmax cb mb r2, V1_0_1 < cmax ->
  let r := negotiate cfg cmax (Resp cb mb StatusSuccess) r2 in
  let v := N.min cmax (reader_ver mb) in
  (reader_ver cb = v -> n_frames r = [mkMsg V1_1 MsgGetSupportedVersion []]
                        /\ n_outcome r = Proceeds) /\
  (reader_ver cb <> v -> n_frames r = [mkMsg V1_1 MsgGetSupportedVersion [];
                                       mkMsg V1_1 MsgSetProtocolVersion [v]]).
Proof. exact set_only_if_different_l. Qed.
Print Assumptions set_only_if_different.

(* … and under no reaction at all is SET_PROTOCOL_VERSION sent unless the query succeeded and
   reported a current version different from the chosen one *)
Theorem set_only_if_different_conv : forall cfg cmax r1 r2,
  has_set (n_frames (negotiate cfg cmax r1 r2)) = true ->
  exists cur mx, get_supported r1 = Some (cur, mx) /\ cur <> N.min cmax mx /\ V1_0_1 < cmax.
Proof. exact set_implies_different. Qed.
Print Assumptions set_only_if_different_conv.

(* "both negotiation messages carry version 1.1 in their headers": every frame written during
   negotiation is one of the two negotiation messages and carries 1.1 — all configurations *)
Theorem neg_headers_1_1 : forall cfg cmax r1 r2,
  Forall (fun f => m_ver f = V1_1 /\ is_neg_type (m_typ f) = true)
         (n_frames (negotiate cfg cmax r1 r2)).
Proof. exact neg_headers_1_1_l. Qed.
Print Assumptions neg_headers_1_1.

(* "every message sent afterwards carries the negotiated version": for every list of later
   messages (requests built by SendMessage/SendFor/… and keep-alive acks), every frame written
   after negotiation carries the negotiated version — unless it is itself one of the two
   negotiation messages, which the previous clause pins to 1.1.
   Holds for every configuration in which requests are not pre-stamped (or the writer
   overrides the pre-stamp). *)
Theorem later_frames_negotiated : forall cfg cmax r1 r2 ls, conforming cfg = true ->
  let s := session cfg cmax r1 r2 ls in
  Forall (fun f => m_ver f = n_version (fst s) \/ is_neg_type (m_typ f) = true) (snd s).
Proof. exact later_frames_negotiated_l. Qed.
Print Assumptions later_frames_negotiated.

(* The same statement for today's code (cfg_today: newMessage pre-stamps VersionMin, the writer
   only fills in version 0) is FALSE:
     forall cmax r1 r2 ls, let s := session cfg_today cmax r1 r2 ls in
       Forall (fun f => m_ver f = n_version (fst s) \/ is_neg_type (m_typ f) = true) (snd s)
   Witness (defect F5): client max 1.1, reader current = max = 1.1 (bytes 64, 64), then one
   GET_READER_CONFIG request and one keep-alive ack: the request frame carries 1.0.1, the ack 1.1.
   The same session is replayed on the Go client by checks/c06.py. *)
Theorem later_frames_negotiated_refuted : exists cmax r1 r2 ls,
  let s := session cfg_today cmax r1 r2 ls in
  n_outcome (fst s) = Proceeds /\
  ~ Forall (fun f => m_ver f = n_version (fst s) \/ is_neg_type (m_typ f) = true) (snd s).
Proof. exact later_frames_refuted_l. Qed.
Print Assumptions later_frames_negotiated_refuted.

(* what does hold today: the keep-alive acknowledgement carries the negotiated version *)
Theorem later_acks_negotiated : forall cfg v, m_ver (stamp cfg v (build cfg Ack)) = v.
Proof. exact ack_negotiated. Qed.
Print Assumptions later_acks_negotiated.

(* "any other error reply, or a refused switch, fails the connection attempt" (+ wrong reply
   type, oversize reply, undecodable reply, no reply), first message … *)
Theorem neg_failures_fail_connect : forall cfg cmax r1 r2, V1_0_1 < cmax -> first_reply_bad r1 ->
  negotiate cfg cmax r1 r2 = mkRes [mkMsg V1_1 MsgGetSupportedVersion []] Fails cmax.
Proof. exact first_failure_fails. Qed.
Print Assumptions neg_failures_fail_connect.

(* … and second message *)
Theorem neg_failures_fail_connect_set : forall cfg cmax cb mb r2, V1_0_1 < cmax ->
  reader_ver cb <> N.min cmax (reader_ver mb) -> second_reply_bad r2 ->
  n_outcome (negotiate cfg cmax (Resp cb mb StatusSuccess) r2) = Fails.
Proof. exact second_failure_fails. Qed.
Print Assumptions neg_failures_fail_connect_set.

(* non-vacuity of the failure clause's other side: an accepted switch proceeds *)
Theorem accepted_switch_proceeds : forall cfg cmax cb mb a b, V1_0_1 < cmax ->
  n_outcome (negotiate cfg cmax (Resp cb mb StatusSuccess) (Resp a b StatusSuccess)) = Proceeds.
Proof. exact accepted_proceeds. Qed.
Print Assumptions accepted_switch_proceeds.

(* ---- the reader may send KEEPALIVEs while negotiation is under way (k1 while the query is
   unanswered, k2 while the switch is unanswered; any numbers) ---- *)

(* they change neither the outcome, nor the version settled on, nor the negotiation messages:
   every clause above therefore holds with keep-alives interleaved *)
Theorem keepalives_do_not_disturb : forall cfg cmax k1 k2 r1 r2,
  let a := negotiate_ka cfg cmax k1 k2 r1 r2 in
  let b := negotiate cfg cmax r1 r2 in
  n_outcome a = n_outcome b /\ n_version a = n_version b /\
  neg_frames_only (n_frames a) = n_frames b.
Proof. exact ka_same_result. Qed.
Print Assumptions keepalives_do_not_disturb.

(* every frame written during negotiation is a negotiation message at 1.1 or an acknowledgement
   stamped with the version in use at that moment (the configured maximum, or the chosen one) *)
Theorem neg_phase_frames : forall cfg cmax k1 k2 r1 r2,
  let r := negotiate_ka cfg cmax k1 k2 r1 r2 in
  Forall (neg_phase_frame_ok cmax (n_version r)) (n_frames r).
Proof. exact ka_frames_ok. Qed.
Print Assumptions neg_phase_frames.

(* "every message sent afterwards carries the negotiated version", keep-alives having been
   acknowledged during negotiation or not *)
Theorem later_frames_negotiated_ka : forall cfg cmax k1 k2 r1 r2 ls, conforming cfg = true ->
  let s := session_ka cfg cmax k1 k2 r1 r2 ls in
  Forall (fun f => m_ver f = n_version (fst s) \/ is_neg_type (m_typ f) = true) (snd s).
Proof. exact later_frames_negotiated_ka_l. Qed.
Print Assumptions later_frames_negotiated_ka.

(* an acknowledgement carries the negotiated version at whatever position of the later traffic
   it falls (first frame after negotiation, between requests, …) — every configuration *)
Theorem later_acks_any_position : forall cfg v ls i, nth_error ls i = Some Ack ->
  nth_error (write_later cfg v ls) i = Some (mkMsg v MsgKeepAliveAck []).
Proof. exact later_acks_everywhere. Qed.
Print Assumptions later_acks_any_position.

(* ---- "… and sticks to it": all subsequent traffic --------------------------------------------
   After Connect has proceeded, for EVERY list of events — requests written, the answers their
   callers get (success, any status in an ERROR_MESSAGE or in the expected response, wrong type,
   none), keep-alives acknowledged — the client's version stays what it was … *)
Theorem version_invariant_under_traffic : forall cfg evs s,
  p_ver (fold_left (post_step cfg) evs s) = p_ver s.
Proof. exact post_version_invariant. Qed.
Print Assumptions version_invariant_under_traffic.

(* … so, whatever happened during negotiation (keep-alives included) and whatever traffic follows,
   the version is still the negotiated one at the end and every frame written carries it *)
Theorem all_subsequent_traffic_negotiated : forall cfg cmax k1 k2 r1 r2 evs, conforming cfg = true ->
  let s := session_post cfg cmax k1 k2 r1 r2 evs in
  p_ver (snd s) = n_version (fst s) /\
  Forall (fun f => m_ver f = n_version (fst s) \/ is_neg_type (m_typ f) = true) (p_out (snd s)).
Proof. exact post_traffic_negotiated_l. Qed.
Print Assumptions all_subsequent_traffic_negotiated.

(* acknowledgements carry the current version under every configuration, wherever they fall in
   the traffic (no caller sends a KEEPALIVE_ACK of its own) *)
Theorem subsequent_acks_negotiated : forall cfg evs s v, p_ver s = v ->
  Forall (fun f => m_typ f = MsgKeepAliveAck -> m_ver f = v) (p_out s) ->
  (forall t p, In (PRequest t p) evs -> t <> MsgKeepAliveAck) ->
  Forall (fun f => m_typ f = MsgKeepAliveAck -> m_ver f = v) (p_out (fold_left (post_step cfg) evs s)).
Proof. exact post_acks_ok. Qed.
Print Assumptions subsequent_acks_negotiated.

(* ---- consistency with the client LTS (Client/Model.v, the model behind C03–C10) ----------
   [negotiate]/[session] above and the LTS's negotiation phases are two models of the same Go
   code, each tied to Go by its own check.  Here: for every C06 configuration nc, every setting fu
   of the unsolicited-reply filter, every client maximum, every pair of reader reactions both
   models can express (NegRefine.expressible: all six kinds; a "wrong type" must not be one of the
   three reader-initiated types), every ordinary message type typ and keep-alive id kid, the LTS
   of a default client (built-in ackHandler, no user/default handlers) run through the canonical
   schedule NegRefine.canon
       ConnStart, ConnFirst (successful ReaderEventNotification),
       [NegSubmit, WDefault, WAccept, WWriteHdr, WWritePay, RCheck, RFrame reply | Cancel, NegStep]
         for GET_SUPPORTED_VERSION and — iff the LTS itself goes on to it — SET_PROTOCOL_VERSION,
       ConnReady, and — iff the LTS's Connect has proceeded — a KEEPALIVE acknowledged
       (RCheck, RFrame, WTakeAck, WWriteHdr) and SendMessage(typ) written
       (Submit, PassGate, WDefault, WAccept, WWriteHdr)
   writes exactly the frames [session] computes (version bits, type, payload as (length, tag)),
   Connect proceeds/fails as [negotiate] says, and c.version ends as n_version.
   The reader's frames stand for the reactions through NegRefine.reply_frame (the LTS sees the
   decoded f_info; the decoding data[0] >> 5 is applied there); NoReply = the internal send ends
   with ctx.Err() (event Cancel). *)
Theorem C06_negotiate_agrees_with_lts : forall nc fu cmax r1 r2 typ kid,
  NegRefine.expressible r1 -> NegRefine.expressible r2 -> is_neg_type typ = false ->
  let cfg := NegRefine.lts_cfg nc fu cmax in
  let s := Model.run cfg (NegRefine.canon nc cfg r1 r2 typ kid) in
  let m := session nc cmax (strict_query r1) r2 [Ack; Request typ []] in     (* = negotiate_strict: the LTS follows /repo 6e714d1 *)
  map NegRefine.view_o (Types.out s) = map NegRefine.view_m (n_frames (fst m) ++ snd m) /\
  NegRefine.lts_outcome s = Some (n_outcome (fst m)) /\
  Types.version s = n_version (fst m).
Proof. exact NegRefine.negotiate_agrees_with_lts. Qed.
Print Assumptions C06_negotiate_agrees_with_lts.

(* non-vacuity: concrete sessions *)
(* client 1.1, reader at 1.0.1 able to do 1.1 (bytes 32, 64): query, switch to 1.1, accepted *)
Example C06_example_switch :
  session (mkCfg false false) V1_1 (Resp 32 64 0) (Resp 0 0 0) [Request 2 []; Ack]
  = (mkRes [mkMsg 2 46 []; mkMsg 2 47 [2]] Proceeds 2, [mkMsg 2 2 []; mkMsg 2 72 []]).
Proof. vm_compute. reflexivity. Qed.
(* client 1.1, reader 1.0.1 only, currently at 1.1 (bytes 64, 32): client goes down to 1.0.1 and
   asks the reader to follow; the reader refuses with status 110 *)
Example C06_example_refused :
  session cfg_today V1_1 (Resp 64 32 0) (Resp 0 0 110) [Request 2 []; Ack]
  = (mkRes [mkMsg 2 46 []; mkMsg 2 47 [1]] Fails 1, []).
Proof. vm_compute. reflexivity. Qed.
Example C06_example_conforming : conforming (mkCfg true true) = true /\ conforming cfg_today = false.
Proof. split; reflexivity. Qed.
(* client 1.1, reader 1.0.1 only and at 1.0.1 (bytes 32, 32); one keep-alive while the query is
   unanswered (acknowledged at 1.1), then ack first, request, ack, request: all at 1.0.1 *)
Example C06_example_keepalive_inside :
  session_ka (mkCfg true true) V1_1 1 0 (Resp 32 32 0) NoReply [Ack; Request 2 []; Ack; Request 1 [0]]
  = (mkRes [mkMsg 2 46 []; mkMsg 2 72 []] Proceeds 1,
     [mkMsg 1 72 []; mkMsg 1 2 []; mkMsg 1 72 []; mkMsg 1 1 [0]]).
Proof. vm_compute. reflexivity. Qed.
(* keep-alives at both points of a downgrade with a switch: acks at 1.1 then at 1.0.1 *)
Example C06_example_keepalive_both :
  n_frames (negotiate_ka (mkCfg true true) V1_1 1 1 (Resp 64 32 0) (Resp 0 0 0))
  = [mkMsg 2 46 []; mkMsg 2 72 []; mkMsg 2 47 [1]; mkMsg 1 72 []].
Proof. vm_compute. reflexivity. Qed.
(* a request answered with ERROR_MESSAGE / M_UnsupportedVersion after 1.1 was negotiated: the next
   acknowledgement and request still carry 1.1 *)
Example C06_example_traffic :
  session_post (mkCfg true true) V1_1 0 0 (Resp 32 64 0) (Resp 0 0 0)
    [PRequest 21 [0;0;0;1]; PAnswer (AnsStatus true 110); PKeepAlive; PRequest 22 [0;0;0;2]; PAnswer AnsSuccess]
  = (mkRes [mkMsg 2 46 []; mkMsg 2 47 [2]] Proceeds 2,
     mkPost 2 [mkMsg 2 21 [0;0;0;1]; mkMsg 2 72 []; mkMsg 2 22 [0;0;0;2]]).
Proof. vm_compute. reflexivity. Qed.

(* ---- a reader that stops reading for a while: acknowledgements WRITTEN after negotiation -------
   "every message sent afterwards carries the negotiated version" is about when a frame is
   written, not about when the KEEPALIVE it answers arrived.  The write loop (Negotiate.wr_step:
   acknowledgement IDs first, then the send queue; the header is stamped with the version of the
   moment the loop takes the message; one write at a time, which completes when the reader reads)
   is run here on EVERY list of events — keep-alives arriving, messages handed over, assignments of
   the version, the reader reading. *)

(* once the version has settled — no later assignment changes it — and a write is under way whose
   frame f was stamped earlier, the reader reads nothing at all, or f followed by frames that all
   carry the settled version: f is the only frame that may still carry another one *)
Theorem only_the_write_under_way_is_older : forall cfg evs s f, conforming cfg = true ->
  (forall v, In (WAssign v) evs -> v = w_ver s) -> w_busy s = Some f ->
  exists rest, w_wire (wr_run cfg evs s) = w_wire s ++ rest /\
               (rest = [] \/ exists rest', rest = f :: rest' /\ Forall (carries (w_ver s)) rest').
Proof. exact wr_only_write_under_way_older. Qed.
Print Assumptions only_the_write_under_way_is_older.

(* … and with no write under way (or one that already carries the settled version) every frame does *)
Theorem frames_written_after_settling : forall cfg evs s, conforming cfg = true ->
  (forall v, In (WAssign v) evs -> v = w_ver s) ->
  (forall g, w_busy s = Some g -> carries (w_ver s) g) ->
  exists rest, w_wire (wr_run cfg evs s) = w_wire s ++ rest /\ Forall (carries (w_ver s)) rest /\
               w_ver (wr_run cfg evs s) = w_ver s.
Proof. exact wr_settled. Qed.
Print Assumptions frames_written_after_settling.

(* d KEEPALIVEs sent by a reader that does not read, the version changing from v_then to v_now
   meanwhile: what the reader finds when it reads again is [held]: the first acknowledgement at
   v_then (its write began at once), the other d-1 at v_now *)
Theorem held_acks_stamped_when_written : forall cfg v_then v_now d w,
  wr_run cfg (repeat WKeepAlive d ++ WAssign v_now :: repeat WPeerReads d) (wr_idle v_then w)
  = wr_idle v_now (w ++ held cfg v_then v_now d).
Proof. exact held_is_writer_run. Qed.
Print Assumptions held_acks_stamped_when_written.

(* the negotiation function with held-back acknowledgements (k1/k2 keep-alives acknowledged at once,
   d1/d2 sent by a reader that does not read until the client has acted on the answer that follows)
   computes exactly what the write loop puts on the wire on the schedule of such a negotiation *)
Theorem negotiate_kd_is_writer_run : forall cfg cmax k1 d1 k2 d2 r1 r2,
  let s := wr_run cfg (kd_schedule cmax k1 d1 k2 d2 r1 r2) (wr_idle cmax []) in
  let m := negotiate_kd cfg cmax k1 d1 k2 d2 r1 r2 in
  w_wire s = n_frames (fst m) ++ snd m /\ w_ver s = n_version (fst m).
Proof. exact negotiate_kd_is_writer_run_l. Qed.
Print Assumptions negotiate_kd_is_writer_run.

(* held-back acknowledgements change neither the outcome, nor the version settled on, nor the
   negotiation messages (so every clause above holds with them), and without any the function is
   negotiate_ka *)
Theorem held_acks_do_not_disturb : forall cfg cmax k1 d1 k2 d2 r1 r2,
  let a := fst (negotiate_kd cfg cmax k1 d1 k2 d2 r1 r2) in
  let b := negotiate cfg cmax r1 r2 in
  n_outcome a = n_outcome b /\ n_version a = n_version b /\ neg_frames_only (n_frames a) = n_frames b.
Proof. exact kd_same_result. Qed.
Print Assumptions held_acks_do_not_disturb.

Theorem no_held_acks_is_session_post : forall cfg cmax k1 k2 r1 r2 evs,
  session_kd cfg cmax k1 0 k2 0 r1 r2 evs = session_post cfg cmax k1 k2 r1 r2 evs.
Proof. exact session_kd_no_delay. Qed.
Print Assumptions no_held_acks_is_session_post.

(* "every message sent afterwards carries the negotiated version" for a whole session — any client
   maximum, reactions, keep-alives acknowledged at once or held back at either point, any traffic
   afterwards: the version at the end is the negotiated one … *)
Theorem held_session_version : forall cfg cmax k1 d1 k2 d2 r1 r2 evs, conforming cfg = true ->
  let s := session_kd cfg cmax k1 d1 k2 d2 r1 r2 evs in
  p_ver (snd s) = n_version (fst s) /\
  (n_outcome (fst s) = Proceeds ->
   exists traffic, p_out (snd s) = snd (negotiate_kd cfg cmax k1 d1 k2 d2 r1 r2) ++ traffic /\
                   Forall (carries (n_version (fst s))) traffic).
Proof. exact session_kd_traffic. Qed.
Print Assumptions held_session_version.

(* … and of the frames read after negotiation ended every one carries it, except — at most — the
   FIRST, and only when that is the acknowledgement (at the configured maximum) whose write was
   under way when the query's answer ended the negotiation (d1 <> 0) *)
Theorem frames_after_negotiation_negotiated : forall cfg cmax k1 d1 k2 d2 r1 r2 evs, conforming cfg = true ->
  let s := session_kd cfg cmax k1 d1 k2 d2 r1 r2 evs in
  let v := n_version (fst s) in
  Forall (carries v) (tl (p_out (snd s))) /\
  (forall f, hd_error (p_out (snd s)) = Some f ->
             carries v f \/ (f = mkMsg cmax MsgKeepAliveAck [] /\ d1 <> O)) /\
  (d1 = O -> Forall (carries v) (p_out (snd s))).
Proof. exact session_kd_negotiated. Qed.
Print Assumptions frames_after_negotiation_negotiated.

(* client 1.1, reader 1.0.1 only, which rejects the query as an unsupported version after having
   sent two KEEPALIVEs without reading: the first acknowledgement (write under way) carries 1.1,
   the second — written after the client settled on 1.0.1 — and all later traffic carry 1.0.1 *)
Example C06_example_held_acks :
  session_kd (mkCfg true true) V1_1 0 2 0 0 (ErrMsg 110) NoReply
    [PKeepAlive; PRequest 2 []; PAnswer AnsSuccess; PKeepAlive; PRequest 1 [0]; PAnswer AnsSuccess]
  = (mkRes [mkMsg 2 46 []] Proceeds 1,
     mkPost 1 [mkMsg 2 72 []; mkMsg 1 72 []; mkMsg 1 72 []; mkMsg 1 2 []; mkMsg 1 72 []; mkMsg 1 1 [0]]).
Proof. vm_compute. reflexivity. Qed.
(* the same reader reached through a switch (current 1.1, maximum 1.0.1), acknowledgements held at
   both points: SET_PROTOCOL_VERSION is written after the held acknowledgements *)
Example C06_example_held_acks_switch :
  session_kd (mkCfg true true) V1_1 0 2 0 2 (Resp 64 32 0) (Resp 0 0 0) [PRequest 2 []]
  = (mkRes [mkMsg 2 46 []; mkMsg 2 72 []; mkMsg 1 72 []; mkMsg 2 47 [1]] Proceeds 1,
     mkPost 1 [mkMsg 1 72 []; mkMsg 1 72 []; mkMsg 1 2 []]).
Proof. vm_compute. reflexivity. Qed.
(* the hypotheses of only_the_write_under_way_is_older are satisfiable: write loop blocked in an
   acknowledgement stamped 1.1, one more ID queued, the version already 1.0.1 *)
Example C06_example_write_under_way :
  w_wire (wr_run (mkCfg true true) [WKeepAlive; WPeerReads; WSubmit 2 []; WPeerReads; WPeerReads; WPeerReads]
            (mkWr 1 (Some (mkMsg 2 72 [])) 1 [] []))
  = [mkMsg 2 72 []; mkMsg 1 72 []; mkMsg 1 72 []; mkMsg 1 2 []].
Proof. vm_compute. reflexivity. Qed.

(* ---- a negotiation message that gets no answer -------------------------------------------------
   "settles on the lower of its own maximum and the reader's maximum (1.0.1 if the reader REJECTS the
   query as an unsupported version)": without an answer the reader's maximum is not known and
   nothing was rejected.  Each reaction now comes with its arrival (Negotiate.arrival): InTime,
   Never (the link may well stay alive: KEEPALIVEs go on being acknowledged, k1 / k2 of them), or
   AfterGivingUp (later than any client timeout allows).  A client with a timeout (has_timeout)
   stops waiting; one without waits for as long as the connection lasts (first component of
   session_t's result = still waiting). *)

(* the query left unanswered: Connect does not succeed — it FAILS for a client with a timeout and
   is still waiting for one without —, the version is still the configured maximum, the query is
   the only negotiation message written, nothing is written afterwards; whatever else happens
   (keep-alives at any point, held back or not, any reaction to the second message, any traffic
   that callers would like to send) *)
Theorem unanswered_query_never_succeeds : forall cfg to cmax k1 d1 k2 d2 t1 t2 evs,
  V1_0_1 < cmax -> unanswered to t1 ->
  let s := session_t cfg to cmax k1 d1 k2 d2 t1 t2 evs in
  ~ connect_succeeds s /\ fst s = negb to /\ n_outcome (fst (snd s)) = Fails /\
  n_version (fst (snd s)) = cmax /\
  neg_frames_only (n_frames (fst (snd s))) = [mkMsg V1_1 MsgGetSupportedVersion []] /\
  p_out (snd (snd s)) = [].
Proof. exact unanswered_query. Qed.
Print Assumptions unanswered_query_never_succeeds.

(* the switch left unanswered (the query was answered in time and called for it): the same *)
Theorem unanswered_switch_never_succeeds : forall cfg to cmax k1 d1 k2 d2 r1 t2 evs,
  switch_needed cmax r1 = true -> unanswered to t2 ->
  let s := session_t cfg to cmax k1 d1 k2 d2 (InTime, r1) t2 evs in
  ~ connect_succeeds s /\ fst s = negb to /\ n_outcome (fst (snd s)) = Fails /\ p_out (snd (snd s)) = [].
Proof. exact unanswered_switch. Qed.
Print Assumptions unanswered_switch_never_succeeds.

(* conversely, a Connect that succeeds has had a usable answer to every negotiation message it sent *)
Theorem successful_connect_was_answered : forall cfg to cmax k1 d1 k2 d2 t1 t2 evs, V1_0_1 < cmax ->
  connect_succeeds (session_t cfg to cmax k1 d1 k2 d2 t1 t2 evs) ->
  exists r1, experienced to t1 = Some r1 /\ r1 <> NoReply /\
             (switch_needed cmax r1 = true -> exists r2, experienced to t2 = Some r2 /\ r2 <> NoReply).
Proof. exact success_means_answered. Qed.
Print Assumptions successful_connect_was_answered.

(* for a client without a timeout a slow reply is a reply like any other; with replies in time
   session_t is session_kd: every clause above carries over *)
Theorem slow_reply_is_a_reply : forall cfg cmax k1 d1 k2 d2 r1 r2 a1 a2 evs, a1 <> Never -> a2 <> Never ->
  session_t cfg false cmax k1 d1 k2 d2 (a1, r1) (a2, r2) evs
  = (false, session_kd cfg cmax k1 d1 k2 d2 r1 r2 evs).
Proof. exact slow_reply_no_timeout. Qed.
Print Assumptions slow_reply_is_a_reply.

Theorem replies_in_time_is_session_kd : forall cfg to cmax k1 d1 k2 d2 r1 r2 evs,
  session_t cfg to cmax k1 d1 k2 d2 (InTime, r1) (InTime, r2) evs
  = (false, session_kd cfg cmax k1 d1 k2 d2 r1 r2 evs).
Proof. exact in_time_is_session_kd. Qed.
Print Assumptions replies_in_time_is_session_kd.

(* client 1.1 with a timeout; the reader (current = max = 1.1) answers the query too late and keeps
   the link alive with three KEEPALIVEs meanwhile: Connect fails, the version is still 1.1 *)
Example C06_example_late_answer :
  session_t (mkCfg true true) true V1_1 3 0 0 0 (AfterGivingUp, Resp 64 64 0) (InTime, Resp 0 0 0) [PRequest 2 []]
  = (false, (mkRes [mkMsg 2 46 []; mkMsg 2 72 []; mkMsg 2 72 []; mkMsg 2 72 []] Fails 2, mkPost 2 [])).
Proof. vm_compute. reflexivity. Qed.
(* the same reader and a client without a timeout: merely slow; and a switch that is never answered *)
Example C06_example_slow_answer :
  session_t (mkCfg true true) false V1_1 3 0 0 0 (AfterGivingUp, Resp 64 64 0) (InTime, Resp 0 0 0) [PRequest 2 []]
  = (false, (mkRes [mkMsg 2 46 []; mkMsg 2 72 []; mkMsg 2 72 []; mkMsg 2 72 []] Proceeds 2, mkPost 2 [mkMsg 2 2 []])).
Proof. vm_compute. reflexivity. Qed.
Example C06_example_unanswered_switch :
  session_t (mkCfg true true) false V1_1 0 0 2 0 (InTime, Resp 64 32 0) (Never, NoReply) [PRequest 2 []]
  = (true, (mkRes [mkMsg 2 46 []; mkMsg 2 47 [1]; mkMsg 1 72 []; mkMsg 1 72 []] Fails 1, mkPost 1 [])).
Proof. vm_compute. reflexivity. Qed.

(* ---- which replies let Connect succeed ----------------------------------------------------------
   "(1.0.1 if the reader rejects the query as an unsupported version) … any other error reply, or a
   refused switch, fails the connection attempt": Connect may succeed only after the EXPECTED response
   type carrying Success — for both negotiation messages —, the one exception being ERROR_MESSAGE /
   M_UnsupportedVersion answering the query.  An ERROR_MESSAGE that carries Success, or another
   message type whatever status it carries, confirms nothing. *)

(* the switch: confirmed by SET_PROTOCOL_VERSION_RESPONSE/Success and by nothing else *)
Theorem switch_confirmed_only_by_expected_success : forall r, set_accepted r = true <-> expected_success r.
Proof. exact switch_confirmed_iff. Qed.
Print Assumptions switch_confirmed_only_by_expected_success.

(* the query: the full clause
     forall cfg cmax r1 r2, V1_0_1 < cmax -> n_outcome (negotiate cfg cmax r1 r2) = Proceeds ->
       expected_success r1 \/ r1 = ErrMsg StatusMsgVerUnsupported
   is FALSE of the code as it stands (get_supported = getSupportedVersion, reader.go:1149-1171):
   ERROR_MESSAGE/Success answering the query is read as "1.0.1-only reader" as well … *)
Theorem query_success_only_after_expected_refuted : exists cfg cmax r1 r2, V1_0_1 < cmax /\
  n_outcome (negotiate cfg cmax r1 r2) = Proceeds /\
  ~ (expected_success r1 \/ r1 = ErrMsg StatusMsgVerUnsupported).
Proof. exact errmsg_success_refuted_l. Qed.
Print Assumptions query_success_only_after_expected_refuted.

(* … for every configuration and client maximum above 1.0.1: the query is the only frame, Connect
   proceeds, the client uses 1.0.1 (witness replayed on the Go client by checks/c06.py) *)
Theorem errmsg_success_answering_query_today : forall cfg cmax r2, V1_0_1 < cmax ->
  negotiate cfg cmax (ErrMsg StatusSuccess) r2
  = mkRes [mkMsg V1_1 MsgGetSupportedVersion []] Proceeds V1_0_1.
Proof. exact errmsg_success_query_today. Qed.
Print Assumptions errmsg_success_answering_query_today.

(* what does hold of the code as it stands: that reply is the only one beyond the two named *)
Theorem query_answered_by_partial : forall r p, get_supported r = Some p ->
  (exists cb mb, r = Resp cb mb StatusSuccess /\ p = (reader_ver cb, reader_ver mb)) \/
  (r = ErrMsg StatusMsgVerUnsupported /\ p = (V1_0_1, V1_0_1)) \/
  (r = ErrMsg StatusSuccess /\ p = (V1_0_1, V1_0_1)).
Proof. exact query_answered_today. Qed.
Print Assumptions query_answered_by_partial.

(* the repaired function (ERROR_MESSAGE/Success answering the query treated like every other
   ERROR_MESSAGE that is not M_UnsupportedVersion; negotiate_strict) satisfies the full clause … *)
Theorem connect_succeeds_only_after_expected_success : forall cfg cmax r1 r2, V1_0_1 < cmax ->
  n_outcome (negotiate_strict cfg cmax r1 r2) = Proceeds ->
  (r1 = ErrMsg StatusMsgVerUnsupported /\
   negotiate_strict cfg cmax r1 r2 = mkRes [mkMsg V1_1 MsgGetSupportedVersion []] Proceeds V1_0_1) \/
  (expected_success r1 /\ (switch_needed cmax r1 = true -> expected_success r2)).
Proof. exact strict_success_only_after_expected. Qed.
Print Assumptions connect_succeeds_only_after_expected_success.

(* … and is the function above for every other reaction *)
Theorem repair_changes_nothing_else : forall cfg cmax r1 r2, r1 <> ErrMsg StatusSuccess ->
  negotiate_strict cfg cmax r1 r2 = negotiate cfg cmax r1 r2.
Proof. exact strict_same_elsewhere. Qed.
Print Assumptions repair_changes_nothing_else.

Example C06_example_errmsg_success_query :
  negotiate cfg_today V1_1 (ErrMsg 0) (Resp 0 0 0) = mkRes [mkMsg 2 46 []] Proceeds 1 /\
  negotiate_strict cfg_today V1_1 (ErrMsg 0) (Resp 0 0 0) = mkRes [mkMsg 2 46 []] Fails 2.
Proof. split; vm_compute; reflexivity. Qed.
(* ERROR_MESSAGE/Success answering the switch: fails in both *)
Example C06_example_errmsg_success_switch :
  negotiate cfg_today V1_1 (Resp 32 64 0) (ErrMsg 0) = mkRes [mkMsg 2 46 []; mkMsg 2 47 [2]] Fails 2.
Proof. vm_compute. reflexivity. Qed.
