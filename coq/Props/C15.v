(* C15 — Connection supervision: retry forever, Down after two failures, Up on reconnect.
   Only property statements; each closed by [exact]/[apply] of lemmas proved in
   Driver/SupervisorProofs.v.  The LTS is Driver/Supervisor.v; runs are
   [run (init up0 a0) evs = fold_left step evs (init up0 a0)] for ALL event lists [evs]
   (disabled events leave the state unchanged), all initial operating states [up0] and
   addresses [a0].  Histories are the append-only [log]. *)
From Coq Require Import ZArith NArith List Bool Arith Lia.
From LLRP Require Import Driver.Supervisor Driver.SupervisorProofs Driver.SupervisorRetry Driver.Registry Driver.RegistryProofs.
From LLRP Require Import Driver.SupervisorFlight Driver.SupervisorFlightProofs.
From LLRP Require Import Driver.RegistrySplit Driver.RegistrySplitProofs.
From LLRP Require Import Driver.AddrUpdate Driver.AddrUpdateProofs.
Import ListNotations.

(* 1. retries until stopped: after any finite run without Stop, a Dial is enabled — at once, or
      (while a connection is established) as soon as that connection breaks; and an enabled
      Dial really dials, the current address. There is no terminal state other than stopped. *)
Theorem C15_retries_until_stop : forall up0 a0 evs,
  forallb (fun e => negb (is_stop e)) evs = true ->
  let s := run (init up0 a0) evs in
  (dial_enabled s = true \/ (connected s = true /\ dial_enabled (step s Drop) = true)) /\
  (forall o, dial_enabled s = true ->
     exists l, log (step s (Dial o)) = log s ++ LDial (cur_addr s) :: l).
Proof. exact retries_until_stop. Qed.
Print Assumptions C15_retries_until_stop.

(* the same over the property's own five outcomes (no connection is left standing between
   events): a Dial is enabled after every run without Stop *)
Theorem C15_retries_until_stop_five : forall up0 a0 evs,
  forallb (fun e => negb (is_stop e)) evs = true ->
  forallb (fun e => negb (is_established e)) evs = true ->
  dial_enabled (run (init up0 a0) evs) = true.
Proof. exact retries_until_stop_five. Qed.
Print Assumptions C15_retries_until_stop_five.

(* 2. Down after two failures: whenever two (or more) attempts have failed since the reader last
      accepted a connection — the break of that connection counting as the first — the state
      EdgeX holds is Down (the SDK calls succeeding). This holds in every reachable state, so in
      particular before every further attempt and at the end. *)
Theorem C15_down_after_two : forall up0 a0 evs,
  sdk_ok evs = true ->
  let s := run (init up0 a0) evs in
  2 <= fails_since_hs (log s) -> last_report (st0 up0) (log s) = Down.
Proof. exact down_after_two. Qed.
Print Assumptions C15_down_after_two.

(* 2'. ... and the same when the reader accepts the connections in between: whenever two (or more)
      attempts have failed since EdgeX was last told Up and since an attempt last ended normally, the
      state EdgeX holds is Down -- handshakes do not restart the count.  A reader whose every
      connection breaks (at any point after its connection-success event: during version
      negotiation, after it, by a time-out of the device) is Down after the second attempt. *)
Theorem C15_down_after_two_consecutive : forall up0 a0 evs,
  sdk_ok evs = true ->
  let s := run (init up0 a0) evs in
  2 <= fails_consec (log s) -> last_report (st0 up0) (log s) = Down.
Proof. exact down_after_two_consecutive. Qed.
Print Assumptions C15_down_after_two_consecutive.

Example C15_down_after_two_consecutive_example :
  let s := run (init true 1%N) [Dial HandshakeThenDropped; Dial HandshakeThenDropped] in
  fails_since_hs (log s) = 1 /\ fails_consec (log s) = 2 /\
  log s = [LDial 1%N; LHandshake; LFail; LDial 1%N; LHandshake; LFail; LReport Down true].
Proof. vm_compute. repeat split; reflexivity. Qed.

(* 3. Up on reconnect: when an attempt is made and the reader accepts it (good handshake),
      then directly after the handshake the state EdgeX holds is Up: it was Up already, or the
      very next history entry is the successful Up report. *)
Theorem C15_up_on_reconnect : forall up0 a0 evs o,
  sdk_ok evs = true -> handshake_ok o = true ->
  let s := run (init up0 a0) evs in
  dial_enabled s = true ->
  exists l, log (step s (Dial o)) = log s ++ LDial (cur_addr s) :: LHandshake :: l /\
            last_report (st0 up0) (log s ++ LDial (cur_addr s) :: LHandshake :: firstn 1 l) = Up.
Proof. exact up_on_reconnect. Qed.
Print Assumptions C15_up_on_reconnect.

(* 4. reported states alternate, starting from the initial state (for the successful reports
      this needs no assumption on the SDK; when the SDK never fails every call is one) *)
Theorem C15_states_alternate : forall up0 a0 evs,
  alternates (st0 up0) (reports (log (run (init up0 a0) evs))) = true.
Proof. exact states_alternate. Qed.
Print Assumptions C15_states_alternate.

(* ... and the flag the device keeps is the state EdgeX holds *)
Theorem C15_isup_is_reported : forall up0 a0 evs,
  let s := run (init up0 a0) evs in isUp s = is_up (last_report (st0 up0) (log s)).
Proof. exact isup_is_reported. Qed.
Print Assumptions C15_isup_is_reported.

(* 5. no dial after Stop *)
Theorem C15_no_dial_after_stop : forall up0 a0 evs1 f evs2,
  dials (log (run (init up0 a0) (evs1 ++ Stop f :: evs2))) =
  dials (log (run (init up0 a0) evs1)).
Proof. exact no_dial_after_stop. Qed.
Print Assumptions C15_no_dial_after_stop.

(* 6. an address change redirects: every attempt dials the last address set before it
      ([last_addr] is a function of the event list alone) *)
Theorem C15_addr_change_redirects : forall up0 a0 evs o,
  let s := run (init up0 a0) evs in
  dial_enabled s = true ->
  exists l, log (step s (Dial o)) = log s ++ LDial (last_addr a0 evs) :: l.
Proof. exact addr_change_redirects. Qed.
Print Assumptions C15_addr_change_redirects.

(* 7. TrySend: whatever each attempt meets, at most three calls; every call that was followed
      by another one had met a closed (or already discarded) client; fewer than three calls
      means the last result was not of that kind *)
Theorem C15_send_retries_only_closed_max3 : forall res : nat -> sclass,
  let n := fst (try_send res) in let c := snd (try_send res) in
  1 <= n <= 3 /\ c = res (n - 1) /\
  (forall i, S i < n -> res i = SClosed \/ res i = SNoClient) /\
  (n < 3 -> retriable c = false).
Proof. exact try_send_spec. Qed.
Print Assumptions C15_send_retries_only_closed_max3.

(* ... and so for every TrySend recorded in any run of the supervisor *)
Theorem C15_sends_in_runs : forall up0 a0 evs n m c,
  In (LSend n m c) (log (run (init up0 a0) evs)) ->
  1 <= n <= 3 /\ m <= n /\ (1 < n -> c = SClosed \/ c = SNoClient).
Proof. exact sends_in_runs. Qed.
Print Assumptions C15_sends_in_runs.

(* non-vacuity: a concrete run. Two refused dials (Down), a connection that breaks (Up, then one
   failure), a refused dial (second failure: Down), address change while waiting, a wasted
   connection at the new address (the closed client), a connection that stays, a request, Stop,
   a request after Stop. *)
Example C15_example :
  log (run (init true 1%N)
    [Dial Refused; Dial Refused; Dial HandshakeThenDropped; Dial Refused; UpdateAddr 2%N false;
     Dial Established; Dial Established; Send ReaderOk; Stop false; Send ReaderOk]) =
  [LDial 1%N; LFail; LDial 1%N; LFail; LReport Down true;
   LDial 1%N; LHandshake; LReport Up true; LFail; LDial 1%N; LFail; LReport Down true;
   LSetAddr 2%N; LDial 2%N; LHandshake; LReport Up true; LNormal; LDial 2%N; LHandshake;
   LSend 1 1 SOk; LStop; LNormal; LSend 1 1 SCtx].
Proof. vm_compute. reflexivity. Qed.

(* on a connected device every answer other than success is final after ONE send: non-success
   status, ERROR_MESSAGE, a reply of the wrong type, an undecodable reply, no reply in time *)
Example C15_connected_sends_once :
  log (run (init true 1%N)
    [Dial Established; Send ReaderRejects; Send ReaderErrorMessage; Send ReaderWrongType;
     Send ReaderGarbage; Send ReaderLate; Send ReaderOk]) =
  [LDial 1%N; LHandshake; LSend 1 1 SStatus; LSend 1 1 SStatus; LSend 1 1 SOther; LSend 1 1 SOther;
   LSend 1 1 SCtx; LSend 1 1 SOk].
Proof. vm_compute. reflexivity. Qed.

(* the behaviour noted in DESIGN §7 (Stop during the quick back-off reports Down) is in the model *)
Example C15_stop_in_quick_backoff :
  reports (log (run (init true 1%N) [Dial Refused; Stop false])) = [Down].
Proof. vm_compute. reflexivity. Qed.

(* ------------------------------------------------------------------------------------------
   Consistency of the supervisor model with the model of ExpBackOff.RetryWithCtx
   (Retry/RetryLoop.v, property C18).  Abstraction function (Driver/SupervisorRetry.v):
   a dial attempt = a call of the retried func, its result as device.go's callback returns it
   ([cb]: ClosedNormally -> nil, everything else -> (true, err), never (false, err));
   [quick_result draw ds stop] = retry.Quick.RetryWithCtx(ctx, maxConnAttempts, dial) run by
   [R.retry_run_cfg] with Quick's configuration (50 ms, 30 s, jitter) on the history "outcomes ds
   ahead, Stop (if any) when they are used up, no deadline, jitter draws [draw]";
   [slow_result draw draw' rds stop] = retry.Slow.RetryWithCtx(ctx, Forever, slow func) with
   Slow's configuration (5 s, 30 min, jitter) on the rounds rds, the slow func returning nil for
   a quick phase that returned nil and (true, err) for every *FError -- also a cancelled one:
   `case context.Canceled` never matches; [kind_of] = how RetryWithCtx ended
   (nil / retries exceeded / context cancelled / still looping).
   For every sequence of dial outcomes, every position of Stop and all jitter draws: the
   supervisor's history of each phase is [phase_log] / [rounds_log] of exactly the attempts /
   rounds RetryWithCtx ran -- Down block exactly when the quick phase returned an *FError, as
   the last entry of the phase -- and the state it is left in is the one the result dictates. *)
Theorem C15_supervisor_retry_agrees_with_retry_model :
  (* quick phase: Quick.RetryWithCtx(ctx, maxConnAttempts, dial) *)
  (forall draw s ds stop force,
    round_start s -> forallb five ds = true -> (ds <> [] \/ stop = true) ->
    (ds = [] -> in_slow s = false) ->
    let r := quick_result draw ds stop in
    let used := firstn (R.runs r) ds in
    let s' := run s (quick_events r ds force) in
    log s' = log s ++ phase_log (cur_addr s) (isUp s) used (kind_of r) /\
    R.runs r <= max_conn_attempts /\
    isUp s' = (if returns_ferror (kind_of r) then false else up_after (isUp s) used) /\
    cur_addr s' = cur_addr s /\
    match kind_of r with
    | KNil => round_start s' /\ in_slow s' = false
    | KExhausted => round_start s' /\ in_slow s' = true
    | KCtx => stop = true /\ stopped s' = true
    | KMore => stop = false /\ stopped s' = false /\ round_fails s' = 1 /\ in_slow s' = false
    | KOtherErr => False
    end) /\
  (* slow phase: Slow.RetryWithCtx(ctx, Forever, slow func) over finished rounds *)
  (forall draw draw' s rd rds stop force,
    round_start s -> forallb finished (rd :: rds) = true ->
    let r := slow_result draw draw' (rd :: rds) stop in
    let done := firstn (R.runs r) (rd :: rds) in
    let s' := run s (rounds_events done ++ (if ctx_ended r then [Stop force] else [])) in
    log s' = log s ++ rounds_log (cur_addr s) (isUp s) done ++ (if ctx_ended r then [LStop] else []) /\
    1 <= R.runs r <= length (rd :: rds) /\
    isUp s' = rounds_up (isUp s) done /\
    match kind_of r with
    | KNil => round_start s' /\ in_slow s' = false /\ round_kind (last done []) = KNil
    | KMore => stop = false /\ R.runs r = length (rd :: rds) /\ round_start s' /\ in_slow s' = true
    | KCtx => stop = true /\ R.runs r = length (rd :: rds) /\ stopped s' = true
    | KExhausted | KOtherErr => False
    end) /\
  (* the outer loop starts (and, after a slow phase that returned nil, starts again) in such a state *)
  (forall up0 a0, round_start (init up0 a0) /\ in_slow (init up0 a0) = false).
Proof. exact supervisor_retry_agrees. Qed.
Print Assumptions C15_supervisor_retry_agrees_with_retry_model.

(* Stop while a connection stands: the attempt, the quick phase and the slow phase each return
   nil at their first call, the outer loop ends: no Down block, no further dial *)
Theorem C15_connected_stop_agrees_with_retry_model : forall ts ts' s force, round_start s ->
  let s' := run s [Dial Established; Stop force] in
  let q := R.retry_run_cfg quick_cfg quick_retries keep_errs None (cb ClosedNormally) ts in
  let sl := R.retry_run_cfg slow_cfg forever keep_errs None (scb q) ts' in
  kind_of q = KNil /\ R.runs q = 1 /\ kind_of sl = KNil /\ R.runs sl = 1 /\
  log s' = log s ++ LDial (cur_addr s) :: LHandshake :: up_entry (isUp s) ++ [LStop; LNormal] /\
  stopped s' = true /\ isUp s' = true /\ dial_enabled s' = false.
Proof. exact connected_stop_agrees. Qed.
Print Assumptions C15_connected_stop_agrees_with_retry_model.

(* THE CORNER "Stop while the supervisor is about to dial" (initially, or right after an attempt
   ended with ErrClientClosed).  In Go the cancellation is noticed at one of two places a few
   instructions apart; the model has one event for each.  [Stop]: Quick.RetryWithCtx's entry check
   / the dial in flight notices it, the Down block runs ... *)
Theorem C15_stop_about_to_dial_in_supervisor_model : forall s force,
  round_start s -> in_slow s = false ->
  log (step s (Stop force)) = log s ++ LStop :: (if isUp s then [LReport Down true] else []).
Proof. exact about_to_dial_stop_in_supervisor. Qed.
Print Assumptions C15_stop_about_to_dial_in_supervisor_model.
(* ... which as a RetryWithCtx history is "context already ended when the QUICK phase is entered"
   (first part of the headline theorem with ds = []); if instead the cancellation is there when
   the SLOW phase is entered the slow func is never called, so there is no Down block ... *)
Theorem C15_retry_model_cancelled_at_slow_entry : forall first ts,
  let r := R.retry_run_cfg slow_cfg forever keep_errs (Some R.Canceled) first ts in
  R.runs r = 0 /\ kind_of r = KCtx.
Proof. exact slow_entry_cancelled_no_down. Qed.
Print Assumptions C15_retry_model_cancelled_at_slow_entry.

(* ... and that is the event [StopAtEntry]: no Down block, no dial, the supervisor ends *)
Theorem C15_stop_at_entry_agrees_with_retry_model : forall first ts s force,
  round_start s -> in_slow s = false ->
  let r := R.retry_run_cfg slow_cfg forever keep_errs (Some R.Canceled) first ts in
  let s' := step s (StopAtEntry force) in
  R.runs r = 0 /\ kind_of r = KCtx /\
  log s' = log s ++ [LStop] /\ stopped s' = true /\ isUp s' = isUp s /\ dials (log s') = dials (log s).
Proof. exact stop_at_entry_agrees. Qed.
Print Assumptions C15_stop_at_entry_agrees_with_retry_model.

(* in every other state the two Stop events are the same transition *)
Theorem C15_stop_events_coincide_elsewhere : forall s f,
  (stopped s = true \/ connected s = true \/ in_slow s = true \/ 1 <= round_fails s) ->
  step s (StopAtEntry f) = step s (Stop f).
Proof. exact stop_events_coincide. Qed.
Print Assumptions C15_stop_events_coincide_elsewhere.

(* no dial after it either (all the other theorems above quantify over all event lists, so they
   cover runs with StopAtEntry already; [is_stop] holds of both events) *)
Theorem C15_no_dial_after_stop_at_entry : forall up0 a0 evs1 f evs2,
  dials (log (run (init up0 a0) (evs1 ++ StopAtEntry f :: evs2))) =
  dials (log (run (init up0 a0) evs1)).
Proof. exact no_dial_after_stop_at_entry. Qed.
Print Assumptions C15_no_dial_after_stop_at_entry.

(* non-vacuity: a round of two failed attempts (the second after a good handshake), computed by
   the RetryWithCtx model with Quick's configuration and arbitrary draws, and the supervisor on it *)
Example C15_retry_example :
  let r := quick_result (fun k => Z.of_nat k) [Refused; HandshakeThenDropped; ClosedNormally] false in
  R.runs r = 2 /\ kind_of r = KExhausted /\
  log (run (init false 7%N) (quick_events r [Refused; HandshakeThenDropped; ClosedNormally] false)) =
  [LDial 7%N; LFail; LDial 7%N; LHandshake; LReport Up true; LFail; LReport Down true].
Proof. vm_compute. repeat split; reflexivity. Qed.

(* ------------------------------------------------------------------------------------------
   "While a device is managed ... until the device is stopped / after Stop it opens no further
   connections" at the level of the Driver: WHO runs a supervisor for a device name
   (Driver/Registry.v: getDevice, removeDevice, the deferred cleanup of a supervisor goroutine).
   [rrun fl evs] for ALL event lists: callers of AddDevice / UpdateDevice / commands overlap in
   any way, RemoveDevice and late goroutine exits come at any point. *)

(* one device name = at most one supervisor at any moment of any schedule, and it is the one
   registered (the one RemoveDevice / Driver.Stop will stop): no orphan keeps dialling *)
Theorem C15_one_supervisor_per_name : forall co evs,
  let s := rrun (mkRFlags true co) evs in
  supervisors s <= 1 /\ forall i, In i (live s) -> reg s = Some i.
Proof. exact one_supervisor. Qed.
Print Assumptions C15_one_supervisor_per_name.

(* after RemoveDevice returned, nobody dials for that name *)
Theorem C15_nothing_dials_after_remove : forall co evs,
  live (rstep (mkRFlags true co) (rrun (mkRFlags true co) evs) RRemove) = [] /\ reg (rstep (mkRFlags true co) (rrun (mkRFlags true co) evs) RRemove) = None.
Proof. exact nothing_live_after_remove. Qed.
Print Assumptions C15_nothing_dials_after_remove.

(* a managed device stays managed, its supervisor running, until RemoveDevice: nothing else —
   in particular not the late exit of an earlier instance of the same name — stops it *)
Theorem C15_managed_until_removed : forall evs e i,
  e <> RRemove ->
  let s := rrun flags_repaired evs in
  reg s = Some i ->
  reg (rstep flags_repaired s e) = Some i /\ In i (live (rstep flags_repaired s e)).
Proof. exact managed_until_removed. Qed.
Print Assumptions C15_managed_until_removed.

(* every caller is handed the instance registered at that moment *)
Theorem C15_caller_gets_registered : forall co evs e c i,
  let s := rrun (mkRFlags true co) evs in
  got (rstep (mkRFlags true co) s e) = (c, i) :: got s ->
  reg (rstep (mkRFlags true co) s e) = Some i.
Proof. exact caller_gets_registered. Qed.
Print Assumptions C15_caller_gets_registered.

(* the tree as found: the deferred cleanup removed whatever was registered under the NAME.
   add, remove, add again, then the first instance's goroutine exits: the second registration —
   a managed device nobody stopped — is stopped and forgotten *)
Theorem C15_managed_until_removed_refuted :
  let evs := [RCheck 0; REnter 0; RRemove; RCheck 1; REnter 1] in
  reg (rrun flags_found evs) = Some 1 /\ live (rrun flags_found evs) = [1] /\ reg (rstep flags_found (rrun flags_found evs) (RExit 0)) = None /\ live (rstep flags_found (rrun flags_found evs) (RExit 0)) = [] /\ (* the repaired cleanup on the same history *)
  reg (rstep flags_repaired (rrun flags_repaired evs) (RExit 0)) = Some 1 /\ live (rstep flags_repaired (rrun flags_repaired evs) (RExit 0)) = [1].
Proof. vm_compute. repeat split; reflexivity. Qed.
Print Assumptions C15_managed_until_removed_refuted.

(* a getDevice that builds its device before taking the write lock: two overlapping callers leave
   an orphan supervisor that RemoveDevice does not stop *)
Theorem C15_one_supervisor_create_outside_lock_refuted :
  let fl := mkRFlags false true in
  let evs := [RCheck 0; RCheck 1; RCreate 0; RCreate 1; REnter 0; REnter 1] in
  supervisors (rrun fl evs) = 2 /\ reg (rrun fl evs) = Some 0 /\ live (rstep fl (rrun fl evs) RRemove) = [1] /\ supervisors (rrun flags_repaired evs) = 1.
Proof. vm_compute. repeat split; reflexivity. Qed.
Print Assumptions C15_one_supervisor_create_outside_lock_refuted.

(* non-vacuity: three overlapping callers, a removal, a re-registration and both late exits *)
Example C15_registry_example :
  let evs := [RCheck 0; RCheck 1; REnter 1; RCheck 2; REnter 0; RRemove; RCheck 3; REnter 3; RExit 0; RExit 1] in
  reg (rrun flags_repaired evs) = Some 1 /\ live (rrun flags_repaired evs) = [1] /\ got (rrun flags_repaired evs) = [(3, 1); (0, 0); (2, 0); (1, 0)] /\ exited (rrun flags_repaired evs) = [0].
Proof. vm_compute. repeat split; reflexivity. Qed.

(* ------------------------------------------------------------------------------------------
   "so reported states alternate and follow reachability" / "after Stop it opens no further
   connections" when the things Supervisor.v treats as atomic TAKE TIME
   (Driver/SupervisorFlight.v): a call of UpdateDeviceOperatingState that returns late (one slow
   call at a time, [FArm] .. [FComplete]; what EdgeX holds is the call that RETURNED last) and a
   dial that is neither accepted nor refused for a while ([FDialStart] .. [FDialEnd]).
   [frun fl (finit up0) evs] for ALL event lists; [mkFF true db] = the supervisor waits for its
   Down call (the tree), [mkFF dw true] = the dial is bound to the device's context (the tree). *)

(* what EdgeX holds is, by construction of the history, the call that returned last *)
Theorem C15_edgex_holds_last_returned : forall fl up0 evs,
  let s := frun fl (finit up0) evs in f_edgex s = flast_done (st0 up0) (f_log s).
Proof. exact edgex_is_last_returned. Qed.
Print Assumptions C15_edgex_holds_last_returned.

(* while the Down report is in flight the supervisor makes no attempt (and there is no connection
   and no dial in flight): a Down can never be overtaken by the Up of a later connection *)
Theorem C15_no_attempt_while_down_in_flight : forall db up0 evs,
  let fl := mkFF true db in
  let s := frun fl (finit up0) evs in
  f_flight s = Some Down ->
  f_conn s = false /\ f_pending s = false /\
  (forall ok, fstep fl s (FDial ok) = s) /\ fstep fl s FDialStart = s.
Proof. exact no_attempt_while_down_in_flight. Qed.
Print Assumptions C15_no_attempt_while_down_in_flight.

(* follows reachability, in completion order: whenever a connection stands and no call is in
   flight, EdgeX holds Up ... *)
Theorem C15_edgex_up_when_connected : forall db up0 evs,
  let s := frun (mkFF true db) (finit up0) evs in
  f_conn s = true -> f_flight s = None -> f_edgex s = Up.
Proof. exact edgex_up_when_connected. Qed.
Print Assumptions C15_edgex_up_when_connected.

(* ... and whenever two attempts have failed since the reader last accepted a connection AND since
   EdgeX was last told Up (an Up that returns late restarts the count: the device then holds
   itself Up and owes the Down at the end of the next round) and no call is in flight, EdgeX holds
   Down; the flag the device keeps is what EdgeX holds whenever no call is in flight *)
Theorem C15_edgex_down_after_two : forall db up0 evs,
  let s := frun (mkFF true db) (finit up0) evs in
  f_flight s = None -> 2 <= ffails_since_up (f_log s) -> f_edgex s = Down.
Proof. exact edgex_down_after_two. Qed.
Print Assumptions C15_edgex_down_after_two.

Theorem C15_isup_is_edgex_when_nothing_in_flight : forall db up0 evs,
  let s := frun (mkFF true db) (finit up0) evs in
  f_flight s = None -> f_isUp s = is_up (f_edgex s).
Proof. exact isup_is_edgex. Qed.
Print Assumptions C15_isup_is_edgex_when_nothing_in_flight.

(* after Stop no connection is established and no attempt starts, also when Stop arrives while a
   dial is in flight and the reader answers it afterwards *)
Theorem C15_no_connection_after_stop_dial_in_flight : forall dw up0 evs1 evs2,
  let fl := mkFF dw true in
  fconns (f_log (frun fl (finit up0) (evs1 ++ FStop :: evs2))) = fconns (f_log (frun fl (finit up0) evs1)) /\
  fdials (f_log (frun fl (finit up0) (evs1 ++ FStop :: evs2))) = fdials (f_log (frun fl (finit up0) evs1)).
Proof. exact no_connection_after_stop. Qed.
Print Assumptions C15_no_connection_after_stop_dial_in_flight.

(* the system is Supervisor.v when nothing takes time: over attempts answered at once, Drop and
   Stop (any flags) its history projects onto the supervisor's, entry by entry *)
Theorem C15_flight_refines_supervisor : forall fl up0 a0 evs,
  forallb atomic_ev evs = true ->
  let f := frun fl (finit up0) evs in
  let s := run (init up0 a0) (map to_base evs) in
  log s = proj_log a0 (f_log f) /\ isUp s = f_isUp f /\ stopped s = f_stopped f /\
  connected s = f_conn f /\ f_flight f = None /\ f_pending f = false.
Proof. exact flight_refines_supervisor. Qed.
Print Assumptions C15_flight_refines_supervisor.

(* a Down call made from a goroutine of its own (the supervisor does not wait): the reader comes
   back while the call is in flight, the Up of the new connection returns first, the Down last:
   a connection stands, nothing is in flight and EdgeX holds Down *)
Theorem C15_edgex_up_when_connected_down_not_awaited_refuted :
  let evs := [FDial true; FDrop; FArm; FDial false; FDial true; FComplete] in
  let s := frun (mkFF false true) (finit true) evs in
  f_conn s = true /\ f_flight s = None /\ f_edgex s = Down /\ fdones (f_log s) = [Up; Down] /\
  (* the tree on the same history: the attempt made while the call is in flight does not exist *)
  let t := frun flags_tree (finit true) evs in
  f_conn t = false /\ f_edgex t = Down /\ fdones (f_log t) = [Down].
Proof. vm_compute. repeat split; reflexivity. Qed.
Print Assumptions C15_edgex_up_when_connected_down_not_awaited_refuted.

(* a dial with a timeout of its own instead of the device's context: Stop arrives while the dial
   is in flight, the reader accepts afterwards: a connection is established after Stop *)
Theorem C15_no_connection_after_stop_unbound_dial_refuted :
  let fl := mkFF true false in
  fconns (f_log (frun fl (finit true) [FDialStart; FStop])) = 0 /\
  fconns (f_log (frun fl (finit true) ([FDialStart] ++ FStop :: [FDialEnd true]))) = 1 /\
  fconns (f_log (frun flags_tree (finit true) ([FDialStart] ++ FStop :: [FDialEnd true]))) = 0.
Proof. vm_compute. repeat split; reflexivity. Qed.
Print Assumptions C15_no_connection_after_stop_unbound_dial_refuted.

(* non-vacuity, and two behaviours of the tree that the text does not exclude, written out:
   (1) an Up that returns after the connection it announced has gone and two attempts have failed:
       EdgeX holds Up for an unreachable reader until the next round has failed;
   (2) an Up that is still in flight when the NEXT connection announces itself: two Up in a row *)
Example C15_flight_example :
  let s := frun flags_tree (finit false) [FArm; FDial true; FDrop; FDial false; FComplete; FDial false; FDial false] in
  f_log s = [FLDial; FLConn; FLHs; FLIssue Up; FLFail; FLDial; FLFail; FLDone Up true;
             FLDial; FLFail; FLDial; FLFail; FLDone Down false] /\ f_edgex s = Down /\ f_isUp s = false.
Proof. vm_compute. repeat split; reflexivity. Qed.
Example C15_flight_two_up_in_a_row :
  fdones (f_log (frun flags_tree (finit false) [FArm; FDial true; FDrop; FDial false; FDial true; FComplete])) = [Up; Up].
Proof. vm_compute. reflexivity. Qed.
Example C15_flight_stop_cancels_dial :
  f_log (frun flags_tree (finit true) [FDial false; FDialStart; FStop; FDialEnd true]) =
  [FLDial; FLFail; FLDial; FLPending; FLStop; FLFail; FLDone Down false].
Proof. vm_compute. reflexivity. Qed.

(* ------------------------------------------------------------------------------------------
   "While a device is managed the service keeps trying to connect" when RemoveDevice TAKES TIME
   (Driver/RegistrySplit.v): the removal looks the instance up and begins to stop it
   ([SRemoveLookup]; LLRPDevice.Stop then waits for the reader's CloseConnectionResponse, up to
   shutdownGrace) and deletes the entry when Stop has returned ([SRemoveStopDone]); AddDevice /
   UpdateDevice / commands for the same name ([SE (RCheck c)], [SE (REnter c)]) arrive at any point.
   [srun false] = the tree: the devices lock is held from the lookup to the deletion. *)

(* the tree's removal is one critical section: every schedule is a schedule of Registry.v
   (so all the registry theorems above hold of it), no removal is ever half done *)
Theorem C15_tree_removal_is_one_critical_section : forall evs,
  sbase (srun false evs) = rrun flags_repaired (flat_map to_rev evs) /\ rm (srun false evs) = None.
Proof. exact tree_removal_atomic. Qed.
Print Assumptions C15_tree_removal_is_one_critical_section.

(* whoever is handed the registered instance is handed a running supervisor *)
Theorem C15_registered_instance_is_live : forall evs i,
  reg (sbase (srun false evs)) = Some i -> In i (live (sbase (srun false evs))).
Proof. exact tree_registered_is_live. Qed.
Print Assumptions C15_registered_instance_is_live.

(* a device (re-)added after the last removal began is supervised: if some caller was answered
   during evs2 and no removal begins in evs2, then at the end the name is registered and its
   instance's supervisor runs -- wherever in evs1 removals began or ended *)
Theorem C15_readded_device_is_supervised : forall evs1 evs2,
  forallb (fun e => negb (is_removal e)) evs2 = true ->
  length (got (sbase (srun false evs1))) < length (got (sbase (srun false (evs1 ++ evs2)))) ->
  let s := sbase (srun false (evs1 ++ evs2)) in
  exists i, reg s = Some i /\ In i (live s).
Proof. exact tree_readded_is_supervised. Qed.
Print Assumptions C15_readded_device_is_supervised.

(* a removal that stops the device OUTSIDE the lock (lookup under a read lock, Stop, then delete
   the entry if it still refers to that instance): a caller arriving while the removal waits in
   Stop is handed the dying instance as the existing one; the removal then deletes the entry.
   The caller was answered after the last removal began, no removal begins afterwards, and the
   name is neither registered nor dialled; the tree on the same schedule: registered and live *)
Theorem C15_readded_device_is_supervised_split_removal_refuted :
  let evs1 := [SE (RCheck 0); SE (REnter 0); SRemoveLookup] in
  let evs2 := [SE (RCheck 1); SRemoveStopDone] in
  forallb (fun e => negb (is_removal e)) evs2 = true /\
  got (sbase (srun true (evs1 ++ evs2))) = [(1, 0); (0, 0)] /\ got (sbase (srun true evs1)) = [(0, 0)] /\
  reg (sbase (srun true (evs1 ++ [SE (RCheck 1)]))) = Some 0 /\ live (sbase (srun true (evs1 ++ [SE (RCheck 1)]))) = [] /\
  reg (sbase (srun true (evs1 ++ evs2))) = None /\ live (sbase (srun true (evs1 ++ evs2))) = [] /\
  reg (sbase (srun false (evs1 ++ evs2 ++ [SE (REnter 1)]))) = Some 1 /\ live (sbase (srun false (evs1 ++ evs2 ++ [SE (REnter 1)]))) = [1].
Proof. vm_compute. repeat split; reflexivity. Qed.
Print Assumptions C15_readded_device_is_supervised_split_removal_refuted.

Example C15_readd_during_removal_example :
  let evs := [SE (RCheck 0); SE (REnter 0); SRemoveLookup; SE (RCheck 1); SRemoveStopDone; SE (REnter 1); SE (RExit 0)] in
  reg (sbase (srun false evs)) = Some 1 /\ live (sbase (srun false evs)) = [1] /\ got (sbase (srun false evs)) = [(1, 1); (0, 0)].
Proof. vm_compute. repeat split; reflexivity. Qed.

(* ------------------------------------------------------------------------------------------
   "an address change redirects the next attempt to the new address", as EdgeX delivers the change:
   Driver.UpdateDevice(name, protocols, adminState) -> LLRPDevice.UpdateAddr (Driver/AddrUpdate.v).
   Addresses are SPELLINGS (what the dialer is asked for); [ep] maps a spelling to the endpoint
   several spellings may share -- any function.  For every previous state (managed or not, any
   stored address), every address given, every admin state, whichever way "the same address" is
   decided for the purpose of bouncing the connection: the next attempt dials exactly the
   spelling given (every Dial of Supervisor.v reads the stored address: C15_addr_change_redirects). *)
Theorem C15_update_device_redirects_next_attempt : forall ep s a locked sbe,
  let s' := update_device (mkAF sbe false false) ep s a locked in
  next_dial s' = a /\ managed_a s' = true.
Proof. exact update_device_stores. Qed.
Print Assumptions C15_update_device_redirects_next_attempt.

(* ... and a change of spelling closes the standing connection, so that attempt is made at once *)
Theorem C15_update_device_bounces_on_change : forall ep s a locked,
  managed_a s = true -> a <> stored s ->
  bounces (update_device aflags_tree ep s a locked) = S (bounces s).
Proof. exact update_device_bounces. Qed.
Print Assumptions C15_update_device_bounces_on_change.

(* comparing by endpoint AND returning before the address is stored: two spellings of one endpoint
   class (here 1 and 2, e.g. one scoped IPv6 address with two zones under an [ep] that forgets the
   zone): the update is never stored, the next attempt dials the old spelling *)
Theorem C15_update_device_redirects_compare_before_store_refuted :
  let ep := fun _ : N => 0%N in
  next_dial (update_device (mkAF true true false) ep (mkAS true 1%N 0) 2%N false) = 1%N /\
  next_dial (update_device aflags_tree ep (mkAS true 1%N 0) 2%N false) = 2%N.
Proof. vm_compute. split; reflexivity. Qed.
Print Assumptions C15_update_device_redirects_compare_before_store_refuted.

(* an update that is dropped for a managed device whose admin state is Locked *)
Theorem C15_update_device_redirects_skip_locked_refuted :
  next_dial (update_device (mkAF false false true) (fun x => x) (mkAS true 1%N 0) 2%N true) = 1%N /\
  next_dial (update_device aflags_tree (fun x => x) (mkAS true 1%N 0) 2%N true) = 2%N.
Proof. vm_compute. split; reflexivity. Qed.
Print Assumptions C15_update_device_redirects_skip_locked_refuted.
