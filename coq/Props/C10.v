(* C10 — A hostile or broken peer cannot crash, wedge or balloon the client.
   Only property statements; each closed by [exact] of a lemma of Client/HostileProofs.v.

   [session maxbuf cfg fl D neg_timeout negotiate ver env bs] is Client.Connect run on the
   finite inbound byte stream bs (Client/Hostile.v): checkInitialMessage, then the read loop
   of Client/Stream.v while negotiate / getSupportedVersion and user calls (SendMessage,
   Shutdown) consume the replies it hands over.
     maxbuf       MaxBufferedPayloadSz (arbitrary)
     cfg          handlers / default handler / types never treated as replies
     fl           which variant of four code behaviours the tree has (see Hostile.v):
                  flags_as_found = the tree as it was when the property was written,
                  flags_repaired = with the patches proposed in notes/C10.md
     D            outcome class (ok v / err / panic / hang) of the generated decoders the client
                  calls outside handleGuarded; [good D] = "they return a value or an error on every
                  input", which is property C11's subject
     neg_timeout  WithTimeout configured;  negotiate  version > 1.0.1;  ver  c.version
     env j        for the j-th header read by the loop: was the pending negotiation request
                  registered, which user calls were registered, what the handler does
   Result: outcome and allocation of checkInitialMessage, one record per message (dispatch,
   consumer outcome, bytes allocated with make), and how Connect ends. *)
From Coq Require Import NArith ZArith List Bool.
From LLRP Require Import Client.Stream Client.StreamProofs Client.Hostile Client.HostileProofs.
From LLRP Require Import Client.DeviceHostile Client.DeviceHostileProofs.
From LLRP Require Import Client.StatusText Client.StatusTextProofs.
Import ListNotations.
Open Scope N_scope.

(* ------------------------------------------------------------------ no panic, no spin *)
(* For EVERY byte stream, at every stage, if the decoders are total (C11) and getSupportedVersion
   reads its reply through the size-checked path, no client goroutine panics or hangs: not in
   checkInitialMessage, not in the read loop (handler panics are recovered there), not in
   negotiation, not in SendMessage/Shutdown. *)
Theorem C10_client_never_panics :
  forall maxbuf cfg fl D neg_timeout,
  good D -> gsv_uses_checked_read fl = true ->
  forall negotiate ver env bs,
  let r := session maxbuf cfg fl D neg_timeout negotiate ver env bs in
  s_end r <> SePanic /\ s_end r <> SeHang /\
  Forall (fun x => co_safe (sr_cons x)) (s_log r) /\
  ci_res (s_init r) <> CiPanic /\ ci_res (s_init r) <> CiHang.
Proof. exact session_never_panics. Qed.
Print Assumptions C10_client_never_panics.

(* FALSE for the tree as found (F4): total decoders, limit 4, a GetSupportedVersion reply that
   claims 5 payload bytes -> nil reader dereferenced inside Connect. *)
Theorem C10_client_never_panics_refuted :
  exists maxbuf cfg D neg_timeout negotiate ver env bs,
  good D /\ s_end (session maxbuf cfg flags_as_found D neg_timeout negotiate ver env bs) = SePanic.
Proof.
  exists 4, wit_cfg, wit_D, false, true, 2, wit_env_neg,
         (wit_ren ++ frame_bytes (mkFrame 0 2 56 0 [1; 2; 3; 4; 5])).
  split; [exact wit_D_good|exact wit_f4_panics].
Qed.
Print Assumptions C10_client_never_panics_refuted.

(* ------------------------------------------------------------------ allocation *)
(* What the client allocates for one message is at most the limit plus the 10-byte header
   buffer, whatever length the peer claims (no assumption on the decoders). *)
Theorem C10_alloc_bounded_by_limit :
  forall maxbuf cfg fl D neg_timeout,
  gsv_uses_checked_read fl = true ->
  forall negotiate ver env bs,
  let r := session maxbuf cfg fl D neg_timeout negotiate ver env bs in
  ci_alloc (s_init r) <= HeaderSz + maxbuf /\
  Forall (fun x => sr_alloc x <= HeaderSz + maxbuf) (s_log r).
Proof. exact session_alloc_bounded. Qed.
Print Assumptions C10_alloc_bounded_by_limit.

(* FALSE for the tree as found (F4): with the real limit, a bare 10-byte header claiming
   2^32-1 makes getSupportedVersion allocate 4294967285 bytes. *)
Theorem C10_alloc_bounded_by_limit_refuted :
  exists cfg D neg_timeout negotiate ver env bs x,
  In x (s_log (session 655360 cfg flags_as_found D neg_timeout negotiate ver env bs)) /\
  sr_alloc x = 4294967295 /\ HeaderSz + 655360 < sr_alloc x.
Proof.
  destruct wit_f4_alloc as [x Hx].
  exists wit_cfg, wit_D, false, true, 2, wit_env_neg,
         (wit_ren ++ [8; 56; 255; 255; 255; 255; 0; 0; 0; 0]), x. exact Hx.
Qed.
Print Assumptions C10_alloc_bounded_by_limit_refuted.

(* ------------------------------------------------------------------ oversize replies *)
(* A reply too large to buffer is an error for whoever awaits it, and a successful SendMessage
   carries the type and the complete payload of the frame ([reply_ok], HostileProofs.v). *)
Theorem C10_oversize_reply_is_error :
  forall maxbuf cfg fl D neg_timeout,
  data_checks_size_first fl = true -> gsv_uses_checked_read fl = true ->
  forall negotiate ver env bs,
  Forall reply_ok (s_log (session maxbuf cfg fl D neg_timeout negotiate ver env bs)).
Proof. exact session_reply_ok. Qed.
Print Assumptions C10_oversize_reply_is_error.

(* FALSE for the tree as found (F3): limit 4, reply with 5 payload bytes -> SendMessage
   returns (12, no data, nil error). *)
Theorem C10_oversize_reply_is_error_refuted :
  exists maxbuf cfg D neg_timeout negotiate ver env bs x,
  In x (s_log (session maxbuf cfg flags_as_found D neg_timeout negotiate ver env bs)) /\
  d_reply (sr_d x) = Some RHeaderOnly /\ sr_cons x = CoUser (OOk (12, [])).
Proof.
  destruct wit_f3_empty_success as [x Hx].
  exists 4, wit_cfg, wit_D, false, false, 1, wit_env_user,
         (wit_ren ++ frame_bytes (mkFrame 0 1 12 0 [1; 2; 3; 4; 5])), x. exact Hx.
Qed.
Print Assumptions C10_oversize_reply_is_error_refuted.

(* ------------------------------------------------------------------ the serving call returns *)
(* With the repaired waiting rules, for every stream Connect returns an error when the stream
   ends (SeErr), or ErrClientClosed after a successful Shutdown (SeClosed); the only remaining
   parked ending needs a CloseConnection sent by this client (a Shutdown whose reply failed;
   the documentation tells the caller to Close then). *)
Theorem C10_serve_returns_error_on_eof :
  forall maxbuf cfg fl D neg_timeout,
  good D -> gsv_uses_checked_read fl = true ->
  neg_aborts_on_loop_end fl = true -> close_wait_only_if_sent fl = true ->
  forall negotiate ver env bs,
  let en := s_end (session maxbuf cfg fl D neg_timeout negotiate ver env bs) in
  en = SeErr \/ en = SeClosed \/ en = SeWaitClose.
Proof. exact session_ends. Qed.
Print Assumptions C10_serve_returns_error_on_eof.

(* ... and if no user ever issues a Shutdown: always an error. *)
Theorem C10_serve_returns_error_on_eof_no_shutdown :
  forall maxbuf cfg fl D neg_timeout,
  good D -> gsv_uses_checked_read fl = true ->
  neg_aborts_on_loop_end fl = true -> close_wait_only_if_sent fl = true ->
  forall negotiate ver env bs,
  (forall j, no_shutdown (env j)) ->
  s_end (session maxbuf cfg fl D neg_timeout negotiate ver env bs) = SeErr.
Proof. exact session_ends_without_shutdown. Qed.
Print Assumptions C10_serve_returns_error_on_eof_no_shutdown.

(* FALSE for the tree as found, twice (both reproduced on the real client):
   (a) the stream ends during negotiation and no timeout is configured -> Connect stays in
       negotiate;  (b) an unsolicited CloseConnectionResponse, then EOF -> the read loop waits
       for a Close that nobody was asked to perform. *)
Theorem C10_serve_returns_error_on_eof_refuted :
  (exists maxbuf cfg D negotiate ver env bs, good D /\ (forall j, no_shutdown (env j)) /\
     s_end (session maxbuf cfg flags_as_found D false negotiate ver env bs) = SeNegBlocked) /\
  (exists maxbuf cfg D neg_timeout negotiate ver env bs, good D /\ (forall j, no_shutdown (env j)) /\
     s_end (session maxbuf cfg flags_as_found D neg_timeout negotiate ver env bs) = SeWaitClose).
Proof.
  split.
  - exists 4, wit_cfg, wit_D, true, 2, wit_env_neg, wit_ren.
    split; [exact wit_D_good|]. split; [intro j; reflexivity|exact wit_neg_blocked].
  - exists 4, wit_cfg, wit_D, true, false, 1, wit_env_idle, (wit_ren ++ frame_bytes (mkFrame 0 1 4 9 [])).
    split; [exact wit_D_good|]. split; [intro j; reflexivity|exact wit_close_wait].
Qed.
Print Assumptions C10_serve_returns_error_on_eof_refuted.

(* ------------------------------------------------------------------ the device service's goroutines *)
(* The property's anchors name internal/driver/device.go: the goroutines started by the device's
   handlers for ReaderEventNotification and ROAccessReport consume the client's messages OUTSIDE
   handleGuarded, so a panic there on bytes a peer sent ends the whole service.  Model:
   Client/DeviceHostile.v — [dev_run fl ms] feeds the decoded messages ms (event: UTCTimestamp /
   Uptime; report: for every tag which of FirstSeenUTC / FirstSeenUptime / LastSeenUTC /
   LastSeenUptime are present; or undecodable), each with the device's clock reading, to the two
   handlers and processReport.  Flags: does the event handler STORE the readerStart it computes
   for a Reader without UTC clock (not in the tree as found: l.readerStart is only ever read),
   does processReport make sure FirstSeenUTC / LastSeenUTC are non-nil before assigning through
   them (not in the tree as found).
   For EVERY sequence of messages and clock readings: if readerStart is never stored, or
   processReport guards the pointers, no goroutine panics and every decodable message is
   published exactly once. *)
Theorem C10_device_goroutines_never_panic :
  forall fl : dflags,
  stores_reader_start fl = false \/ process_guards_nil fl = true ->
  forall ms : list (Z * dmsg),
  ds_panicked (dev_run fl ms) = false /\
  length (ds_published (dev_run fl ms)) = length (filter (fun nm => decodable (snd nm)) ms).
Proof. intros fl H ms. split; [exact (dev_never_panics fl ms H)|exact (dev_run_published fl ms H)]. Qed.
Print Assumptions C10_device_goroutines_never_panic.

(* FALSE once readerStart is stored while processReport stays as it is — the safety of the tree
   as found rests on the field never being assigned: a Reader without UTC clock (connection
   event with Uptime 5 s and no UTCTimestamp), then a report whose only tag carries
   FirstSeenUptime and no FirstSeenUTC: nil pointer dereference outside the panic guard.  The
   same messages are harmless for the tree as found (both published). *)
Theorem C10_device_goroutines_never_panic_refuted :
  exists ms : list (Z * dmsg),
  ds_panicked (dev_run (mkDFlags true false) ms) = true /\
  ds_panicked (dev_run dflags_as_found ms) = false /\
  length (ds_published (dev_run dflags_as_found ms)) = 2%nat.
Proof.
  exists wit_dev_msgs. split; [exact wit_dev_panics|exact wit_dev_as_found_survives].
Qed.
Print Assumptions C10_device_goroutines_never_panic_refuted.

(* ------------------------------------------------------------------ discovery: probe() *)
(* probe() (internal/driver/discover.go) is the other consumer of the client in the driver; it
   runs in autoDiscover's ipWorker goroutines, which nothing recovers.  [probe_after fl se config
   caps] (Client/DeviceHostile.v) is what probe does once Connect has returned: se = did Connect
   end with ErrClientClosed (the exchange goroutine shut the client down / closed it) or with
   another error; config / caps = None if the SendFor failed (ErrorMessage, failure status,
   cut short, wrong type, beyond the buffering limit, no answer — whatever the host did),
   Some b if a reply was received (b: it carries the parameter probe wants).  Flags: replies
   shared as values (tree as found) or handed over as possibly-nil pointers, each pointer
   tested or not.  For EVERY way the session and the two exchanges can end: no panic, provided
   the replies are values or both pointers are tested; and a device is only ever discovered from
   an Identification that was really received. *)
Theorem C10_probe_never_panics :
  forall (fl : pflags) (se : session_end) (config caps : option bool),
  by_pointer fl = false \/ (config_nil_checked fl = true /\ caps_nil_checked fl = true) ->
  probe_after fl se config caps <> PoPanic /\
  (forall k, probe_after fl se config caps = PoInfo k -> se = SeClosedByUs /\ config = Some true).
Proof.
  intros fl se config caps H. split; [exact (probe_never_panics fl se config caps H)|].
  intros k Hk. exact (probe_info_needs_config fl se config caps k Hk).
Qed.
Print Assumptions C10_probe_never_panics.

(* FALSE when the replies are handed over as pointers and only the capabilities pointer is
   tested: GetReaderConfig fails (for any reason), the session still ends in an orderly close
   -> nil dereference in the ipWorker goroutine; the tree as found answers the same session
   with an error. *)
Theorem C10_probe_never_panics_refuted :
  exists fl se config caps,
  probe_after fl se config caps = PoPanic /\ probe_after pflags_as_found se config caps = PoErr.
Proof. exists (mkPFlags true false true), SeClosedByUs, None, None. exact wit_probe_panics. Qed.
Print Assumptions C10_probe_never_panics_refuted.

(* ------------------------------------------------------------------ rendering peer-chosen status codes *)
(* An LLRPStatus carries peer-chosen 16-bit codes (its own, its FieldError's, its ParameterError's,
   nested to any depth); the errors Connect / SendFor / Shutdown return render them with Error()
   methods the device service calls directly on goroutines that do not recover.  Model:
   Client/StatusText.v ([default_text]: class predicates + table lookup, [status_error_panics]).
   With the class predicates deciding by the RANGE of codes each table covers (the tree as found):
   for EVERY code — any natural number, so in particular all 65536 — the lookup stays inside its
   table, and no LLRPStatus whatsoever makes Error() panic. *)
Theorem C10_status_text_never_panics :
  (forall sc : N, default_text ByRange sc <> TPanic) /\
  (forall s : status, status_error_panics ByRange s = false).
Proof. split; [exact default_text_by_range_total|exact status_error_by_range_total]. Qed.
Print Assumptions C10_status_text_never_panics.

(* FALSE when the predicates classify by the block of one hundred: for the 16-bit codes the
   text lookup panics exactly on 113-199, 210-299, 302-400 and 402-499 (in-block codes the
   tables do not list); e.g. code 113, or an LLRPStatus whose ParameterError carries a FieldError
   with code 350. *)
Theorem C10_status_text_never_panics_refuted :
  (forall sc : N, sc < 65536 -> is_panic (default_text ByBlock sc) = block_gap sc) /\
  default_text ByBlock 113 = TPanic /\ default_text ByRange 113 = TUnknown /\
  status_error_panics ByBlock (mkStatus 101 None (Some (PErr 200 (Some 350) None))) = true.
Proof. split; [exact default_text_by_block_panics_iff|exact wit_block_panics]. Qed.
Print Assumptions C10_status_text_never_panics_refuted.

(* non-vacuity: a complete well-behaved session (first message, GetSupportedVersion and
   SetProtocolVersion replies, one SendMessage with its reply) ends with the EOF error and
   delivers the reply's 3 bytes; the repaired variants turn the three witnesses into errors *)
Example C10_example :
  let env := fun j => mkSenv true (match j with S (S O) => [false] | _ => [] end) (HRead 0) in
  let r := session 4 wit_cfg flags_repaired wit_D false true 2 env
             (wit_ren ++ frame_bytes (mkFrame 0 2 56 0 [1; 2]) ++ frame_bytes (mkFrame 0 2 57 1 [])
                      ++ frame_bytes (mkFrame 0 2 12 2 [7; 8; 9])) in
  s_end r = SeErr /\ map sr_cons (s_log r) = [CoGsv (OOk (1, 2)); CoSpv (OOk tt); CoUser (OOk (12, [7; 8; 9]))].
Proof. vm_compute. split; reflexivity. Qed.

Example C10_example_repaired :
  s_end (session 4 wit_cfg flags_repaired wit_D false true 2 wit_env_neg
           (wit_ren ++ frame_bytes (mkFrame 0 2 56 0 [1; 2; 3; 4; 5]))) = SeErr /\
  s_end (session 4 wit_cfg flags_repaired wit_D false true 2 wit_env_neg wit_ren) = SeErr /\
  s_end (session 4 wit_cfg flags_repaired wit_D true false 1 wit_env_idle
           (wit_ren ++ frame_bytes (mkFrame 0 1 4 9 []))) = SeErr.
Proof. exact wit_repaired. Qed.

(* non-vacuity of the device-level theorem: a Reader with UTC clock, then one without (stored:
   the flags are "stores, guards"), reports with every kind of tag: nothing panics, the report
   of the uptime-only tag comes out with both UTC stamps filled in from readerStart *)
Local Open Scope Z_scope.
Example C10_example_device :
  let ms := [(1000, MEvent 1700000000 5); (2000, MEvent 0 7);
             (3000, MReport [mkTag None (Some 8) None (Some 9); mkTag (Some 1) None (Some 2) None]);
             (4000, MUndecodable)] in
  let r := dev_run (mkDFlags true true) ms in
  ds_panicked r = false /\ ds_reader_start r = Some 1993 /\
  hd MUndecodable (ds_published r)
  = MReport [mkTag (Some 2001) (Some 8) (Some 2002) (Some 9); mkTag (Some 1) None (Some 2) None].
Proof. vm_compute. repeat split; reflexivity. Qed.

(* non-vacuity for probe: a proper reader is discovered with known vendor/model; one whose
   capabilities exchange failed is discovered with "unknown" vendor/model *)
Example C10_example_probe :
  probe_after pflags_as_found SeClosedByUs (Some true) (Some true) = PoInfo true /\
  probe_after pflags_as_found SeClosedByUs (Some true) None = PoInfo false /\
  probe_after (mkPFlags true true true) SeClosedByUs None None = PoErr.
Proof. repeat split; reflexivity. Qed.
