(* C13 — Every tag report and reader event reaches EdgeX exactly once.
   Only property statements; each closed by [exact] of a lemma of Driver/PublishProofs.v.
   Runs are [run init evs] over ALL event lists: any interleaving of messages received by any
   number of devices, publisher completions in any order, commands and keep-alives. *)
From Coq Require Import NArith List Bool Arith Permutation.
From LLRP Require Import Driver.Publish Driver.PublishProofs.
Import ListNotations.

(* at every moment, what was published together with what is still in flight is, as a multiset,
   exactly the decodable ROAccessReports / ReaderEventNotifications received so far, each tagged
   with the receiving device and the resource of its type and carrying its decoded content;
   so once all started publishers have run, published is a permutation of the received ones:
   none lost, none duplicated, none attributed to another device or resource *)
Theorem C13_published_multiset_eq_received : forall evs,
  let s := run init evs in
  Permutation (published s ++ pending s) (expected evs) /\
  (pending s = [] -> Permutation (published s) (expected evs)).
Proof. exact published_multiset_eq_received. Qed.
Print Assumptions C13_published_multiset_eq_received.

(* ... and the started publishers can always all run (no publisher waits for another one) *)
Theorem C13_all_publishers_can_run : forall evs,
  let s := run init (evs ++ drain (run init evs)) in
  pending s = [] /\ Permutation (published s) (expected evs).
Proof. exact all_publishers_can_run. Qed.
Print Assumptions C13_all_publishers_can_run.

(* a message that fails to decode is dropped, and only it: the run continues exactly as if it
   had not arrived *)
Theorem C13_bad_decode_dropped_only : forall evs1 evs2 d t cs,
  run init (evs1 ++ Recv d t None cs :: evs2) = run init (evs1 ++ evs2) /\
  expected (evs1 ++ Recv d t None cs :: evs2) = expected (evs1 ++ evs2).
Proof. exact bad_decode_dropped_only. Qed.
Print Assumptions C13_bad_decode_dropped_only.

(* device and resource of every published reading are those of a message that was received *)
Theorem C13_published_attribution : forall evs d r c,
  In (d, r, c) (published (run init evs)) ->
  exists t cs, In (Recv d t (Some c) cs) evs /\ resource_of t = Some r.
Proof. exact published_attribution. Qed.
Print Assumptions C13_published_attribution.

(* commands, keep-alives and other message types leave the readings alone *)
Theorem C13_others_publish_nothing : forall s e,
  match e with
  | Command _ | KeepAliveAck _ => step s e = s
  | Recv _ t _ _ => resource_of t = None -> step s e = s
  | _ => True
  end.
Proof. exact others_publish_nothing. Qed.
Print Assumptions C13_others_publish_nothing.

(* non-vacuity: two devices, a report and an event each, an undecodable report, a keep-alive and
   a command in between; publishers complete out of order *)
Example C13_example :
  let evs := [Recv 1 MReaderEventNotification (Some 10) true; Recv 2 MROAccessReport (Some 20) false;
              Recv 1 MROAccessReport None false; KeepAliveAck 2; Recv 1 MROAccessReport (Some 11) false;
              Command 2; PublisherRun 2; Recv 2 MReaderEventNotification (Some 21) false;
              PublisherRun 0; PublisherRun 1; PublisherRun 0]%N in
  published (run init evs) =
    [(1, ResROAccessReport, 11); (1, ResReaderEventNotification, 10);
     (2, ResReaderEventNotification, 21); (2, ResROAccessReport, 20)]%N
  /\ pending (run init evs) = [].
Proof. vm_compute. split; reflexivity. Qed.
