(* C13 — Every tag report and reader event reaches EdgeX exactly once.
   Only property statements; each closed by [exact] of a lemma of Driver/PublishProofs.v.
   Runs are [run dec is_conn (init_up up0) evs] over ALL decoders [dec], ALL initial
   operating-state flags [up0] and ALL event lists: any interleaving of messages received
   completely or cut off by the end of a connection, by any number of devices, at any times,
   publishers progressing in any order, SDK operating-state calls returning late, with or without
   error, devices being marked DOWN, commands and keep-alives. *)
From Coq Require Import NArith List Bool Arith Permutation.
From LLRP Require Import Driver.Publish Driver.PublishProofs.
Import ListNotations.

(* at every moment, what was published together with what is still in flight is, as a multiset,
   exactly the decodable ROAccessReports / ReaderEventNotifications received completely so far,
   each tagged with the receiving device and the resource of its type and carrying the decoding
   of its bytes; so once all started publishers have run, published is a permutation of the
   received ones: none lost, none duplicated, none attributed to another device or resource.
   Neither the devices' operating-state flags nor their changes appear in [expected]. *)
Theorem C13_published_multiset_eq_received : forall dec is_conn up0 evs,
  let s := run dec is_conn (init_up up0) evs in
  Permutation (published s ++ inflight s) (expected dec evs) /\
  (inflight s = [] -> Permutation (published s) (expected dec evs)).
Proof. exact published_multiset_eq_received. Qed.
Print Assumptions C13_published_multiset_eq_received.

(* ... and the started publishers can always all run (no publisher waits for another one; the
   only thing a connection event's publisher waits for is its own SDK call returning, with or
   without error) *)
Theorem C13_all_publishers_can_run : forall dec is_conn up0 ok evs,
  let s := run dec is_conn (init_up up0) (evs ++ drain ok (run dec is_conn (init_up up0) evs)) in
  inflight s = [] /\ Permutation (published s) (expected dec evs).
Proof. exact all_publishers_can_run. Qed.
Print Assumptions C13_all_publishers_can_run.

(* a message that fails to decode is dropped, and only it: the run continues exactly as if it
   had not arrived *)
Theorem C13_bad_decode_dropped_only : forall dec is_conn s evs1 evs2 d t bs now,
  dec t bs = None ->
  run dec is_conn s (evs1 ++ Recv d t bs now :: evs2) = run dec is_conn s (evs1 ++ evs2) /\
  expected dec (evs1 ++ Recv d t bs now :: evs2) = expected dec (evs1 ++ evs2).
Proof. exact bad_decode_dropped_only. Qed.
Print Assumptions C13_bad_decode_dropped_only.

(* a message of which only a part arrived before its connection ended publishes nothing —
   whatever the part that arrived would decode to — and the run continues as if it had not begun *)
Theorem C13_incomplete_message_publishes_nothing : forall dec is_conn s evs1 evs2 d t got missing now,
  run dec is_conn s (evs1 ++ RecvCut d t got missing now :: evs2) = run dec is_conn s (evs1 ++ evs2) /\
  expected dec (evs1 ++ RecvCut d t got missing now :: evs2) = expected dec (evs1 ++ evs2).
Proof. exact incomplete_message_publishes_nothing. Qed.
Print Assumptions C13_incomplete_message_publishes_nothing.

(* device and resource of every published reading are those of a message that was received
   completely, and its content is the decoding of that message's bytes: a function of the bytes
   the reader sent alone *)
Theorem C13_published_attribution : forall dec is_conn up0 evs d r c,
  In (d, r, c) (published (run dec is_conn (init_up up0) evs)) ->
  exists t bs now, In (Recv d t bs now) evs /\ resource_of t = Some r /\ dec t bs = Some c.
Proof. exact published_attribution. Qed.
Print Assumptions C13_published_attribution.

(* ... in particular not of the time at which the driver received them *)
Theorem C13_receive_time_irrelevant : forall dec is_conn f evs s,
  run dec is_conn s (map (retime f) evs) = run dec is_conn s evs /\
  expected dec (map (retime f) evs) = expected dec evs.
Proof. exact run_retimed. Qed.
Print Assumptions C13_receive_time_irrelevant.

(* commands, keep-alives, cut-off messages and other message types leave the state alone;
   marking a device DOWN changes its flag and no reading *)
Theorem C13_others_publish_nothing : forall dec is_conn s e,
  match e with
  | Command _ | KeepAliveAck _ | RecvCut _ _ _ _ _ => step dec is_conn s e = s
  | MarkDown _ _ => readings (step dec is_conn s e) = readings s
  | Recv _ t _ _ => resource_of t = None -> step dec is_conn s e = s
  | _ => True
  end.
Proof. exact others_publish_nothing. Qed.
Print Assumptions C13_others_publish_nothing.

(* publication does not depend on the device's operating-state flag: a report or an ordinary
   reader event received in ANY state (flag up or down, SDK calls outstanding) has only its
   channel send left and can complete at once *)
Theorem C13_report_not_gated_by_operating_state : forall dec is_conn s d t bs now r c,
  resource_of t = Some r -> dec t bs = Some c -> conn_reading is_conn (d, r, c) = false ->
  let s1 := step dec is_conn s (Recv d t bs now) in
  pending s1 = pending s ++ [(d, r, c)] /\
  published (step dec is_conn s1 (PublisherRun (length (pending s)))) = published s ++ [(d, r, c)].
Proof. exact report_not_gated. Qed.
Print Assumptions C13_report_not_gated_by_operating_state.

(* ... and over whole runs: with NO SDK call ever returning, whatever the flags say, letting the
   pending publishers run publishes everything received except connection events; what still
   waits are successful connection events only (their publishers tell EdgeX first) *)
Theorem C13_reports_published_without_sdk : forall dec is_conn up0 evs,
  let s0 := run dec is_conn (init_up up0) evs in
  let s := run dec is_conn s0 (repeat (PublisherRun 0) (length (pending s0))) in
  pending s = [] /\
  Permutation (published s ++ starting s ++ parked s) (expected dec evs) /\
  Forall (fun x => conn_reading is_conn x = true) (starting s ++ parked s).
Proof. exact reports_published_without_sdk. Qed.
Print Assumptions C13_reports_published_without_sdk.

(* non-vacuity. A toy decoder: a payload decodes iff it is non-empty and does not start with 0,
   to its first byte; contents >= 100 are successful connection events. Device 1 is registered
   DOWN, device 2 UP. Device 1 connects (100), its publisher parks in the SDK call; a report (11)
   received meanwhile is published at once; a report of device 2 is cut off after a prefix that
   would decode ([20] of 3 announced bytes): nothing; an undecodable report; a keep-alive, a
   command, device 2 marked DOWN and its later report (21) published all the same; the SDK call
   fails; the connection event is published in the end. *)
Definition ex_dec (t : mtype) (bs : list N) : option content :=
  match bs with
  | b :: _ => if N.eqb b 0 then None else Some b
  | [] => None
  end.
Definition ex_conn (c : content) : bool := N.leb 100 c.
Definition ex_up0 (d : dev) : bool := negb (N.eqb d 1).

Example C13_example :
  let evs := [Recv 1 MReaderEventNotification [100] 5; OnConnectStart 0;
              Recv 1 MROAccessReport [11; 7] 6; PublisherRun 0;
              RecvCut 2 MROAccessReport [20] 1 7;
              Recv 1 MROAccessReport [0; 1] 8; KeepAliveAck 2; Command 2;
              MarkDown 2 true; Recv 2 MROAccessReport [21] 9;
              Recv 2 MReaderEventNotification [22] 10; PublisherRun 1; PublisherRun 0;
              SdkReturn 0 false; PublisherRun 0]%N in
  let s := run ex_dec ex_conn (init_up ex_up0) evs in
  published s =
    [(1, ResROAccessReport, 11); (2, ResReaderEventNotification, 22);
     (2, ResROAccessReport, 21); (1, ResReaderEventNotification, 100)]%N
  /\ inflight s = [] /\ sdk_up_calls s = 1 /\ isup s 1%N = false /\ isup s 2%N = false
  /\ ex_dec MROAccessReport [20%N] = Some 20%N.
Proof. vm_compute. repeat split; reflexivity. Qed.
