(* C14 — Device commands map to the right LLRP request; keep-alive spec is enforced.
   Only property statements; each closed by [exact] of a lemma proved in
   Driver/CommandsProofs.v.  Model: Driver/Commands.v, Driver/KeepAlive.v.

   [cmd_to_request b c] / [run b c] model Driver.handleReadCommands / handleWriteCommands +
   LLRPDevice.TrySend; b = true is the code WITH a `case ResourceAccessSpec` in
   handleWriteCommands, b = false the code as shipped without it (defect F9).  [doc_map],
   [doc_maps], [malformed] are the README/profile tables (spec/doc_commands.json).  The check
   (checks/c14.py) decides by observation which variant the tree under test behaves like and
   evaluates the property on Go's behaviour against spec/doc_commands.json directly. *)
From Coq Require Import NArith List String.
From LLRP Require Import Driver.KeepAlive Driver.Commands Driver.CommandsProofs.
Import ListNotations.
Open Scope N_scope.

(* A command results in exactly the request(s) the documentation assigns to it, and every
   documented (well-formed) command is accepted: for every command and request list,
   "returns no error having sent qs" iff "qs is the documented list for c". *)
Theorem C14_cmd_maps_as_documented : forall c qs,
  run true c = mkOut qs false <-> doc_maps c qs.
Proof. exact run_ok_iff_documented. Qed.
Print Assumptions C14_cmd_maps_as_documented.

(* the single-request form for write commands *)
Theorem C14_write_maps_as_documented : forall reqs params q,
  cmd_to_request true (CWrite reqs params) = Ok q -> doc_map (CWrite reqs params) q.
Proof. exact write_cmd_sound. Qed.
Print Assumptions C14_write_maps_as_documented.

Theorem C14_well_formed_accepted : forall c q,
  doc_map c q -> run true c = mkOut [q] false.
Proof. exact doc_map_accepted. Qed.
Print Assumptions C14_well_formed_accepted.

(* every malformed command of the kinds the property lists is rejected with an error and no
   request is sent *)
Theorem C14_malformed_rejected_no_request : forall c,
  malformed c -> run true c = mkOut [] true.
Proof. exact malformed_rejected. Qed.
Print Assumptions C14_malformed_rejected_no_request.

(* a write either sends exactly one request and succeeds, or sends nothing and fails
   (both variants) *)
Theorem C14_write_all_or_nothing : forall b reqs params,
  (exists q, run b (CWrite reqs params) = mkOut [q] false) \/
  run b (CWrite reqs params) = mkOut [] true.
Proof. exact run_write_shape. Qed.
Print Assumptions C14_write_all_or_nothing.

(* a read of several resources sends the documented requests in order and stops with an error
   at the first unknown name, for which nothing is sent *)
Theorem C14_read_unknown_resource_rejected : forall pre qs r post,
  Forall2 doc_read pre qs -> unknown_read r ->
  run true (CRead (pre ++ r :: post)) = mkOut qs true.
Proof. exact run_read_unknown. Qed.
Print Assumptions C14_read_unknown_resource_rejected.

(* Every SetReaderConfig, whatever the caller supplied: periodic KeepAliveSpec of 30000 ms,
   all other fields unchanged. *)
Theorem C14_set_reader_config_keepalive_30s : forall cfg,
  cfg_ka (enforce_keepalive cfg) = Some (ka_periodic, 30000) /\
  cfg_other (enforce_keepalive cfg) = cfg_other cfg.
Proof. exact enforce_keepalive_spec. Qed.
Print Assumptions C14_set_reader_config_keepalive_30s.

(* 30000 ms is half of the 60 s read timeout (constants as in device.go; the harness dumps
   keepAliveInterval, maxMissedKAs and the llrp.Client's timeout from the running code and the
   check compares them with these) *)
Theorem C14_keepalive_is_half_read_timeout :
  keep_alive_interval_ms = 30000 /\ read_timeout_ms = 60000 /\
  2 * keep_alive_interval_ms = read_timeout_ms.
Proof. exact keepalive_is_half_read_timeout. Qed.
Print Assumptions C14_keepalive_is_half_read_timeout.

(* ... and this holds of every SetReaderConfig any command sends, in both variants *)
Theorem C14_every_set_reader_config_sent : forall b c k,
  In (SetReaderConfig k) (sent (run b c)) -> cfg_ka k = Some (ka_periodic, 30000).
Proof. exact every_set_reader_config_sent. Qed.
Print Assumptions C14_every_set_reader_config_sent.

Theorem C14_write_reader_config_sends : forall b r rs p ps c,
  List.length rs = List.length ps -> r_name r = "ReaderConfig"%string ->
  decode_cfg (p_val p) = Some c ->
  run b (CWrite (r :: rs) (p :: ps)) =
  mkOut [SetReaderConfig (mkCfg (Some (ka_periodic, 30000)) (cfg_other c))] false.
Proof. exact set_reader_config_sent_exact. Qed.
Print Assumptions C14_write_reader_config_sends.

(* The code as shipped (no AccessSpec case).  The full statement
     forall c qs, run false c = mkOut qs false <-> doc_maps c qs
   is FALSE; refuted by two witnesses (replayed on Go by the check, signatures
   write-AccessSpec-not-AddAccessSpec / write-AccessSpec-sends-CustomMessage): *)
Theorem C14_shipped_refuted_rejects_documented :
  doc_map (CWrite [as_req] [as_param]) (AddAccessSpec 7) /\
  run false (CWrite [as_req] [as_param]) = mkOut [] true /\
  run true (CWrite [as_req] [as_param]) = mkOut [AddAccessSpec 7] false.
Proof. exact shipped_refuted_rejects. Qed.
Print Assumptions C14_shipped_refuted_rejects_documented.

Theorem C14_shipped_refuted_sends_for_malformed :
  malformed (CWrite [as_req_custom] [as_param_custom]) /\
  run false (CWrite [as_req_custom] [as_param_custom]) =
    mkOut [CustomMessage 25882 21 [0; 0; 0; 0]] false /\
  run true (CWrite [as_req_custom] [as_param_custom]) = mkOut [] true.
Proof. exact shipped_refuted_sends. Qed.
Print Assumptions C14_shipped_refuted_sends_for_malformed.

(* ... and it differs from the variant the theorems above are about nowhere else *)
Theorem C14_shipped_agrees_off_accessspec : forall reqs params,
  (forall r rs, reqs = r :: rs -> r_name r <> "AccessSpec"%string) ->
  write_request false reqs params = write_request true reqs params.
Proof. exact shipped_agrees_off_accessspec. Qed.
Print Assumptions C14_shipped_agrees_off_accessspec.

(* One command, one request — also when the reader answers with a fault (failing LLRPStatus,
   ERROR_MESSAGE, reply of another type, undecodable reply) while the connection stays up:
   what is on the wire is the first request of the fault-free run exactly once, and the command
   returns an error.  (run_reply with a successful answer IS run: C14_run_reply_ok.) *)
Theorem C14_fault_reply_one_request : forall b s c,
  sent (run_reply b (AFault :: s) c) = firstn 1 (sent (run b c)) /\
  failed (run_reply b (AFault :: s) c) = true.
Proof. exact fault_reply_one_request. Qed.
Print Assumptions C14_fault_reply_one_request.

Theorem C14_run_reply_ok : forall b script c,
  (script = [] \/ exists s, script = AOk :: s) -> run_reply b script c = run b c.
Proof. exact run_reply_ok. Qed.
Print Assumptions C14_run_reply_ok.

(* whatever the replies, a write command puts copies of ONE request on the wire, at most
   maxSendAttempts = 3 of them, and a single one unless the llrp.Client was closed under it
   (that retry is C15's subject) *)
Theorem C14_write_reply_shape : forall b script reqs params,
  exists q n, (n <= max_send_attempts)%nat /\
    (sent (run_reply b script (CWrite reqs params)) = repeat q n) /\
    ((forall t, script <> AClosed :: t) -> (n <= 1)%nat).
Proof. exact write_reply_shape. Qed.
Print Assumptions C14_write_reply_shape.

(* non-vacuity: concrete commands *)
Example C14_example_enable :
  run true (CWrite [mkReq "ROSpecID" TUint32 AMissing AMissing; mkReq "Action" TString AMissing AMissing]
                   [mkParam "ROSpecID" TUint32 (VU32 4294967295); mkParam "Action" TString (VStr "Enable")])
  = mkOut [EnableROSpec 4294967295] false.
Proof. vm_compute. reflexivity. Qed.
Example C14_example_config :
  run true (CWrite [mkReq "ReaderConfig" TObject AMissing AMissing]
                   [mkParam "ReaderConfig" TObject (VDoc (Some (mkCfg (Some (0, 5000)) 3)) None None)])
  = mkOut [SetReaderConfig (mkCfg (Some (1, 30000)) 3)] false.
Proof. vm_compute. reflexivity. Qed.
Example C14_example_custom :
  run true (CWrite [mkReq "EnableImpinjExtensions" TString (AStr "25882") (AStr "21")]
                   [mkParam "EnableImpinjExtensions" TString (VStr "AQID/w==")])
  = mkOut [CustomMessage 25882 21 [1; 2; 3; 255]] false.
Proof. vm_compute. reflexivity. Qed.
Example C14_example_read :
  run true (CRead [mkReq "ROSpec" TObject AMissing AMissing; mkReq "ReaderConfig" TObject AMissing AMissing;
                   mkReq "Nope" TObject AMissing AMissing; mkReq "AccessSpec" TObject AMissing AMissing])
  = mkOut [GetROSpecs; GetReaderConfig] true.
Proof. vm_compute. reflexivity. Qed.
Example C14_example_fault :
  run_reply true [AFault]
    (CWrite [mkReq "ROSpecID" TUint32 AMissing AMissing; mkReq "Action" TString AMissing AMissing]
            [mkParam "ROSpecID" TUint32 (VU32 9); mkParam "Action" TString (VStr "Delete")])
  = mkOut [DeleteROSpec 9] true.
Proof. vm_compute. reflexivity. Qed.
Example C14_example_closed_then_ok :
  run_reply true [AClosed; AClosed; AOk] (CRead [mkReq "ROSpec" TObject AMissing AMissing])
  = mkOut [GetROSpecs; GetROSpecs; GetROSpecs] false.
Proof. vm_compute. reflexivity. Qed.
Example C14_example_bad_vendor :
  run true (CWrite [mkReq "X" TString (AStr "4294967296") (AStr "21")] [mkParam "X" TString (VStr "")])
  = mkOut [] true.
Proof. vm_compute. reflexivity. Qed.

(* ------------------------------------------------------------------ commands in progress at the same time
   "Each EdgeX read or write command results in exactly the LLRP request the documentation
   assigns to it ... IDs and payload come from the parameters" — of THAT command: the SDK serves
   every REST call on its own goroutine, so commands for the same and for different devices are
   in progress together.  For every set of callers, every list of commands per caller and every
   interleaving of their steps: what a caller has put on the wire and the verdicts it got are an
   initial part of what its commands give one at a time ([run] of each command alone).  [run] is
   a pure function, so this is immediate once the translation only reads the command's own
   arguments; the point is the tie: checks/c14.py runs rounds of concurrent commands (markers in
   every parameter) on the real Driver and evaluates this machine on the same rounds, and the
   [Shared] mode of the machine (one scratch slot for the documents) does NOT have the property. *)
Theorem C14_request_function_of_command_alone : forall b lanes sched i,
  let st := conc_exec Private b sched (conc_init lanes) in
  exists more_q more_r,
    all_reqs b (nth i lanes []) = proj_wire i (c_wire st) ++ more_q /\
    all_results b (nth i lanes []) = l_results (c_lanes st i) ++ more_r.
Proof. exact conc_request_function_of_command_alone. Qed.
Print Assumptions C14_request_function_of_command_alone.

(* once a caller's commands have all returned: exactly those requests — none lost, none repeated,
   none mixed — and exactly those verdicts *)
Theorem C14_concurrent_commands_exact : forall b lanes sched i,
  let st := conc_exec Private b sched (conc_init lanes) in
  lane_finished (c_lanes st i) = true ->
  proj_wire i (c_wire st) = all_reqs b (nth i lanes []) /\
  l_results (c_lanes st i) = all_results b (nth i lanes []).
Proof. exact conc_finished_exact. Qed.
Print Assumptions C14_concurrent_commands_exact.

(* nothing reaches a reader that no command asked for *)
Theorem C14_concurrent_wire_attributed : forall b lanes sched i d q,
  In (i, (d, q)) (c_wire (conc_exec Private b sched (conc_init lanes))) ->
  exists j, In j (nth i lanes []) /\ d = j_dev j /\ In q (sent (run b (j_cmd j))).
Proof. exact conc_wire_attributed. Qed.
Print Assumptions C14_concurrent_wire_attributed.

(* the statement is false when the documents of Object-typed writes go through one slot shared by
   the callers (witness: two callers adding an ROSpec each, steps alternating) *)
Theorem C14_shared_scratch_refuted :
  let st := conc_exec Shared true conc_sched_interleaved (conc_init conc_two_lanes) in
  conc_finished 2 st = true /\
  all_reqs true (nth 0 conc_two_lanes []) = [(0, AddROSpec 7)] /\
  proj_wire 0 (c_wire st) = [(0, AddROSpec 9)].
Proof. exact shared_scratch_refuted. Qed.
Print Assumptions C14_shared_scratch_refuted.

(* non-vacuity: the same two callers and schedule on the machine of the theorems *)
Example C14_example_concurrent :
  let st := conc_exec Private true conc_sched_interleaved (conc_init conc_two_lanes) in
  conc_finished 2 st = true /\
  c_wire st = [(0%nat, (0, AddROSpec 7)); (1%nat, (0, AddROSpec 9))] /\
  l_results (c_lanes st 0) = [false] /\ l_results (c_lanes st 1) = [false].
Proof. exact private_example. Qed.

(* ------------------------------------------------------------------ the read timeout as applied to the connection
   "... a periodic KeepAliveSpec of 30 s, half of the 60 s read timeout the service applies to the connection":
   once the read side has armed its deadline at t0 and the reader stays silent, the connection's read deadline is
   t0 + 2 x the enforced KeepAlive interval WHATEVER the client writes meanwhile (commands, polling,
   KeepAliveAcks).  checks/c14.py observes exactly this on the running llrp.Client (a recording net.Conn: no call
   made while Read is parked moves the read deadline; armed value = 60 s; scaled run: a silent reader is dropped
   although the client keeps writing).  False of a write loop that arms both deadlines (second theorem). *)
Theorem C14_silent_reader_bounded_whatever_is_written : forall d t0 writes,
  dl_read (silent_reader WriteOnly d t0 writes) = t0 + 2 * keep_alive_interval_ms.
Proof. exact silent_reader_bounded. Qed.
Print Assumptions C14_silent_reader_bounded_whatever_is_written.

Theorem C14_write_arming_both_refuted :
  dl_read (silent_reader Both (mkDL 0 0) 0 [50000; 100000; 150000]) = 210000 /\
  2 * keep_alive_interval_ms = 60000.
Proof. exact silent_reader_both_refuted. Qed.
Print Assumptions C14_write_arming_both_refuted.

Example C14_example_silent_reader :
  dl_read (silent_reader WriteOnly (mkDL 0 0) 1000 [20000; 40000; 55000]) = 61000.
Proof. vm_compute. reflexivity. Qed.

(* ------------------------------------------------------------------ the timeout APPLIED is the configured one
   With the read deadline armed before every header read, a reader whose successive messages are never more than
   the read timeout (2 x the enforced KeepAlive interval) apart is never cut off — whatever the pattern of arrivals.
   False of lazy re-arming (only when less than half the timeout is left): a message at 0.4 T, then silence of 0.7 T.
   checks/c14.py: at every Read call of the running client the read deadline in force leaves the whole timeout;
   scaled run with messages at 0 / 0.3 T / 0.45 T / 1.25 T. *)
Theorem C14_silence_within_timeout_never_resets : forall arrivals t,
  silences_within_timeout t arrivals -> alive Always (t + read_timeout_ms) arrivals = true.
Proof. exact always_rearmed_survives. Qed.
Print Assumptions C14_silence_within_timeout_never_resets.

Theorem C14_lazy_rearm_refuted :
  silences_within_timeout 0 [24000; 66000] /\
  alive Lazy (0 + read_timeout_ms) [24000; 66000] = false /\
  alive Always (0 + read_timeout_ms) [24000; 66000] = true.
Proof. exact lazy_rearm_refuted. Qed.
Print Assumptions C14_lazy_rearm_refuted.
