(* C02 — Encoded bytes follow the LLRP binary layout; every length field is exact.
   Only property statements. The layout is Codec/BitSpec.v: a purely bit-level denotation
   (MSB first, fields at their declared widths and bit positions, reserved bits zero, TLV =
   6 zero bits + 10-bit type + 16-bit octet length of the whole TLV + body, TV = 1 + 7-bit type
   + body, sub-parameters in table order), written without shifts, masks or byte arithmetic and
   independent of the encoder model (Codec/Encode.v), which mirrors the generated Go code. *)
From Coq Require Import NArith List Arith.
From LLRP Require Import Base.Bits Codec.Schema Codec.Encode Codec.Decode Codec.Wf Codec.SchemaTable
     Codec.FieldsProofs Codec.RoundTrip Codec.BitSpec Codec.BitSpecProofs Codec.WfBool
     EncIR.IR EncIR.Sem EncIR.Compile EncIR.CompileCorrect.
Import ListNotations.
Open Scope N_scope.

(* for EVERY well-formed table and value: the encoder's bytes, read as bits, are the layout *)
Theorem C02_encode_matches_layout : forall t v bs,
  wf_schema t = true -> wfv t v -> encode t v = Some bs ->
  value_bits t v = Some (bytes_to_bits bs) /\ byte_list bs.
Proof. exact encode_matches_layout. Qed.
Print Assumptions C02_encode_matches_layout.

(* every TLV length field equals the number of octets the parameter occupies (the layout's
   length field is DEFINED as 4 + octets that follow; the encoder's declared size agrees) *)
Theorem C02_tlv_lengths_exact : forall t tid fs ss bs sz,
  wf_schema t = true -> wfv t (VStruct false tid fs ss) ->
  enc t (VStruct false tid fs ss) = Some (bs, sz) -> sz = len bs.
Proof. exact declared_size_exact. Qed.
Print Assumptions C02_tlv_lengths_exact.

(* conversely: a byte string whose bits are the layout of a well-formed value decodes to
   precisely that value *)
Theorem C02_decode_conformant : forall t msg tid fs ss bs' fuel,
  wf_schema t = true -> wfv t (VStruct msg tid fs ss) ->
  (depth (VStruct msg tid fs ss) <= fuel)%nat -> byte_list bs' ->
  value_bits t (VStruct msg tid fs ss) = Some (bytes_to_bits bs') ->
  decode t fuel msg tid bs' = Some (VStruct msg tid fs ss).
Proof. exact decode_conformant. Qed.
Print Assumptions C02_decode_conformant.

(* the layout of fields alone: what fields_bits proves for runs of sub-octet fields *)
Theorem C02_fields_layout : forall fs vs bs sz,
  wf_fspecs 0 fs = true -> wf_fields fs vs ->
  enc_fields fs vs 0 = Some (bs, sz) -> field_bits fs vs 0 = Some (bytes_to_bits bs).
Proof.
  intros fs vs bs sz Hs Hv E.
  exact (proj2 (fields_bits fs vs 0 0%nat bs sz Hs Hv (Nat.le_0_l 8) N_lt_0_256 eq_refl E)).
Qed.
Print Assumptions C02_fields_layout.

(* instantiated at the pinned LLRP table *)
Theorem C02_llrp_layout : forall v bs,
  wfv llrp_table v -> encode llrp_table v = Some bs ->
  value_bits llrp_table v = Some (bytes_to_bits bs).
Proof.
  intros v bs Hw E. apply (encode_matches_layout llrp_table v bs); try assumption.
  vm_compute. reflexivity.
Qed.
Print Assumptions C02_llrp_layout.

(* non-vacuity: C1G2PC (5-bit field + three 1-bit flags + a byte) inside a TagReportData with an
   EPC96: the layout computed bit by bit equals the bits of the encoder's bytes *)
Definition example_trd : value :=
  VStruct false 240 []
    [VStruct false 241 [VBitArr 0 []] [];
     VStruct false 13 [VBytes [1;2;3;4;5;6;7;8;9;10;11;255]] [];
     VOpt None; VOpt None; VOpt None;
     VOpt (Some (VStruct false 1 [VNum 513] []));
     VOpt None; VOpt None; VOpt None; VOpt None; VOpt None; VOpt None; VOpt None;
     VOpt (Some (VStruct false 12 [VNum 21; VNum 1; VNum 0; VNum 1; VNum 170] []));
     VOpt None; VOpt None; VOpt None; VOpt None; VOpt None; VOpt None; VOpt None; VOpt None;
     VOpt None; VOpt None; VOpt None; VOpt None; VOpt None; VOpt None; VList []].

Example C02_example_wf : wfv llrp_table example_trd.
Proof. apply wfvb_sound. vm_compute. reflexivity. Qed.

Example C02_example_layout :
  option_map bytes_to_bits (encode llrp_table example_trd) = value_bits llrp_table example_trd
  /\ encode llrp_table example_trd =
     Some [0; 240; 0; 23;  141; 1;2;3;4;5;6;7;8;9;10;11;255;  129; 2; 1;  140; 173; 170].
Proof. split; vm_compute; reflexivity. Qed.

(* ---------- Way 1: the Go encoder SOURCE, translated on every run, is the model above ----------
   tools/go-enc-ir translates EncodeFields / getHeader / MarshalBinary / encodeParams of the current tree into
   the encoder IR (EncIR/IR.v); [progs_match t ps] is the decidable check that this IR is, container by
   container, exactly what the schema compiles to (EncIR/Compile.v); it is discharged by vm_compute in the
   per-run obligation build/gen/C02/Ob_encoder.v (`encoder_code_matches_schema`).  The theorem: for every
   program set the check accepts and EVERY well-formed value, what the IR computes (EncIR/Sem.v: the bytes
   encodeParams(getHeader()) / MarshalBinary leave in the buffer) is what Codec/Encode.v computes — the
   definition all theorems above (and C01's) are about.  [enc_schema_ok] = wf_schema + the side conditions the
   proof needed (alternatives of an exclusive group consecutive, their case conditions `!= nil`/`!= 0`,
   TV type ids non-zero, no exclusive groups in messages); llrp_table satisfies it by computation. *)
Theorem C02_encoder_code_refines_model : forall t ps,
  enc_schema_ok t = true -> progs_match t ps = true ->
  forall v fuel, wfv t v -> (depth v <= fuel)%nat -> run ps fuel v = of_opt (encode t v).
Proof. exact progs_match_correct. Qed.
Print Assumptions C02_encoder_code_refines_model.

(* parameters: also the size getHeader declares (uint16 arithmetic) is the model's declared size *)
Theorem C02_encoder_code_refines_model_sizes : forall t ps,
  enc_schema_ok t = true -> progs_match t ps = true ->
  forall tid fs ss fuel, wfv t (VStruct false tid fs ss) -> (depth (VStruct false tid fs ss) <= fuel)%nat ->
  run_param ps fuel (VStruct false tid fs ss) = of_opt (enc t (VStruct false tid fs ss)).
Proof. exact progs_match_correct_param. Qed.
Print Assumptions C02_encoder_code_refines_model_sizes.

(* at the pinned LLRP table (what the per-run obligation instantiates with this run's enc_all) *)
Theorem C02_encoder_code_refines_model_llrp : forall ps,
  progs_match llrp_table ps = true ->
  forall v fuel, wfv llrp_table v -> (depth v <= fuel)%nat -> run ps fuel v = of_opt (encode llrp_table v).
Proof. exact progs_match_correct_llrp. Qed.
Print Assumptions C02_encoder_code_refines_model_llrp.

(* non-vacuity: the hypotheses hold for the programs compiled from the table with a fitting struct declaration,
   and on the example above the IR semantics yields the bytes of the model *)
Example C02_encoder_ir_example :
  enc_schema_ok llrp_table = true /\ progs_match llrp_table (canon_programs llrp_table) = true /\
  run (canon_programs llrp_table) 2 example_trd = of_opt (encode llrp_table example_trd) /\
  run (canon_programs llrp_table) 2 example_trd =
    ROk [0; 240; 0; 23;  141; 1;2;3;4;5;6;7;8;9;10;11;255;  129; 2; 1;  140; 173; 170] /\
  run (canon_programs llrp_table) 1 example_trd = RFuel.
Proof. vm_compute. repeat split; reflexivity. Qed.

(* a side condition is needed: with a TV type id 0 Go's IsTV (pt != 0 && pt <= 127) writes a TLV header *)
Example C02_encoder_ir_tv_zero :
  wf_schema tv0_table = true /\ progs_match tv0_table tv0_progs = true /\
  run tv0_progs 1 (VStruct false 0 [VNum 7] []) = ROk [0; 0; 0; 2; 7] /\
  encode tv0_table (VStruct false 0 [VNum 7] []) = Some [128; 7].
Proof. exact tv_type_zero_refutes. Qed.
