(* C01 — Binary codec round-trips every message and parameter type.
   Only property statements; each closed by [exact] of a lemma proved elsewhere.
   The model: Codec/Schema.v (layout tables, value trees), Codec/Encode.v (generated encoder's
   arithmetic), Codec/Decode.v (schema-ordered reference decoder), Codec/Wf.v (domain),
   Codec/SchemaTable.v (the pinned table of the 169 LLRP types, generated from spec/llrp_layout.json).
   The JSON clause of C01 is modelled in Codec/Json.v (JSON trees; to_json / of_json = what
   encoding/json prints for / reads into the generated structs, driven by Codec/JsonTable.v, the
   JSON view of the same pinned table: Go field names in struct order, base64 for []byte
   (Codec/Base64.v), U+FFFD for invalid UTF-8) and proved in Codec/JsonProofs.v; the theorems are at
   the end of this file.  The JSON *text* layer (escaping, number syntax, encoding/json's reflection)
   is not modelled: it is tied on every run by comparing json.Marshal's text, parsed by an
   independent JSON parser, with to_json, and Go's Marshal/Unmarshal result with of_json (to_json v). *)
From Coq Require Import NArith ZArith List.
From Coq Require String.
Import String.StringSyntax.
From LLRP Require Import Codec.Schema Codec.Encode Codec.Decode Codec.Wf Codec.SchemaTable Codec.RoundTrip Codec.WfBool.
From LLRP Require Import Codec.Base64 Codec.Base64Proofs Codec.Json Codec.JsonTable Codec.JsonProofs.
Import ListNotations.
Open Scope N_scope.

(* the pinned table of all 169 message/parameter types is well-formed *)
Theorem C01_pinned_table_wf : wf_schema llrp_table = true /\ length llrp_table = 169%nat.
Proof. split; vm_compute; reflexivity. Qed.
Print Assumptions C01_pinned_table_wf.

(* for EVERY well-formed table: every well-formed value encodes *)
Theorem C01_encode_total : forall t v,
  wf_schema t = true -> wfv t v -> exists bs, encode t v = Some bs.
Proof. exact encode_total. Qed.
Print Assumptions C01_encode_total.

(* ... decoding those bytes yields a value equal to the original (any nesting depth, any
   combination of optional / repeated / mutually exclusive sub-parameters, every field value
   that fits its width) *)
Theorem C01_decode_encode : forall t msg tid fs ss bs fuel,
  wf_schema t = true -> wfv t (VStruct msg tid fs ss) ->
  (depth (VStruct msg tid fs ss) <= fuel)%nat ->
  encode t (VStruct msg tid fs ss) = Some bs ->
  decode t fuel msg tid bs = Some (VStruct msg tid fs ss).
Proof. exact decode_encode. Qed.
Print Assumptions C01_decode_encode.

(* ... and re-encoding the decoded value reproduces the same bytes *)
Theorem C01_reencode_same_bytes : forall t msg tid fs ss bs fuel v',
  wf_schema t = true -> wfv t (VStruct msg tid fs ss) ->
  (depth (VStruct msg tid fs ss) <= fuel)%nat ->
  encode t (VStruct msg tid fs ss) = Some bs ->
  decode t fuel msg tid bs = Some v' -> encode t v' = Some bs.
Proof. exact reencode_same_bytes. Qed.
Print Assumptions C01_reencode_same_bytes.

(* the executable domain check used on every compared case is sound for the domain *)
Theorem C01_domain_check_sound : forall t v, wfvb t v = true -> wfv t v.
Proof. exact wfvb_sound. Qed.
Print Assumptions C01_domain_check_sound.

(* instantiated at the LLRP table *)
Theorem C01_llrp_roundtrip : forall msg tid fs ss bs fuel,
  wfv llrp_table (VStruct msg tid fs ss) ->
  (depth (VStruct msg tid fs ss) <= fuel)%nat ->
  encode llrp_table (VStruct msg tid fs ss) = Some bs ->
  decode llrp_table fuel msg tid bs = Some (VStruct msg tid fs ss).
Proof. intros. apply decode_encode; try assumption. vm_compute. reflexivity. Qed.
Print Assumptions C01_llrp_roundtrip.

(* non-vacuity: an ROAccessReport with a TagReportData carrying an EPC96, several optional TV
   parameters, a packed C1G2PC, an op-spec result with a counted array and a Custom parameter,
   plus a second report with a 17-bit EPCData — is well-formed, three levels deep *)
Definition example_report : value :=
  VStruct true 61 []
    [VList
       [VStruct false 240 []
          [VStruct false 241 [VBitArr 0 []] [];
           VStruct false 13 [VBytes [1;2;3;4;5;6;7;8;9;10;11;255]] [];
           VOpt (Some (VStruct false 9 [VNum 4294967295] []));
           VOpt None;
           VOpt None;
           VOpt (Some (VStruct false 1 [VNum 513] []));
           VOpt (Some (VStruct false 6 [VNum 200] []));
           VOpt None; VOpt (Some (VStruct false 2 [VNum 18446744073709551615] []));
           VOpt None; VOpt None; VOpt None;
           VOpt (Some (VStruct false 8 [VNum 7] []));
           VOpt (Some (VStruct false 12 [VNum 31; VNum 1; VNum 0; VNum 1; VNum 170] []));
           VOpt None; VOpt None; VOpt None; VOpt None;
           VOpt (Some (VStruct false 349 [VNum 0; VNum 9; VNums [1; 65535; 256]] []));
           VOpt None; VOpt None; VOpt None; VOpt None; VOpt None; VOpt None; VOpt None; VOpt None;
           VOpt None;
           VList [VStruct false 1023 [VNum 25882; VNum 3; VBytes [222; 173]] []]];
        VStruct false 240 []
          [VStruct false 241 [VBitArr 17 [255; 0; 128]] [];
           VStruct false 13 [VBytes []] [];
           VOpt None; VOpt None; VOpt None; VOpt None; VOpt None; VOpt None; VOpt None; VOpt None;
           VOpt None; VOpt None; VOpt None; VOpt None; VOpt None; VOpt None; VOpt None; VOpt None;
           VOpt None; VOpt None; VOpt None; VOpt None; VOpt None; VOpt None; VOpt None; VOpt None;
           VOpt None; VOpt None; VList []]];
     VList []; VList []].

Example C01_example_wf : wfv llrp_table example_report /\ depth example_report = 3%nat.
Proof.
  split; [|reflexivity].
  apply wfvb_sound. vm_compute. reflexivity.
Qed.

Example C01_example_bytes :
  option_map (@length N) (encode llrp_table example_report) = Some 84%nat.
Proof. vm_compute. reflexivity. Qed.

(* ================= the JSON clause =================
   "A value that additionally passes through the JSON form the device service uses for commands
   and readings survives unchanged (text fields holding valid UTF-8)." *)

(* []byte fields travel as base64 (StdEncoding, '=' padding): decoding the encoding of ANY byte
   list gives the byte list back *)
Theorem C01_base64_roundtrip : forall bs,
  Forall (fun b => b < 256) bs -> b64_decode (b64_encode bs) = Some bs.
Proof. exact b64_roundtrip. Qed.
Print Assumptions C01_base64_roundtrip.

(* the JSON view of the pinned table (Go field names, Go types) has the shape of the layout
   table, for all 169 types; member names of one struct are pairwise distinct *)
Theorem C01_json_view_agrees :
  jt_ok llrp_table llrp_jtable = true /\ jt_names_ok llrp_jtable = true /\ length llrp_jtable = 169%nat.
Proof. repeat split; vm_compute; reflexivity. Qed.
Print Assumptions C01_json_view_agrees.

(* for EVERY well-formed table and EVERY JSON view that agrees with it: a well-formed value (the
   domain of the binary round trip above) whose text fields hold valid UTF-8 has a JSON form, and
   unmarshalling that form into a fresh value yields the value (any nesting depth; nil = empty) *)
Theorem C01_json_roundtrip : forall t jt msg tid fs ss,
  wf_schema t = true -> jt_ok t jt = true ->
  wfv t (VStruct msg tid fs ss) -> text_ok jt (VStruct msg tid fs ss) = true ->
  exists j, to_json jt (VStruct msg tid fs ss) = Some j /\
            of_json jt msg tid j = Some (VStruct msg tid fs ss).
Proof. exact json_roundtrip. Qed.
Print Assumptions C01_json_roundtrip.

(* the JSON round trip does not depend on the binary side conditions: it holds on the larger
   domain [jdom] (numbers fit their Go types, bytes < 256, text valid UTF-8, sub-parameters of the
   declared shapes) — e.g. also for values too large for a 16-bit TLV length *)
Theorem C01_json_roundtrip_domain : forall jt msg tid fs ss,
  jdom jt (VStruct msg tid fs ss) ->
  exists j, to_json jt (VStruct msg tid fs ss) = Some j /\
            of_json jt msg tid j = Some (VStruct msg tid fs ss).
Proof. exact json_roundtrip_dom. Qed.
Print Assumptions C01_json_roundtrip_domain.

(* instantiated at the LLRP tables, in the form the oracle evaluates (`jsonrt`) *)
Theorem C01_json_llrp_roundtrip : forall v,
  wfv llrp_table v -> text_ok llrp_jtable v = true -> json_roundtrip_of llrp_jtable v = Some v.
Proof.
  intros. apply (json_roundtrip_of_wf llrp_table); try assumption; vm_compute; reflexivity.
Qed.
Print Assumptions C01_json_llrp_roundtrip.

(* where the UTF-8 premise enters: Marshal keeps a valid string as it is ... *)
Theorem C01_json_valid_text_kept : forall bs, utf8_valid bs = true -> utf8_sanitize bs = bs.
Proof. exact utf8_valid_sanitize. Qed.
Print Assumptions C01_json_valid_text_kept.

(* ... and without it the clause is false of the model (and of Go: this witness is replayed on
   every run, kind json-extra): an LLRPStatus whose ErrorDescription is the single byte FF comes
   back with U+FFFD (EF BF BD) *)
Theorem C01_json_without_utf8_refuted :
  exists v v', wfv llrp_table v /\ json_roundtrip_of llrp_jtable v = Some v' /\ v' <> v.
Proof.
  exists (VStruct false 287 [VNum 0; VBytes [255]] [VOpt None; VOpt None]).
  exists (VStruct false 287 [VNum 0; VBytes [239; 191; 189]] [VOpt None; VOpt None]).
  split; [apply wfvb_sound; vm_compute; reflexivity|].
  split; [vm_compute; reflexivity|discriminate].
Qed.
Print Assumptions C01_json_without_utf8_refuted.

(* non-vacuity: the report above is in the domain; its JSON form has the 3 members of
   ROAccessReport and reads back as the report. A TagReportData prints int8 -56 for PeakRSSI 200,
   uint64 exactly, the 17-bit EPC as EPCNumBits 17 + base64 "/wCA" *)
Example C01_json_example :
  text_ok llrp_jtable example_report = true /\
  json_roundtrip_of llrp_jtable example_report = Some example_report /\
  match to_json llrp_jtable example_report with Some (JObj m) => length m = 3%nat | _ => False end.
Proof. repeat split; vm_compute; reflexivity. Qed.

Example C01_json_example_members :
  to_json llrp_jtable (VStruct false 6 [VNum 200] []) = Some (JNum (-56)) /\
  to_json llrp_jtable (VStruct false 2 [VNum 18446744073709551615] []) = Some (JNum 18446744073709551615) /\
  to_json llrp_jtable (VStruct false 241 [VBitArr 17 [255; 0; 128]] []) =
    Some (JObj [("EPCNumBits"%string, JNum 17); ("EPC"%string, JStr [47; 119; 67; 65])]).
Proof. repeat split; vm_compute; reflexivity. Qed.
