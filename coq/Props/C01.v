(* C01 — Binary codec round-trips every message and parameter type.
   Only property statements; each closed by [exact] of a lemma proved elsewhere.
   The model: Codec/Schema.v (layout tables, value trees), Codec/Encode.v (generated encoder's
   arithmetic), Codec/Decode.v (schema-ordered reference decoder), Codec/Wf.v (domain),
   Codec/SchemaTable.v (the pinned table of the 169 LLRP types, generated from spec/llrp_layout.json).
   The JSON clause of C01 is modelled in Codec/Json.v (JSON trees; to_json / of_json = what
   encoding/json prints for / reads into the generated structs, driven by Codec/JsonTable.v, the
   JSON view of the same pinned table: Go field names in struct order, base64 for []byte
   (Codec/Base64.v), U+FFFD for invalid UTF-8) and proved in Codec/JsonProofs.v; the theorems are at
   the end of this file.  The JSON *text* layer (escaping, number syntax, encoding/json's reflection)
   is not modelled: it is tied on every run by comparing json.Marshal's text, parsed by an
   independent JSON parser, with to_json, and Go's Marshal/Unmarshal result with of_json (to_json v). *)
From Coq Require Import NArith ZArith List.
From Coq Require String.
Import String.StringSyntax.
From LLRP Require Import Codec.Schema Codec.Encode Codec.Decode Codec.Wf Codec.SchemaTable Codec.RoundTrip Codec.WfBool.
From LLRP Require Import Codec.Base64 Codec.Base64Proofs Codec.Json Codec.JsonTable Codec.JsonProofs.
Import ListNotations.
Open Scope N_scope.

(* the pinned table of all 169 message/parameter types is well-formed *)
Theorem C01_pinned_table_wf : wf_schema llrp_table = true /\ length llrp_table = 169%nat.
Proof. split; vm_compute; reflexivity. Qed.
Print Assumptions C01_pinned_table_wf.

(* for EVERY well-formed table: every well-formed value encodes *)
Theorem C01_encode_total : forall t v,
  wf_schema t = true -> wfv t v -> exists bs, encode t v = Some bs.
Proof. exact encode_total. Qed.
Print Assumptions C01_encode_total.

(* ... decoding those bytes yields a value equal to the original (any nesting depth, any
   combination of optional / repeated / mutually exclusive sub-parameters, every field value
   that fits its width) *)
Theorem C01_decode_encode : forall t msg tid fs ss bs fuel,
  wf_schema t = true -> wfv t (VStruct msg tid fs ss) ->
  (depth (VStruct msg tid fs ss) <= fuel)%nat ->
  encode t (VStruct msg tid fs ss) = Some bs ->
  decode t fuel msg tid bs = Some (VStruct msg tid fs ss).
Proof. exact decode_encode. Qed.
Print Assumptions C01_decode_encode.

(* ... and re-encoding the decoded value reproduces the same bytes *)
Theorem C01_reencode_same_bytes : forall t msg tid fs ss bs fuel v',
  wf_schema t = true -> wfv t (VStruct msg tid fs ss) ->
  (depth (VStruct msg tid fs ss) <= fuel)%nat ->
  encode t (VStruct msg tid fs ss) = Some bs ->
  decode t fuel msg tid bs = Some v' -> encode t v' = Some bs.
Proof. exact reencode_same_bytes. Qed.
Print Assumptions C01_reencode_same_bytes.

(* the executable domain check used on every compared case is sound for the domain *)
Theorem C01_domain_check_sound : forall t v, wfvb t v = true -> wfv t v.
Proof. exact wfvb_sound. Qed.
Print Assumptions C01_domain_check_sound.

(* instantiated at the LLRP table *)
Theorem C01_llrp_roundtrip : forall msg tid fs ss bs fuel,
  wfv llrp_table (VStruct msg tid fs ss) ->
  (depth (VStruct msg tid fs ss) <= fuel)%nat ->
  encode llrp_table (VStruct msg tid fs ss) = Some bs ->
  decode llrp_table fuel msg tid bs = Some (VStruct msg tid fs ss).
Proof. intros. apply decode_encode; try assumption. vm_compute. reflexivity. Qed.
Print Assumptions C01_llrp_roundtrip.

(* non-vacuity: an ROAccessReport with a TagReportData carrying an EPC96, several optional TV
   parameters, a packed C1G2PC, an op-spec result with a counted array and a Custom parameter,
   plus a second report with a 17-bit EPCData — is well-formed, three levels deep *)
Definition example_report : value :=
  VStruct true 61 []
    [VList
       [VStruct false 240 []
          [VStruct false 241 [VBitArr 0 []] [];
           VStruct false 13 [VBytes [1;2;3;4;5;6;7;8;9;10;11;255]] [];
           VOpt (Some (VStruct false 9 [VNum 4294967295] []));
           VOpt None;
           VOpt None;
           VOpt (Some (VStruct false 1 [VNum 513] []));
           VOpt (Some (VStruct false 6 [VNum 200] []));
           VOpt None; VOpt (Some (VStruct false 2 [VNum 18446744073709551615] []));
           VOpt None; VOpt None; VOpt None;
           VOpt (Some (VStruct false 8 [VNum 7] []));
           VOpt (Some (VStruct false 12 [VNum 31; VNum 1; VNum 0; VNum 1; VNum 170] []));
           VOpt None; VOpt None; VOpt None; VOpt None;
           VOpt (Some (VStruct false 349 [VNum 0; VNum 9; VNums [1; 65535; 256]] []));
           VOpt None; VOpt None; VOpt None; VOpt None; VOpt None; VOpt None; VOpt None; VOpt None;
           VOpt None;
           VList [VStruct false 1023 [VNum 25882; VNum 3; VBytes [222; 173]] []]];
        VStruct false 240 []
          [VStruct false 241 [VBitArr 17 [255; 0; 128]] [];
           VStruct false 13 [VBytes []] [];
           VOpt None; VOpt None; VOpt None; VOpt None; VOpt None; VOpt None; VOpt None; VOpt None;
           VOpt None; VOpt None; VOpt None; VOpt None; VOpt None; VOpt None; VOpt None; VOpt None;
           VOpt None; VOpt None; VOpt None; VOpt None; VOpt None; VOpt None; VOpt None; VOpt None;
           VOpt None; VOpt None; VList []]];
     VList []; VList []].

Example C01_example_wf : wfv llrp_table example_report /\ depth example_report = 3%nat.
Proof.
  split; [|reflexivity].
  apply wfvb_sound. vm_compute. reflexivity.
Qed.

Example C01_example_bytes :
  option_map (@length N) (encode llrp_table example_report) = Some 84%nat.
Proof. vm_compute. reflexivity. Qed.

(* ================= the JSON clause =================
   "A value that additionally passes through the JSON form the device service uses for commands
   and readings survives unchanged (text fields holding valid UTF-8)." *)

(* []byte fields travel as base64 (StdEncoding, '=' padding): decoding the encoding of ANY byte
   list gives the byte list back *)
Theorem C01_base64_roundtrip : forall bs,
  Forall (fun b => b < 256) bs -> b64_decode (b64_encode bs) = Some bs.
Proof. exact b64_roundtrip. Qed.
Print Assumptions C01_base64_roundtrip.

(* the JSON view of the pinned table (Go field names, Go types) has the shape of the layout
   table, for all 169 types; member names of one struct are pairwise distinct *)
Theorem C01_json_view_agrees :
  jt_ok llrp_table llrp_jtable = true /\ jt_names_ok llrp_jtable = true /\ length llrp_jtable = 169%nat.
Proof. repeat split; vm_compute; reflexivity. Qed.
Print Assumptions C01_json_view_agrees.

(* for EVERY well-formed table and EVERY JSON view that agrees with it: a well-formed value (the
   domain of the binary round trip above) whose text fields hold valid UTF-8 has a JSON form, and
   unmarshalling that form into a fresh value yields the value (any nesting depth; nil = empty) *)
Theorem C01_json_roundtrip : forall t jt msg tid fs ss,
  wf_schema t = true -> jt_ok t jt = true ->
  wfv t (VStruct msg tid fs ss) -> text_ok jt (VStruct msg tid fs ss) = true ->
  exists j, to_json jt (VStruct msg tid fs ss) = Some j /\
            of_json jt msg tid j = Some (VStruct msg tid fs ss).
Proof. exact json_roundtrip. Qed.
Print Assumptions C01_json_roundtrip.

(* the JSON round trip does not depend on the binary side conditions: it holds on the larger
   domain [jdom] (numbers fit their Go types, bytes < 256, text valid UTF-8, sub-parameters of the
   declared shapes) — e.g. also for values too large for a 16-bit TLV length *)
Theorem C01_json_roundtrip_domain : forall jt msg tid fs ss,
  jdom jt (VStruct msg tid fs ss) ->
  exists j, to_json jt (VStruct msg tid fs ss) = Some j /\
            of_json jt msg tid j = Some (VStruct msg tid fs ss).
Proof. exact json_roundtrip_dom. Qed.
Print Assumptions C01_json_roundtrip_domain.

(* instantiated at the LLRP tables, in the form the oracle evaluates (`jsonrt`) *)
Theorem C01_json_llrp_roundtrip : forall v,
  wfv llrp_table v -> text_ok llrp_jtable v = true -> json_roundtrip_of llrp_jtable v = Some v.
Proof.
  intros. apply (json_roundtrip_of_wf llrp_table); try assumption; vm_compute; reflexivity.
Qed.
Print Assumptions C01_json_llrp_roundtrip.

(* where the UTF-8 premise enters: Marshal keeps a valid string as it is ... *)
Theorem C01_json_valid_text_kept : forall bs, utf8_valid bs = true -> utf8_sanitize bs = bs.
Proof. exact utf8_valid_sanitize. Qed.
Print Assumptions C01_json_valid_text_kept.

(* ... and without it the clause is false of the model (and of Go: this witness is replayed on
   every run, kind json-extra): an LLRPStatus whose ErrorDescription is the single byte FF comes
   back with U+FFFD (EF BF BD) *)
Theorem C01_json_without_utf8_refuted :
  exists v v', wfv llrp_table v /\ json_roundtrip_of llrp_jtable v = Some v' /\ v' <> v.
Proof.
  exists (VStruct false 287 [VNum 0; VBytes [255]] [VOpt None; VOpt None]).
  exists (VStruct false 287 [VNum 0; VBytes [239; 191; 189]] [VOpt None; VOpt None]).
  split; [apply wfvb_sound; vm_compute; reflexivity|].
  split; [vm_compute; reflexivity|discriminate].
Qed.
Print Assumptions C01_json_without_utf8_refuted.

(* non-vacuity: the report above is in the domain; its JSON form has the 3 members of
   ROAccessReport and reads back as the report. A TagReportData prints int8 -56 for PeakRSSI 200,
   uint64 exactly, the 17-bit EPC as EPCNumBits 17 + base64 "/wCA" *)
Example C01_json_example :
  text_ok llrp_jtable example_report = true /\
  json_roundtrip_of llrp_jtable example_report = Some example_report /\
  match to_json llrp_jtable example_report with Some (JObj m) => length m = 3%nat | _ => False end.
Proof. repeat split; vm_compute; reflexivity. Qed.

Example C01_json_example_members :
  to_json llrp_jtable (VStruct false 6 [VNum 200] []) = Some (JNum (-56)) /\
  to_json llrp_jtable (VStruct false 2 [VNum 18446744073709551615] []) = Some (JNum 18446744073709551615) /\
  to_json llrp_jtable (VStruct false 241 [VBitArr 17 [255; 0; 128]] []) =
    Some (JObj [("EPCNumBits"%string, JNum 17); ("EPC"%string, JStr [47; 119; 67; 65])]).
Proof. repeat split; vm_compute; reflexivity. Qed.

(* ================= the decoder's CODE ("way 1") =================
   The theorems above are about the model decoder Codec/Decode.v.  On every run tools/go-dec-ir translates the
   current pkg/llrp/generated_unmarshal.go into the value-producing decoder IR (DecFIR/IR.v, semantics DecFIR/Sem.v:
   slices, index/slice panics, error returns, `make`/`copy`, loops with fuel) and the kernel checks
   `dprogs_match llrp_table dec_all = true` (build/gen/C01/Ob_decoder.v): the translated code is, container by
   container, what the schema compiles to.  The theorem below makes that check mean something: for EVERY table that
   passes the boolean side conditions [dec_schema_ok] and EVERY program set accepted by [dprogs_match], whatever byte
   string the model decodes to a well-formed value, the code decodes to the same value — it does not panic, does not
   return an error, does not run out of fuel (the model's fuel, +1 for a message, is enough).
   The converse inclusion is false (the code accepts trailing bytes and any order inside a loop group), and so is the
   statement without `wfv`: see C01_decoder_equality_refuted. *)
From LLRP Require Import EncIR.IR DecFIR.IR DecFIR.Compile DecFIR.Sem DecFIR.CompileCorrect.

Theorem C01_decoder_code_refines_model : forall t ps,
  dec_schema_ok t = true -> dprogs_match t ps = true ->
  forall msg tid bs v fuel, byte_list bs -> decode t fuel msg tid bs = Some v -> wfv t v ->
    run ps (if msg then S fuel else fuel) msg tid bs = DOk v.
Proof. exact dprogs_match_correct. Qed.
Print Assumptions C01_decoder_code_refines_model.

(* hence (with C01_decode_encode): the code decodes the encoding of every well-formed value to that value *)
Theorem C01_decoder_code_decodes_encodings : forall t ps,
  dec_schema_ok t = true -> dprogs_match t ps = true ->
  forall msg tid fs ss bs fuel, wfv t (VStruct msg tid fs ss) -> (depth (VStruct msg tid fs ss) <= fuel)%nat ->
    encode t (VStruct msg tid fs ss) = Some bs ->
    run ps (if msg then S fuel else fuel) msg tid bs = DOk (VStruct msg tid fs ss).
Proof. exact dprogs_match_encode. Qed.
Print Assumptions C01_decoder_code_decodes_encodings.

(* the side conditions hold of the pinned LLRP table (by computation), so for LLRP only the per-run check remains *)
Theorem C01_decoder_side_conditions_llrp : dec_schema_ok llrp_table = true.
Proof. exact llrp_dec_schema_ok. Qed.
Print Assumptions C01_decoder_side_conditions_llrp.

Theorem C01_decoder_code_refines_model_llrp : forall ps,
  dprogs_match llrp_table ps = true ->
  forall msg tid bs v fuel, byte_list bs -> decode llrp_table fuel msg tid bs = Some v -> wfv llrp_table v ->
    run ps (if msg then S fuel else fuel) msg tid bs = DOk v.
Proof. exact dprogs_match_correct_llrp. Qed.
Print Assumptions C01_decoder_code_refines_model_llrp.

(* why it is an inclusion and why `wfv` is there: of the decoders the LLRP schema compiles to (and of Go),
   (1) a fixed-size TLV declaring a stray extra body byte is accepted by the code, rejected by the model;
   (2) a Custom parameter before a TagReportData is accepted by the code, rejected by the model;
   (3) a UHFBandCapabilities without any TransmitPowerLevel is decoded by the model to a value outside the domain
       (wfvb = false) and rejected by the code *)
Theorem C01_decoder_equality_refuted :
  (exists bs v, run llrp_dec 16 false 139 bs = DOk v /\ decode llrp_table 16 false 139 bs = None) /\
  (exists bs v, run llrp_dec 16 true 61 bs = DOk v /\ decode llrp_table 16 true 61 bs = None) /\
  (exists bs v, decode llrp_table 16 false 144 bs = Some v /\ wfvb llrp_table v = false /\
                run llrp_dec 16 false 144 bs = DErr).
Proof.
  split; [exact decoder_equality_refuted_trailing|]. split.
  - destruct decoder_equality_refuted_order as ((v & H1) & H2 & _). exists out_of_order_report, v. split; assumption.
  - destruct decoder_forward_needs_wf_refuted as ((v & H1 & H2 & H3) & _). eauto.
Qed.
Print Assumptions C01_decoder_equality_refuted.

(* non-vacuity: the decoders the LLRP schema compiles to pass the per-run check; on the 84-byte encoding of the
   ROAccessReport above (two TagReportData, three levels) the model decodes with fuel 2 and the code with fuel 3
   returns the report; with fuel 2 the code's outcome is the distinct DFuel, which the theorem excludes *)
Example C01_decoder_code_example :
  dprogs_match llrp_table llrp_dec = true /\
  exists bs, encode llrp_table example_report = Some bs /\
    decode llrp_table 2 true 61 bs = Some example_report /\
    run llrp_dec 3 true 61 bs = DOk example_report /\ run llrp_dec 2 true 61 bs = DFuel.
Proof.
  split; [exact llrp_dec_matches|].
  exists (match encode llrp_table example_report with Some b => b | None => [] end).
  repeat split; vm_compute; reflexivity.
Qed.

(* the same fact obtained from the theorem instead of by running the IR *)
Example C01_decoder_code_example_by_theorem : forall bs,
  encode llrp_table example_report = Some bs -> run llrp_dec 4 true 61 bs = DOk example_report.
Proof.
  intros bs E.
  apply (C01_decoder_code_decodes_encodings llrp_table llrp_dec llrp_dec_schema_ok llrp_dec_matches true 61 _ _ bs 3);
    [apply C01_example_wf|vm_compute; apply le_n|exact E].
Qed.

(* ================= readings over a HISTORY of replies; what the receiver of a decode must be =================
   The JSON clause speaks of "readings": the device service decodes the Reader's reply / report and serialises the
   decoded value to JSON later.  [readings] (Codec/Readings.v) is that path with a fresh receiver per reply.  For
   EVERY history: the i-th reading is the JSON form of the i-th message sent and reads back as that message,
   whatever was sent before or after it.  Tied at driver level on every run (checks/c01_driver.py: a real
   Driver/LLRPDevice/Client against a scripted Reader, every reading's JSON == to_json of the value sent THAT time,
   all earlier readings compared again after later reads and reports). *)
From Coq Require Import Lia.
From LLRP Require Import Codec.Readings.

Theorem C01_readings_are_of_their_replies : forall t jt fuel vs h,
  wf_schema t = true -> jt_ok t jt = true ->
  Forall2 (sent t jt fuel) vs h ->
  Forall2 (is_reading_of jt) vs (readings t jt fuel h).
Proof. exact readings_are_of_their_replies. Qed.
Print Assumptions C01_readings_are_of_their_replies.

(* The generated UnmarshalBinary does not reset its receiver ([merge_into]: repeated sub-parameters are appended,
   absent optionals and empty strings/arrays keep the old content; tied to Go on every run, oracle `merge` vs worker
   `dinto`).  Decoding "yields a value equal to the original" is therefore a statement about a FRESH receiver:
   into the zero value, merge_into is the identity on well-formed values (every table, any depth) ... *)
Theorem C01_decode_into_fresh_receiver : forall t, wf_schema t = true ->
  forall k fuel msg tid fs ss,
    wfv t (VStruct msg tid fs ss) -> (depth (VStruct msg tid fs ss) <= S k)%nat ->
    merge_into t fuel (zero_of t k msg tid) (VStruct msg tid fs ss) = VStruct msg tid fs ss.
Proof. exact merge_into_zero. Qed.
Print Assumptions C01_decode_into_fresh_receiver.

(* ... and with a receiver that is kept between reads the clause is false of the faithful model: the same
   GetReaderConfigResponse (one AntennaProperties) read twice — fresh receivers give its JSON form twice, one kept
   receiver gives it the first time and something else (two AntennaProperties) the second time.  "The receiver of
   every decode is allocated for it" is an obligation on the callers: checked structurally (decode-site scan) and
   dynamically (driver-level readings) on every run. *)
Theorem C01_reused_receiver_refuted :
  exists v bs, wfv llrp_table v /\ text_ok llrp_jtable v = true /\ encode llrp_table v = Some bs /\
    readings llrp_table llrp_jtable 2 [(12, bs); (12, bs)] = [to_json llrp_jtable v; to_json llrp_jtable v] /\
    exists j1 j2, readings_reused llrp_table llrp_jtable 2 12 (zero_of llrp_table 2 true 12) [bs; bs] = [Some j1; Some j2] /\
                  to_json llrp_jtable v = Some j1 /\ j2 <> j1.
Proof. exact reused_receiver_refuted. Qed.
Print Assumptions C01_reused_receiver_refuted.

(* non-vacuity: the hypotheses of C01_readings_are_of_their_replies hold for a history of two different messages *)
Example C01_readings_example :
  exists h, Forall2 (sent llrp_table llrp_jtable 3) [config_reply; example_report] h /\ length h = 2%nat.
Proof.
  destruct (encode llrp_table config_reply) as [b1|] eqn:E1; [|vm_compute in E1; discriminate].
  destruct (encode llrp_table example_report) as [b2|] eqn:E2; [|vm_compute in E2; discriminate].
  exists [(12, b1); (61, b2)]. split; [|reflexivity].
  constructor; [|constructor; [|constructor]].
  - eexists; eexists. split; [reflexivity|]. split; [exact (proj1 config_reply_wf)|]. split; [exact (proj1 (proj2 config_reply_wf))|].
    split; [rewrite (proj2 (proj2 config_reply_wf)); lia|exact E1].
  - eexists; eexists. split; [reflexivity|]. split; [exact (proj1 C01_example_wf)|]. split; [exact (proj1 C01_json_example)|].
    split; [rewrite (proj2 C01_example_wf); lia|exact E2].
Qed.

(* ================= exchanges that take more than one request =================
   The service may ask again after a failure (TrySend).  The reading must be the reply that DECIDED the exchange: for EVERY
   exchange — any number of earlier answers of any content — ending with the encoding of a well-formed message, decoding each
   attempt into a value of its own gives the JSON form of that last message.  Tied at driver level on every run: scripted
   exchanges whose first answer is a reply with each non-Success status (with description, FieldError, ParameterError and
   sub-parameters), an ERROR_MESSAGE, a dropped connection or a truncated reply, followed by a success; a reading that is
   returned is compared with the reply to the LAST request the service made. *)
Theorem C01_exchange_reading_is_of_deciding_reply : forall t jt fuel tid earlier v bs,
  wf_schema t = true -> jt_ok t jt = true -> sent t jt fuel v (tid, bs) ->
  is_reading_of jt v (last_reading t jt fuel tid (earlier ++ [bs])).
Proof. exact exchange_reading_is_of_deciding_reply. Qed.
Print Assumptions C01_exchange_reading_is_of_deciding_reply.

(* ... and handing the SAME reply value to the second attempt after a failure reply was decoded into it is false of the
   faithful model: GetReaderConfigResponse with status 401, a description, a FieldError and one AntennaProperties, then a
   successful reply — the reading keeps the description, the FieldError and the first answer's AntennaProperties.  "A value
   is decoded into at most once per allocation" is the obligation; the decode-site scan marks parameters decoded into inside
   a loop / retry closure (`repeated`) and the scripted exchanges above exercise them. *)
Theorem C01_retry_into_same_reply_refuted :
  exists f s bf bs, wfv llrp_table f /\ wfv llrp_table s /\ encode llrp_table f = Some bf /\ encode llrp_table s = Some bs /\
    last_reading llrp_table llrp_jtable 3 12 [bf; bs] = to_json llrp_jtable s /\
    exists j, last (readings_reused llrp_table llrp_jtable 3 12 (zero_of llrp_table 3 true 12) [bf; bs]) None = Some j /\
              Some j <> to_json llrp_jtable s.
Proof. exact retry_into_same_reply_refuted. Qed.
Print Assumptions C01_retry_into_same_reply_refuted.
