(* C01 — Binary codec round-trips every message and parameter type.
   Only property statements; each closed by [exact] of a lemma proved elsewhere.
   The model: Codec/Schema.v (layout tables, value trees), Codec/Encode.v (generated encoder's
   arithmetic), Codec/Decode.v (schema-ordered reference decoder), Codec/Wf.v (domain),
   Codec/SchemaTable.v (the pinned table of the 169 LLRP types, generated from spec/llrp_layout.json).
   The JSON clause of C01 is NOT modelled (encoding/json is library code): it is checked by the
   correspondence run only (Go json round trip of every generated value) — see DESIGN.md. *)
From Coq Require Import NArith List.
From LLRP Require Import Codec.Schema Codec.Encode Codec.Decode Codec.Wf Codec.SchemaTable Codec.RoundTrip Codec.WfBool.
Import ListNotations.
Open Scope N_scope.

(* the pinned table of all 169 message/parameter types is well-formed *)
Theorem C01_pinned_table_wf : wf_schema llrp_table = true /\ length llrp_table = 169%nat.
Proof. split; vm_compute; reflexivity. Qed.
Print Assumptions C01_pinned_table_wf.

(* for EVERY well-formed table: every well-formed value encodes *)
Theorem C01_encode_total : forall t v,
  wf_schema t = true -> wfv t v -> exists bs, encode t v = Some bs.
Proof. exact encode_total. Qed.
Print Assumptions C01_encode_total.

(* ... decoding those bytes yields a value equal to the original (any nesting depth, any
   combination of optional / repeated / mutually exclusive sub-parameters, every field value
   that fits its width) *)
Theorem C01_decode_encode : forall t msg tid fs ss bs fuel,
  wf_schema t = true -> wfv t (VStruct msg tid fs ss) ->
  (depth (VStruct msg tid fs ss) <= fuel)%nat ->
  encode t (VStruct msg tid fs ss) = Some bs ->
  decode t fuel msg tid bs = Some (VStruct msg tid fs ss).
Proof. exact decode_encode. Qed.
Print Assumptions C01_decode_encode.

(* ... and re-encoding the decoded value reproduces the same bytes *)
Theorem C01_reencode_same_bytes : forall t msg tid fs ss bs fuel v',
  wf_schema t = true -> wfv t (VStruct msg tid fs ss) ->
  (depth (VStruct msg tid fs ss) <= fuel)%nat ->
  encode t (VStruct msg tid fs ss) = Some bs ->
  decode t fuel msg tid bs = Some v' -> encode t v' = Some bs.
Proof. exact reencode_same_bytes. Qed.
Print Assumptions C01_reencode_same_bytes.

(* the executable domain check used on every compared case is sound for the domain *)
Theorem C01_domain_check_sound : forall t v, wfvb t v = true -> wfv t v.
Proof. exact wfvb_sound. Qed.
Print Assumptions C01_domain_check_sound.

(* instantiated at the LLRP table *)
Theorem C01_llrp_roundtrip : forall msg tid fs ss bs fuel,
  wfv llrp_table (VStruct msg tid fs ss) ->
  (depth (VStruct msg tid fs ss) <= fuel)%nat ->
  encode llrp_table (VStruct msg tid fs ss) = Some bs ->
  decode llrp_table fuel msg tid bs = Some (VStruct msg tid fs ss).
Proof. intros. apply decode_encode; try assumption. vm_compute. reflexivity. Qed.
Print Assumptions C01_llrp_roundtrip.

(* non-vacuity: an ROAccessReport with a TagReportData carrying an EPC96, several optional TV
   parameters, a packed C1G2PC, an op-spec result with a counted array and a Custom parameter,
   plus a second report with a 17-bit EPCData — is well-formed, three levels deep *)
Definition example_report : value :=
  VStruct true 61 []
    [VList
       [VStruct false 240 []
          [VStruct false 241 [VBitArr 0 []] [];
           VStruct false 13 [VBytes [1;2;3;4;5;6;7;8;9;10;11;255]] [];
           VOpt (Some (VStruct false 9 [VNum 4294967295] []));
           VOpt None;
           VOpt None;
           VOpt (Some (VStruct false 1 [VNum 513] []));
           VOpt (Some (VStruct false 6 [VNum 200] []));
           VOpt None; VOpt (Some (VStruct false 2 [VNum 18446744073709551615] []));
           VOpt None; VOpt None; VOpt None;
           VOpt (Some (VStruct false 8 [VNum 7] []));
           VOpt (Some (VStruct false 12 [VNum 31; VNum 1; VNum 0; VNum 1; VNum 170] []));
           VOpt None; VOpt None; VOpt None; VOpt None;
           VOpt (Some (VStruct false 349 [VNum 0; VNum 9; VNums [1; 65535; 256]] []));
           VOpt None; VOpt None; VOpt None; VOpt None; VOpt None; VOpt None; VOpt None; VOpt None;
           VOpt None;
           VList [VStruct false 1023 [VNum 25882; VNum 3; VBytes [222; 173]] []]];
        VStruct false 240 []
          [VStruct false 241 [VBitArr 17 [255; 0; 128]] [];
           VStruct false 13 [VBytes []] [];
           VOpt None; VOpt None; VOpt None; VOpt None; VOpt None; VOpt None; VOpt None; VOpt None;
           VOpt None; VOpt None; VOpt None; VOpt None; VOpt None; VOpt None; VOpt None; VOpt None;
           VOpt None; VOpt None; VOpt None; VOpt None; VOpt None; VOpt None; VOpt None; VOpt None;
           VOpt None; VOpt None; VList []]];
     VList []; VList []].

Example C01_example_wf : wfv llrp_table example_report /\ depth example_report = 3%nat.
Proof.
  split; [|reflexivity].
  apply wfvb_sound. vm_compute. reflexivity.
Qed.

Example C01_example_bytes :
  option_map (@length N) (encode llrp_table example_report) = Some 84%nat.
Proof. vm_compute. reflexivity. Qed.
