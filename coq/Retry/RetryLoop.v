(* Model of internal/retry/retry.go: FError (newFError, addErr, Is/Unwrap, lines 115-238)
   and ExpBackOff.RetryWithCtx (lines 304-379).  Executable definitions only; proofs are
   in RetryLoopProofs.v.

   The operation f, the context and the timer are the environment.  A history is
     - [pre]   : whether ctx.Err() is already non-nil when RetryWithCtx is entered,
     - [first] : the outcome of the first call of f,
     - [steps] : one event per loop iteration that gets past the loop condition.
   The function is structurally recursive on [steps]; when the loop would go on but the
   history has no further event the distinct result [RetMore] is returned (it is never a
   normal-looking answer; theorems say when it can and cannot occur). *)
From Coq Require Import ZArith List Bool Arith.
From LLRP Require Import Retry.NextWait.
Import ListNotations.
Open Scope Z_scope.

Inductive ctx_err := Canceled | DeadlineExceeded.

(* error values by identity: errors returned by f (any number of distinct ones), the two
   sentinels the package exports, ctx.Err() values, and one error nobody returned *)
Inductive err :=
| EUser (id : nat)
| ERetriesExceeded
| EWaitExceedsDeadline
| ECtx (c : ctx_err)
| EUnrelated.

Definition ctx_err_eqb (a b : ctx_err) : bool :=
  match a, b with Canceled, Canceled | DeadlineExceeded, DeadlineExceeded => true | _, _ => false end.

(* errors.Is between plain (errors.New) values is identity *)
Definition err_eqb (a b : err) : bool :=
  match a, b with
  | EUser i, EUser j => Nat.eqb i j
  | ERetriesExceeded, ERetriesExceeded => true
  | EWaitExceedsDeadline, EWaitExceedsDeadline => true
  | ECtx c, ECtx d => ctx_err_eqb c d
  | EUnrelated, EUnrelated => true
  | _, _ => false
  end.

(* what one call of f returns: (_, nil) | (true, err) | (false, err) *)
Inductive outcome := Ok | Rec (e : nat) | Fatal (e : nat).

(* one loop iteration that got past "retries == Forever || attempt < retries" *)
Inductive step :=
| StExceeds                       (* hasDeadline && now+wait is after the deadline *)
| StCtx (c : ctx_err)             (* select takes <-ctx.Done(): ctx ended before or during the wait, timer not due *)
| StRun (o : outcome)             (* select takes <-delay.C with ctx still alive; f runs with outcome o *)
| StRunCtxEnded (c : ctx_err) (o : outcome).
                                  (* ctx had ALREADY ended (ctx.Err() = c) and the timer was due as well when the
                                     select was evaluated; Go's select picks among ready cases at random and here it
                                     picked <-delay.C, so f runs.  (When it picks ctx.Done the event is StCtx.) *)

(* type FError struct { MainErr error; Others []error; Attempts int; max, last int } *)
Record ferror := mkFE { main : err; others : list err; attempts : Z; fmax : Z; flast : nat }.

Definition new_ferror (e : err) (keep : Z) : ferror :=
  mkFE ERetriesExceeded [e] 0 keep 0.

Definition set_main (fe : ferror) (m : err) : ferror :=
  mkFE m (others fe) (attempts fe) (fmax fe) (flast fe).

Fixpoint set_nth (i : nat) (x : err) (l : list err) : list err :=
  match l, i with
  | [], _ => []
  | _ :: t, O => x :: t
  | h :: t, S j => h :: set_nth j x t
  end.

(* func (e *FError) addErr(newErr error)
     if e.Attempts+1 > 0 { e.Attempts++ }       -- the +1 wraps at 2^63-1
     if e.max == 0 { return }
     if len(e.Others) < e.max { e.Others = append(e.Others, newErr); return }
     e.Others[e.last] = newErr
     e.last++
     if e.last >= len(e.Others) { e.last = 0 } *)
Definition add_err (fe : ferror) (e : err) : ferror :=
  let a1 := if attempts fe + 1 <? two63 then attempts fe + 1 else attempts fe + 1 - 2 * two63 in
  let att := if 0 <? a1 then a1 else attempts fe in
  if fmax fe =? 0 then mkFE (main fe) (others fe) att (fmax fe) (flast fe)
  else if Z.of_nat (length (others fe)) <? fmax fe
  then mkFE (main fe) (others fe ++ [e]) att (fmax fe) (flast fe)
  else
    let l := set_nth (flast fe) e (others fe) in
    let nl := S (flast fe) in
    mkFE (main fe) l att (fmax fe) (if length l <=? nl then O else nl)%nat.

(* errors.Is(fe, target) for a target that is not an *FError:
     fe == target is false; fe.Is(target) = errors.Is(MainErr, target) || all Others match;
     then Unwrap() = MainErr is compared again.  NB: with no Others the loop over them is
     empty and Is answers true for every target. *)
Definition ferr_is (fe : ferror) (target : err) : bool :=
  err_eqb (main fe) target || forallb (fun e => err_eqb e target) (others fe).

Inductive ret :=
| RetNil                 (* RetryWithCtx returned nil *)
| RetErr (fe : ferror)   (* RetryWithCtx returned this *FError *)
| RetMore (fe : ferror). (* the loop would wait and run again, the history has no further event *)

Record result := mkRes { ran : list outcome; res : ret }.

(* for attempt := 1; retries == Forever || attempt < retries; attempt++ { ... }
   [attempt] always equals the number of calls of f made so far = length ran *)
Fixpoint loop (retries : Z) (re : ferror) (ran : list outcome) (steps : list step) : result :=
  if (retries =? -1) || (Z.of_nat (length ran) <? retries) then
    match steps with
    | [] => mkRes ran (RetMore re)
    | StExceeds :: _ => mkRes ran (RetErr (set_main re EWaitExceedsDeadline))
    | StCtx c :: _ => mkRes ran (RetErr (set_main re (ECtx c)))
    | StRun o :: rest | StRunCtxEnded _ o :: rest =>
      match o with
      | Ok => mkRes (ran ++ [o]) RetNil
      | Fatal e => mkRes (ran ++ [o]) (RetErr (set_main re (EUser e)))
      | Rec e => loop retries (add_err re (EUser e)) (ran ++ [o]) rest
      end
    end
  else mkRes ran (RetErr (set_main re ERetriesExceeded)).

(* func (ebo ExpBackOff) RetryWithCtx(ctx, retries, f) error *)
Definition retry_run (retries keep : Z) (pre : option ctx_err) (first : outcome)
                     (steps : list step) : result :=
  match pre with
  | Some c => mkRes [] (RetErr (mkFE (ECtx c) [] 0 0 0))
  | None =>
    match first with
    | Ok => mkRes [first] RetNil
    | Fatal e => mkRes [first] (RetErr (set_main (new_ferror (EUser e) keep) ERetriesExceeded))
    | Rec e => loop retries (new_ferror (EUser e) keep) [first] steps
    end
  end.

(* ---- projections used by the oracle and in statements ---- *)
Definition is_rec (o : outcome) : bool := match o with Rec _ => true | _ => false end.
Definition runs (r : result) : nat := length (ran r).
Definition err_of (o : outcome) : list err :=
  match o with Ok => [] | Rec e | Fatal e => [EUser e] end.
Definition errs_seen (l : list outcome) : list err := flat_map err_of l.

(* Others in the order FError.Error() lists them is not part of the property; the
   oracle prints the multiset (sorted by the driver). *)

(* ---- the configuration layer: where the events of the deadline pre-check come from ----
   RetryWithCtx receives the CONFIGURED ExpBackOff; it normalises BackOff/Max (NextWait.norm_base,
   norm_max, inside [pause]) and asks nextWait(attempt) for the pause of every iteration:
       wait := ebo.nextWait(attempt)
       if hasDeadline && time.Now().Add(wait).After(deadline) { ... ErrWaitExceedsDeadline }
   A timed history gives, per iteration, the jitter draw, the time left until the context's
   deadline when the pre-check is made (None: the context has no deadline) and what happens if
   the pre-check lets the wait start. *)
Record config := mkCfg { c_backoff : Z; c_max : Z; c_jitter : bool }.

Inductive wait_ev :=
| WCtx (c : ctx_err)
| WRun (o : outcome)
| WRunCtxEnded (c : ctx_err) (o : outcome).

Definition ev_step (e : wait_ev) : step :=
  match e with WCtx c => StCtx c | WRun o => StRun o | WRunCtxEnded c o => StRunCtxEnded c o end.

Record tstep := mkT { t_draw : Z; t_remaining : option Z; t_ev : wait_ev }.

(* the pause requested at iteration [n] (attempt = n) from the configured values *)
Definition pause_of (cfg : config) (n r : Z) : Z :=
  pause (c_jitter cfg) (c_backoff cfg) (c_max cfg) n r.

(* time.Now().Add(wait).After(deadline)  <=>  wait > deadline - now *)
Definition exceeds (remaining : option Z) (w : Z) : bool :=
  match remaining with Some d => d <? w | None => false end.

Fixpoint to_steps (cfg : config) (n : Z) (ts : list tstep) : list step :=
  match ts with
  | [] => []
  | t :: rest =>
    (if exceeds (t_remaining t) (pause_of cfg n (t_draw t)) then StExceeds else ev_step (t_ev t))
      :: to_steps cfg (n + 1) rest
  end.

(* the pauses the loop asks for, iteration by iteration *)
Fixpoint pauses (cfg : config) (n : Z) (ts : list tstep) : list Z :=
  match ts with
  | [] => []
  | t :: rest => pause_of cfg n (t_draw t) :: pauses cfg (n + 1) rest
  end.

Definition retry_run_cfg (cfg : config) (retries keep : Z) (pre : option ctx_err) (first : outcome)
                         (ts : list tstep) : result :=
  retry_run retries keep pre first (to_steps cfg 1 ts).

(* an idealised clock for the correspondence runs: the deadline is [deadline] ns after the call
   starts, f and the bookkeeping take no time, every wait lasts exactly the pause asked for *)
Fixpoint sched (cfg : config) (deadline : option Z) (n elapsed : Z) (evs : list (Z * wait_ev))
  : list tstep :=
  match evs with
  | [] => []
  | (r, e) :: rest =>
    mkT r (match deadline with Some d => Some (d - elapsed) | None => None end) e
      :: sched cfg deadline (n + 1) (elapsed + pause_of cfg n r) rest
  end.
