(* Proofs about the model of nextWait (NextWait.v). *)
From Coq Require Import ZArith Bool Lia.
From LLRP Require Import Retry.NextWait.
Open Scope Z_scope.

Definition in_int64 (x : Z) : Prop := - two63 <= x <= max_int64.

Lemma two63_val : two63 = 2 ^ 63. Proof. reflexivity. Qed.
Lemma two64_val : two64 = 2 ^ 64. Proof. reflexivity. Qed.

Lemma in_int64b_true : forall x, in_int64 x -> in_int64b x = true.
Proof. unfold in_int64, in_int64b. intros. apply andb_true_iff. split; apply Z.leb_le; lia. Qed.

Lemma wrap64_small : forall x, in_int64 x -> wrap64 x = x.
Proof.
  unfold in_int64, wrap64, max_int64, two63, two64. intros x H.
  rewrite Z.mod_small by lia. lia.
Qed.

Lemma chk_small : forall x, in_int64 x -> chk x = Some x.
Proof. intros. unfold chk. rewrite in_int64b_true by assumption. reflexivity. Qed.

Lemma pow2_bounds : forall k, 0 <= k <= 62 -> 1 <= 2 ^ k <= 2 ^ 62.
Proof.
  intros k H. split.
  - assert (0 < 2 ^ k) by (apply Z.pow_pos_nonneg; lia). lia.
  - apply Z.pow_le_mono_r; lia.
Qed.

Lemma pow2_62 : 2 ^ 62 = 4611686018427387904. Proof. reflexivity. Qed.

Lemma shl1_small : forall k, 0 <= k <= 62 -> shl1 k = 2 ^ k.
Proof.
  intros k H. unfold shl1. apply wrap64_small.
  pose proof (pow2_bounds k H) as B. rewrite pow2_62 in B.
  unfold in_int64, max_int64, two63. lia.
Qed.

(* truncating division against a product, on non-negative operands *)
Lemma quot_lt_iff : forall a b c, 0 <= a -> 0 < b -> (Z.quot a b <? c) = (a <? c * b).
Proof.
  intros a b c Ha Hb. rewrite Z.quot_div_nonneg by lia.
  pose proof (Z.div_mod a b ltac:(lia)) as E.
  pose proof (Z.mod_pos_bound a b Hb) as R.
  remember (a / b) as q. remember (a mod b) as m.
  destruct (Z.ltb_spec q c); destruct (Z.ltb_spec a (c * b)); try reflexivity; nia.
Qed.

Lemma quot_le_iff : forall a b c, 0 <= a -> 0 < b -> (c <=? Z.quot a b) = (c * b <=? a).
Proof.
  intros a b c Ha Hb.
  pose proof (quot_lt_iff a b c Ha Hb) as H.
  rewrite !Z.ltb_antisym in H.
  apply (f_equal negb) in H. rewrite !negb_involutive in H. exact H.
Qed.

(* ------------------------------------------------------------------------- *)
(* no-jitter: exact formula *)
Lemma next_wait_nojitter_formula : forall base max n r,
  1 <= base <= max_int64 -> 0 <= max <= max_int64 ->
  next_wait false base max n r =
    if n <=? 0 then 0 else if 63 <=? n then max else Z.min max (base * 2 ^ (n - 1)).
Proof.
  intros base max n r Hb Hm. unfold next_wait.
  destruct (Z.leb_spec n 0) as [Hn|Hn]; [reflexivity|]. cbn [orb].
  destruct (Z.eqb_spec max 0) as [Hz|Hz].
  - subst max. destruct (63 <=? n); [reflexivity|].
    assert (0 < 2 ^ (n - 1)) by (apply Z.pow_pos_nonneg; lia). nia.
  - replace (base =? 0) with false by (symmetry; apply Z.eqb_neq; lia). cbn [orb].
    destruct (Z.leb_spec 63 n) as [Hn2|Hn2]; [reflexivity|].
    rewrite shl1_small by lia.
    pose proof (pow2_bounds (n - 1) ltac:(lia)) as P.
    rewrite quot_le_iff by lia.
    destruct (Z.leb_spec (base * 2 ^ (n - 1)) max) as [L|L].
    + rewrite wrap64_small; [lia|]. unfold in_int64, max_int64, two63 in *. nia.
    + lia.
Qed.

(* jitter: the result is min(max, base * draw) *)
Lemma next_wait_jitter_formula : forall base max n r,
  1 <= base <= max_int64 -> 0 <= max <= max_int64 -> 0 <= r ->
  next_wait true base max n r =
    if n <=? 0 then 0 else if 63 <=? n then max else Z.min max (base * r).
Proof.
  intros base max n r Hb Hm Hr. unfold next_wait.
  destruct (Z.leb_spec n 0) as [Hn|Hn]; [reflexivity|]. cbn [orb].
  destruct (Z.eqb_spec max 0) as [Hz|Hz].
  - subst max. destruct (63 <=? n); [reflexivity|]. nia.
  - replace (base =? 0) with false by (symmetry; apply Z.eqb_neq; lia). cbn [orb].
    destruct (Z.leb_spec 63 n) as [Hn2|Hn2]; [reflexivity|].
    destruct (Z.ltb_spec 0 r) as [Hp|Hp]; cbn [andb].
    + rewrite quot_lt_iff by lia.
      destruct (Z.ltb_spec max (base * r)) as [L|L]; [lia|].
      rewrite wrap64_small; [lia|]. unfold in_int64, max_int64, two63 in *. nia.
    + assert (r = 0) by lia. subst r. rewrite Z.mul_0_r.
      rewrite wrap64_small; [lia|]. unfold in_int64, max_int64, two63. lia.
Qed.

Lemma next_wait_jitter_range : forall base max n r,
  1 <= base <= max_int64 -> 0 <= max <= max_int64 -> 1 <= n -> 0 <= r < 2 ^ n ->
  0 <= next_wait true base max n r <= Z.min max (base * (2 ^ n - 1)).
Proof.
  intros base max n r Hb Hm Hn Hr.
  rewrite next_wait_jitter_formula by lia.
  replace (n <=? 0) with false by (symmetry; apply Z.leb_gt; lia).
  destruct (Z.leb_spec 63 n) as [Hn2|Hn2].
  - assert (2 ^ 63 <= 2 ^ n) by (apply Z.pow_le_mono_r; lia).
    unfold max_int64, two63 in *. nia.
  - nia.
Qed.

(* bounds, whatever the jitter flag and whatever (non-negative) draw *)
Lemma next_wait_bounds : forall jitter base max n r,
  1 <= base <= max_int64 -> 0 <= max <= max_int64 -> 0 <= r ->
  0 <= next_wait jitter base max n r <= max.
Proof.
  intros [|] base max n r Hb Hm Hr.
  - rewrite next_wait_jitter_formula by lia.
    destruct (n <=? 0); [lia|]. destruct (63 <=? n); [lia|]. nia.
  - rewrite next_wait_nojitter_formula by lia.
    destruct (Z.leb_spec n 0); [lia|]. destruct (Z.leb_spec 63 n); [lia|].
    assert (0 < 2 ^ (n - 1)) by (apply Z.pow_pos_nonneg; lia). nia.
Qed.

(* the raw function with BackOff = 0 (unreachable through RetryWithCtx, which turns a
   BackOff <= 0 into 1): it returns Max for every n >= 1 *)
Lemma next_wait_base0 : forall jitter max n r,
  next_wait jitter 0 max n r = if n <=? 0 then 0 else max.
Proof.
  intros. unfold next_wait. destruct (n <=? 0); [reflexivity|]. cbn [orb].
  destruct (Z.eqb_spec max 0); [congruence|]. reflexivity.
Qed.

(* no shift or product computed on the branch taken leaves int64; no divisor is 0; the
   argument of rand.Int63n is positive *)
Lemma next_wait_no_overflow : forall jitter base max n r,
  1 <= base <= max_int64 -> 0 <= max <= max_int64 ->
  (jitter = true -> 1 <= n <= 62 -> 0 <= r < 2 ^ n) ->
  next_wait_chk jitter base max n r = Some (next_wait jitter base max n r).
Proof.
  intros jitter base max n r Hb Hm Hr. unfold next_wait_chk, next_wait.
  destruct (Z.leb_spec n 0) as [Hn|Hn]; [reflexivity|]. cbn [orb].
  destruct (Z.eqb_spec max 0) as [Hz|Hz]; [reflexivity|].
  replace (base =? 0) with false by (symmetry; apply Z.eqb_neq; lia). cbn [orb].
  destruct (Z.leb_spec 63 n) as [Hn2|Hn2]; [reflexivity|].
  destruct jitter.
  - specialize (Hr eq_refl ltac:(lia)).
    pose proof (pow2_bounds n ltac:(lia)) as P. rewrite pow2_62 in P.
    rewrite chk_small by (unfold in_int64, max_int64, two63; lia).
    replace (2 ^ n <=? 0) with false by (symmetry; apply Z.leb_gt; lia).
    replace (0 <=? r) with true by (symmetry; apply Z.leb_le; lia).
    replace (r <? 2 ^ n) with true by (symmetry; apply Z.ltb_lt; lia).
    cbn [andb negb].
    destruct (Z.ltb_spec 0 r) as [Hp|Hp]; cbn [andb].
    + rewrite quot_lt_iff by lia.
      destruct (Z.ltb_spec max (base * r)) as [L|L]; [reflexivity|].
      assert (I : in_int64 (base * r)) by (unfold in_int64, max_int64, two63 in *; nia).
      rewrite chk_small, wrap64_small by assumption. reflexivity.
    + assert (r = 0) by lia. subst r. rewrite Z.mul_0_r.
      assert (I : in_int64 0) by (unfold in_int64, max_int64, two63; lia).
      rewrite chk_small, wrap64_small by assumption. reflexivity.
  - pose proof (pow2_bounds (n - 1) ltac:(lia)) as P. rewrite pow2_62 in P.
    rewrite chk_small by (unfold in_int64, max_int64, two63; lia).
    rewrite shl1_small by lia.
    replace (2 ^ (n - 1) =? 0) with false by (symmetry; apply Z.eqb_neq; lia).
    rewrite quot_le_iff by lia.
    destruct (Z.leb_spec (base * 2 ^ (n - 1)) max) as [L|L]; [|reflexivity].
    assert (I : in_int64 (base * 2 ^ (n - 1))) by (unfold in_int64, max_int64, two63 in *; nia).
    rewrite chk_small, wrap64_small by assumption. reflexivity.
Qed.

(* ------------------------------------------------------------------------- *)
(* through the normalisation of RetryWithCtx: for EVERY configured int64 BackOff/Max *)
Lemma norm_base_range : forall base, in_int64 base -> 1 <= norm_base base <= max_int64.
Proof.
  unfold in_int64, norm_base, max_int64, two63. intros.
  destruct (Z.leb_spec base 0); lia.
Qed.

Lemma norm_max_range : forall max, in_int64 max -> 1 <= norm_max max <= max_int64.
Proof.
  unfold in_int64, norm_max, max_int64, two63. intros.
  destruct (Z.leb_spec max 0); lia.
Qed.

Lemma pause_bounds : forall jitter base max n r,
  in_int64 base -> in_int64 max -> 0 <= r ->
  0 <= pause jitter base max n r <= norm_max max.
Proof.
  intros. unfold pause. pose proof (norm_base_range base H). pose proof (norm_max_range max H0).
  apply next_wait_bounds; lia.
Qed.

Lemma pause_le_configured_max : forall jitter base max n r,
  in_int64 base -> in_int64 max -> 0 < max -> 0 <= r ->
  0 <= pause jitter base max n r <= max.
Proof.
  intros. pose proof (pause_bounds jitter base max n r H H0 H2) as P.
  unfold norm_max in P. replace (max <=? 0) with false in P by (symmetry; apply Z.leb_gt; lia).
  exact P.
Qed.

Lemma pause_nojitter : forall base max n r,
  in_int64 base -> in_int64 max ->
  pause false base max n r =
    if n <=? 0 then 0 else if 63 <=? n then norm_max max
    else Z.min (norm_max max) (norm_base base * 2 ^ (n - 1)).
Proof.
  intros. unfold pause. pose proof (norm_base_range base H). pose proof (norm_max_range max H0).
  apply next_wait_nojitter_formula; lia.
Qed.

Lemma pause_jitter : forall base max n r,
  in_int64 base -> in_int64 max -> 1 <= n -> 0 <= r < 2 ^ n ->
  0 <= pause true base max n r <= Z.min (norm_max max) (norm_base base * (2 ^ n - 1)).
Proof.
  intros. unfold pause. pose proof (norm_base_range base H). pose proof (norm_max_range max H0).
  apply next_wait_jitter_range; lia.
Qed.

Lemma pause_no_overflow : forall jitter base max n r,
  in_int64 base -> in_int64 max ->
  (jitter = true -> 1 <= n <= 62 -> 0 <= r < 2 ^ n) ->
  next_wait_chk jitter (norm_base base) (norm_max max) n r = Some (pause jitter base max n r).
Proof.
  intros. unfold pause. pose proof (norm_base_range base H). pose proof (norm_max_range max H0).
  apply next_wait_no_overflow; try lia. assumption.
Qed.
