(* Model of internal/retry/retry.go: ExpBackOff.nextWait (lines 390-418) and the
   normalisation RetryWithCtx applies to BackOff/Max before it calls nextWait
   (lines 324-330).  Executable definitions only; proofs are in NextWaitProofs.v.

   Integers are Z; Go's int64 (time.Duration) wrap-around is written on every
   shift and multiplication the Go code performs.  Go's "/" on int64 truncates
   towards zero = Z.quot.  The jitter draw rand.Int63n(1 << attempts) is the
   argument [r]. *)
From Coq Require Import ZArith Bool.
Open Scope Z_scope.

Definition two63 : Z := 9223372036854775808.
Definition two64 : Z := 18446744073709551616.
Definition max_int64 : Z := two63 - 1.

Definition in_int64b (x : Z) : bool := (- two63 <=? x) && (x <=? max_int64).

(* two's complement wrap of a mathematical result into int64 *)
Definition wrap64 (x : Z) : Z := (x + two63) mod two64 - two63.

(* 1 << k for an int64 operand and a non-negative count (Go: bits shifted out are lost) *)
Definition shl1 (k : Z) : Z := wrap64 (2 ^ k).

(* func (ebo ExpBackOff) nextWait(attempts int) time.Duration
     if attempts <= 0 || ebo.Max == 0 { return 0 }
     if ebo.BackOff == 0 || attempts >= 63 { return ebo.Max }
     if ebo.Jitter {
         s := time.Duration(rand.Int63n(1 << attempts))
         if s > 0 && ebo.BackOff > ebo.Max/s { wait = ebo.Max } else { wait = ebo.BackOff * s }
     } else if ebo.BackOff <= ebo.Max/(1<<(attempts-1)) {
         wait = ebo.BackOff * (1 << (attempts - 1))
     } else { wait = ebo.Max }
   [r] is the value rand.Int63n returned (used on the jitter branch only). *)
Definition next_wait (jitter : bool) (base max n r : Z) : Z :=
  if (n <=? 0) || (max =? 0) then 0
  else if (base =? 0) || (63 <=? n) then max
  else if jitter then
    let s := r in
    if (0 <? s) && (Z.quot max s <? base) then max else wrap64 (base * s)
  else
    let m := shl1 (n - 1) in
    if base <=? Z.quot max m then wrap64 (base * m) else max.

(* The same function with every intermediate checked: None as soon as a shift or a
   product computed on the branch taken leaves int64, a divisor is 0, the argument of
   rand.Int63n is not positive (Int63n panics) or the draw is outside [0, argument).
   NextWaitProofs.next_wait_no_overflow shows it is [Some (next_wait ...)] on the
   whole domain RetryWithCtx can reach. *)
Definition chk (x : Z) : option Z := if in_int64b x then Some x else None.

Definition next_wait_chk (jitter : bool) (base max n r : Z) : option Z :=
  if (n <=? 0) || (max =? 0) then Some 0
  else if (base =? 0) || (63 <=? n) then Some max
  else if jitter then
    match chk (2 ^ n) with
    | None => None
    | Some lim =>
      if lim <=? 0 then None
      else if negb ((0 <=? r) && (r <? lim)) then None
      else if (0 <? r) && (Z.quot max r <? base) then Some max else chk (base * r)
    end
  else
    match chk (2 ^ (n - 1)) with
    | None => None
    | Some m =>
      if m =? 0 then None
      else if base <=? Z.quot max m then chk (base * m) else Some max
    end.

(* RetryWithCtx:  if ebo.Max <= 0 { ebo.Max = math.MaxInt64 }
                  if ebo.BackOff <= 0 { ebo.BackOff = 1 } *)
Definition norm_max (max : Z) : Z := if max <=? 0 then max_int64 else max.
Definition norm_base (base : Z) : Z := if base <=? 0 then 1 else base.

(* the pause RetryWithCtx requests before the n-th re-run (wait := ebo.nextWait(attempt)) *)
Definition pause (jitter : bool) (base max n r : Z) : Z :=
  next_wait jitter (norm_base base) (norm_max max) n r.
