(* Proofs about the model of FError and RetryWithCtx (RetryLoop.v). *)
From Coq Require Import ZArith List Bool Arith Lia.
From LLRP Require Import Retry.NextWait Retry.NextWaitProofs Retry.RetryLoop.
Import ListNotations.
Open Scope Z_scope.

(* ------------------------------------------------------------------ errors *)
Lemma ctx_err_eqb_eq : forall a b, ctx_err_eqb a b = true <-> a = b.
Proof. destruct a, b; cbn; split; congruence. Qed.

Lemma err_eqb_eq : forall a b, err_eqb a b = true <-> a = b.
Proof.
  destruct a, b; cbn; split; try congruence.
  - intros H. apply Nat.eqb_eq in H. congruence.
  - intros H. injection H as ->. apply Nat.eqb_refl.
  - intros H. apply ctx_err_eqb_eq in H. congruence.
  - intros H. injection H as ->. apply ctx_err_eqb_eq. reflexivity.
Qed.

Lemma err_eqb_refl : forall a, err_eqb a a = true.
Proof. intros. apply err_eqb_eq. reflexivity. Qed.

Lemma ferr_is_main : forall fe, ferr_is fe (main fe) = true.
Proof. intros. unfold ferr_is. rewrite err_eqb_refl. reflexivity. Qed.

Lemma ferr_is_main_eq : forall fe m, main fe = m -> ferr_is fe m = true.
Proof. intros. subst. apply ferr_is_main. Qed.

(* errors.Is(fe, t) holds exactly if MainErr is t or every kept error is t *)
Lemma ferr_is_spec : forall fe t,
  ferr_is fe t = true <-> main fe = t \/ Forall (fun e => e = t) (others fe).
Proof.
  intros. unfold ferr_is. rewrite orb_true_iff, err_eqb_eq, forallb_forall, Forall_forall.
  split; (intros [H|H]; [left; exact H|right]); intros x Hx; apply err_eqb_eq; auto.
Qed.

(* the result for an already ended context has no Others: Is answers true for EVERY target *)
Lemma ferr_is_no_others : forall m t, ferr_is (mkFE m [] 0 0 0) t = true.
Proof. intros. unfold ferr_is. cbn. apply orb_true_r. Qed.

(* ------------------------------------------------------------------ ring buffer *)
Lemma set_nth_length : forall l i x, length (set_nth i x l) = length l.
Proof. induction l; destruct i; cbn; intros; auto. Qed.

Lemma set_nth_in : forall l i x y, In y (set_nth i x l) -> y = x \/ In y l.
Proof.
  induction l; destruct i; cbn; intros; auto.
  - destruct H; auto.
  - destruct H; auto. apply IHl in H. tauto.
Qed.

Definition ring_ok (keep : Z) (fe : ferror) : Prop :=
  (1 <= length (others fe))%nat /\ Z.of_nat (length (others fe)) <= Z.max 1 keep /\
  (flast fe < length (others fe))%nat /\ fmax fe = keep.

Lemma ring_ok_new : forall e keep, ring_ok keep (new_ferror e keep).
Proof. intros. unfold ring_ok, new_ferror. cbn. lia. Qed.

Lemma ring_ok_set_main : forall keep fe m, ring_ok keep fe -> ring_ok keep (set_main fe m).
Proof. intros. unfold ring_ok, set_main in *. cbn. exact H. Qed.

Lemma ring_ok_add : forall keep fe e, ring_ok keep fe -> ring_ok keep (add_err fe e).
Proof.
  intros keep fe e (H1 & H2 & H3 & H4). unfold add_err, ring_ok.
  destruct (Z.eqb_spec (fmax fe) 0); cbn [others flast fmax].
  - repeat split; auto.
  - destruct (Z.ltb_spec (Z.of_nat (length (others fe))) (fmax fe)); cbn [others flast fmax].
    + rewrite app_length. cbn [length]. repeat split; try lia.
    + rewrite set_nth_length.
      destruct (Nat.leb_spec (length (others fe)) (S (flast fe))); repeat split; try lia.
Qed.

Lemma others_add_incl : forall fe e y, In y (others (add_err fe e)) -> y = e \/ In y (others fe).
Proof.
  intros fe e y. unfold add_err.
  destruct (fmax fe =? 0); cbn [others]; [tauto|].
  destruct (Z.of_nat (length (others fe)) <? fmax fe); cbn [others].
  - rewrite in_app_iff. cbn. intros [H|[H|[]]]; auto.
  - apply set_nth_in.
Qed.

Lemma main_add : forall fe e, main (add_err fe e) = main fe.
Proof.
  intros. unfold add_err. destruct (fmax fe =? 0); [reflexivity|].
  destruct (Z.of_nat (length (others fe)) <? fmax fe); reflexivity.
Qed.

(* ------------------------------------------------------------------ the loop *)
Definition cond (retries : Z) (ran : list outcome) : bool :=
  (retries =? -1) || (Z.of_nat (length ran) <? retries).

Lemma loop_unfold : forall retries re ran steps,
  loop retries re ran steps =
  if cond retries ran then
    match steps with
    | [] => mkRes ran (RetMore re)
    | StExceeds :: _ => mkRes ran (RetErr (set_main re EWaitExceedsDeadline))
    | StCtx c :: _ => mkRes ran (RetErr (set_main re (ECtx c)))
    | StRun o :: rest | StRunCtxEnded _ o :: rest =>
      match o with
      | Ok => mkRes (ran ++ [o]) RetNil
      | Fatal e => mkRes (ran ++ [o]) (RetErr (set_main re (EUser e)))
      | Rec e => loop retries (add_err re (EUser e)) (ran ++ [o]) rest
      end
    end
  else mkRes ran (RetErr (set_main re ERetriesExceeded)).
Proof. intros. destruct steps; reflexivity. Qed.

Definition out_of (s : step) : list outcome :=
  match s with StRun o | StRunCtxEnded _ o => [o] | _ => [] end.

(* a step after which the loop goes on: f ran and failed recoverably *)
Definition continuing (s : step) : bool :=
  match s with StRun (Rec _) | StRunCtxEnded _ (Rec _) => true | _ => false end.

Lemma cond_true_iff : forall retries ran,
  cond retries ran = true <-> retries = -1 \/ Z.of_nat (length ran) < retries.
Proof. intros. unfold cond. rewrite orb_true_iff, Z.eqb_eq, Z.ltb_lt. tauto. Qed.

(* nothing after the event that ends the call matters *)
Lemma loop_prefix : forall s1 s2 retries re ran,
  (forall fe, res (loop retries re ran s1) <> RetMore fe) ->
  loop retries re ran (s1 ++ s2) = loop retries re ran s1.
Proof.
  induction s1 as [|a s1 IH]; intros s2 retries re ran H.
  - cbn [app]. rewrite (loop_unfold _ _ _ s2). rewrite loop_unfold in H |- *.
    destruct (cond retries ran); [|reflexivity]. exfalso. apply (H re). reflexivity.
  - cbn [app]. rewrite (loop_unfold _ _ _ (a :: s1 ++ s2)). rewrite (loop_unfold _ _ _ (a :: s1)) in H |- *.
    destruct (cond retries ran); [|reflexivity].
    destruct a as [|c|o|c o]; try reflexivity; destruct o; try reflexivity; apply IH; exact H.
Qed.

(* while every event is a recoverable failure and the limit permits, the loop goes on *)
Lemma loop_continue : forall s1 s2 retries re ran,
  forallb continuing s1 = true ->
  (retries = -1 \/ Z.of_nat (length ran + length s1) < retries) ->
  exists re', loop retries re ran (s1 ++ s2) = loop retries re' (ran ++ flat_map out_of s1) s2
              /\ (forall keep, ring_ok keep re -> ring_ok keep re')
              /\ main re' = main re.
Proof.
  induction s1 as [|a s1 IH]; intros s2 retries re ran Hc Hl.
  - exists re. cbn. rewrite app_nil_r. auto.
  - cbn [forallb] in Hc. apply andb_true_iff in Hc as [Ha Hc].
    cbn [app]. rewrite loop_unfold.
    assert (C : cond retries ran = true).
    { apply cond_true_iff. cbn [length] in Hl. destruct Hl; [left; auto|right; lia]. }
    rewrite C.
    assert (Hl' : forall o, retries = -1 \/ Z.of_nat (length (ran ++ [o]) + length s1) < retries).
    { intros o. rewrite app_length. cbn [length] in *. destruct Hl; [left; auto|right; lia]. }
    destruct a as [|c|o|c o]; try discriminate; destruct o as [|e|e]; try discriminate;
      destruct (IH s2 retries (add_err re (EUser e)) (ran ++ [Rec e]) Hc (Hl' _)) as (re' & E & R & M);
      exists re'; cbn [flat_map out_of]; rewrite E, <- app_assoc; cbn [app];
      (split; [reflexivity|split; [intros keep K; apply R, ring_ok_add, K|rewrite M; apply main_add]]).
Qed.

Lemma loop_ran_mono : forall steps retries re rn,
  exists l, RetryLoop.ran (loop retries re rn steps) = rn ++ l /\ (length l <= length steps)%nat.
Proof.
  induction steps as [|a steps IH]; intros retries re rn; rewrite loop_unfold.
  - destruct (cond retries rn); exists []; cbn; rewrite app_nil_r; auto.
  - destruct (cond retries rn); [|exists []; cbn; rewrite app_nil_r; split; [auto|lia]].
    destruct a as [|c|o|c o]; try (exists []; cbn; rewrite app_nil_r; (split; [reflexivity|lia]));
      destruct o as [|e|e]; try (eexists [_]; cbn; (split; [reflexivity|lia]));
      destruct (IH retries (add_err re (EUser e)) (rn ++ [Rec e])) as (l & E & L);
      exists (Rec e :: l); rewrite E, <- app_assoc; cbn; (split; [reflexivity|lia]).
Qed.

(* every run but the last failed recoverably; success iff the last run succeeded *)
Lemma forallb_removelast : forall (l : list outcome) p, forallb p l = true -> forallb p (removelast l) = true.
Proof.
  induction l as [|a [|b l] IH]; intros p H; auto.
  change (removelast (a :: b :: l)) with (a :: removelast (b :: l)).
  cbn [forallb] in H |- *. apply andb_true_iff in H as [H1 H2]. rewrite H1. apply IH. exact H2.
Qed.

Lemma last_rec_not_ok : forall l, l <> [] -> forallb is_rec l = true -> last l (Rec 0) <> Ok.
Proof.
  intros l Hn H. destruct (exists_last Hn) as (l' & x & ->).
  rewrite last_last. rewrite forallb_app in H. apply andb_true_iff in H as [_ H]. cbn in H.
  destruct x; discriminate.
Qed.

Lemma loop_shape : forall steps retries re ran,
  ran <> [] -> forallb is_rec ran = true ->
  let R := loop retries re ran steps in
  forallb is_rec (removelast (RetryLoop.ran R)) = true /\
  (res R = RetNil <-> last (RetryLoop.ran R) (Rec 0) = Ok) /\
  ((exists fe, res R = RetMore fe) -> forallb is_rec (RetryLoop.ran R) = true).
Proof.
  induction steps as [|a steps IH]; intros retries re ran Hn Hr; cbn zeta; rewrite loop_unfold.
  - destruct (cond retries ran); cbn [RetryLoop.ran res];
      (split; [apply forallb_removelast, Hr|split; [|auto]]);
      (split; [discriminate|intros H; exfalso; eapply last_rec_not_ok; eauto]).
  - assert (Stop : forall r, r <> RetNil ->
              forallb is_rec (removelast ran) = true /\ (r = RetNil <-> last ran (Rec 0) = Ok)).
    { intros r Hne. split; [apply forallb_removelast, Hr|].
      split; [congruence|intros H; exfalso; eapply last_rec_not_ok; eauto]. }
    destruct (cond retries ran); cbn [RetryLoop.ran res].
    2:{ destruct (Stop (RetErr (set_main re ERetriesExceeded))) as [S1 S2]; [discriminate|].
        split; [exact S1|split; [exact S2|intros [fe F]; discriminate]]. }
    assert (Run : forall o,
      let R := match o with
               | Ok => mkRes (ran ++ [o]) RetNil
               | Fatal e => mkRes (ran ++ [o]) (RetErr (set_main re (EUser e)))
               | Rec e => loop retries (add_err re (EUser e)) (ran ++ [o]) steps
               end in
      forallb is_rec (removelast (RetryLoop.ran R)) = true /\
      (res R = RetNil <-> last (RetryLoop.ran R) (Rec 0) = Ok) /\
      ((exists fe, res R = RetMore fe) -> forallb is_rec (RetryLoop.ran R) = true)).
    { intros o. destruct o as [|e|e]; cbn zeta.
      - cbn [RetryLoop.ran res]. rewrite removelast_last, last_last.
        split; [exact Hr|split; [tauto|intros [fe F]; discriminate]].
      - apply IH.
        + intros E. apply app_eq_nil in E as [_ E]. discriminate.
        + rewrite forallb_app, Hr. reflexivity.
      - cbn [RetryLoop.ran res]. rewrite removelast_last, last_last.
        split; [exact Hr|split; [split; discriminate|intros [fe F]; discriminate]]. }
    destruct a as [|c|o|c o]; cbn [RetryLoop.ran res].
    + destruct (Stop (RetErr (set_main re EWaitExceedsDeadline))) as [S1 S2]; [discriminate|].
      split; [exact S1|split; [exact S2|intros [fe F]; discriminate]].
    + destruct (Stop (RetErr (set_main re (ECtx c)))) as [S1 S2]; [discriminate|].
      split; [exact S1|split; [exact S2|intros [fe F]; discriminate]].
    + apply (Run o).
    + apply (Run o).
Qed.

(* number of runs never exceeds the limit *)
Lemma loop_runs_le : forall steps retries re ran,
  retries <> -1 -> Z.of_nat (length ran) <= Z.max 1 retries ->
  Z.of_nat (length (RetryLoop.ran (loop retries re ran steps))) <= Z.max 1 retries.
Proof.
  induction steps as [|a steps IH]; intros retries re ran Hf Hl; rewrite loop_unfold.
  - destruct (cond retries ran); exact Hl.
  - destruct (cond retries ran) eqn:C; [|exact Hl].
    apply cond_true_iff in C. destruct C as [C|C]; [contradiction|].
    assert (L : forall o, Z.of_nat (length (ran ++ [o])) <= Z.max 1 retries)
      by (intros; rewrite app_length; cbn [length]; lia).
    destruct a as [|c|o|c o]; try exact Hl; destruct o; cbn [RetryLoop.ran]; try apply L;
      apply IH; auto.
Qed.

(* a count below one behaves as one *)
Lemma loop_below_one : forall steps retries re ran,
  retries <> -1 -> retries < 1 -> (1 <= length ran)%nat ->
  loop retries re ran steps = loop 1 re ran steps.
Proof.
  intros. rewrite !loop_unfold.
  assert (cond retries ran = false) as ->.
  { unfold cond. apply orb_false_iff. split; [apply Z.eqb_neq; auto|apply Z.ltb_ge; lia]. }
  assert (cond 1 ran = false) as ->.
  { unfold cond. apply orb_false_iff. split; [reflexivity|apply Z.ltb_ge; lia]. }
  reflexivity.
Qed.

(* the limit is reached exactly: all-recoverable history *)
Lemma loop_exhaust : forall s1 s2 retries re ran,
  forallb continuing s1 = true -> retries <> -1 ->
  Z.of_nat (length ran + length s1) = Z.max (Z.of_nat (length ran)) retries ->
  exists fe, loop retries re ran (s1 ++ s2) =
             mkRes (ran ++ flat_map out_of s1) (RetErr fe) /\ main fe = ERetriesExceeded
             /\ (forall keep, ring_ok keep re -> ring_ok keep fe).
Proof.
  intros s1 s2 retries re ran Hc Hf Hl.
  assert (Fin : forall re' ran', retries <= Z.of_nat (length ran') ->
            loop retries re' ran' s2 = mkRes ran' (RetErr (set_main re' ERetriesExceeded))).
  { intros. rewrite loop_unfold.
    assert (cond retries ran' = false) as ->; [|reflexivity].
    unfold cond. apply orb_false_iff. split; [apply Z.eqb_neq; auto|apply Z.ltb_ge; lia]. }
  destruct s1 as [|a s1'].
  - cbn [app flat_map]. rewrite app_nil_r. cbn [length] in Hl. rewrite Fin by lia.
    eexists; split; [reflexivity|split; [reflexivity|intros; apply ring_ok_set_main; auto]].
  - destruct (@exists_last _ (a :: s1')) as (s1i & z & Ez); [discriminate|].
    rewrite Ez in *. clear Ez a s1'. rewrite forallb_app in Hc. apply andb_true_iff in Hc as [Hc1 Hc2].
    rewrite app_length in Hl. cbn [length] in Hl.
    assert (Hlt : retries = -1 \/ Z.of_nat (length ran + length s1i) < retries) by (right; lia).
    rewrite <- app_assoc.
    destruct (loop_continue s1i ([z] ++ s2) retries re ran Hc1 Hlt) as (re' & E1 & R1 & M1).
    rewrite E1. cbn [app]. rewrite loop_unfold.
    assert (cond retries (ran ++ flat_map out_of s1i) = true) as ->.
    { apply cond_true_iff. right. rewrite app_length.
      assert (length (flat_map out_of s1i) = length s1i) as ->; [|lia].
      clear - Hc1. induction s1i as [|b t IH]; [reflexivity|].
      cbn [forallb] in Hc1. apply andb_true_iff in Hc1 as [Hb Ht].
      cbn [flat_map]. rewrite app_length, IH by exact Ht.
      destruct b as [|c|o|c o]; try discriminate; reflexivity. }
    assert (Len : length (flat_map out_of s1i) = length s1i).
    { clear - Hc1. induction s1i as [|b t IH]; [reflexivity|].
      cbn [forallb] in Hc1. apply andb_true_iff in Hc1 as [Hb Ht].
      cbn [flat_map]. rewrite app_length, IH by exact Ht.
      destruct b as [|c|o|c o]; try discriminate; reflexivity. }
    cbn [forallb] in Hc2. rewrite andb_true_r in Hc2.
    rewrite flat_map_app. cbn [flat_map]. rewrite app_nil_r.
    destruct z as [|c|o|c o]; try discriminate; destruct o as [|e|e]; try discriminate;
      cbn [out_of]; rewrite Fin by (rewrite !app_length, Len; cbn [length]; lia);
      rewrite <- app_assoc;
      (eexists; split; [reflexivity|split; [reflexivity|
        intros keep K; apply ring_ok_set_main, ring_ok_add, R1, K]]).
Qed.

(* ring bound and provenance of the kept errors for whatever the loop returns *)
Definition ret_fe (r : ret) : option ferror :=
  match r with RetNil => None | RetErr fe | RetMore fe => Some fe end.

Lemma loop_ring : forall steps retries re ran keep fe,
  ring_ok keep re -> ret_fe (res (loop retries re ran steps)) = Some fe -> ring_ok keep fe.
Proof.
  induction steps as [|a steps IH]; intros retries re ran keep fe K; rewrite loop_unfold.
  - destruct (cond retries ran); cbn; intros H; injection H as <-; auto using ring_ok_set_main.
  - destruct (cond retries ran); cbn [res ret_fe];
      [|intros H; injection H as <-; auto using ring_ok_set_main].
    destruct a as [|c|o|c o]; cbn [res ret_fe];
      try (intros H; injection H as <-; auto using ring_ok_set_main);
      destruct o; cbn [res ret_fe]; try discriminate;
      try (intros H; injection H as <-; auto using ring_ok_set_main);
      apply IH; apply ring_ok_add; exact K.
Qed.

Lemma errs_seen_app : forall a b, errs_seen (a ++ b) = errs_seen a ++ errs_seen b.
Proof. intros. unfold errs_seen. apply flat_map_app. Qed.

Lemma loop_others_seen : forall steps retries re ran fe,
  incl (others re) (errs_seen ran) ->
  ret_fe (res (loop retries re ran steps)) = Some fe ->
  incl (others fe) (errs_seen (RetryLoop.ran (loop retries re ran steps))).
Proof.
  induction steps as [|a steps IH]; intros retries re ran fe I; rewrite loop_unfold.
  - destruct (cond retries ran); cbn; intros H; injection H as <-; exact I.
  - assert (App : forall o, incl (others re) (errs_seen (ran ++ [o]))).
    { intros o x Hx. rewrite errs_seen_app. apply in_or_app. left. apply I, Hx. }
    destruct (cond retries ran); cbn [res ret_fe RetryLoop.ran];
      [|intros H; injection H as <-; exact I].
    destruct a as [|c|o|c o]; cbn [res ret_fe RetryLoop.ran];
      try (intros H; injection H as <-; exact I);
      destruct o as [|e|e]; cbn [res ret_fe RetryLoop.ran]; try discriminate;
      try (intros H; injection H as <-; apply App);
      apply IH; intros x Hx; apply others_add_incl in Hx; rewrite errs_seen_app;
      apply in_or_app; (destruct Hx as [->|Hx]; [right; cbn; auto|left; apply I, Hx]).
Qed.

(* why a failure was returned: complete classification, with the position of the event *)
Lemma loop_reason : forall steps retries re ran fe,
  let R := loop retries re ran steps in
  res R = RetErr fe ->
  (exists e, last (RetryLoop.ran R) Ok = Fatal e /\ main fe = EUser e /\ (length ran < length (RetryLoop.ran R))%nat) \/
  (main fe = ERetriesExceeded /\ retries <> -1 /\ retries <= Z.of_nat (length (RetryLoop.ran R))) \/
  (nth_error steps (length (RetryLoop.ran R) - length ran) = Some StExceeds /\ main fe = EWaitExceedsDeadline) \/
  (exists c, nth_error steps (length (RetryLoop.ran R) - length ran) = Some (StCtx c) /\ main fe = ECtx c).
Proof.
  induction steps as [|a steps IH]; intros retries re ran fe; cbn zeta; rewrite loop_unfold.
  - destruct (cond retries ran) eqn:C; cbn [res RetryLoop.ran]; [discriminate|].
    intros H; injection H as <-. right; left. cbn [main set_main].
    unfold cond in C. apply orb_false_iff in C as [C1 C2]. apply Z.eqb_neq in C1. apply Z.ltb_ge in C2. auto.
  - destruct (cond retries ran) eqn:C; cbn [res RetryLoop.ran].
    2:{ intros H; injection H as <-. right; left. cbn [main set_main].
        unfold cond in C. apply orb_false_iff in C as [C1 C2]. apply Z.eqb_neq in C1. apply Z.ltb_ge in C2. auto. }
    assert (Run : forall o,
      let R := match o with
               | Ok => mkRes (ran ++ [o]) RetNil
               | Fatal e => mkRes (ran ++ [o]) (RetErr (set_main re (EUser e)))
               | Rec e => loop retries (add_err re (EUser e)) (ran ++ [o]) steps
               end in
      res R = RetErr fe ->
      (exists e, last (RetryLoop.ran R) Ok = Fatal e /\ main fe = EUser e /\ (length ran < length (RetryLoop.ran R))%nat) \/
      (main fe = ERetriesExceeded /\ retries <> -1 /\ retries <= Z.of_nat (length (RetryLoop.ran R))) \/
      (nth_error steps (length (RetryLoop.ran R) - length ran - 1) = Some StExceeds /\ main fe = EWaitExceedsDeadline) \/
      (exists c, nth_error steps (length (RetryLoop.ran R) - length ran - 1) = Some (StCtx c) /\ main fe = ECtx c)).
    { intros o. destruct o as [|e|e]; cbn zeta; cbn [res RetryLoop.ran].
      - discriminate.
      - intros H. specialize (IH retries (add_err re (EUser e)) (ran ++ [Rec e]) fe H).
        destruct (loop_ran_mono steps retries (add_err re (EUser e)) (ran ++ [Rec e])) as (l & E & _).
        rewrite E in *. rewrite !app_length in *. cbn [length] in *.
        replace (length ran + 1 + length l - (length ran + 1))%nat with (length l) in IH by lia.
        replace (length ran + 1 + length l - length ran - 1)%nat with (length l) by lia.
        destruct IH as [(e' & L & M & Lt)|[X|[X|X]]]; auto.
        left. exists e'. repeat split; auto. lia.
      - intros H; injection H as <-. left. exists e. rewrite last_last, app_length. cbn. repeat split; auto. lia. }
    destruct a as [|c|o|c o]; cbn [res RetryLoop.ran].
    + intros H; injection H as <-. right; right; left. rewrite Nat.sub_diag. cbn. auto.
    + intros H; injection H as <-. right; right; right. exists c. rewrite Nat.sub_diag. cbn. auto.
    + intros H. pose proof (Run o H) as Q. clear Run.
      assert (G : (length ran < length (RetryLoop.ran
                match o with
                | Ok => mkRes (ran ++ [o]) RetNil
                | Rec e => loop retries (add_err re (EUser e)) (ran ++ [o]) steps
                | Fatal e => mkRes (ran ++ [o]) (RetErr (set_main re (EUser e)))
                end))%nat).
      { destruct o as [|e|e]; cbn [RetryLoop.ran]; try (rewrite app_length; cbn; lia).
        destruct (loop_ran_mono steps retries (add_err re (EUser e)) (ran ++ [Rec e])) as (l & E & _).
        rewrite E, !app_length. cbn. lia. }
      set (R := match o with Ok => _ | Rec e => _ | Fatal e => _ end) in *.
      replace (length (RetryLoop.ran R) - length ran)%nat with (S (length (RetryLoop.ran R) - length ran - 1)) by lia.
      cbn [nth_error]. exact Q.
    + intros H. pose proof (Run o H) as Q. clear Run.
      assert (G : (length ran < length (RetryLoop.ran
                match o with
                | Ok => mkRes (ran ++ [o]) RetNil
                | Rec e => loop retries (add_err re (EUser e)) (ran ++ [o]) steps
                | Fatal e => mkRes (ran ++ [o]) (RetErr (set_main re (EUser e)))
                end))%nat).
      { destruct o as [|e|e]; cbn [RetryLoop.ran]; try (rewrite app_length; cbn; lia).
        destruct (loop_ran_mono steps retries (add_err re (EUser e)) (ran ++ [Rec e])) as (l & E & _).
        rewrite E, !app_length. cbn. lia. }
      set (R := match o with Ok => _ | Rec e => _ | Fatal e => _ end) in *.
      replace (length (RetryLoop.ran R) - length ran)%nat with (S (length (RetryLoop.ran R) - length ran - 1)) by lia.
      cbn [nth_error]. exact Q.
Qed.

(* after an event that ends the call (anything but a recoverable failure) f is not run again *)
Lemma loop_stops : forall steps k s retries re rn,
  nth_error steps k = Some s -> continuing s = false ->
  (length (RetryLoop.ran (loop retries re rn steps)) <= length rn + k + length (out_of s))%nat.
Proof.
  induction steps as [|a steps IH]; intros k s retries re rn Hn Hs.
  - destruct k; discriminate.
  - rewrite loop_unfold. destruct (cond retries rn); cbn [RetryLoop.ran]; [|lia].
    destruct k as [|k]; cbn [nth_error] in Hn.
    + injection Hn as ->.
      destruct s as [|c|o|c o]; cbn [RetryLoop.ran out_of length]; try lia;
        destruct o; try discriminate; cbn [RetryLoop.ran]; rewrite app_length; cbn; lia.
    + destruct a as [|c|o|c o]; cbn [RetryLoop.ran]; try lia;
        destruct o as [|e|e]; cbn [RetryLoop.ran]; try (rewrite app_length; cbn; lia);
        specialize (IH k s retries (add_err re (EUser e)) (rn ++ [Rec e]) Hn Hs);
        rewrite app_length in IH; cbn [length] in IH; lia.
Qed.

(* ------------------------------------------------------------------ RetryWithCtx *)
Section Run.
Variables (retries keep : Z).

Lemma run_pre_ended : forall c first steps,
  retry_run retries keep (Some c) first steps = mkRes [] (RetErr (mkFE (ECtx c) [] 0 0 0)).
Proof. reflexivity. Qed.

Lemma run_first_ok : forall steps, retry_run retries keep None Ok steps = mkRes [Ok] RetNil.
Proof. reflexivity. Qed.

Lemma run_first_fatal : forall e steps, exists fe,
  retry_run retries keep None (Fatal e) steps = mkRes [Fatal e] (RetErr fe) /\
  ferr_is fe (EUser e) = true /\ main fe = ERetriesExceeded.
Proof. intros. eexists. split; [reflexivity|]. split; [|reflexivity]. cbn. rewrite Nat.eqb_refl. reflexivity. Qed.

Lemma flat_out_len : forall s, forallb continuing s = true -> length (flat_map out_of s) = length s.
Proof.
  induction s as [|b t IH]; intros H; [reflexivity|].
  cbn [forallb] in H. apply andb_true_iff in H as [Hb Ht].
  cbn [flat_map]. rewrite app_length, IH by exact Ht.
  destruct b as [|c|o|c o]; try discriminate; reflexivity.
Qed.

(* stops at once, with the exact result, whatever follows in the history *)
Lemma run_stops_at_once : forall e0 s1 ev s2,
  forallb continuing s1 = true ->
  (retries = -1 \/ Z.of_nat (length s1) + 1 < retries) ->
  let R := retry_run retries keep None (Rec e0) (s1 ++ ev :: s2) in
  let before := Rec e0 :: flat_map out_of s1 in
  match ev with
  | StRun Ok | StRunCtxEnded _ Ok => ran R = before ++ [Ok] /\ res R = RetNil
  | StRun (Fatal e) | StRunCtxEnded _ (Fatal e) =>
      ran R = before ++ [Fatal e] /\ exists fe, res R = RetErr fe /\ main fe = EUser e
  | StCtx c => ran R = before /\ exists fe, res R = RetErr fe /\ main fe = ECtx c
  | StExceeds => ran R = before /\ exists fe, res R = RetErr fe /\ main fe = EWaitExceedsDeadline
  | StRun (Rec _) | StRunCtxEnded _ (Rec _) => True
  end.
Proof.
  intros e0 s1 ev s2 Hc Hl. cbn zeta. unfold retry_run.
  assert (Hl' : retries = -1 \/ Z.of_nat (length [Rec e0] + length s1) < retries)
    by (cbn [length]; destruct Hl; [left; auto|right; lia]).
  destruct (loop_continue s1 (ev :: s2) retries (new_ferror (EUser e0) keep) [Rec e0] Hc Hl')
    as (re' & E & _ & _).
  rewrite E, loop_unfold.
  assert (cond retries ([Rec e0] ++ flat_map out_of s1) = true) as ->.
  { apply cond_true_iff. rewrite app_length, flat_out_len by exact Hc. cbn [length] in *. lia. }
  cbn [app].
  destruct ev as [|c|o|c o]; try destruct o; cbn [ran res]; auto;
    split; try reflexivity; eexists; split; reflexivity.
Qed.

Lemma run_stops : forall pre first steps k s,
  nth_error steps k = Some s -> continuing s = false ->
  (runs (retry_run retries keep pre first steps) <= 1 + k + length (out_of s))%nat.
Proof.
  intros pre first steps k s Hn Hs. unfold runs, retry_run.
  destruct pre; [cbn; lia|]. destruct first; try (cbn; lia).
  pose proof (loop_stops steps k s retries (new_ferror (EUser e) keep) [Rec e] Hn Hs) as L.
  cbn [length] in L. lia.
Qed.

Lemma run_shape : forall pre first steps,
  let R := retry_run retries keep pre first steps in
  forallb is_rec (removelast (ran R)) = true /\ (res R = RetNil <-> last (ran R) (Rec 0) = Ok).
Proof.
  intros pre first steps. cbn zeta. unfold retry_run.
  destruct pre; [cbn; split; [reflexivity|split; discriminate]|].
  destruct first; try (cbn; split; [reflexivity|split; (reflexivity || discriminate)]).
  pose proof (loop_shape steps retries (new_ferror (EUser e) keep) [Rec e] ltac:(discriminate) eq_refl) as H.
  cbn zeta in H. tauto.
Qed.

Lemma run_success_iff_last_ok : forall pre first steps,
  let R := retry_run retries keep pre first steps in
  res R = RetNil <-> exists l, ran R = l ++ [Ok].
Proof.
  intros. subst R. destruct (run_shape pre first steps) as [_ H]. rewrite H. split.
  - intros L. destruct (ran (retry_run retries keep pre first steps)) as [|a t] eqn:E; [discriminate|].
    exists (removelast (a :: t)). rewrite <- L. apply app_removelast_last. discriminate.
  - intros [l ->]. apply last_last.
Qed.

Lemma run_all_but_last_rec : forall pre first steps l o,
  ran (retry_run retries keep pre first steps) = l ++ [o] -> forallb is_rec l = true.
Proof.
  intros. destruct (run_shape pre first steps) as [H1 _]. cbn zeta in H1.
  rewrite H, removelast_last in H1. exact H1.
Qed.

Lemma run_runs_ge1 : forall first steps, (1 <= runs (retry_run retries keep None first steps))%nat.
Proof.
  intros. unfold runs, retry_run. destruct first; try (cbn; lia).
  destruct (loop_ran_mono steps retries (new_ferror (EUser e) keep) [Rec e]) as (l & -> & _).
  cbn. lia.
Qed.

Lemma run_runs_le : forall pre first steps, retries <> -1 ->
  Z.of_nat (runs (retry_run retries keep pre first steps)) <= Z.max 1 retries.
Proof.
  intros. unfold runs, retry_run. destruct pre; [cbn; lia|]. destruct first; try (cbn; lia).
  apply loop_runs_le; auto. cbn. lia.
Qed.

Lemma run_kept_bound : forall pre first steps fe,
  ret_fe (res (retry_run retries keep pre first steps)) = Some fe ->
  Z.of_nat (length (others fe)) <= Z.max 1 keep.
Proof.
  intros pre first steps fe. unfold retry_run.
  destruct pre; [cbn; intros H; injection H as <-; cbn; lia|].
  destruct first; cbn [res ret_fe]; try discriminate.
  - intros H. apply (loop_ring _ _ _ _ keep) in H; [apply H|apply ring_ok_new].
  - intros H; injection H as <-. cbn. lia.
Qed.

Lemma run_kept_seen : forall pre first steps fe,
  ret_fe (res (retry_run retries keep pre first steps)) = Some fe ->
  incl (others fe) (errs_seen (ran (retry_run retries keep pre first steps))).
Proof.
  intros pre first steps fe. unfold retry_run.
  destruct pre; [cbn; intros H; injection H as <-; cbn; intros x []|].
  destruct first; cbn [res ret_fe ran]; try discriminate.
  - apply loop_others_seen. cbn. intros x Hx; exact Hx.
  - intros H; injection H as <-. cbn. intros x Hx; exact Hx.
Qed.

Lemma run_exhaust : forall e0 s1 s2,
  forallb continuing s1 = true -> retries <> -1 ->
  Z.of_nat (length s1) + 1 = Z.max 1 retries ->
  let R := retry_run retries keep None (Rec e0) (s1 ++ s2) in
  ran R = Rec e0 :: flat_map out_of s1 /\ exists fe, res R = RetErr fe /\ main fe = ERetriesExceeded.
Proof.
  intros e0 s1 s2 Hc Hf Hl. cbn zeta. unfold retry_run.
  destruct (loop_exhaust s1 s2 retries (new_ferror (EUser e0) keep) [Rec e0] Hc Hf) as (fe & E & M & _).
  - cbn [length]. lia.
  - rewrite E. cbn [ran res app]. split; [reflexivity|]. exists fe. auto.
Qed.

Lemma run_reason : forall pre first steps fe,
  let R := retry_run retries keep pre first steps in
  res R = RetErr fe ->
  (exists c, pre = Some c /\ runs R = O /\ ferr_is fe (ECtx c) = true) \/
  (pre = None /\ exists e, last (ran R) Ok = Fatal e /\ ferr_is fe (EUser e) = true) \/
  (pre = None /\ retries <> -1 /\ Z.of_nat (runs R) = Z.max 1 retries /\ ferr_is fe ERetriesExceeded = true) \/
  (pre = None /\ nth_error steps (runs R - 1) = Some StExceeds /\ ferr_is fe EWaitExceedsDeadline = true) \/
  (pre = None /\ exists c, nth_error steps (runs R - 1) = Some (StCtx c) /\ ferr_is fe (ECtx c) = true).
Proof.
  intros pre first steps fe. cbn zeta.
  destruct pre as [c|].
  - intros H. rewrite run_pre_ended in H |- *. cbn [res] in H. injection H as <-. left. exists c.
    split; [reflexivity|split; [reflexivity|apply ferr_is_no_others]].
  - destruct first as [|e|e].
    + cbn. discriminate.
    + intros H.
      pose proof (run_runs_le None (Rec e) steps) as LE.
      pose proof (run_runs_ge1 (Rec e) steps) as GE.
      unfold runs, retry_run in *.
      pose proof (loop_reason steps retries (new_ferror (EUser e) keep) [Rec e] fe H) as Q.
      cbn zeta in Q. cbn [length] in Q.
      destruct Q as [(e' & L & M & _)|[(M & F & Lim)|[(N & M)|(c & N & M)]]].
      * right; left. split; [reflexivity|]. exists e'. split; [exact L|]. apply ferr_is_main_eq, M.
      * right; right; left. repeat split; auto; [specialize (LE F); lia|apply ferr_is_main_eq, M].
      * right; right; right; left. repeat split; auto. apply ferr_is_main_eq, M.
      * right; right; right; right. split; [reflexivity|]. exists c. split; [exact N|]. apply ferr_is_main_eq, M.
    + intros H. right; left. split; [reflexivity|]. exists e.
      cbn in H. injection H as <-. split; [reflexivity|]. cbn. rewrite Nat.eqb_refl. reflexivity.
Qed.

Lemma run_forever : forall e0 s1,
  forallb continuing s1 = true -> retries = -1 ->
  exists fe, retry_run retries keep None (Rec e0) s1 = mkRes (Rec e0 :: flat_map out_of s1) (RetMore fe).
Proof.
  intros e0 s1 Hc Hf. unfold retry_run.
  destruct (loop_continue s1 [] retries (new_ferror (EUser e0) keep) [Rec e0] Hc (or_introl Hf))
    as (re' & E & _ & _).
  rewrite app_nil_r in E. rewrite E, loop_unfold.
  assert (cond retries ([Rec e0] ++ flat_map out_of s1) = true) as -> by (apply cond_true_iff; auto).
  exists re'. reflexivity.
Qed.

End Run.

Lemma run_below_one : forall retries keep pre first steps,
  retries <> -1 -> retries < 1 ->
  retry_run retries keep pre first steps = retry_run 1 keep pre first steps.
Proof.
  intros. unfold retry_run. destruct pre; [reflexivity|]. destruct first; try reflexivity.
  apply loop_below_one; auto.
Qed.

Lemma run_once : forall retries keep first steps,
  retries <> -1 -> retries <= 1 -> runs (retry_run retries keep None first steps) = 1%nat.
Proof.
  intros. pose proof (run_runs_le retries keep None first steps H).
  pose proof (run_runs_ge1 retries keep first steps). lia.
Qed.

(* the runtime's choice between two ready select cases lets f run after the context has ended *)
Definition ctx_ended_at (s : step) : bool :=
  match s with StCtx _ | StRunCtxEnded _ _ => true | _ => false end.

Lemma run_after_ctx_end : exists retries keep first steps k s,
  nth_error steps k = Some s /\ ctx_ended_at s = true /\
  (1 + k < runs (retry_run retries keep None first steps))%nat.
Proof.
  exists 3, 0, (Rec 0%nat), [StRunCtxEnded Canceled (Rec 1%nat)], O, (StRunCtxEnded Canceled (Rec 1%nat)).
  vm_compute. repeat split; auto.
Qed.

(* ------------------------------------------------------------------ configuration layer *)
Lemma to_steps_nth : forall ts cfg n k t,
  nth_error ts k = Some t ->
  nth_error (to_steps cfg n ts) k =
    Some (if exceeds (t_remaining t) (pause_of cfg (n + Z.of_nat k) (t_draw t))
          then StExceeds else ev_step (t_ev t)).
Proof.
  induction ts as [|a ts IH]; intros cfg n k t H.
  - destruct k; discriminate.
  - destruct k as [|k]; cbn [nth_error to_steps] in *.
    + injection H as ->. rewrite Z.add_0_r. reflexivity.
    + rewrite (IH cfg (n + 1) k t H). replace (n + 1 + Z.of_nat k) with (n + Z.of_nat (S k)) by lia.
      reflexivity.
Qed.

Lemma ev_step_not_exceeds : forall e, ev_step e <> StExceeds.
Proof. destruct e; discriminate. Qed.

(* the loop stops with "wait exceeds deadline" at iteration k exactly when the pause computed from
   the CONFIGURED BackOff/Max is longer than the time left *)
Lemma cfg_exceeds_iff : forall ts cfg n k t,
  nth_error ts k = Some t ->
  (nth_error (to_steps cfg n ts) k = Some StExceeds <->
   exists d, t_remaining t = Some d /\ d < pause_of cfg (n + Z.of_nat k) (t_draw t)).
Proof.
  intros ts cfg n k t H. rewrite (to_steps_nth ts cfg n k t H). unfold exceeds.
  destruct (t_remaining t) as [d|].
  - destruct (Z.ltb_spec d (pause_of cfg (n + Z.of_nat k) (t_draw t))); split.
    + intros _. exists d. auto.
    + reflexivity.
    + intros E. injection E as E. exfalso. eapply ev_step_not_exceeds; eauto.
    + intros (d' & E & L). injection E as <-. lia.
  - split.
    + intros E. injection E as E. exfalso. eapply ev_step_not_exceeds; eauto.
    + intros (d' & E & _). discriminate.
Qed.

Lemma cfg_pauses_bounded : forall ts cfg n w,
  in_int64 (c_backoff cfg) -> in_int64 (c_max cfg) ->
  Forall (fun t => 0 <= t_draw t) ts ->
  In w (pauses cfg n ts) ->
  0 <= w <= norm_max (c_max cfg) /\ (0 < c_max cfg -> w <= c_max cfg).
Proof.
  induction ts as [|a ts IH]; intros cfg n w Hb Hm Hd Hin; [destruct Hin|].
  inversion Hd as [|? ? Ha Ht]; subst. cbn [pauses] in Hin. destruct Hin as [<-|Hin].
  - unfold pause_of. split.
    + apply pause_bounds; auto.
    + intros Hp. apply pause_le_configured_max; auto.
  - eapply IH; eauto.
Qed.

(* a deadline at least Max away (MaxInt64 when no Max is configured) never stops the retries *)
Lemma cfg_far_deadline : forall ts cfg n k t d,
  in_int64 (c_backoff cfg) -> in_int64 (c_max cfg) ->
  nth_error ts k = Some t -> 0 <= t_draw t ->
  t_remaining t = Some d -> norm_max (c_max cfg) <= d ->
  nth_error (to_steps cfg n ts) k = Some (ev_step (t_ev t)).
Proof.
  intros ts cfg n k t d Hb Hm H Hr Hd Hfar. rewrite (to_steps_nth ts cfg n k t H).
  unfold exceeds. rewrite Hd.
  pose proof (pause_bounds (c_jitter cfg) (c_backoff cfg) (c_max cfg) (n + Z.of_nat k) (t_draw t) Hb Hm Hr) as P.
  unfold pause_of. destruct (Z.ltb_spec d (pause (c_jitter cfg) (c_backoff cfg) (c_max cfg) (n + Z.of_nat k) (t_draw t))); [lia|reflexivity].
Qed.

Lemma to_steps_length : forall ts cfg n, length (to_steps cfg n ts) = length ts.
Proof. induction ts; intros; cbn; auto. Qed.
