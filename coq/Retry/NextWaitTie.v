(* Retry/NextWaitTie.v — what "the Go text of nextWait / of RetryWithCtx's normalisation IS the
   model" means (C18, Way 1), and what follows from it.  The per-run obligation
   (build/gen/C18/Ob_retry_code.v, written by checks/c18_code.py) proves the three [code_is_…]
   statements about THIS run's translation (tools/go-fn-ir) with the tactic [tie] of GoFn/Tie.v;
   the theorems below then carry the model's theorems over to the code. *)
From Coq Require Import ZArith List Bool Lia ZifyBool.
From LLRP Require Import GoFn.IR Retry.NextWait Retry.NextWaitProofs.
Import ListNotations.
Open Scope Z_scope.

(* receiver fields in the order of the struct (BackOff, Max, KeepErrs, Jitter), then the parameter *)
Definition ebo_args (jitter : bool) (base max keep x : Z) : list val :=
  [VI base; VI max; VI keep; VB jitter; VI x].

(* the draw is what rand.Int63n(1 << n) can return, on the branch that draws *)
Definition draw_ok (jitter : bool) (n r : Z) : Prop :=
  jitter = true -> 1 <= n <= 62 -> 0 <= r < 2 ^ n.

Definition code_is_next_wait (f : fn) : Prop :=
  forall jitter base max keep n r,
    in_int64 base -> in_int64 max -> in_int64 n -> draw_ok jitter n r ->
    run f (ebo_args jitter base max keep n) r = Some (next_wait jitter base max n r).

Definition code_is_norm (f : fn) (norm : Z -> Z -> Z) : Prop :=
  forall jitter base max keep retries r,
    in_int64 base -> in_int64 max -> in_int64 retries ->
    run f (ebo_args jitter base max keep retries) r = Some (norm base max).

Lemma norm_base_in_int64 b : in_int64 b -> in_int64 (norm_base b).
Proof. unfold in_int64, norm_base, max_int64, two63. destruct (b <=? 0) eqn:E; lia. Qed.
Lemma norm_max_in_int64 m : in_int64 m -> in_int64 (norm_max m).
Proof. unfold in_int64, norm_max, max_int64, two63. destruct (m <=? 0) eqn:E; lia. Qed.

(* the pause the CODE computes before the n-th re-run: normalise, then nextWait — it is the
   model's [pause], so it is never negative and never above the maximum in force *)
Theorem code_pause_is_model f fm fb :
  code_is_next_wait f ->
  code_is_norm fm (fun _ m => norm_max m) -> code_is_norm fb (fun b _ => norm_base b) ->
  forall jitter base max keep retries n r,
    in_int64 base -> in_int64 max -> in_int64 retries -> in_int64 n -> draw_ok jitter n r -> 0 <= r ->
    exists b m,
      run fb (ebo_args jitter base max keep retries) r = Some b /\
      run fm (ebo_args jitter base max keep retries) r = Some m /\
      run f (ebo_args jitter b m keep n) r = Some (pause jitter base max n r) /\
      0 <= pause jitter base max n r <= m.
Proof.
  intros Hf Hm Hb jitter base max keep retries n r Ib Im Ir In Hd Hr.
  exists (norm_base base), (norm_max max). repeat split.
  - apply Hb; assumption.
  - apply Hm; assumption.
  - unfold pause. apply Hf; auto using norm_base_in_int64, norm_max_in_int64.
  - apply pause_bounds; assumption.
  - apply pause_bounds; assumption.
Qed.
