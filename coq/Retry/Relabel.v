(* Retry/Relabel.v — the VALUES of the failures an operation returns do not influence what
   RetryWithCtx does (C18): whether the operation is re-run is decided by the bool it returns,
   the retry limit and the context alone.  Renaming every failure value by an arbitrary function
   (not necessarily injective: e.g. every failure becomes context.Canceled of some other
   context) renames the result and changes nothing else — same runs, same kind of return, same
   main reason up to the renaming, same number of kept errors. *)
From Coq Require Import ZArith List Bool Arith Lia.
From LLRP Require Import Retry.NextWait Retry.RetryLoop.
Import ListNotations.
Open Scope Z_scope.

Section Relabel.
Variable f : nat -> nat.

Definition rl_out (o : outcome) : outcome :=
  match o with Ok => Ok | Rec e => Rec (f e) | Fatal e => Fatal (f e) end.
Definition rl_step (s : step) : step :=
  match s with
  | StExceeds => StExceeds
  | StCtx c => StCtx c
  | StRun o => StRun (rl_out o)
  | StRunCtxEnded c o => StRunCtxEnded c (rl_out o)
  end.
Definition rl_err (e : err) : err := match e with EUser i => EUser (f i) | x => x end.
Definition rl_fe (fe : ferror) : ferror :=
  mkFE (rl_err (main fe)) (map rl_err (others fe)) (attempts fe) (fmax fe) (flast fe).
Definition rl_ret (r : ret) : ret :=
  match r with RetNil => RetNil | RetErr fe => RetErr (rl_fe fe) | RetMore fe => RetMore (rl_fe fe) end.
Definition rl_res (r : result) : result := mkRes (map rl_out (ran r)) (rl_ret (res r)).

Lemma set_nth_map i x l : set_nth i (rl_err x) (map rl_err l) = map rl_err (set_nth i x l).
Proof. revert i. induction l as [|h t IH]; intros [|j]; cbn; try reflexivity. rewrite IH. reflexivity. Qed.

Lemma set_nth_length i (x : err) l : length (set_nth i x l) = length l.
Proof. revert i. induction l as [|h t IH]; intros [|j]; cbn; try reflexivity. rewrite IH. reflexivity. Qed.

Lemma add_err_rl fe e : add_err (rl_fe fe) (rl_err e) = rl_fe (add_err fe e).
Proof.
  unfold add_err, rl_fe. cbn [main others attempts fmax flast]. rewrite map_length.
  destruct (fmax fe =? 0); [reflexivity|].
  destruct (Z.of_nat (length (others fe)) <? fmax fe).
  - cbn [main others attempts fmax flast]. rewrite map_app. reflexivity.
  - cbn [main others attempts fmax flast]. rewrite set_nth_map, map_length. reflexivity.
Qed.

Lemma set_main_rl fe m : set_main (rl_fe fe) (rl_err m) = rl_fe (set_main fe m).
Proof. reflexivity. Qed.

Lemma loop_rl retries : forall steps re ran,
  loop retries (rl_fe re) (map rl_out ran) (map rl_step steps) = rl_res (loop retries re ran steps).
Proof.
  induction steps as [|s rest IH]; intros re ran; cbn [loop map]; rewrite map_length.
  - destruct ((retries =? -1) || (Z.of_nat (length ran) <? retries)); reflexivity.
  - destruct ((retries =? -1) || (Z.of_nat (length ran) <? retries)); [|reflexivity].
    destruct s as [|c|o|c o]; cbn [rl_step]; try reflexivity.
    + destruct o as [|e|e]; cbn [rl_out].
      * unfold rl_res. cbn [RetryLoop.ran res rl_ret]. rewrite map_app. reflexivity.
      * change (EUser (f e)) with (rl_err (EUser e)). rewrite add_err_rl.
        change (map rl_out ran ++ [Rec (f e)]) with (map rl_out ran ++ map rl_out [Rec e]).
        rewrite <- map_app. apply IH.
      * unfold rl_res. cbn [RetryLoop.ran res rl_ret]. rewrite map_app. reflexivity.
    + destruct o as [|e|e]; cbn [rl_out].
      * unfold rl_res. cbn [RetryLoop.ran res rl_ret]. rewrite map_app. reflexivity.
      * change (EUser (f e)) with (rl_err (EUser e)). rewrite add_err_rl.
        change (map rl_out ran ++ [Rec (f e)]) with (map rl_out ran ++ map rl_out [Rec e]).
        rewrite <- map_app. apply IH.
      * unfold rl_res. cbn [RetryLoop.ran res rl_ret]. rewrite map_app. reflexivity.
Qed.

Theorem retry_run_relabel retries keep pre first steps :
  retry_run retries keep pre (rl_out first) (map rl_step steps) =
  rl_res (retry_run retries keep pre first steps).
Proof.
  unfold retry_run. destruct pre as [c|]; [reflexivity|].
  destruct first as [|e|e]; cbn [rl_out]; try reflexivity.
  change (new_ferror (EUser (f e)) keep) with (rl_fe (new_ferror (EUser e) keep)).
  change [Rec (f e)] with (map rl_out [Rec e]). apply loop_rl.
Qed.

(* consequences in the property's words *)
Corollary relabel_same_runs retries keep pre first steps :
  runs (retry_run retries keep pre (rl_out first) (map rl_step steps)) =
  runs (retry_run retries keep pre first steps) /\
  map is_rec (ran (retry_run retries keep pre (rl_out first) (map rl_step steps))) =
  map is_rec (ran (retry_run retries keep pre first steps)).
Proof.
  rewrite retry_run_relabel. unfold runs, rl_res. cbn [ran]. rewrite map_length, map_map. split; [reflexivity|].
  apply map_ext. intros [|e|e]; reflexivity.
Qed.

Corollary relabel_same_return retries keep pre first steps :
  match res (retry_run retries keep pre (rl_out first) (map rl_step steps)),
        res (retry_run retries keep pre first steps) with
  | RetNil, RetNil => True
  | RetErr a, RetErr b => main a = rl_err (main b) /\ length (others a) = length (others b) /\ attempts a = attempts b
  | RetMore a, RetMore b => length (others a) = length (others b)
  | _, _ => False
  end.
Proof.
  rewrite retry_run_relabel. unfold rl_res. cbn [res].
  destruct (res (retry_run retries keep pre first steps)) as [|fe|fe]; cbn [rl_ret rl_fe main others attempts];
    rewrite ?map_length; auto.
Qed.

End Relabel.
