From Coq Require Import NArith List Bool Lia ZifyN ZifyNat ZifyBool.
From LLRP Require Import Discover.Subnet Discover.SubnetProofs Discover.Entries.
Import ListNotations.
Open Scope N_scope.

Definition entry_ok (e : entry) : Prop :=
  match e with EV4 a p => net_ok (a, p) | EV6 p128 => 96 <= p128 <= 128 | EBad => True end.

Lemma fold_add_shift {A} (f : A -> N) l acc :
  fold_left (fun a e => a + f e) l acc = acc + fold_left (fun a e => a + f e) l 0.
Proof.
  revert acc. induction l as [|x l IH]; intros acc; cbn [fold_left].
  - lia.
  - rewrite IH. rewrite (IH (0 + f x)). lia.
Qed.

Lemma accepted_ok es : Forall entry_ok es -> Forall net_ok (accepted es).
Proof.
  induction 1 as [|e es He _ IH]; cbn [accepted flat_map]; [constructor|].
  destruct e as [a p| |]; cbn [app]; [constructor; [exact He|exact IH]|exact IH|exact IH].
Qed.

Lemma estimate_entries_accepted es : estimate_entries false es = estimate (accepted es).
Proof.
  unfold estimate_entries, estimate.
  induction es as [|e es IH]; [reflexivity|].
  cbn [fold_left accepted flat_map].
  rewrite fold_add_shift.
  destruct e as [a p| |]; cbn [entry_estimate app fold_left snd].
  - rewrite (fold_add_shift (fun n => compute_net_sz (snd n)) _ (0 + compute_net_sz p)).
    fold (accepted es). rewrite IH. reflexivity.
  - fold (accepted es). rewrite IH. lia.
  - fold (accepted es). rewrite IH. lia.
Qed.

(* HEAD: entries that are refused or do not parse add nothing, so the estimate is the number enumerated *)
Theorem refused_entries_add_nothing es : Forall entry_ok es ->
  estimate_entries false es = N.of_nat (length (discover_entries es)).
Proof.
  intros H. rewrite estimate_entries_accepted. unfold discover_entries.
  symmetry. apply estimate_all, accepted_ok, H.
Qed.

(* ... and they leave the enumeration to the accepted IPv4 networks alone *)
Theorem entries_enumerate_accepted_only es x : Forall entry_ok es ->
  count_occ N.eq_dec (discover_entries es) x = length (filter (is_host x) (accepted es)).
Proof. intros H. apply discover_all_count, accepted_ok, H. Qed.

(* the variant that counts an entry before refusing it: one IPv6 /120 next to a /30 *)
Theorem estimate_before_refusal_refuted : exists es, Forall entry_ok es /\
  estimate_entries true es <> N.of_nat (length (discover_entries es)).
Proof.
  exists [EV4 2130706440 30; EV6 120]. split.
  - repeat constructor; cbn; unfold two32; lia.
  - vm_compute. discriminate.
Qed.

Example entries_example :
  estimate_entries false [EV6 64; EV4 2130706433 30; EBad; EV4 2130706689 31; EV6 128] = 3 /\
  discover_entries [EV6 64; EV4 2130706433 30; EBad; EV4 2130706689 31; EV6 128] = [2130706433; 2130706434; 2130706688].
Proof. vm_compute. split; reflexivity. Qed.
