(* Proofs about Discover/Run.v *)
From Coq Require Import String Ascii NArith ZArith List Bool Lia ZifyN ZifyNat ZifyBool.
From LLRP Require Import Discover.Naming Discover.NamingProofs Discover.Run.
Import ListNotations.
Open Scope N_scope.

(* ---------- makeDeviceMap ---------- *)
Lemma key_eqb_eq : forall x y, key_eqb x y = true <-> x = y.
Proof.
  intros [a b] [c d]. unfold key_eqb. cbn [fst snd]. rewrite andb_true_iff, !N.eqb_eq.
  split; [intros [-> ->]; reflexivity|intros E; inversion E; split; reflexivity].
Qed.
Lemma key_eqb_refl : forall x, key_eqb x x = true.
Proof. intros. apply key_eqb_eq. reflexivity. Qed.

Lemma fold_map_add_none : forall devs (m : dev_map) a,
  (forall d, In d devs -> d_addr d <> Some a) ->
  fold_left map_add devs m a = m a.
Proof.
  induction devs as [|d devs IH]; intros m a H; [reflexivity|].
  cbn [fold_left]. rewrite IH by (intros d' Hd'; apply H; right; exact Hd').
  unfold map_add. destruct (d_addr d) as [x|] eqn:E; [|reflexivity].
  destruct (key_eqb a x) eqn:Ex; [|reflexivity].
  apply key_eqb_eq in Ex. subst x. exfalso. apply (H d); [left; reflexivity|exact E].
Qed.

(* every entry of the map is a registered device with that address *)
Lemma fold_map_add_in : forall devs (m : dev_map) a d,
  fold_left map_add devs m a = Some d ->
  (In d devs /\ d_addr d = Some a) \/ m a = Some d.
Proof.
  induction devs as [|d0 devs IH]; intros m a d H; [right; exact H|].
  cbn [fold_left] in H. apply IH in H. destruct H as [[H1 H2]|H].
  - left. split; [right; exact H1|exact H2].
  - unfold map_add in H. destruct (d_addr d0) as [x|] eqn:E; [|right; exact H].
    destruct (key_eqb a x) eqn:Ex; [|right; exact H].
    apply key_eqb_eq in Ex. subst x. inversion H; subst d0. left. split; [left; reflexivity|exact E].
Qed.

Lemma device_map_in : forall devs a d,
  make_device_map devs a = Some d -> In d devs /\ d_addr d = Some a.
Proof.
  intros devs a d H. apply fold_map_add_in in H. destruct H as [H|H]; [exact H|discriminate].
Qed.

(* an address at which some device is registered has an entry *)
Lemma fold_map_add_some : forall devs (m : dev_map) a,
  (exists d, In d devs /\ d_addr d = Some a) -> exists d, fold_left map_add devs m a = Some d.
Proof.
  induction devs as [|d0 devs IH]; intros m a (d & Hin & Ha); [destruct Hin|].
  cbn [fold_left].
  destruct (existsb (fun d => match d_addr d with Some x => key_eqb x a | None => false end) devs) eqn:E.
  - apply existsb_exists in E. destruct E as (d1 & Hin1 & E1).
    apply IH. exists d1. split; [exact Hin1|].
    destruct (d_addr d1) as [x|]; [|discriminate]. apply key_eqb_eq in E1. subst. reflexivity.
  - destruct Hin as [->|Hin].
    + rewrite fold_map_add_none.
      * unfold map_add. rewrite Ha, key_eqb_refl. exists d. reflexivity.
      * intros d' Hd' E'. assert (X : existsb (fun d => match d_addr d with Some x => key_eqb x a | None => false end) devs = true).
        { apply existsb_exists. exists d'. split; [exact Hd'|]. rewrite E'. apply key_eqb_refl. }
        rewrite X in E. discriminate.
    + exfalso. assert (X : existsb (fun d => match d_addr d with Some x => key_eqb x a | None => false end) devs = true).
      { apply existsb_exists. exists d. split; [exact Hin|]. rewrite Ha. apply key_eqb_refl. }
      rewrite X in E. discriminate.
Qed.

Lemma skip_registered_up : forall devs port a,
  (exists d, In d devs /\ d_addr d = Some (a, port)) ->
  (forall d, In d devs -> d_addr d = Some (a, port) -> d_state d = Up) ->
  skip (make_device_map devs) port a = true.
Proof.
  intros devs port a Hex Hup. unfold skip.
  destruct (fold_map_add_some devs (fun _ => None) (a, port) Hex) as (d & Hd).
  unfold make_device_map. rewrite Hd.
  apply device_map_in in Hd. destruct Hd as [Hin Ha].
  unfold is_up. rewrite (Hup d Hin Ha). reflexivity.
Qed.

Lemma skip_unregistered : forall devs port a,
  (forall d, In d devs -> d_addr d <> Some (a, port)) -> skip (make_device_map devs) port a = false.
Proof.
  intros devs port a H. unfold skip, make_device_map. rewrite fold_map_add_none by exact H. reflexivity.
Qed.

(* ---------- one probe against a script ---------- *)
Lemma opt_min_some_r : forall a y, exists m, opt_min a (Some y) = Some m /\ m <= y.
Proof. intros [x|] y; cbn; eexists; (split; [reflexivity|lia]). Qed.
Lemma opt_min_some_l : forall x b, exists m, opt_min (Some x) b = Some m /\ m <= x.
Proof. intros x [y|]; cbn; eexists; (split; [reflexivity|lia]). Qed.

Lemma step_until_some : forall a t l,
  match step_until a t (Some l) with
  | inl (u, _) => u <= l
  | inr o => o = Some (N.max t l)
  end.
Proof.
  intros [d ok| |g] t l; cbn; [|reflexivity|reflexivity].
  destruct (t + d <=? l) eqn:E; [apply N.leb_le in E; exact E|reflexivity].
Qed.

(* with a read deadline Connect's own part ends within three deadlines, whatever the host does *)
Lemma connect_phase_bounded : forall r s t0 tc,
  match connect_phase (Some r) true s t0 tc with
  | ConnFail t => exists v, t = Some v /\ v <= t0 + 3 * r
  | ConnReady t2 => t2 <= t0 + 3 * r
  end.
Proof.
  intros r s t0 tc. unfold connect_phase. cbn [opt_add opt_min].
  pose proof (step_until_some (s_hello s) t0 (t0 + r)) as H1.
  destruct (step_until (s_hello s) t0 (Some (t0 + r))) as [[t1 [|]]|o].
  2: { exists t1. split; [reflexivity|lia]. }
  2: { subst o. eexists. split; [reflexivity|lia]. }
  pose proof (step_until_some (s_version s) t1 (N.min (t1 + r) tc)) as H2.
  destruct (step_until (s_version s) t1 (Some (N.min (t1 + r) tc))) as [[tv [|]]|o].
  2: { exists tv. split; [reflexivity|lia]. }
  2: { subst o. eexists. split; [reflexivity|lia]. }
  destruct (s_setver s) as [a|]; [|lia].
  pose proof (step_until_some a tv (N.min (tv + r) tc)) as H3.
  destruct (step_until a tv (Some (N.min (tv + r) tc))) as [[t2 [|]]|o].
  - lia.
  - exists t2. split; [reflexivity|lia].
  - subst o. eexists. split; [reflexivity|lia].
Qed.

Lemma ask_lt : forall a t tc u ok, ask a t tc = Some (u, ok) -> u < tc.
Proof.
  intros [d o| |g] t tc u ok; unfold ask; destruct (tc <=? t); try discriminate.
  destruct (t + d <? tc) eqn:E; [|discriminate]. intros H. inversion H; subst. apply N.ltb_lt. exact E.
Qed.

(* with the forced Close the request goroutine always closes the client, by the end of its context *)
Lemma shutdown_closes : forall s t tc arr gi gc,
  exists x, e_close (shutdown true s t tc arr gi gc) = Some x /\ x <= N.max t tc.
Proof.
  intros s t tc arr gi gc. unfold shutdown.
  destruct (ask (s_close s) t tc) as [[u [|]]|] eqn:E; cbn [e_close].
  - exists u. split; [reflexivity|]. apply ask_lt in E. lia.
  - exists u. split; [reflexivity|]. apply ask_lt in E. lia.
  - eexists. split; [reflexivity|lia].
Qed.

Lemma exchange_closes : forall s t2 tc,
  exists x, e_close (exchange true s t2 tc) = Some x /\ x <= N.max t2 tc.
Proof.
  intros s t2 tc. unfold exchange.
  destruct (ask (s_config s) t2 tc) as [[u [|]]|] eqn:E1.
  - apply ask_lt in E1.
    destruct (ask (s_caps s) u tc) as [[w [|]]|] eqn:E2.
    + apply ask_lt in E2. destruct (shutdown_closes s w tc [w; u] true true) as (x & Hx & Hle).
      exists x. split; [exact Hx|lia].
    + apply ask_lt in E2. destruct (shutdown_closes s w tc [w; u] true false) as (x & Hx & Hle).
      exists x. split; [exact Hx|lia].
    + destruct (shutdown_closes s (N.max u tc) tc (late_arrival (s_caps s) u tc ++ [u]) true false) as (x & Hx & Hle).
      exists x. split; [exact Hx|lia].
  - apply ask_lt in E1. destruct (shutdown_closes s u tc [u] false false) as (x & Hx & Hle).
    exists x. split; [exact Hx|lia].
  - destruct (shutdown_closes s (N.max t2 tc) tc (late_arrival (s_config s) t2 tc) false false) as (x & Hx & Hle).
    exists x. split; [exact Hx|lia].
Qed.

(* THE BOUND FOR ALL SCRIPTS: with a read deadline and the forced Close after a failed Shutdown, a probe
   returns within the allowance — whatever the host answers, whenever, and whatever it sends unasked *)
Lemma script_time_bounded : forall tm r s,
  read_deadline tm = Some r -> force_close tm = true -> idle_deadline tm = false ->
  exists d, o_time (script_outcome tm s) = Some d /\ d <= allowance tm.
Proof.
  intros tm r s Hr Hf Hi. unfold allowance, script_outcome. rewrite Hr, Hf, Hi. cbn [andb].
  destruct (s_dial s) as [| |d0]; cbn [o_time].
  - exists 0. split; [reflexivity|lia].
  - exists (dial tm). split; [reflexivity|lia].
  - destruct (dial tm <? d0) eqn:Ed; cbn [o_time].
    { exists (dial tm). split; [reflexivity|lia]. }
    apply N.ltb_ge in Ed.
    pose proof (connect_phase_bounded r s d0 (d0 + send_timeout tm)) as Hc.
    destruct (connect_phase (Some r) true s d0 (d0 + send_timeout tm)) as [t|t2]; cbn [o_time].
    + destruct Hc as (v & -> & Hv).
      destruct (opt_min_some_l v (opt_add d0 (s_hangup s))) as (m & Hm & Hle).
      exists m. split; [exact Hm|lia].
    + destruct (exchange_closes s t2 (d0 + send_timeout tm)) as (x & Hx & Hxle). rewrite Hx.
      match goal with |- context [opt_ltb ?dd x] => set (dead := dd) end.
      destruct (opt_ltb dead x) eqn:El; cbn [o_time].
      * destruct dead as [l|]; [|discriminate]. cbn in El. apply N.ltb_lt in El.
        exists l. split; [reflexivity|lia].
      * cbn [opt_add].
        match goal with |- context [opt_min ?a (Some (x + r))] => destruct (opt_min_some_r a (x + r)) as (m & Hm & Hle) end.
        exists m. split; [exact Hm|lia].
Qed.

(* WITHOUT the forced Close: a host that answers everything, refuses CLOSE_CONNECTION and keeps sending
   KeepAlives more often than the read deadline blocks the probe for ever *)
Definition chatty_refuser (p : N) : script :=
  mk_script (DialAccept 0) (Ans 0 true) (Ans 0 true) None (Ans 0 true) (Some (0, [0; 22; 37])) (Ans 0 true) None
            (Ans 0 false) false false None [] (Some p).

Lemma chatty_refuser_blocks : forall tm r p,
  read_deadline tm = Some r -> force_close tm = false -> idle_deadline tm = false -> 0 < send_timeout tm -> 0 < p -> p <= r ->
  o_time (script_outcome tm (chatty_refuser p)) = None.
Proof.
  intros tm r p Hr Hf Hi Hs Hp Hpr. unfold script_outcome. rewrite Hr, Hf, Hi. unfold chatty_refuser. cbn [s_dial andb].
  assert (E0 : dial tm <? 0 = false) by (apply N.ltb_ge; lia). rewrite E0.
  assert (E1 : 0 <=? r = true) by (apply N.leb_le; lia).
  assert (E2 : send_timeout tm <=? 0 = false) by (apply N.leb_gt; exact Hs).
  assert (E3 : 0 <? send_timeout tm = true) by (apply N.ltb_lt; exact Hs).
  assert (E4 : 0 <? p = true) by (apply N.ltb_lt; exact Hp).
  assert (E5 : p <=? r = true) by (apply N.leb_le; exact Hpr).
  unfold connect_phase, exchange, shutdown, ask, reader_death, chatty.
  repeat (progress (cbn [ask s_hello s_version s_setver s_config s_caps s_close s_close_other s_chat s_period s_hangup
                         step_until opt_add opt_min opt_le opt_ltb e_close e_rclosed e_arrivals andb];
                    rewrite ?N.add_0_l, ?N.add_0_r, ?E1, ?E2, ?E3, ?E4, ?E5)).
  reflexivity.
Qed.

(* WITH A DEADLINE THAT BOUNDS IDLE TIME ONLY (re-armed before every read): a host that answers the first message and
   the negotiation and then trickles its GET_READER_CONFIG reply, one byte every g <= r, holds the probe for ever —
   forced Close or not: the read loop sits inside the message and does not look at the client being closed *)
Lemma opt_ltb_zero : forall a, opt_ltb a 0 = false.
Proof. intros [l|]; cbn; [apply N.ltb_ge; lia|reflexivity]. Qed.

Definition trickler (g : N) : script :=
  mk_script (DialAccept 0) (Ans 0 true) (Ans 0 true) None (Trickle g) (Some (0, [0; 22; 37])) (Ans 0 true) None
            (Ans 0 true) false true None [] None.

Lemma trickler_blocks : forall tm r g,
  read_deadline tm = Some r -> idle_deadline tm = true -> 0 < send_timeout tm -> 0 < g -> g <= r ->
  o_time (script_outcome tm (trickler g)) = None.
Proof.
  intros tm r g Hr Hi Hs Hg Hgr. unfold script_outcome. rewrite Hr, Hi. unfold trickler. cbn [s_dial andb].
  assert (E0 : dial tm <? 0 = false) by (apply N.ltb_ge; lia). rewrite E0.
  assert (E1 : 0 <=? r = true) by (apply N.leb_le; lia).
  assert (E2 : send_timeout tm <=? 0 = false) by (apply N.leb_gt; exact Hs).
  assert (E4 : 0 <? g = true) by (apply N.ltb_lt; exact Hg).
  assert (E5 : g <=? r = true) by (apply N.leb_le; exact Hgr).
  assert (E7 : 0 <=? N.min r (send_timeout tm) = true) by (apply N.leb_le; lia).
  unfold connect_phase, exchange_sent, sent_at, fast_trickle.
  destruct (force_close tm);
  repeat (progress (cbn [ask s_hello s_version s_setver s_config s_caps s_close s_close_other s_chat s_period s_hangup
                         step_until opt_add opt_min opt_le andb negb app existsb fst snd];
                    rewrite ?N.add_0_l, ?N.add_0_r, ?E1, ?E2, ?E4, ?E5, ?E7, ?opt_ltb_zero));
  reflexivity.
Qed.

Lemma run_time_refuted_idle_deadline : forall tm r dl, read_deadline tm = Some r -> idle_deadline tm = true ->
  0 < r -> 0 < send_timeout tm -> 0 < dl ->
  exists m port hosts work, run_time tm dl m port hosts work = None.
Proof.
  intros tm r dl Hr Hi Hr0 Hs Hdl.
  exists (fun _ => None), 5084, (fun _ => Script (trickler 1)), [[1]].
  unfold run_time, worker_run. cbn [fold_left]. unfold worker_step at 1. cbn [w_init stopped clock].
  assert (E : dl <=? 0 = false) by (apply N.leb_gt; exact Hdl).
  rewrite E. cbn [skip]. unfold probe_time.
  rewrite (trickler_blocks tm r 1 Hr Hi Hs) by lia. reflexivity.
Qed.

(* ---------- worker invariants ---------- *)
Section Worker.
  Variable tm : timers.
  Variable dl : N.
  Variable m : dev_map.
  Variable port : N.
  Variable hosts : N -> behaviour.

  Let step := worker_step tm dl m port hosts.

  Definition probed_ok (st : wstate) : Prop := forall x, In x (probed st) -> skip m port x = false.

  Lemma step_probed_ok : forall st a, probed_ok st -> probed_ok (step st a).
  Proof.
    intros st a H. unfold step, worker_step.
    destruct (stopped st); [exact H|].
    destruct (clock st) as [t|]; [|exact H].
    destruct (dl <=? t); [exact H|].
    destruct (skip m port a) eqn:Es; [exact H|].
    destruct (probe_time tm (hosts a)); intros x [<-|Hx]; try exact Es; apply H; exact Hx.
  Qed.

  Lemma run_probed_ok : forall addrs st, probed_ok st -> probed_ok (fold_left step addrs st).
  Proof.
    induction addrs as [|a addrs IH]; intros st H; [exact H|].
    cbn [fold_left]. apply IH. apply step_probed_ok. exact H.
  Qed.

  Definition reported_ok (seen : list N) (st : wstate) : Prop :=
    forall a i, In (a, i) (reported st) ->
      In a seen /\ skip m port a = false /\ probe_result tm (hosts a) = Some i.

  Lemma step_reported_ok : forall seen st a, reported_ok seen st -> reported_ok (seen ++ [a]) (step st a).
  Proof.
    intros seen st a H.
    assert (W : reported_ok (seen ++ [a]) st).
    { intros x i Hx. destruct (H x i Hx) as (H1 & H2 & H3). repeat split; try assumption.
      apply in_or_app. left. exact H1. }
    unfold step, worker_step.
    destruct (stopped st); [exact W|].
    destruct (clock st) as [t|]; [|exact W].
    destruct (dl <=? t); [exact W|].
    destruct (skip m port a) eqn:Es; [exact W|].
    destruct (probe_time tm (hosts a)); [|exact W].
    destruct (probe_result tm (hosts a)) as [i0|] eqn:Ep; [|exact W].
    intros x i [E|Hx]; [|apply W; exact Hx].
    inversion E; subst. repeat split; try assumption. apply in_or_app. right. left. reflexivity.
  Qed.

  Lemma run_reported_ok : forall addrs seen st, reported_ok seen st ->
    reported_ok (seen ++ addrs) (fold_left step addrs st).
  Proof.
    induction addrs as [|a addrs IH]; intros seen st H.
    - rewrite app_nil_r. exact H.
    - cbn [fold_left]. replace (seen ++ a :: addrs) with ((seen ++ [a]) ++ addrs) by (rewrite <- app_assoc; reflexivity).
      apply IH. apply step_reported_ok. exact H.
  Qed.

  (* no dial begins at or after the deadline *)
  Definition dials_ok (st : wstate) : Prop := forall t, In t (dial_times st) -> t < dl.

  Lemma step_dials_ok : forall st a, dials_ok st -> dials_ok (step st a).
  Proof.
    intros st a H. unfold step, worker_step.
    destruct (stopped st); [exact H|].
    destruct (clock st) as [t|]; [|exact H].
    destruct (dl <=? t) eqn:Ed; [exact H|].
    destruct (skip m port a); [exact H|].
    apply N.leb_gt in Ed.
    destruct (probe_time tm (hosts a)); intros x [<-|Hx]; try exact Ed; apply H; exact Hx.
  Qed.

  Lemma run_dials_ok : forall addrs st, dials_ok st -> dials_ok (fold_left step addrs st).
  Proof.
    induction addrs as [|a addrs IH]; intros st H; [exact H|].
    cbn [fold_left]. apply IH. apply step_dials_ok. exact H.
  Qed.

  (* time: if every probe returns within A, the worker's clock never passes dl + A *)
  Variable A : N.
  Hypothesis probes_bounded : forall b, exists d, probe_time tm b = Some d /\ d <= A.

  Definition clock_ok (st : wstate) : Prop := exists t, clock st = Some t /\ t <= dl + A.

  Lemma step_clock_ok : forall st a, clock_ok st -> clock_ok (step st a).
  Proof.
    intros st a (t & Ht & Hle). unfold step, worker_step.
    destruct (stopped st); [exists t; split; assumption|].
    rewrite Ht.
    destruct (dl <=? t) eqn:Ed; [exists t; split; [reflexivity|exact Hle]|].
    destruct (skip m port a); [exists t; split; assumption|].
    destruct (probes_bounded (hosts a)) as (d & Hd & Hda). rewrite Hd.
    exists (t + d). split; [reflexivity|]. apply N.leb_gt in Ed. lia.
  Qed.

  Lemma run_clock_ok : forall addrs st, clock_ok st -> clock_ok (fold_left step addrs st).
  Proof.
    induction addrs as [|a addrs IH]; intros st H; [exact H|].
    cbn [fold_left]. apply IH. apply step_clock_ok. exact H.
  Qed.
End Worker.

(* ---------- the three run-level statements ---------- *)
Lemma registered_up_skipped : forall tm dl devs port hosts work a,
  (exists d, In d devs /\ d_addr d = Some (a, port)) ->
  (forall d, In d devs -> d_addr d = Some (a, port) -> d_state d = Up) ->
  ~ In a (run_probed tm dl (make_device_map devs) port hosts work).
Proof.
  intros tm dl devs port hosts work a Hex Hup Hin.
  unfold run_probed in Hin. apply in_flat_map in Hin. destruct Hin as (addrs & _ & Hin).
  assert (P : probed_ok (make_device_map devs) port (worker_run tm dl (make_device_map devs) port hosts addrs 0)).
  { unfold worker_run. apply run_probed_ok. intros x []. }
  specialize (P a Hin). rewrite skip_registered_up in P by assumption. discriminate.
Qed.

Lemma ask_ans : forall a t tc u ok, ask a t tc = Some (u, ok) -> exists d, a = Ans d ok.
Proof.
  intros [d o| |g] t tc u ok; unfold ask; destruct (tc <=? t); try discriminate.
  destruct (t + d <? tc); [|discriminate]. intros H. inversion H; subst. exists d. reflexivity.
Qed.
Lemma shutdown_ident : forall fc s t tc arr gi gc, e_ident (shutdown fc s t tc arr gi gc) = gi.
Proof. intros. unfold shutdown. destruct (ask (s_close s) t tc) as [[u [|]]|]; reflexivity. Qed.
Lemma exchange_ident : forall fc s t2 tc, e_ident (exchange fc s t2 tc) = true -> exists d, s_config s = Ans d true.
Proof.
  intros fc s t2 tc. unfold exchange.
  destruct (ask (s_config s) t2 tc) as [[u [|]]|] eqn:E.
  - intros _. exact (ask_ans _ _ _ _ _ E).
  - rewrite shutdown_ident. discriminate.
  - rewrite shutdown_ident. discriminate.
Qed.

(* what a script's probe returns was built from the Identification the script sent in a positive
   answer to GET_READER_CONFIG, and from its capabilities or none *)
Lemma script_info_identified : forall tm s i,
  o_info (script_outcome tm s) = Some i ->
  exists c t rid, s_ident s = Some (t, rid) /\ (exists d, s_config s = Ans d true) /\
    (c = s_capsv s \/ c = None) /\ probe_info c (Some (t, rid)) = Some i.
Proof.
  intros tm s i. unfold script_outcome.
  destruct (s_dial s) as [| |d0]; cbn [o_info]; try discriminate.
  destruct (dial tm <? d0); cbn [o_info]; try discriminate.
  destruct (idle_deadline tm && fast_trickle _ (s_hello s)); cbn [o_info]; try discriminate.
  destruct (connect_phase _ _ _ _ _) as [t|t2]; cbn [o_info]; try discriminate.
  set (tc := d0 + send_timeout tm).
  match goal with |- context [if ?c then {| o_time := opt_add d0 (s_hangup s); o_info := None |} else _] => destruct c end;
    cbn [o_info]; try discriminate.
  destruct (e_close (exchange (force_close tm) s t2 tc)) as [x|]; cbn [o_info]; try discriminate.
  destruct (opt_ltb _ x); cbn [o_info]; try discriminate.
  destruct (e_ident (exchange (force_close tm) s t2 tc)) eqn:Ei; try discriminate.
  intros H.
  pose proof (exchange_ident _ _ _ _ Ei) as Hc.
  destruct (s_ident s) as [[t rid]|] eqn:Eid.
  - exists (if e_caps (exchange (force_close tm) s t2 tc) then s_capsv s else None), t, rid.
    split; [reflexivity|]. split; [exact Hc|]. split; [|exact H].
    destruct (e_caps _); [left|right]; reflexivity.
  - rewrite probe_info_none in H. discriminate.
Qed.

Lemma only_identified_reported : forall tm dl m port hosts work a i,
  In (a, i) (run_reported tm dl m port hosts work) ->
  In a (concat work) /\ skip m port a = false /\
  exists c t rid,
    (hosts a = Answer c (Some (t, rid)) \/ hosts a = AnswerNoClose c (Some (t, rid)) \/
     exists s, hosts a = Script s /\ s_ident s = Some (t, rid) /\ (exists d, s_config s = Ans d true) /\
               (c = s_capsv s \/ c = None)) /\
    probe_info c (Some (t, rid)) = Some i.
Proof.
  intros tm dl m port hosts work a i Hin.
  unfold run_reported in Hin. apply in_flat_map in Hin. destruct Hin as (addrs & Hw & Hin).
  assert (R : reported_ok tm m port hosts ([] ++ addrs) (worker_run tm dl m port hosts addrs 0)).
  { unfold worker_run. apply run_reported_ok. intros x y []. }
  destruct (R a i Hin) as (H1 & H2 & H3). cbn [app] in H1.
  split; [apply in_concat; exists addrs; split; assumption|]. split; [exact H2|].
  unfold probe_result in H3.
  destruct (hosts a) as [s| | | | | | |c id|c id] eqn:Eh; try discriminate.
  - destruct (script_info_identified tm s i H3) as (c & t & rid & Hid & Hc & Hcc & Hp).
    exists c, t, rid. split; [|exact Hp]. right. right. exists s. repeat split; assumption.
  - destruct id as [[t rid]|]; [|rewrite probe_info_none in H3; discriminate].
    exists c, t, rid. split; [tauto|exact H3].
  - destruct id as [[t rid]|]; [|rewrite probe_info_none in H3; discriminate].
    exists c, t, rid. split; [tauto|exact H3].
Qed.

(* what a run reports about a host is what an undisturbed probe of that host returns: the run's deadline (and the
   other hosts, the registered devices, the distribution over workers) decide WHETHER the host is probed, never WHAT
   is reported about it *)
Lemma reported_is_probe_result : forall tm dl m port hosts work a i,
  In (a, i) (run_reported tm dl m port hosts work) -> probe_result tm (hosts a) = Some i.
Proof.
  intros tm dl m port hosts work a i Hin.
  unfold run_reported in Hin. apply in_flat_map in Hin. destruct Hin as (addrs & Hw & Hin).
  assert (R : reported_ok tm m port hosts ([] ++ addrs) (worker_run tm dl m port hosts addrs 0)).
  { unfold worker_run. apply run_reported_ok. intros x y []. }
  destruct (R a i Hin) as (_ & _ & H3). exact H3.
Qed.

Lemma fold_max_opt_bounded : forall (l : list (option N)) acc B,
  (exists t, acc = Some t /\ t <= B) ->
  (forall o, In o l -> exists t, o = Some t /\ t <= B) ->
  exists t, fold_left max_opt l acc = Some t /\ t <= B.
Proof.
  induction l as [|o l IH]; intros acc B Ha Hl; [exact Ha|].
  cbn [fold_left]. apply IH.
  - destruct Ha as (t & -> & Ht). destruct (Hl o (or_introl eq_refl)) as (u & -> & Hu).
    exists (N.max t u). split; [reflexivity|lia].
  - intros o' Ho'. apply Hl. right. exact Ho'.
Qed.

Lemma run_time_bounded_gen : forall tm dl m port hosts work A,
  (forall b, exists d, probe_time tm b = Some d /\ d <= A) ->
  exists t, run_time tm dl m port hosts work = Some t /\ t <= dl + A.
Proof.
  intros tm dl m port hosts work A Hb. unfold run_time.
  assert (E : forall acc,
    fold_left (fun acc addrs => max_opt acc (clock (worker_run tm dl m port hosts addrs 0))) work acc =
    fold_left max_opt (map (fun addrs => clock (worker_run tm dl m port hosts addrs 0)) work) acc).
  { induction work as [|w work IH]; intros acc; [reflexivity|]. cbn [fold_left map]. apply IH. }
  rewrite E. apply fold_max_opt_bounded.
  - exists 0. split; [reflexivity|lia].
  - intros o Ho. apply in_map_iff in Ho. destruct Ho as (addrs & <- & _).
    unfold worker_run. apply (run_clock_ok tm dl m port hosts A Hb).
    exists 0. split; [reflexivity|lia].
Qed.

Lemma probe_time_bounded : forall tm r, read_deadline tm = Some r -> force_close tm = true -> idle_deadline tm = false ->
  forall b, exists d, probe_time tm b = Some d /\ d <= allowance tm.
Proof.
  intros tm r Hr Hf Hi b. destruct b as [s| | | | | | | |].
  1: exact (script_time_bounded tm r s Hr Hf Hi).
  all: unfold allowance, probe_time, min_opt; rewrite Hr; eexists; (split; [reflexivity|]); lia.
Qed.

Lemma run_time_bounded : forall tm r dl m port hosts work,
  read_deadline tm = Some r -> force_close tm = true -> idle_deadline tm = false ->
  exists t, run_time tm dl m port hosts work = Some t /\ t <= dl + allowance tm.
Proof.
  intros. apply run_time_bounded_gen. apply (probe_time_bounded tm r); assumption.
Qed.

(* with a read deadline but WITHOUT the forced Close after a failed Shutdown one chatty host that refuses
   CLOSE_CONNECTION makes the run never return *)
Lemma run_time_refuted_no_forced_close : forall tm r dl, read_deadline tm = Some r -> force_close tm = false ->
  idle_deadline tm = false -> 0 < r -> 0 < send_timeout tm -> 0 < dl ->
  exists m port hosts work, run_time tm dl m port hosts work = None.
Proof.
  intros tm r dl Hr Hf Hi Hr0 Hs Hdl.
  exists (fun _ => None), 5084, (fun _ => Script (chatty_refuser 1)), [[1]].
  unfold run_time, worker_run. cbn [fold_left]. unfold worker_step at 1. cbn [w_init stopped clock].
  assert (E : dl <=? 0 = false) by (apply N.leb_gt; exact Hdl).
  rewrite E. cbn [skip]. unfold probe_time.
  rewrite (chatty_refuser_blocks tm r 1 Hr Hf Hi Hs) by lia. reflexivity.
Qed.

(* without a read deadline (the code as it is) one silent host that is not skipped blocks the run *)
Lemma run_time_unbounded : forall t s dl m port hosts a,
  0 < dl -> skip m port a = false ->
  (hosts a = Silent \/ hosts a = StallExchange \/ exists c i, hosts a = AnswerNoClose c i) ->
  run_time (go_timers t s) dl m port hosts [[a]] = None.
Proof.
  intros t s dl m port hosts a Hdl Hs Hh.
  unfold run_time, worker_run. cbn [fold_left]. unfold worker_step at 1. cbn [w_init stopped clock].
  assert (E : dl <=? 0 = false) by (apply N.leb_gt; exact Hdl).
  rewrite E, Hs.
  destruct Hh as [->|[->|(c & i & ->)]]; reflexivity.
Qed.

Lemma run_time_refuted : forall t s dl, 0 < dl ->
  exists m port hosts work, run_time (go_timers t s) dl m port hosts work = None.
Proof.
  intros t s dl H. exists (fun _ => None), 5084, (fun _ => Silent), [[1]].
  apply run_time_unbounded; [exact H|reflexivity|left; reflexivity].
Qed.

(* the port is part of the key: devices registered on OTHER ports of a host neither hide nor
   replace the entry for (host, scan port) *)
Lemma other_ports_irrelevant : forall devs port a,
  skip (make_device_map devs) port a =
  skip (make_device_map (filter (fun d => match d_addr d with
                                          | Some k => key_eqb k (a, port) | None => false end) devs)) port a.
Proof.
  intros devs port a. unfold skip, make_device_map.
  assert (G : forall (m1 m2 : dev_map), m1 (a, port) = m2 (a, port) ->
    fold_left map_add devs m1 (a, port) =
    fold_left map_add (filter (fun d => match d_addr d with
                                        | Some k => key_eqb k (a, port) | None => false end) devs) m2 (a, port)).
  { induction devs as [|d devs IH]; intros m1 m2 E; [exact E|].
    cbn [fold_left filter]. destruct (d_addr d) as [k|] eqn:Ek.
    - destruct (key_eqb k (a, port)) eqn:Ekk.
      + cbn [fold_left]. apply IH. unfold map_add. rewrite Ek.
        apply key_eqb_eq in Ekk. subst k. rewrite key_eqb_refl. reflexivity.
      + apply IH. unfold map_add. rewrite Ek.
        destruct (key_eqb (a, port) k) eqn:E2; [|exact E].
        apply key_eqb_eq in E2. subst k. rewrite key_eqb_refl in Ekk. discriminate.
    - apply IH. unfold map_add. rewrite Ek. exact E. }
  rewrite (G (fun _ => None) (fun _ => None) eq_refl). reflexivity.
Qed.

Lemma no_dial_after_deadline : forall tm dl m port hosts work t,
  In t (run_dial_times tm dl m port hosts work) -> t < dl.
Proof.
  intros tm dl m port hosts work t Hin.
  unfold run_dial_times in Hin. apply in_flat_map in Hin. destruct Hin as (addrs & _ & Hin).
  assert (P : dials_ok dl (worker_run tm dl m port hosts addrs 0)).
  { unfold worker_run. apply run_dials_ok. intros x []. }
  exact (P t Hin).
Qed.
