(* Proofs about Discover/Run.v *)
From Coq Require Import String Ascii NArith ZArith List Bool Lia ZifyN ZifyNat ZifyBool.
From LLRP Require Import Discover.Naming Discover.NamingProofs Discover.Run.
Import ListNotations.
Open Scope N_scope.

(* ---------- makeDeviceMap ---------- *)
Lemma key_eqb_eq : forall x y, key_eqb x y = true <-> x = y.
Proof.
  intros [a b] [c d]. unfold key_eqb. cbn [fst snd]. rewrite andb_true_iff, !N.eqb_eq.
  split; [intros [-> ->]; reflexivity|intros E; inversion E; split; reflexivity].
Qed.
Lemma key_eqb_refl : forall x, key_eqb x x = true.
Proof. intros. apply key_eqb_eq. reflexivity. Qed.

Lemma fold_map_add_none : forall devs (m : dev_map) a,
  (forall d, In d devs -> d_addr d <> Some a) ->
  fold_left map_add devs m a = m a.
Proof.
  induction devs as [|d devs IH]; intros m a H; [reflexivity|].
  cbn [fold_left]. rewrite IH by (intros d' Hd'; apply H; right; exact Hd').
  unfold map_add. destruct (d_addr d) as [x|] eqn:E; [|reflexivity].
  destruct (key_eqb a x) eqn:Ex; [|reflexivity].
  apply key_eqb_eq in Ex. subst x. exfalso. apply (H d); [left; reflexivity|exact E].
Qed.

(* every entry of the map is a registered device with that address *)
Lemma fold_map_add_in : forall devs (m : dev_map) a d,
  fold_left map_add devs m a = Some d ->
  (In d devs /\ d_addr d = Some a) \/ m a = Some d.
Proof.
  induction devs as [|d0 devs IH]; intros m a d H; [right; exact H|].
  cbn [fold_left] in H. apply IH in H. destruct H as [[H1 H2]|H].
  - left. split; [right; exact H1|exact H2].
  - unfold map_add in H. destruct (d_addr d0) as [x|] eqn:E; [|right; exact H].
    destruct (key_eqb a x) eqn:Ex; [|right; exact H].
    apply key_eqb_eq in Ex. subst x. inversion H; subst d0. left. split; [left; reflexivity|exact E].
Qed.

Lemma device_map_in : forall devs a d,
  make_device_map devs a = Some d -> In d devs /\ d_addr d = Some a.
Proof.
  intros devs a d H. apply fold_map_add_in in H. destruct H as [H|H]; [exact H|discriminate].
Qed.

(* an address at which some device is registered has an entry *)
Lemma fold_map_add_some : forall devs (m : dev_map) a,
  (exists d, In d devs /\ d_addr d = Some a) -> exists d, fold_left map_add devs m a = Some d.
Proof.
  induction devs as [|d0 devs IH]; intros m a (d & Hin & Ha); [destruct Hin|].
  cbn [fold_left].
  destruct (existsb (fun d => match d_addr d with Some x => key_eqb x a | None => false end) devs) eqn:E.
  - apply existsb_exists in E. destruct E as (d1 & Hin1 & E1).
    apply IH. exists d1. split; [exact Hin1|].
    destruct (d_addr d1) as [x|]; [|discriminate]. apply key_eqb_eq in E1. subst. reflexivity.
  - destruct Hin as [->|Hin].
    + rewrite fold_map_add_none.
      * unfold map_add. rewrite Ha, key_eqb_refl. exists d. reflexivity.
      * intros d' Hd' E'. assert (X : existsb (fun d => match d_addr d with Some x => key_eqb x a | None => false end) devs = true).
        { apply existsb_exists. exists d'. split; [exact Hd'|]. rewrite E'. apply key_eqb_refl. }
        rewrite X in E. discriminate.
    + exfalso. assert (X : existsb (fun d => match d_addr d with Some x => key_eqb x a | None => false end) devs = true).
      { apply existsb_exists. exists d. split; [exact Hin|]. rewrite Ha. apply key_eqb_refl. }
      rewrite X in E. discriminate.
Qed.

Lemma skip_registered_up : forall devs port a,
  (exists d, In d devs /\ d_addr d = Some (a, port)) ->
  (forall d, In d devs -> d_addr d = Some (a, port) -> d_state d = Up) ->
  skip (make_device_map devs) port a = true.
Proof.
  intros devs port a Hex Hup. unfold skip.
  destruct (fold_map_add_some devs (fun _ => None) (a, port) Hex) as (d & Hd).
  unfold make_device_map. rewrite Hd.
  apply device_map_in in Hd. destruct Hd as [Hin Ha].
  unfold is_up. rewrite (Hup d Hin Ha). reflexivity.
Qed.

Lemma skip_unregistered : forall devs port a,
  (forall d, In d devs -> d_addr d <> Some (a, port)) -> skip (make_device_map devs) port a = false.
Proof.
  intros devs port a H. unfold skip, make_device_map. rewrite fold_map_add_none by exact H. reflexivity.
Qed.

(* ---------- worker invariants ---------- *)
Section Worker.
  Variable tm : timers.
  Variable dl : N.
  Variable m : dev_map.
  Variable port : N.
  Variable hosts : N -> behaviour.

  Let step := worker_step tm dl m port hosts.

  Definition probed_ok (st : wstate) : Prop := forall x, In x (probed st) -> skip m port x = false.

  Lemma step_probed_ok : forall st a, probed_ok st -> probed_ok (step st a).
  Proof.
    intros st a H. unfold step, worker_step.
    destruct (stopped st); [exact H|].
    destruct (clock st) as [t|]; [|exact H].
    destruct (dl <=? t); [exact H|].
    destruct (skip m port a) eqn:Es; [exact H|].
    destruct (probe_time tm (hosts a)); intros x [<-|Hx]; try exact Es; apply H; exact Hx.
  Qed.

  Lemma run_probed_ok : forall addrs st, probed_ok st -> probed_ok (fold_left step addrs st).
  Proof.
    induction addrs as [|a addrs IH]; intros st H; [exact H|].
    cbn [fold_left]. apply IH. apply step_probed_ok. exact H.
  Qed.

  Definition reported_ok (seen : list N) (st : wstate) : Prop :=
    forall a i, In (a, i) (reported st) ->
      In a seen /\ skip m port a = false /\ probe_result (hosts a) = Some i.

  Lemma step_reported_ok : forall seen st a, reported_ok seen st -> reported_ok (seen ++ [a]) (step st a).
  Proof.
    intros seen st a H.
    assert (W : reported_ok (seen ++ [a]) st).
    { intros x i Hx. destruct (H x i Hx) as (H1 & H2 & H3). repeat split; try assumption.
      apply in_or_app. left. exact H1. }
    unfold step, worker_step.
    destruct (stopped st); [exact W|].
    destruct (clock st) as [t|]; [|exact W].
    destruct (dl <=? t); [exact W|].
    destruct (skip m port a) eqn:Es; [exact W|].
    destruct (probe_time tm (hosts a)); [|exact W].
    destruct (probe_result (hosts a)) as [i0|] eqn:Ep; [|exact W].
    intros x i [E|Hx]; [|apply W; exact Hx].
    inversion E; subst. repeat split; try assumption. apply in_or_app. right. left. reflexivity.
  Qed.

  Lemma run_reported_ok : forall addrs seen st, reported_ok seen st ->
    reported_ok (seen ++ addrs) (fold_left step addrs st).
  Proof.
    induction addrs as [|a addrs IH]; intros seen st H.
    - rewrite app_nil_r. exact H.
    - cbn [fold_left]. replace (seen ++ a :: addrs) with ((seen ++ [a]) ++ addrs) by (rewrite <- app_assoc; reflexivity).
      apply IH. apply step_reported_ok. exact H.
  Qed.

  (* no dial begins at or after the deadline *)
  Definition dials_ok (st : wstate) : Prop := forall t, In t (dial_times st) -> t < dl.

  Lemma step_dials_ok : forall st a, dials_ok st -> dials_ok (step st a).
  Proof.
    intros st a H. unfold step, worker_step.
    destruct (stopped st); [exact H|].
    destruct (clock st) as [t|]; [|exact H].
    destruct (dl <=? t) eqn:Ed; [exact H|].
    destruct (skip m port a); [exact H|].
    apply N.leb_gt in Ed.
    destruct (probe_time tm (hosts a)); intros x [<-|Hx]; try exact Ed; apply H; exact Hx.
  Qed.

  Lemma run_dials_ok : forall addrs st, dials_ok st -> dials_ok (fold_left step addrs st).
  Proof.
    induction addrs as [|a addrs IH]; intros st H; [exact H|].
    cbn [fold_left]. apply IH. apply step_dials_ok. exact H.
  Qed.

  (* time: if every probe returns within A, the worker's clock never passes dl + A *)
  Variable A : N.
  Hypothesis probes_bounded : forall b, exists d, probe_time tm b = Some d /\ d <= A.

  Definition clock_ok (st : wstate) : Prop := exists t, clock st = Some t /\ t <= dl + A.

  Lemma step_clock_ok : forall st a, clock_ok st -> clock_ok (step st a).
  Proof.
    intros st a (t & Ht & Hle). unfold step, worker_step.
    destruct (stopped st); [exists t; split; assumption|].
    rewrite Ht.
    destruct (dl <=? t) eqn:Ed; [exists t; split; [reflexivity|exact Hle]|].
    destruct (skip m port a); [exists t; split; assumption|].
    destruct (probes_bounded (hosts a)) as (d & Hd & Hda). rewrite Hd.
    exists (t + d). split; [reflexivity|]. apply N.leb_gt in Ed. lia.
  Qed.

  Lemma run_clock_ok : forall addrs st, clock_ok st -> clock_ok (fold_left step addrs st).
  Proof.
    induction addrs as [|a addrs IH]; intros st H; [exact H|].
    cbn [fold_left]. apply IH. apply step_clock_ok. exact H.
  Qed.
End Worker.

(* ---------- the three run-level statements ---------- *)
Lemma registered_up_skipped : forall tm dl devs port hosts work a,
  (exists d, In d devs /\ d_addr d = Some (a, port)) ->
  (forall d, In d devs -> d_addr d = Some (a, port) -> d_state d = Up) ->
  ~ In a (run_probed tm dl (make_device_map devs) port hosts work).
Proof.
  intros tm dl devs port hosts work a Hex Hup Hin.
  unfold run_probed in Hin. apply in_flat_map in Hin. destruct Hin as (addrs & _ & Hin).
  assert (P : probed_ok (make_device_map devs) port (worker_run tm dl (make_device_map devs) port hosts addrs 0)).
  { unfold worker_run. apply run_probed_ok. intros x []. }
  specialize (P a Hin). rewrite skip_registered_up in P by assumption. discriminate.
Qed.

Lemma only_identified_reported : forall tm dl m port hosts work a i,
  In (a, i) (run_reported tm dl m port hosts work) ->
  In a (concat work) /\ skip m port a = false /\
  exists c t rid,
    (hosts a = Answer c (Some (t, rid)) \/ hosts a = AnswerNoClose c (Some (t, rid))) /\
    probe_info c (Some (t, rid)) = Some i.
Proof.
  intros tm dl m port hosts work a i Hin.
  unfold run_reported in Hin. apply in_flat_map in Hin. destruct Hin as (addrs & Hw & Hin).
  assert (R : reported_ok m port hosts ([] ++ addrs) (worker_run tm dl m port hosts addrs 0)).
  { unfold worker_run. apply run_reported_ok. intros x y []. }
  destruct (R a i Hin) as (H1 & H2 & H3). cbn [app] in H1.
  split; [apply in_concat; exists addrs; split; assumption|]. split; [exact H2|].
  unfold probe_result in H3.
  destruct (hosts a) as [| | | | | |c id|c id] eqn:Eh; try discriminate;
    (destruct id as [[t rid]|]; [|rewrite probe_info_none in H3; discriminate]);
    exists c, t, rid; (split; [tauto|exact H3]).
Qed.

Lemma fold_max_opt_bounded : forall (l : list (option N)) acc B,
  (exists t, acc = Some t /\ t <= B) ->
  (forall o, In o l -> exists t, o = Some t /\ t <= B) ->
  exists t, fold_left max_opt l acc = Some t /\ t <= B.
Proof.
  induction l as [|o l IH]; intros acc B Ha Hl; [exact Ha|].
  cbn [fold_left]. apply IH.
  - destruct Ha as (t & -> & Ht). destruct (Hl o (or_introl eq_refl)) as (u & -> & Hu).
    exists (N.max t u). split; [reflexivity|lia].
  - intros o' Ho'. apply Hl. right. exact Ho'.
Qed.

Lemma run_time_bounded_gen : forall tm dl m port hosts work A,
  (forall b, exists d, probe_time tm b = Some d /\ d <= A) ->
  exists t, run_time tm dl m port hosts work = Some t /\ t <= dl + A.
Proof.
  intros tm dl m port hosts work A Hb. unfold run_time.
  assert (E : forall acc,
    fold_left (fun acc addrs => max_opt acc (clock (worker_run tm dl m port hosts addrs 0))) work acc =
    fold_left max_opt (map (fun addrs => clock (worker_run tm dl m port hosts addrs 0)) work) acc).
  { induction work as [|w work IH]; intros acc; [reflexivity|]. cbn [fold_left map]. apply IH. }
  rewrite E. apply fold_max_opt_bounded.
  - exists 0. split; [reflexivity|lia].
  - intros o Ho. apply in_map_iff in Ho. destruct Ho as (addrs & <- & _).
    unfold worker_run. apply (run_clock_ok tm dl m port hosts A Hb).
    exists 0. split; [reflexivity|lia].
Qed.

Lemma probe_time_bounded : forall tm r, read_deadline tm = Some r ->
  forall b, exists d, probe_time tm b = Some d /\ d <= allowance tm.
Proof.
  intros tm r Hr b. unfold allowance, probe_time, min_opt. rewrite Hr.
  destruct b; eexists; (split; [reflexivity|]); lia.
Qed.

Lemma run_time_bounded : forall tm r dl m port hosts work, read_deadline tm = Some r ->
  exists t, run_time tm dl m port hosts work = Some t /\ t <= dl + allowance tm.
Proof.
  intros. apply run_time_bounded_gen. apply (probe_time_bounded tm r). assumption.
Qed.

(* without a read deadline (the code as it is) one silent host that is not skipped blocks the run *)
Lemma run_time_unbounded : forall t s dl m port hosts a,
  0 < dl -> skip m port a = false ->
  (hosts a = Silent \/ hosts a = StallExchange \/ exists c i, hosts a = AnswerNoClose c i) ->
  run_time (go_timers t s) dl m port hosts [[a]] = None.
Proof.
  intros t s dl m port hosts a Hdl Hs Hh.
  unfold run_time, worker_run. cbn [fold_left]. unfold worker_step at 1. cbn [w_init stopped clock].
  assert (E : dl <=? 0 = false) by (apply N.leb_gt; exact Hdl).
  rewrite E, Hs.
  destruct Hh as [->|[->|(c & i & ->)]]; reflexivity.
Qed.

Lemma run_time_refuted : forall t s dl, 0 < dl ->
  exists m port hosts work, run_time (go_timers t s) dl m port hosts work = None.
Proof.
  intros t s dl H. exists (fun _ => None), 5084, (fun _ => Silent), [[1]].
  apply run_time_unbounded; [exact H|reflexivity|left; reflexivity].
Qed.

(* the port is part of the key: devices registered on OTHER ports of a host neither hide nor
   replace the entry for (host, scan port) *)
Lemma other_ports_irrelevant : forall devs port a,
  skip (make_device_map devs) port a =
  skip (make_device_map (filter (fun d => match d_addr d with
                                          | Some k => key_eqb k (a, port) | None => false end) devs)) port a.
Proof.
  intros devs port a. unfold skip, make_device_map.
  assert (G : forall (m1 m2 : dev_map), m1 (a, port) = m2 (a, port) ->
    fold_left map_add devs m1 (a, port) =
    fold_left map_add (filter (fun d => match d_addr d with
                                        | Some k => key_eqb k (a, port) | None => false end) devs) m2 (a, port)).
  { induction devs as [|d devs IH]; intros m1 m2 E; [exact E|].
    cbn [fold_left filter]. destruct (d_addr d) as [k|] eqn:Ek.
    - destruct (key_eqb k (a, port)) eqn:Ekk.
      + cbn [fold_left]. apply IH. unfold map_add. rewrite Ek.
        apply key_eqb_eq in Ekk. subst k. rewrite key_eqb_refl. reflexivity.
      + apply IH. unfold map_add. rewrite Ek.
        destruct (key_eqb (a, port) k) eqn:E2; [|exact E].
        apply key_eqb_eq in E2. subst k. rewrite key_eqb_refl in Ekk. discriminate.
    - apply IH. unfold map_add. rewrite Ek. exact E. }
  rewrite (G (fun _ => None) (fun _ => None) eq_refl). reflexivity.
Qed.

Lemma no_dial_after_deadline : forall tm dl m port hosts work t,
  In t (run_dial_times tm dl m port hosts work) -> t < dl.
Proof.
  intros tm dl m port hosts work t Hin.
  unfold run_dial_times in Hin. apply in_flat_map in Hin. destruct Hin as (addrs & _ & Hin).
  assert (P : dials_ok dl (worker_run tm dl m port hosts addrs 0)).
  { unfold worker_run. apply run_dials_ok. intros x []. }
  exact (P t Hin).
Qed.
