(* Proofs about Discover/Config.v *)
From Coq Require Import NArith List Lia.
From LLRP Require Import Discover.Naming Discover.Run Discover.RunProofs Discover.Config.
Import ListNotations.
Open Scope N_scope.

Lemma crun_app : forall evs1 evs2 c0,
  crun c0 (evs1 ++ evs2) = fold_left cstep evs2 (crun c0 evs1).
Proof. intros. unfold crun. apply fold_left_app. Qed.

Lemma in_force_fold : forall evs st,
  in_force (fold_left cstep evs st) =
  fold_left (fun c ev => match ev with Deliver c' => c' | _ => c end) evs (in_force st).
Proof.
  induction evs as [|ev evs IH]; intros st; [reflexivity|].
  cbn [fold_left]. rewrite IH. destruct ev; reflexivity.
Qed.

(* the configuration in force after any history is the last one delivered *)
Lemma in_force_last_delivered : forall c0 evs, in_force (crun c0 evs) = last_delivered c0 evs.
Proof. intros. unfold crun, last_delivered. rewrite in_force_fold. reflexivity. Qed.

(* every run uses the configuration that was the last one delivered when it started *)
Lemma run_uses_last_delivered : forall c0 evs,
  used (crun c0 (evs ++ [Discover])) = last_delivered c0 evs :: used (crun c0 evs).
Proof.
  intros. rewrite crun_app. cbn [fold_left cstep]. rewrite in_force_last_delivered. reflexivity.
Qed.

Lemma last_delivered_app : forall c0 evs1 evs2,
  last_delivered c0 (evs1 ++ evs2) = last_delivered (last_delivered c0 evs1) evs2.
Proof. intros. unfold last_delivered. apply fold_left_app. Qed.

Definition no_delivery (evs : list cevent) : Prop := forall c, ~ In (Deliver c) evs.

Lemma last_delivered_no_delivery : forall evs c, no_delivery evs -> last_delivered c evs = c.
Proof.
  induction evs as [|ev evs IH]; intros c H; [reflexivity|].
  unfold last_delivered in *. cbn [fold_left]. destruct ev as [c'| |].
  - exfalso. apply (H c'). left. reflexivity.
  - apply IH. intros x Hx. apply (H x). right. exact Hx.
  - apply IH. intros x Hx. apply (H x). right. exact Hx.
Qed.

(* a section delivered and not superseded is the one the next run uses — whatever came before, whatever
   (runs, deliveries of other types) lies in between *)
Lemma delivered_then_used : forall c0 evs c evs',
  no_delivery evs' ->
  used (crun c0 (evs ++ Deliver c :: evs' ++ [Discover])) = c :: used (crun c0 (evs ++ Deliver c :: evs')).
Proof.
  intros c0 evs c evs' H.
  replace (evs ++ Deliver c :: evs' ++ [Discover]) with ((evs ++ Deliver c :: evs') ++ [Discover])
    by (rewrite <- app_assoc; reflexivity).
  rewrite run_uses_last_delivered. f_equal.
  rewrite last_delivered_app. change (Deliver c :: evs') with ([Deliver c] ++ evs').
  rewrite last_delivered_app. apply last_delivered_no_delivery. exact H.
Qed.

(* with no delivery at all the start-up configuration stays in force *)
Lemma startup_config_used : forall c0 evs, no_delivery evs ->
  used (crun c0 (evs ++ [Discover])) = c0 :: used (crun c0 evs).
Proof. intros. rewrite run_uses_last_delivered, last_delivered_no_delivery by assumption. reflexivity. Qed.

(* the maximum duration that bounds a run is the one last delivered: no dial of the run begins at or after it *)
Lemma run_obeys_last_delivered_maximum : forall c0 evs tm m hosts work t,
  let c := last_delivered c0 evs in
  c_max_s c <> 0 ->
  In t (run_dial_times tm (1000 * c_max_s c) m (c_port c) hosts work) -> t < 1000 * c_max_s c.
Proof. intros c0 evs tm m hosts work t c _ H. exact (no_dial_after_deadline _ _ _ _ _ _ _ H). Qed.

Lemma run_deadline_spec : forall c,
  (c_max_s c = 0 -> run_deadline c = None) /\ (c_max_s c <> 0 -> run_deadline c = Some (1000 * c_max_s c)).
Proof.
  intros c. unfold run_deadline, discover_deadline. split; intros H.
  - rewrite H. reflexivity.
  - apply N.eqb_neq in H. rewrite H. reflexivity.
Qed.
