(* Model of the device-name construction in internal/driver/discover.go (probe, lines 404-435)
   and of ImpinjModelType.HostnamePrefix (internal/driver/types.go).
   Executable definitions only; proofs are in NamingProofs.v.

   Strings are lists of character codes (N); reader ids are lists of bytes (N, < 256). *)
From Coq Require Import String Ascii NArith List Bool.
Import ListNotations.
Open Scope N_scope.

Definition str (s : string) : list N := map N_of_ascii (list_ascii_of_string s).

Definition dash : N := 45.   (* '-' *)

(* ---- hex digits, written out ---- *)
(* '0' = 48, 'a' = 97, 'A' = 65 *)
Definition hex_digit_lower (d : N) : N := if d <? 10 then 48 + d else 87 + d.
Definition hex_digit_upper (d : N) : N := if d <? 10 then 48 + d else 55 + d.

(* fmt "%02x" / "%02X" of one byte: always two digits *)
Definition hex2_lower (b : N) : list N := [hex_digit_lower (b / 16); hex_digit_lower (b mod 16)].
Definition hex2_upper (b : N) : list N := [hex_digit_upper (b / 16); hex_digit_upper (b mod 16)].

(* hex.EncodeToString *)
Definition hex_lower (bs : list N) : list N := flat_map hex2_lower bs.

(* strings.Join(parts, "-") *)
Fixpoint join_dash (parts : list (list N)) : list N :=
  match parts with
  | [] => []
  | [p] => p
  | p :: rest => p ++ dash :: join_dash rest
  end.

(* ---- prefix: types.go ---- *)
Definition impinj_pen : N := 25882.

Definition SpeedwayR220 : N := 2001001.
Definition SpeedwayR420 : N := 2001002.
Definition XPortal      : N := 2001003.
Definition XArrayWM     : N := 2001004.
Definition XArrayEAP    : N := 2001006.
Definition XArray       : N := 2001007.
Definition XSpan        : N := 2001008.
Definition SpeedwayR120 : N := 2001009.
Definition R700         : N := 2001052.

Definition default_prefix : list N := str "LLRP".

(* func (imt ImpinjModelType) HostnamePrefix() string { switch imt { ... } } *)
Definition hostname_prefix (model : N) : list N :=
  if (model =? SpeedwayR120) || (model =? SpeedwayR220) || (model =? SpeedwayR420)
     || (model =? R700) || (model =? XPortal) then str "SpeedwayR"
  else if model =? XSpan then str "xSpan"
  else if (model =? XArray) || (model =? XArrayEAP) || (model =? XArrayWM) then str "xArray"
  else default_prefix.

(* prefix := defaultDevicePrefix; if VendorIDType(info.vendor) == Impinj { prefix = ...HostnamePrefix() } *)
Definition prefix (vendor model : N) : list N :=
  if vendor =? impinj_pen then hostname_prefix model else default_prefix.

(* ---- suffix: discover.go 426-433 ---- *)
Definition id_mac_eui64 : N := 0.
Definition id_epc : N := 1.

(* rID[len(rID)-3:]  (only evaluated when len(rID) >= 3) *)
Definition last3 (rid : list N) : list N := skipn (length rid - 3) rid.

(* fmt.Sprintf("%02X-%02X-%02X", mac[0], mac[1], mac[2]) for the 3-element mac *)
Definition mac_suffix (rid : list N) : list N := join_dash (map hex2_upper (last3 rid)).

Definition is_mac_branch (idtype : N) (rid : list N) : bool :=
  (idtype =? id_mac_eui64) && (Nat.leb 3 (length rid)).

Definition suffix (idtype : N) (rid : list N) : list N :=
  if is_mac_branch idtype rid then mac_suffix rid else hex_lower rid.

(* info.deviceName = prefix + "-" + suffix *)
Definition device_name (vendor model idtype : N) (rid : list N) : list N :=
  prefix vendor model ++ dash :: suffix idtype rid.

(* ---- what probe returns after a completed exchange ---- *)
Record info := mk_info {
  i_name : list N; i_vendor : N; i_model : N; i_fw : list N
}.

(* caps: GeneralDeviceCapabilities if present (manufacturer, model, firmware);
   ident: Identification if present (id type, reader id).
   No identification => error (nothing reported). No capabilities => vendor/model 0, firmware "". *)
Definition probe_info (caps : option (N * N * list N)) (ident : option (N * list N)) : option info :=
  match ident with
  | None => None
  | Some (idtype, rid) =>
    let '(v, m, fw) := match caps with Some c => c | None => (0, 0, []) end in
    Some (mk_info (device_name v m idtype rid) v m fw)
  end.

(* ---- independent reading of hex text (used by the specification side only) ---- *)
Definition unhex_digit_lower (c : N) : option N :=
  if (48 <=? c) && (c <=? 57) then Some (c - 48)
  else if (97 <=? c) && (c <=? 102) then Some (c - 87) else None.
Definition unhex_digit_upper (c : N) : option N :=
  if (48 <=? c) && (c <=? 57) then Some (c - 48)
  else if (65 <=? c) && (c <=? 70) then Some (c - 55) else None.

Fixpoint unhex (dig : N -> option N) (cs : list N) : option (list N) :=
  match cs with
  | [] => Some []
  | hi :: lo :: rest =>
    match dig hi, dig lo, unhex dig rest with
    | Some h, Some l, Some bs => Some (16 * h + l :: bs)
    | _, _, _ => None
    end
  | _ => None
  end.
