From Coq Require Import NArith ZArith List Bool Lia ZifyN ZifyNat ZifyBool FinFun.
From LLRP Require Import Discover.Subnet.
Import ListNotations.
Open Scope N_scope.
Ltac Zify.zify_post_hook ::= Z.div_mod_to_equations.

(* ---------- finite facts about the 33 masks ---------- *)
Definition prefixes : list N := map N.of_nat (seq 0 33).

Lemma in_prefixes p : p <= 32 -> In p prefixes.
Proof.
  intros H. unfold prefixes. apply in_map_iff. exists (N.to_nat p). split; [lia|].
  apply in_seq. lia.
Qed.

Lemma umask_of_spec p : p <= 32 -> umask_of p = two32 - 2 ^ (32 - p).
Proof.
  intros H.
  assert (F : forallb (fun p => umask_of p =? two32 - 2 ^ (32 - p)) prefixes = true)
    by (vm_compute; reflexivity).
  rewrite forallb_forall in F. apply N.eqb_eq, F, in_prefixes, H.
Qed.

Lemma not32_umask p : p <= 32 -> not32 (umask_of p) = 2 ^ (32 - p) - 1.
Proof.
  intros H.
  assert (F : forallb (fun p => not32 (umask_of p) =? 2 ^ (32 - p) - 1) prefixes = true)
    by (vm_compute; reflexivity).
  rewrite forallb_forall in F. apply N.eqb_eq, F, in_prefixes, H.
Qed.

(* ---------- bit lemmas ---------- *)
Lemma testbit_high a n k : a < 2 ^ k -> k <= n -> N.testbit a n = false.
Proof.
  intros Ha Hn. destruct (N.eq_dec a 0) as [->|Hz]; [apply N.bits_0|].
  apply N.bits_above_log2. apply N.lt_le_trans with k; [|exact Hn].
  apply N.log2_lt_pow2; lia.
Qed.

Lemma land_shiftl_ones a p h :
  a < 2 ^ (p + h) -> N.land a (N.shiftl (N.ones p) h) = a / 2 ^ h * 2 ^ h.
Proof.
  intros Ha. rewrite <- N.shiftr_div_pow2, <- N.shiftl_mul_pow2.
  apply N.bits_inj. intros n. rewrite N.land_spec.
  destruct (N.lt_ge_cases n h) as [Hl|Hg].
  - rewrite !N.shiftl_spec_low by exact Hl. apply andb_false_r.
  - rewrite !N.shiftl_spec_high' by exact Hg.
    rewrite N.shiftr_spec'. replace (n - h + h) with n by lia.
    destruct (N.lt_ge_cases (n - h) p) as [Hp|Hp].
    + rewrite N.ones_spec_low by exact Hp. apply andb_true_r.
    + rewrite N.ones_spec_high by exact Hp. rewrite andb_false_r.
      symmetry. apply testbit_high with (p + h); [exact Ha|lia].
Qed.

Lemma pow_split p : p <= 32 -> two32 = 2 ^ p * 2 ^ (32 - p).
Proof. intros H. rewrite <- N.pow_add_r. replace (p + (32 - p)) with 32 by lia. reflexivity. Qed.

Lemma net_id_spec a p : a < two32 -> p <= 32 ->
  net_id a p = a / 2 ^ (32 - p) * 2 ^ (32 - p).
Proof.
  intros Ha Hp. unfold net_id, umask_of. apply land_shiftl_ones.
  replace (p + (32 - p)) with 32 by lia. exact Ha.
Qed.

(* the network address is the address with its host bits cleared *)
Lemma net_id_sub_mod a p : a < two32 -> p <= 32 -> net_id a p = a - a mod 2 ^ (32 - p).
Proof.
  intros Ha Hp. rewrite net_id_spec by assumption.
  assert (2 ^ (32 - p) <> 0) by (apply N.pow_nonzero; lia).
  pose proof (N.div_mod a (2 ^ (32 - p)) H) as E.
  remember (a / 2 ^ (32 - p)) as q. remember (a mod 2 ^ (32 - p)) as r.
  remember (2 ^ (32 - p)) as m. clear - E. nia.
Qed.

Lemma net_id_bound a p : a < two32 -> p <= 32 -> net_id a p + 2 ^ (32 - p) <= two32.
Proof.
  intros Ha Hp. rewrite net_id_spec by assumption.
  set (h := 32 - p). assert (Hh : 2 ^ h <> 0) by (apply N.pow_nonzero; lia).
  assert (Hq : a / 2 ^ h < 2 ^ p).
  { apply N.div_lt_upper_bound; [exact Hh|].
    replace (2 ^ h * 2 ^ p) with two32 by (rewrite (pow_split p Hp); unfold h; lia). exact Ha. }
  rewrite (pow_split p Hp). fold h. nia.
Qed.

Lemma land_low_zero q h : N.land (q * 2 ^ h) (2 ^ h - 1) = 0.
Proof.
  rewrite <- N.shiftl_mul_pow2. replace (2 ^ h - 1) with (N.ones h)
    by (rewrite N.ones_equiv; lia).
  apply N.bits_inj. intros n. rewrite N.land_spec, N.bits_0.
  destruct (N.lt_ge_cases n h) as [Hl|Hg].
  - rewrite N.shiftl_spec_low by exact Hl. reflexivity.
  - rewrite N.ones_spec_high by exact Hg. apply andb_false_r.
Qed.

(* the broadcast address is the network address with all host bits set *)
Lemma bcast_spec a p : a < two32 -> p <= 32 ->
  bcast a p = net_id a p + 2 ^ (32 - p) - 1.
Proof.
  intros Ha Hp. unfold bcast. rewrite not32_umask by exact Hp.
  rewrite <- N.add_nocarry_lxor.
  - assert (2 ^ (32 - p) <> 0) by (apply N.pow_nonzero; lia). lia.
  - rewrite net_id_spec by assumption. apply land_low_zero.
Qed.

Lemma land_umask_in_net a p x : a < two32 -> p <= 32 ->
  net_id a p <= x < net_id a p + 2 ^ (32 - p) ->
  N.land x (umask_of p) = net_id a p.
Proof.
  intros Ha Hp Hx. pose proof (net_id_bound a p Ha Hp) as Hb.
  assert (Hx32 : x < two32) by lia.
  fold (net_id x p). rewrite (net_id_spec x p Hx32 Hp).
  rewrite net_id_spec in * by assumption.
  set (h := 32 - p) in *. set (q := a / 2 ^ h) in *.
  assert (Hh : 2 ^ h <> 0) by (apply N.pow_nonzero; lia).
  assert (x / 2 ^ h = q); [|congruence].
  symmetry. apply (N.div_unique x (2 ^ h) q (x - q * 2 ^ h)); lia.
Qed.

(* ---------- the loop ---------- *)
Definition hosts_from (s : N) (n : nat) : list N := map (fun k => s + N.of_nat k) (seq 0 n).

Lemma loop_invariant a p n :
  a < two32 -> 2 <= p <= 30 ->
  let nid := net_id a p in
  N.of_nat n <= 2 ^ (32 - p) - 2 ->
  N.iter (N.of_nat n) (loop_step nid (bcast a p) (umask_of p)) (nid + 1, [])
  = (nid + 1 + N.of_nat n, rev (hosts_from (nid + 1) n)).
Proof.
  intros Ha Hp nid. assert (Hp32 : p <= 32) by lia.
  pose proof (net_id_bound a p Ha Hp32) as Hb. fold nid in Hb.
  pose proof (bcast_spec a p Ha Hp32) as Hbc. fold nid in Hbc.
  induction n as [|n IH]; intros Hn.
  - cbn. f_equal. lia.
  - rewrite Nnat.Nat2N.inj_succ, N.iter_succ. rewrite IH by lia. clear IH.
    unfold loop_step at 1.
    assert (Hlt : (nid + 1 + N.of_nat n <? bcast a p) = true) by (apply N.ltb_lt; lia).
    rewrite Hlt. f_equal.
    + unfold u32. rewrite N.mod_small by (unfold two32 in *; lia). lia.
    + rewrite (land_umask_in_net a p (nid + 1 + N.of_nat n)) by (fold nid; lia).
      rewrite (land_umask_in_net a p nid) by (fold nid; lia).
      fold nid. rewrite N.eqb_refl.
      unfold hosts_from. rewrite seq_S, map_app, rev_app_distr. cbn. reflexivity.
Qed.

Lemma pow_ge_4 p : 2 <= p <= 30 -> 4 <= 2 ^ (32 - p).
Proof. intros H. change 4 with (2 ^ 2). apply N.pow_le_mono_r; lia. Qed.

Lemma loop_spec a p : a < two32 -> 2 <= p <= 30 ->
  loop (net_id a p) (bcast a p) (umask_of p)
  = (bcast a p, rev (hosts_from (net_id a p + 1) (N.to_nat (2 ^ (32 - p) - 2)))).
Proof.
  intros Ha Hp. assert (Hp32 : p <= 32) by lia.
  pose proof (net_id_bound a p Ha Hp32) as Hb.
  pose proof (bcast_spec a p Ha Hp32) as Hbc. pose proof (pow_ge_4 p Hp) as H4.
  unfold loop. unfold u32. rewrite N.mod_small by (unfold two32 in *; lia).
  replace (bcast a p - (net_id a p + 1)) with (N.of_nat (N.to_nat (2 ^ (32 - p) - 2))) by lia.
  rewrite loop_invariant by (try assumption; lia). f_equal. lia.
Qed.

(* the number of iterations given to the model loop is enough: the loop
   condition [ip < bcast] is false in the final state *)
Lemma loop_fuel_sufficient a p : a < two32 -> 2 <= p <= 30 ->
  fst (loop (net_id a p) (bcast a p) (umask_of p)) <? bcast a p = false.
Proof. intros Ha Hp. rewrite loop_spec by assumption. cbn. apply N.ltb_irrefl. Qed.

Lemma ip_gen_closed_form a p : a < two32 -> 2 <= p <= 30 ->
  ip_gen a p = hosts_from (net_id a p + 1) (N.to_nat (2 ^ (32 - p) - 2)).
Proof.
  intros Ha Hp. unfold ip_gen.
  replace (p <=? 1) with false by (symmetry; apply N.leb_gt; lia).
  replace (31 <=? p) with false by (symmetry; apply N.leb_gt; lia).
  rewrite loop_spec by assumption. cbn [snd]. rewrite <- rev_alt. apply rev_involutive.
Qed.

Lemma in_hosts_from s n x : In x (hosts_from s n) <-> s <= x < s + N.of_nat n.
Proof.
  unfold hosts_from. rewrite in_map_iff. split.
  - intros [k [<- Hk]]. apply in_seq in Hk. lia.
  - intros H. exists (N.to_nat (x - s)). split; [lia|]. apply in_seq. lia.
Qed.

Lemma NoDup_hosts_from s n : NoDup (hosts_from s n).
Proof.
  unfold hosts_from. apply FinFun.Injective_map_NoDup; [|apply seq_NoDup].
  intros x y H. lia.
Qed.

(* ---- C16 main statements ---- *)

(* exactly the addresses strictly between network and broadcast address *)
Theorem ip_gen_exact a p x : a < two32 -> 2 <= p <= 30 ->
  In x (ip_gen a p) <-> (a - a mod 2 ^ (32 - p) < x < a - a mod 2 ^ (32 - p) + 2 ^ (32 - p) - 1).
Proof.
  intros Ha Hp. rewrite ip_gen_closed_form by assumption. rewrite in_hosts_from.
  rewrite <- net_id_sub_mod by (try assumption; lia).
  pose proof (pow_ge_4 p Hp). lia.
Qed.

Theorem ip_gen_nodup a p : a < two32 -> p <= 32 -> NoDup (ip_gen a p).
Proof.
  intros Ha Hp. destruct (N.le_gt_cases p 1) as [H1|H1].
  - unfold ip_gen. replace (p <=? 1) with true by (symmetry; apply N.leb_le; lia). constructor.
  - destruct (N.le_gt_cases 31 p) as [H31|H31].
    + unfold ip_gen. replace (p <=? 1) with false by (symmetry; apply N.leb_gt; lia).
      replace (31 <=? p) with true by (symmetry; apply N.leb_le; lia).
      constructor; [intros []|constructor].
    + rewrite ip_gen_closed_form by (try assumption; lia). apply NoDup_hosts_from.
Qed.

Theorem ip_gen_ascending a p k : a < two32 -> 2 <= p <= 30 ->
  nth_error (ip_gen a p) k =
  if N.of_nat k <? 2 ^ (32 - p) - 2 then Some (net_id a p + 1 + N.of_nat k) else None.
Proof.
  intros Ha Hp. rewrite ip_gen_closed_form by assumption. unfold hosts_from.
  destruct (N.ltb_spec (N.of_nat k) (2 ^ (32 - p) - 2)) as [H|H].
  - rewrite nth_error_map. rewrite nth_error_nth' with (d := 0%nat) by (rewrite seq_length; lia).
    rewrite seq_nth by lia. reflexivity.
  - apply nth_error_None. rewrite map_length, seq_length. lia.
Qed.

Theorem ip_gen_single a p : a < two32 -> 31 <= p <= 32 ->
  ip_gen a p = [a - a mod 2 ^ (32 - p)].
Proof.
  intros Ha Hp. unfold ip_gen.
  replace (p <=? 1) with false by (symmetry; apply N.leb_gt; lia).
  replace (31 <=? p) with true by (symmetry; apply N.leb_le; lia).
  rewrite net_id_sub_mod by (try assumption; lia). reflexivity.
Qed.

Lemma compute_net_sz_spec p : 2 <= p <= 32 ->
  compute_net_sz p = if 31 <=? p then 1 else 2 ^ (32 - p) - 2.
Proof.
  intros H.
  assert (F : forallb (fun p => (p <? 2) || (compute_net_sz p =?
             if 31 <=? p then 1 else 2 ^ (32 - p) - 2)) prefixes = true)
    by (vm_compute; reflexivity).
  rewrite forallb_forall in F. specialize (F p (in_prefixes p ltac:(lia))).
  apply orb_true_iff in F. destruct F as [F|F]; [apply N.ltb_lt in F; lia|].
  apply N.eqb_eq, F.
Qed.

Theorem estimate_eq_count a p : a < two32 -> 2 <= p <= 32 ->
  N.of_nat (length (ip_gen a p)) = compute_net_sz p.
Proof.
  intros Ha Hp. rewrite compute_net_sz_spec by exact Hp.
  destruct (N.leb_spec 31 p) as [H|H].
  - rewrite ip_gen_single by (try assumption; lia). reflexivity.
  - rewrite ip_gen_closed_form by (try assumption; lia).
    unfold hosts_from. rewrite map_length, seq_length. lia.
Qed.

Theorem ip_gen_nth_correct a p k : a < two32 -> 2 <= p <= 32 ->
  nth_error (ip_gen a p) (N.to_nat k) = ip_gen_nth a p k.
Proof.
  intros Ha Hp. unfold ip_gen_nth, ip_gen_count.
  replace (p <=? 1) with false by (symmetry; apply N.leb_gt; lia).
  destruct (N.leb_spec 31 p) as [H|H].
  - rewrite ip_gen_single by (try assumption; lia).
    rewrite net_id_sub_mod by (try assumption; lia).
    destruct (N.ltb_spec k 1) as [Hk|Hk].
    + replace k with 0 by lia. reflexivity.
    + apply nth_error_None. cbn. lia.
  - rewrite ip_gen_ascending by (try assumption; lia).
    rewrite Nnat.N2Nat.id. reflexivity.
Qed.

(* a hand-built IPNet: same enumeration for prefixes up to 30 whatever host bits the IP field
   carries; for /31,/32 the IP field itself, which is the network address when it is aligned *)
Theorem ip_gen_raw_spec ip p : ip < two32 -> 2 <= p <= 32 ->
  (p <= 30 -> ip_gen_raw ip p = ip_gen ip p) /\
  (31 <= p -> ip_gen_raw ip p = [ip] /\ (ip mod 2 ^ (32 - p) = 0 -> ip_gen_raw ip p = ip_gen ip p)).
Proof.
  intros Hi Hp. unfold ip_gen_raw. split.
  - intros H. replace (31 <=? p) with false by (symmetry; apply N.leb_gt; lia). reflexivity.
  - intros H. replace (31 <=? p) with true by (symmetry; apply N.leb_le; lia).
    replace (p <=? 1) with false by (symmetry; apply N.leb_gt; lia). cbn [andb negb]. split; [reflexivity|].
    intros Ha. rewrite ip_gen_single by (try assumption; lia). rewrite Ha. f_equal. lia.
Qed.

(* ---------- the generator as a process: prefix + cancellation ---------- *)
Definition gen_inv (full : list N) (g : gen) : Prop := sent g ++ todo g = full.

Lemma gstep_inv sel full g e : gen_inv full g -> gen_inv full (gstep sel g e).
Proof.
  unfold gen_inv, gstep. intros H. destruct (enabled sel g e); [|exact H].
  destruct e; cbn; try exact H.
  destruct (todo g) as [|x r] eqn:E; [rewrite E; exact H|]. cbn. rewrite <- app_assoc. exact H.
Qed.

Lemma grun_inv sel full evs : forall g, gen_inv full g -> gen_inv full (grun sel g evs).
Proof.
  induction evs as [|e evs IH]; intros g H; [exact H|].
  cbn. apply IH, gstep_inv, H.
Qed.

(* whatever happens, what has been sent is a prefix of the enumeration *)
Theorem sent_is_prefix sel a p evs :
  exists rest, sent (grun sel (gen_init a p) evs) ++ rest = ip_gen a p.
Proof.
  exists (todo (grun sel (gen_init a p) evs)).
  apply (grun_inv sel (ip_gen a p) evs (gen_init a p)). reflexivity.
Qed.

Lemma gstep_cancelled sel g e : cancelled g = true -> cancelled (gstep sel g e) = true.
Proof. unfold gstep. intros H. destruct (enabled sel g e); [|exact H]. destruct e; cbn; auto.
  destruct (todo g); cbn; auto. Qed.

Lemma grun_cancelled sel evs : forall g, cancelled g = true -> cancelled (grun sel g evs) = true.
Proof. induction evs as [|e evs IH]; intros g H; [exact H|]. cbn. apply IH, gstep_cancelled, H. Qed.

(* once cancelled, a generator that selects on ctx.Done() is never blocked:
   in every reachable state it is finished or has a step that needs no
   consumer (see-done or return) and that step finishes it *)
Theorem cancel_stops a p evs1 evs2 :
  let g := grun true (gen_init a p) (evs1 ++ EvCancel :: evs2) in
  finished g = true \/
  exists e, (e = EvSeeDone \/ e = EvReturn) /\ enabled true g e = true
            /\ finished (gstep true g e) = true.
Proof.
  intros g.
  assert (Hc : cancelled g = true).
  { unfold g, grun. rewrite fold_left_app. cbn [fold_left].
    apply grun_cancelled. unfold gstep. cbn. reflexivity. }
  destruct (finished g) eqn:Hf; [left; reflexivity|right].
  destruct (todo g) as [|x r] eqn:Ht.
  - exists EvReturn. split; [right; reflexivity|].
    assert (He : enabled true g EvReturn = true) by (unfold enabled; rewrite Hf, Ht; reflexivity).
    split; [exact He|]. unfold gstep. rewrite He. reflexivity.
  - exists EvSeeDone. split; [left; reflexivity|].
    assert (He : enabled true g EvSeeDone = true) by (unfold enabled; rewrite Hf, Ht, Hc; reflexivity).
    split; [exact He|]. unfold gstep. rewrite He. reflexivity.
Qed.

(* without the select (the /31,/32 branch before the fix) a cancelled
   generator with an absent consumer has no enabled step of its own *)
Theorem no_select_blocks a p : a < two32 -> 31 <= p <= 32 ->
  let g := grun false (gen_init a p) [EvCancel] in
  finished g = false /\ enabled false g EvSeeDone = false /\ enabled false g EvReturn = false.
Proof.
  intros Ha Hp g. unfold g. cbn. unfold gstep. cbn.
  rewrite ip_gen_single by assumption. cbn. auto.
Qed.

(* ---------- an uncancelled generator that returned has emitted everything ---------- *)
Definition fin_inv (g : gen) : Prop := finished g = true -> todo g = [] \/ cancelled g = true.

Lemma gstep_fin_inv sel g e : fin_inv g -> fin_inv (gstep sel g e).
Proof.
  unfold fin_inv, gstep. intros H. destruct (enabled sel g e) eqn:He; [|exact H].
  destruct e; cbn [todo cancelled finished].
  - destruct (todo g) as [|x r] eqn:Et; [rewrite Et; exact H|]. cbn. discriminate.
  - intros Hf. right. reflexivity.
  - intros _. right. unfold enabled in He. destruct (cancelled g); [reflexivity|].
    rewrite andb_false_r in He. discriminate.
  - intros _. left. unfold enabled in He. destruct (todo g); [reflexivity|].
    rewrite andb_false_r in He. discriminate.
Qed.

Lemma grun_fin_inv sel evs : forall g, fin_inv g -> fin_inv (grun sel g evs).
Proof. induction evs as [|e evs IH]; intros g H; [exact H|]. cbn. apply IH, gstep_fin_inv, H. Qed.

Theorem uncancelled_complete sel a p evs :
  let g := grun sel (gen_init a p) evs in
  finished g = true -> cancelled g = false -> sent g = ip_gen a p.
Proof.
  intros g Hf Hc.
  assert (Hi : fin_inv g) by (apply grun_fin_inv; unfold fin_inv, gen_init; cbn; discriminate).
  destruct (Hi Hf) as [Ht|Ht]; [|rewrite Ht in Hc; discriminate].
  pose proof (grun_inv sel (ip_gen a p) evs (gen_init a p) eq_refl) as Hg.
  fold g in Hg. unfold gen_inv in Hg. rewrite Ht, app_nil_r in Hg. exact Hg.
Qed.

(* ---------- several subnets ---------- *)
Definition net_ok (n : N * N) : Prop := fst n < two32 /\ 2 <= snd n <= 32.

Lemma estimate_from nets : forall acc,
  fold_left (fun acc n => acc + compute_net_sz (snd n)) nets acc = acc + estimate nets.
Proof.
  unfold estimate. induction nets as [|n nets IH]; intros acc; cbn [fold_left]; [lia|].
  rewrite (IH (acc + _)), (IH (0 + _)). rewrite N.add_0_l, N.add_assoc. reflexivity.
Qed.

Theorem estimate_all nets : Forall net_ok nets ->
  N.of_nat (length (discover_all nets)) = estimate nets.
Proof.
  induction 1 as [|n nets [Ha Hp] _ IH]; [reflexivity|].
  unfold discover_all, estimate in *. cbn [flat_map fold_left]. rewrite app_length, Nat2N.inj_add, IH.
  rewrite (estimate_from nets (0 + _)). unfold estimate. rewrite estimate_eq_count by assumption. lia.
Qed.

Theorem discover_all_in nets x :
  In x (discover_all nets) <-> exists n, In n nets /\ In x (ip_gen (fst n) (snd n)).
Proof. unfold discover_all. apply in_flat_map. Qed.

Lemma count_occ_nodup (l : list N) x : NoDup l ->
  count_occ N.eq_dec l x = if existsb (N.eqb x) l then 1%nat else 0%nat.
Proof.
  induction 1 as [|y l Hy _ IH]; [reflexivity|].
  cbn [count_occ existsb]. destruct (N.eq_dec y x) as [->|Hn].
  - rewrite N.eqb_refl. cbn. rewrite (proj1 (count_occ_not_In N.eq_dec l x) Hy). reflexivity.
  - replace (x =? y) with false by (symmetry; apply N.eqb_neq; congruence). exact IH.
Qed.

(* every address is probed once per configured subnet it is a host of, never otherwise *)
Theorem discover_all_count nets x : Forall net_ok nets ->
  count_occ N.eq_dec (discover_all nets) x = length (filter (is_host x) nets).
Proof.
  induction 1 as [|n nets [Ha Hp] _ IH]; [reflexivity|].
  unfold discover_all in *. cbn [flat_map filter]. rewrite count_occ_app, IH.
  rewrite count_occ_nodup by (apply ip_gen_nodup; [assumption|lia]).
  unfold is_host at 2. destruct (existsb _ _); reflexivity.
Qed.

(* ---- registered devices: skipped by the workers, counted by the estimate ---- *)
Lemma filter_split_length {A} (p : A -> bool) (l : list A) :
  length l = (length (filter p l) + length (filter (fun x => negb (p x)) l))%nat.
Proof.
  induction l as [|x l IH]; [reflexivity|]. cbn [filter]. destruct (p x); cbn [negb length]; lia.
Qed.

Theorem estimate_counts_registered : forall reg nets, Forall net_ok nets ->
  (N.of_nat (length (probed reg nets)) + N.of_nat (length (skipped reg nets)) = estimate nets)%N /\
  (forall x, In x (probed reg nets) <-> In x (discover_all nets) /\ reg x = false).
Proof.
  intros reg nets H. split.
  - rewrite <- (estimate_all nets H). unfold probed, skipped.
    rewrite (filter_split_length reg (discover_all nets)). lia.
  - intros x. unfold probed. rewrite filter_In. split; intros [A B]; split; try assumption.
    + now apply negb_true_iff in B.
    + now apply negb_true_iff.
Qed.
