(* Proofs about Discover/Naming.v *)
From Coq Require Import String Ascii NArith ZArith List Bool Lia ZifyN ZifyNat ZifyBool.
From LLRP Require Import Discover.Naming.
Import ListNotations.
Open Scope N_scope.
Ltac Zify.zify_post_hook ::= Z.div_mod_to_equations.

(* ---------- hex digits denote the bytes ---------- *)
Lemma unhex_digit_lower_ok : forall d, d < 16 -> unhex_digit_lower (hex_digit_lower d) = Some d.
Proof.
  intros d H. unfold unhex_digit_lower, hex_digit_lower.
  destruct (d <? 10) eqn:E.
  - assert (H1 : (48 <=? 48 + d) && (48 + d <=? 57) = true) by lia.
    rewrite H1. f_equal. lia.
  - assert (H1 : (48 <=? 87 + d) && (87 + d <=? 57) = false) by lia.
    assert (H2 : (97 <=? 87 + d) && (87 + d <=? 102) = true) by lia.
    rewrite H1, H2. f_equal. lia.
Qed.

Lemma unhex_digit_upper_ok : forall d, d < 16 -> unhex_digit_upper (hex_digit_upper d) = Some d.
Proof.
  intros d H. unfold unhex_digit_upper, hex_digit_upper.
  destruct (d <? 10) eqn:E.
  - assert (H1 : (48 <=? 48 + d) && (48 + d <=? 57) = true) by lia.
    rewrite H1. f_equal. lia.
  - assert (H1 : (48 <=? 55 + d) && (55 + d <=? 57) = false) by lia.
    assert (H2 : (65 <=? 55 + d) && (55 + d <=? 70) = true) by lia.
    rewrite H1, H2. f_equal. lia.
Qed.

Lemma unhex_lower_hex_lower : forall bs, Forall (fun b => b < 256) bs ->
  unhex unhex_digit_lower (hex_lower bs) = Some bs.
Proof.
  induction 1 as [|b bs Hb _ IH]; [reflexivity|].
  cbn [hex_lower flat_map hex2_lower app unhex]. fold (hex_lower bs).
  rewrite !unhex_digit_lower_ok by lia. rewrite IH. do 2 f_equal. lia.
Qed.

Lemma unhex_upper_hex2_upper : forall b, b < 256 ->
  unhex unhex_digit_upper (hex2_upper b) = Some [b].
Proof.
  intros b Hb. cbn [hex2_upper unhex].
  rewrite !unhex_digit_upper_ok by lia. do 2 f_equal. lia.
Qed.

(* the characters produced are from the stated alphabets *)
Definition is_lower_hex_char (c : N) : Prop := 48 <= c <= 57 \/ 97 <= c <= 102.
Definition is_upper_hex_char (c : N) : Prop := 48 <= c <= 57 \/ 65 <= c <= 70.

Lemma hex_lower_chars : forall bs, Forall (fun b => b < 256) bs -> Forall is_lower_hex_char (hex_lower bs).
Proof.
  induction 1 as [|b bs Hb _ IH]; [constructor|].
  cbn [hex_lower flat_map hex2_lower app]. fold (hex_lower bs).
  unfold is_lower_hex_char, hex_digit_lower.
  constructor; [|constructor; [|exact IH]].
  - destruct (b / 16 <? 10) eqn:E; lia.
  - destruct (b mod 16 <? 10) eqn:E; lia.
Qed.

Lemma hex2_upper_chars : forall b, b < 256 -> Forall is_upper_hex_char (hex2_upper b).
Proof.
  intros b Hb. unfold hex2_upper, is_upper_hex_char, hex_digit_upper.
  constructor; [|constructor; [|constructor]].
  - destruct (b / 16 <? 10) eqn:E; lia.
  - destruct (b mod 16 <? 10) eqn:E; lia.
Qed.

Lemma hex_lower_length : forall bs, length (hex_lower bs) = (2 * length bs)%nat.
Proof. induction bs as [|b bs IH]; [reflexivity|]. cbn [hex_lower flat_map hex2_lower app length] in *. fold (hex_lower bs). lia. Qed.

(* ---------- last three octets ---------- *)
Lemma last3_app : forall pre a b c, last3 (pre ++ [a; b; c]) = [a; b; c].
Proof.
  intros. unfold last3. rewrite app_length. cbn [length].
  replace (length pre + 3 - 3)%nat with (length pre + 0)%nat by lia.
  rewrite skipn_app, skipn_all2 by lia.
  replace (length pre + 0 - length pre)%nat with 0%nat by lia. reflexivity.
Qed.

Lemma split_last3 : forall rid : list N, (3 <= length rid)%nat ->
  exists pre a b c, rid = pre ++ [a; b; c].
Proof.
  intros rid H.
  exists (firstn (length rid - 3) rid).
  pose proof (firstn_skipn (length rid - 3) rid) as E.
  assert (L : length (skipn (length rid - 3) rid) = 3%nat) by (rewrite skipn_length; lia).
  destruct (skipn (length rid - 3) rid) as [|a [|b [|c [|d t]]]] eqn:S; cbn [length] in L; try lia.
  exists a, b, c. symmetry. exact E.
Qed.

(* ---------- the name ---------- *)
Lemma name_mac : forall v m pre a b c,
  device_name v m 0 (pre ++ [a; b; c]) =
  prefix v m ++ dash :: hex2_upper a ++ dash :: hex2_upper b ++ dash :: hex2_upper c.
Proof.
  intros. unfold device_name, suffix, is_mac_branch, id_mac_eui64.
  assert (H : (0 =? 0) && (3 <=? length (pre ++ [a; b; c]))%nat = true).
  { rewrite app_length. cbn [length]. apply andb_true_intro. split; [reflexivity|]. apply Nat.leb_le. lia. }
  rewrite H. unfold mac_suffix. rewrite last3_app. reflexivity.
Qed.

Lemma name_other : forall v m t rid, ~ (t = 0 /\ (3 <= length rid)%nat) ->
  device_name v m t rid = prefix v m ++ dash :: hex_lower rid.
Proof.
  intros v m t rid H. unfold device_name, suffix, is_mac_branch, id_mac_eui64.
  destruct ((t =? 0) && (3 <=? length rid)%nat) eqn:E; [|reflexivity].
  exfalso. apply H. apply andb_prop in E. destruct E as [E1 E2].
  apply N.eqb_eq in E1. apply Nat.leb_le in E2. split; assumption.
Qed.

Lemma name_format : forall v m t rid,
  (t = 0 /\ (3 <= length rid)%nat ->
     exists pre a b c, rid = pre ++ [a; b; c] /\
       device_name v m t rid =
       prefix v m ++ dash :: hex2_upper a ++ dash :: hex2_upper b ++ dash :: hex2_upper c) /\
  (~ (t = 0 /\ (3 <= length rid)%nat) ->
     device_name v m t rid = prefix v m ++ dash :: hex_lower rid).
Proof.
  intros v m t rid. split.
  - intros [Ht Hl]. destruct (split_last3 rid Hl) as (pre & a & b & c & E).
    exists pre, a, b, c. split; [exact E|]. subst t rid. apply name_mac.
  - apply name_other.
Qed.

(* ---------- prefix table ---------- *)
Definition speedway_models : list N := [2001001; 2001002; 2001003; 2001009; 2001052].
Definition xarray_models : list N := [2001004; 2001006; 2001007].
Definition xspan_models : list N := [2001008].

Lemma in_list_eqb : forall (x : N) l, In x l <-> existsb (N.eqb x) l = true.
Proof.
  intros. rewrite existsb_exists. split.
  - intros H. exists x. split; [exact H|apply N.eqb_refl].
  - intros (y & Hy & E). apply N.eqb_eq in E. subst. exact Hy.
Qed.

Lemma prefix_table : forall vendor model,
  (vendor = 25882 /\ In model speedway_models -> prefix vendor model = str "SpeedwayR") /\
  (vendor = 25882 /\ In model xspan_models -> prefix vendor model = str "xSpan") /\
  (vendor = 25882 /\ In model xarray_models -> prefix vendor model = str "xArray") /\
  (~ (vendor = 25882 /\ In model (speedway_models ++ xspan_models ++ xarray_models)) ->
     prefix vendor model = str "LLRP").
Proof.
  intros vendor model. unfold prefix, impinj_pen.
  repeat split.
  - intros [-> H]. cbn [speedway_models In] in H.
    decompose [or] H; subst; try contradiction; reflexivity.
  - intros [-> H]. cbn [xspan_models In] in H.
    decompose [or] H; subst; try contradiction; reflexivity.
  - intros [-> H]. cbn [xarray_models In] in H.
    decompose [or] H; subst; try contradiction; reflexivity.
  - intros H. destruct (vendor =? 25882) eqn:E; [|reflexivity].
    apply N.eqb_eq in E. subst vendor.
    unfold hostname_prefix, SpeedwayR120, SpeedwayR220, SpeedwayR420, R700, XPortal, XSpan, XArray, XArrayEAP, XArrayWM.
    destruct (model =? 2001009) eqn:E1; [apply N.eqb_eq in E1; exfalso; apply H; split; [reflexivity|subst; cbn; tauto]|].
    destruct (model =? 2001001) eqn:E2; [apply N.eqb_eq in E2; exfalso; apply H; split; [reflexivity|subst; cbn; tauto]|].
    destruct (model =? 2001002) eqn:E3; [apply N.eqb_eq in E3; exfalso; apply H; split; [reflexivity|subst; cbn; tauto]|].
    destruct (model =? 2001052) eqn:E4; [apply N.eqb_eq in E4; exfalso; apply H; split; [reflexivity|subst; cbn; tauto]|].
    destruct (model =? 2001003) eqn:E5; [apply N.eqb_eq in E5; exfalso; apply H; split; [reflexivity|subst; cbn; tauto]|].
    destruct (model =? 2001008) eqn:E6; [apply N.eqb_eq in E6; exfalso; apply H; split; [reflexivity|subst; cbn; tauto]|].
    destruct (model =? 2001007) eqn:E7; [apply N.eqb_eq in E7; exfalso; apply H; split; [reflexivity|subst; cbn; tauto]|].
    destruct (model =? 2001006) eqn:E8; [apply N.eqb_eq in E8; exfalso; apply H; split; [reflexivity|subst; cbn; tauto]|].
    destruct (model =? 2001004) eqn:E9; [apply N.eqb_eq in E9; exfalso; apply H; split; [reflexivity|subst; cbn; tauto]|].
    reflexivity.
Qed.

(* the prefix contains no '-' (so <prefix>-<id> splits uniquely at the first dash) *)
Lemma prefix_values : forall vendor model,
  In (prefix vendor model) [str "SpeedwayR"; str "xSpan"; str "xArray"; str "LLRP"].
Proof.
  intros. unfold prefix, hostname_prefix, default_prefix.
  destruct (vendor =? impinj_pen); [|cbn; tauto].
  destruct (_ || _ || _ || _ || _); [cbn; tauto|].
  destruct (model =? XSpan); [cbn; tauto|].
  destruct (_ || _ || _); cbn; tauto.
Qed.

(* ---------- determinism and identity pass-through ---------- *)
Lemma name_deterministic : forall v m t rid v' m' t' rid',
  v = v' -> m = m' -> t = t' -> rid = rid' -> device_name v m t rid = device_name v' m' t' rid'.
Proof. intros; subst; reflexivity. Qed.

Lemma probe_info_spec : forall caps ident i,
  probe_info caps ident = Some i <->
  exists t rid, ident = Some (t, rid) /\
    ((exists v m fw, caps = Some (v, m, fw) /\ i = mk_info (device_name v m t rid) v m fw) \/
     (caps = None /\ i = mk_info (device_name 0 0 t rid) 0 0 [])).
Proof.
  intros caps ident i. unfold probe_info. split.
  - destruct ident as [[t rid]|]; [|discriminate].
    destruct caps as [[[v m] fw]|]; intros H; inversion H; subst; exists t, rid; split; try reflexivity.
    + left. exists v, m, fw. split; reflexivity.
    + right. split; reflexivity.
  - intros (t & rid & -> & [(v & m & fw & -> & ->)|[-> ->]]); reflexivity.
Qed.

Lemma probe_info_none : forall caps, probe_info caps None = None.
Proof. reflexivity. Qed.

Lemma hex_lower_denotes : forall rid, Forall (fun b => b < 256) rid ->
  unhex unhex_digit_lower (hex_lower rid) = Some rid /\
  Forall is_lower_hex_char (hex_lower rid) /\
  length (hex_lower rid) = (2 * length rid)%nat.
Proof.
  intros rid H. split; [exact (unhex_lower_hex_lower rid H)|].
  split; [exact (hex_lower_chars rid H)|exact (hex_lower_length rid)].
Qed.

Lemma hex_upper_denotes : forall b, b < 256 ->
  unhex unhex_digit_upper (hex2_upper b) = Some [b] /\ Forall is_upper_hex_char (hex2_upper b) /\
  length (hex2_upper b) = 2%nat.
Proof.
  intros b H. split; [exact (unhex_upper_hex2_upper b H)|]. split; [exact (hex2_upper_chars b H)|reflexivity].
Qed.
