(* Model of internal/driver/discover.go: ipGenerator, computeNetSz.
   Executable definitions only; proofs are in SubnetProofs.v. *)
From Coq Require Import NArith List Bool.
Import ListNotations.
Open Scope N_scope.

Definition two32 : N := 4294967296.
Definition u32 (x : N) : N := x mod two32.

(* net.CIDRMask(p, 32) as a big-endian uint32: p ones followed by 32-p zeros *)
Definition umask_of (p : N) : N := N.shiftl (N.ones p) (32 - p).

(* ^x on uint32 *)
Definition not32 (x : N) : N := N.lxor x (N.ones 32).

Definition net_id (addr p : N) : N := N.land addr (umask_of p).
Definition bcast (addr p : N) : N := N.lxor (net_id addr p) (not32 (umask_of p)).

(* one iteration of
     for ip := netId + 1; ip < bcast; ip++ {
        if netId&umask != ip&umask { continue }
        emit ip }
   state = (ip, emitted-in-reverse) *)
Definition loop_step (nid bc um : N) (st : N * list N) : N * list N :=
  let '(ip, acc) := st in
  if ip <? bc then
    (u32 (ip + 1),
     if N.eqb (N.land nid um) (N.land ip um) then ip :: acc else acc)
  else st.

(* the loop runs while ip < bcast; [bc - (nid+1)] iterations are shown to be
   enough in SubnetProofs.loop_fuel_sufficient (the state after them has
   ip >= bcast, so further iterations change nothing). *)
Definition loop (nid bc um : N) : N * list N :=
  N.iter (bc - u32 (nid + 1)) (loop_step nid bc um) (u32 (nid + 1), []).

(* ipGenerator for an IPv4 address [addr] < 2^32 and a prefix length p <= 32.
   [ip_field] is inet.IP as stored in the IPNet (ParseCIDR stores the masked
   address); for p >= 31 the Go code sends that value. *)
Definition ip_gen (addr p : N) : list N :=
  if p <=? 1 then []
  else if 31 <=? p then [net_id addr p]
  else let um := umask_of p in
       let nid := net_id addr p in
       rev_append (snd (loop nid (bcast addr p) um)) [].

(* ipGenerator called directly with an IPNet whose IP field still has host bits set (not what
   net.ParseCIDR produces): the loop masks the address itself, the /31,/32 branch sends the IP
   field as it is *)
Definition ip_gen_raw (ip p : N) : list N :=
  if (31 <=? p) && negb (p <=? 1) then [ip] else ip_gen ip p.

(* computeNetSz: ^uint32(0)>>subnetSz - 1, 1 for >= 31 *)
Definition compute_net_sz (p : N) : N :=
  if 31 <=? p then 1 else u32 (N.shiftr (N.ones 32) p + two32 - 1).

(* closed form used by the oracle for networks too large to enumerate:
   the k-th emitted address (justified by SubnetProofs.ip_gen_nth) *)
Definition ip_gen_count (p : N) : N :=
  if p <=? 1 then 0 else if 31 <=? p then 1 else 2 ^ (32 - p) - 2.
Definition ip_gen_nth (addr p k : N) : option N :=
  if k <? ip_gen_count p then
    Some (if 31 <=? p then net_id addr p else net_id addr p + 1 + k)
  else None.

(* ---- generator as a process: emission through an unbuffered channel with
   a select on ctx.Done() ------------------------------------------------- *)
Record gen := { todo : list N; sent : list N; cancelled : bool; finished : bool }.

Inductive gev :=
| EvSend      (* consumer is ready and the select picks the send case *)
| EvCancel    (* ctx is cancelled by somebody else *)
| EvSeeDone   (* the select picks <-ctx.Done() *)
| EvReturn.   (* nothing left to emit: the function returns *)

(* [sel p] says whether the emission at prefix p is a select with ctx.Done *)
Definition gen_init (addr p : N) : gen :=
  {| todo := ip_gen addr p; sent := []; cancelled := false; finished := false |}.

Definition enabled (sel : bool) (g : gen) (e : gev) : bool :=
  match e with
  | EvSend => negb (finished g) && match todo g with [] => false | _ => true end
  | EvCancel => true
  | EvSeeDone => sel && cancelled g && negb (finished g)
                 && match todo g with [] => false | _ => true end
  | EvReturn => negb (finished g) && match todo g with [] => true | _ => false end
  end.

Definition gstep (sel : bool) (g : gen) (e : gev) : gen :=
  if enabled sel g e then
    match e with
    | EvSend => match todo g with
                | x :: r => {| todo := r; sent := sent g ++ [x];
                               cancelled := cancelled g; finished := false |}
                | [] => g end
    | EvCancel => {| todo := todo g; sent := sent g; cancelled := true;
                     finished := finished g |}
    | EvSeeDone | EvReturn =>
        {| todo := todo g; sent := sent g; cancelled := cancelled g; finished := true |}
    end
  else g.

Definition grun (sel : bool) (g : gen) (evs : list gev) : gen :=
  fold_left (gstep sel) evs g.

(* ---- autoDiscover over several configured subnets: one generator per accepted subnet, all
   feeding the same channel; the estimate is the sum of computeNetSz over them (Go int, 64 bit:
   at most 2^32 subnets of 2^30 addresses would be needed to wrap it) --------------------- *)
Definition discover_all (nets : list (N * N)) : list N :=
  flat_map (fun n => ip_gen (fst n) (snd n)) nets.
Definition estimate (nets : list (N * N)) : N :=
  fold_left (fun acc n => acc + compute_net_sz (snd n)) nets 0.
(* what a subnet contributes when x is one of its hosts *)
Definition is_host (x : N) (n : N * N) : bool := existsb (N.eqb x) (ip_gen (fst n) (snd n)).

(* devices already registered in EdgeX and operating ([reg x] = an operating device is registered at
   address x on the scanned port): the workers skip them, the generators enumerate them all the same *)
Definition probed (reg : N -> bool) (nets : list (N * N)) : list N :=
  filter (fun x => negb (reg x)) (discover_all nets).
Definition skipped (reg : N -> bool) (nets : list (N * N)) : list N :=
  filter reg (discover_all nets).
