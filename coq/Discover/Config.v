(* The discovery configuration over time (internal/driver/driver.go: updateWritableConfig, Discover, discover).
   The service starts with a configuration; the configuration provider may deliver a new writable AppCustom
   section at any time (updateWritableConfig gets a pointer to a CustomConfig: it REPLACES the section as a whole; anything
   else is logged and ignored); Driver.Discover reads the section when it starts a run.
   Executable definitions only; proofs are in ConfigProofs.v. *)
From Coq Require Import NArith List.
From LLRP Require Import Discover.Naming Discover.Run.
Import ListNotations.
Open Scope N_scope.

Record config := mk_config {
  c_subnets : list N;   (* DiscoverySubnets, the string as its bytes *)
  c_async : N;          (* ProbeAsyncLimit *)
  c_probe_s : N;        (* ProbeTimeoutSeconds *)
  c_port : N;           (* ScanPort *)
  c_max_s : N           (* MaxDiscoverDurationSeconds; 0: no limit *)
}.

Inductive cevent :=
| Deliver (c : config)  (* the provider delivers a writable section: updateWritableConfig with a CustomConfig *)
| DeliverOther          (* updateWritableConfig with a value of another type *)
| Discover.             (* a discovery run starts (Driver.Discover: SDK call or debounced trigger) *)

Record cstate := mk_cstate {
  in_force : config;
  used : list config    (* the configuration each run used, newest first (history) *)
}.

Definition cstep (st : cstate) (ev : cevent) : cstate :=
  match ev with
  | Deliver c => mk_cstate c (used st)
  | DeliverOther => st
  | Discover => mk_cstate (in_force st) (in_force st :: used st)
  end.

Definition crun (c0 : config) (evs : list cevent) : cstate := fold_left cstep evs (mk_cstate c0 []).

(* the specification: the last section delivered so far, the start-up configuration if none was *)
Definition last_delivered (c0 : config) (evs : list cevent) : config :=
  fold_left (fun c ev => match ev with Deliver c' => c' | _ => c end) evs c0.

(* what a run started under [c] is given: the deadline of its context (ms) and the parameters of autoDiscover *)
Definition run_deadline (c : config) : option N := discover_deadline (c_max_s c).
