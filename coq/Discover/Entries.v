(* Discover/Entries.v — the configured subnet list as autoDiscover reads it: each entry either parses to an IPv4
   network (4-byte, or IPv4-mapped with a 128-bit mask), or to a genuine IPv6 network (refused: "only ipv4 subnets
   are supported"), or does not parse as a CIDR at all.  Only accepted entries get a generator; the question is what
   the logged probe estimate counts.  [before_refusal] is the code variant that adds an entry's size to the estimate
   as soon as it parses, i.e. before the IPv6 refusal (HEAD: false). *)
From Coq Require Import NArith List Bool.
From LLRP Require Import Discover.Subnet.
Import ListNotations.
Open Scope N_scope.

Inductive entry :=
| EV4 (a p : N)        (* an IPv4 network a/p *)
| EV6 (p128 : N)       (* a genuine IPv6 network with a prefix of p128 bits (96 <= p128 <= 128 for a size below 2^32) *)
| EBad.                (* not a CIDR *)

Definition accepted (es : list entry) : list (N * N) :=
  flat_map (fun e => match e with EV4 a p => [(a, p)] | _ => [] end) es.

(* what one entry adds to the estimate *)
Definition entry_estimate (before_refusal : bool) (e : entry) : N :=
  match e with
  | EV4 _ p => compute_net_sz p
  | EV6 p128 => if before_refusal then compute_net_sz (p128 - 96) else 0
  | EBad => 0
  end.

Definition estimate_entries (before_refusal : bool) (es : list entry) : N :=
  fold_left (fun acc e => acc + entry_estimate before_refusal e) es 0.

Definition discover_entries (es : list entry) : list N := discover_all (accepted es).
