(* A small model of one discovery run (internal/driver/discover.go: makeDeviceMap, ipWorker,
   probe's blocking structure, processResultChannel) over abstract timers.
   Executable definitions only; proofs are in RunProofs.v.

   A host is a number (the IPv4 address), a port is a number; the Go device map is keyed by the
   string host+":"+port, i.e. by the PAIR (host, port): two registered devices on one host with
   different ports are different keys. A run scans one port ([port]) on every host it is given.
   Time is an abstract number of ticks (N); [None] as a time means "never". *)
From Coq Require Import String Ascii NArith List Bool.
From LLRP Require Import Discover.Naming.
Import ListNotations.
Open Scope N_scope.

(* ---- registered devices and makeDeviceMap ---- *)
Inductive opstate := Up | Down | UnknownState.

Record device := mk_device {
  d_name : list N;
  d_addr : option (N * N); (* (host, port); None: no tcp protocol info, or empty host/port: not a key *)
  d_state : opstate
}.

(* makeDeviceMap: for _, d := range devices { deviceMap[host+":"+port] = d }
   a later device with the same address overwrites an earlier one *)
Definition dev_map := N * N -> option device.
Definition key_eqb (x y : N * N) : bool := (fst x =? fst y) && (snd x =? snd y).
Definition map_add (m : dev_map) (d : device) : dev_map :=
  match d_addr d with
  | None => m
  | Some a => fun x => if key_eqb x a then Some d else m x
  end.
Definition make_device_map (devs : list device) : dev_map :=
  fold_left map_add devs (fun _ => None).

Definition is_up (d : device) : bool := match d_state d with Up => true | _ => false end.

(* ipWorker: addr := ipStr + ":" + params.scanPort
             if d, found := deviceMap[addr]; found { if d.OperatingState == Up { continue } } *)
Definition skip (m : dev_map) (port a : N) : bool :=
  match m (a, port) with Some d => is_up d | None => false end.

(* ---- behaviours of a probed host ---- *)
Definition caps_t := option (N * N * list N).     (* manufacturer, model, firmware *)
Definition ident_t := option (N * list N).        (* id type, reader id *)

(* ---- a probed host as a SCRIPT: what it sends when ----
   The client's side of a probe is fixed (first message, GET_SUPPORTED_VERSION, perhaps
   SET_PROTOCOL_VERSION, GET_READER_CONFIG, GET_READER_CAPABILITIES, CLOSE_CONNECTION), so a host
   is described by what it does about each of these and by the traffic it sends unasked.
   Times are ticks; delays of answers count from the moment the request is written; [s_hangup],
   [s_chat] and [s_period] count from the moment the connection is accepted. *)
Inductive answer :=
| Ans (delay : N) (ok : bool)  (* a complete reply arrives [delay] after the request; ok: it is the expected
                                  message with a success status (for the first message: a successful
                                  ConnectionAttemptEvent); not ok: error status / ERROR_MESSAGE / another type *)
| NoAns                        (* no reply at all *)
| Trickle (gap : N).           (* a reply that never completes: its header (announcing a large payload) comes at
                                  once, then one byte every [gap]. Whether such a host can hold a probe depends
                                  on what the read deadline bounds, see [idle_deadline]. (Bytes that follow an
                                  incomplete message on the stream are its payload: scripts with a Trickle are
                                  meant without unsolicited traffic.) *)

Inductive dial_outcome := DialRefused | DialNever | DialAccept (d : N).

Record script := mk_script {
  s_dial : dial_outcome;
  s_hello : answer;           (* the first complete message the host sends (delay counted from accept) *)
  s_version : answer;         (* GET_SUPPORTED_VERSION *)
  s_setver : option answer;   (* SET_PROTOCOL_VERSION; None: the reader stays at 1.0.1 and none is sent *)
  s_config : answer;          (* GET_READER_CONFIG; an ok answer carries [s_ident] *)
  s_ident : ident_t;
  s_caps : answer;            (* GET_READER_CAPABILITIES; an ok answer carries [s_capsv] *)
  s_capsv : caps_t;
  s_close : answer;           (* CLOSE_CONNECTION; not ok = the reader refuses / answers something else *)
  s_close_other : bool;       (* a not-ok answer is an ERROR_MESSAGE or another message type (true), or a
                                 CLOSE_CONNECTION_RESPONSE carrying an error status (false) *)
  s_fin : bool;               (* after a positive CLOSE_CONNECTION_RESPONSE the host closes the TCP connection *)
  s_hangup : option N;        (* the host closes the TCP connection that long after accepting it *)
  s_chat : list N;            (* unsolicited messages (KeepAlive, reader events, reports) arriving at these times *)
  s_period : option N         (* ... and at every positive multiple of this period, for ever *)
}.

Inductive behaviour :=
| Script (s : script)          (* any host, as a script (see script_outcome below) *)
| Refuse                       (* nothing listens: dial fails at once *)
| Unreachable                  (* dial is never answered *)
| Silent                       (* accepts, never writes (also: stalls inside the first frame) *)
| Garbage                      (* accepts, first frame is not a successful connection event; or closes *)
| StallNegotiate               (* correct first frame, then silent *)
| StallExchange                (* answers version negotiation, then at some later request goes silent
                                  (before or inside a reply), keeping the connection open *)
| AnswerNoClose (c : caps_t) (i : ident_t)  (* answers everything, never closes the TCP connection *)
| Answer (c : caps_t) (i : ident_t).        (* answers everything and closes *)

(* ---- timers and one switch of the code ----
   dial          : net.DialTimeout(timeout)
   read_deadline : deadline re-armed before every message read from the probe connection
                   (llrp.WithTimeout; also bounds each step of version negotiation). The code before
                   the fix e383910 set none: None.
   send_timeout  : the 20 s context of the request goroutine (sendTimeout)
   force_close   : after a Shutdown that FAILED (CLOSE_CONNECTION refused, answered with something
                   else, not answered before the context ended) the request goroutine closes the
                   client itself (`_ = c.Close()`), which is what lets Connect return.
   idle_deadline : WHAT the read deadline bounds. false (the code): the deadline is armed once, when the
                   client starts waiting for a message, and the whole message — header and payload — must
                   have arrived by then: a message gets one read-deadline period counted from the end of the
                   previous message, however its bytes are spaced. true: the deadline is re-armed before
                   every read, so it bounds the time the connection may stay idle, and a message whose
                   bytes keep coming more often than that is waited for indefinitely. *)
Record timers := mk_timers { dial : N; read_deadline : option N; send_timeout : N; force_close : bool;
                             idle_deadline : bool }.

Definition min_opt (a : option N) (b : N) : N := match a with Some x => N.min x b | None => b end.

(* ---- one probe against a script ----
   optional times: None = never *)
Definition opt_le (x : N) (lim : option N) : bool := match lim with Some l => x <=? l | None => true end.
Definition opt_add (t : N) (r : option N) : option N := match r with Some x => Some (t + x) | None => None end.
Definition opt_min (a b : option N) : option N :=
  match a, b with Some x, Some y => Some (N.min x y) | Some x, None => Some x | None, _ => b end.
Definition opt_ltb (a : option N) (x : N) : bool := match a with Some l => l <? x | None => false end.

(* Connect's own part (checkInitialMessage, negotiate): wait for the answer to a request written at [t]
   until [lim]: inl (arrival, ok), or inr (the moment the wait is given up; None: never) *)
Definition step_until (a : answer) (t : N) (lim : option N) : (N * bool) + option N :=
  match a with
  | Ans d ok => if opt_le (t + d) lim then inl (t + d, ok)
                else inr (match lim with Some l => Some (N.max t l) | None => None end)
  | _ => inr (match lim with Some l => Some (N.max t l) | None => None end)
  end.

Inductive conn_res :=
| ConnFail (t : option N)   (* Connect returns an error at t (None: it never returns) *)
| ConnReady (t2 : N).       (* negotiation done: requests of the exchange may be written from t2 on *)

(* [t0] the connection is accepted; [tc] = t0 + send_timeout, the end of the request goroutine's context.
   The first message is read under the read deadline only; each step of negotiate() has a context of
   its own (the client timeout) and also ends when the client is closed, which the request goroutine
   does at tc when its Shutdown fails and force_close holds. *)
Definition connect_phase (r : option N) (fc : bool) (s : script) (t0 tc : N) : conn_res :=
  let nlim t := opt_min (opt_add t r) (if fc then Some tc else None) in
  match step_until (s_hello s) t0 (opt_add t0 r) with
  | inr t => ConnFail t
  | inl (t1, false) => ConnFail (Some t1)
  | inl (t1, true) =>
    match step_until (s_version s) t1 (nlim t1) with
    | inr t => ConnFail t
    | inl (tv, false) => ConnFail (Some tv)
    | inl (tv, true) =>
      match s_setver s with
      | None => ConnReady tv
      | Some a =>
        match step_until a tv (nlim tv) with
        | inr t => ConnFail t
        | inl (t2, false) => ConnFail (Some t2)
        | inl (t2, true) => ConnReady t2
        end
      end
    end
  end.

(* the request goroutine: a request written at [t] under a context that ends at [tc];
   Some (arrival, ok) iff a complete reply arrives before the context ends *)
Definition ask (a : answer) (t tc : N) : option (N * bool) :=
  if tc <=? t then None else
  match a with Ans d ok => if t + d <? tc then Some (t + d, ok) else None | _ => None end.
(* a reply that comes after the context ended still arrives (and is discarded by the read loop) *)
Definition late_arrival (a : answer) (t tc : N) : list N :=
  if tc <=? t then [] else match a with Ans d _ => [t + d] | _ => [] end.

Record exch := mk_exch {
  e_arrivals : list N;      (* when replies of the exchange arrive *)
  e_close : option N;       (* when the client is closed by the request goroutine; None: never *)
  e_rclosed : option N;     (* when a CLOSE_CONNECTION_RESPONSE (whatever its status) arrived: from then on the end
                               of the stream (the host hangs up) no longer ends the read loop, it waits for the
                               client to be closed; an expired deadline still ends it *)
  e_fin : bool;             (* the host closes the TCP connection at that moment *)
  e_ident : bool;           (* an Identification was received *)
  e_caps : bool             (* GeneralDeviceCapabilities were received *)
}.

(* deferred Shutdown at [t]: CLOSE_CONNECTION under what is left of the context; success closes the
   client; failure closes it only if force_close *)
Definition shutdown (fc : bool) (s : script) (t tc : N) (arr : list N) (gi gc : bool) : exch :=
  match ask (s_close s) t tc with
  | Some (u, true) => mk_exch (u :: arr) (Some u) (Some u) (s_fin s) gi gc
  | Some (u, false) => mk_exch (u :: arr) (if fc then Some u else None)
                               (if s_close_other s then None else Some u) false gi gc
  | None => mk_exch (late_arrival (s_close s) t tc ++ arr) (if fc then Some (N.max t tc) else None)
                    (match late_arrival (s_close s) t tc, s_close s with
                     | u :: _, Ans _ ok => if ok || negb (s_close_other s) then Some u else None
                     | _, _ => None
                     end) false gi gc
  end.

Definition exchange (fc : bool) (s : script) (t2 tc : N) : exch :=
  match ask (s_config s) t2 tc with
  | Some (u, true) =>
    match ask (s_caps s) u tc with
    | Some (w, true) => shutdown fc s w tc [w; u] true true
    | Some (w, false) => shutdown fc s w tc [w; u] true false
    | None => shutdown fc s (N.max u tc) tc (late_arrival (s_caps s) u tc ++ [u]) true false
    end
  | Some (u, false) => shutdown fc s u tc [u] false false
  | None => shutdown fc s (N.max t2 tc) tc (late_arrival (s_config s) t2 tc) false false
  end.

(* the requests of the exchange that are written, with the moment: a request is written iff its context
   has not ended *)
Definition sent_at (a : answer) (t tc : N) : list (N * answer) := if tc <=? t then [] else [(t, a)].
Definition exchange_sent (s : script) (t2 tc : N) : list (N * answer) :=
  sent_at (s_config s) t2 tc ++
  match ask (s_config s) t2 tc with
  | Some (u, true) =>
    sent_at (s_caps s) u tc ++
    match ask (s_caps s) u tc with
    | Some (w, _) => sent_at (s_close s) w tc
    | None => sent_at (s_close s) (N.max u tc) tc
    end
  | Some (u, false) => sent_at (s_close s) u tc
  | None => sent_at (s_close s) (N.max t2 tc) tc
  end.

(* a trickled reply whose bytes come more often than the read deadline *)
Definition fast_trickle (r : option N) (a : answer) : bool :=
  match a, r with Trickle g, Some r => (0 <? g) && (g <=? r) | _, _ => false end.

(* the read loop (handleIncoming): every complete message re-arms the read deadline; the loop ends by
   itself only when [r] passes without one. Arrivals: the listed ones [E] (absolute) and t0 + k*p, k >= 1. *)
Definition next_listed (E : list N) (t : N) : option N :=
  fold_right (fun x acc => if t <=? x then opt_min (Some x) acc else acc) None E.
Definition next_periodic (p : option N) (t0 t : N) : option N :=
  match p with
  | Some q => if q =? 0 then None else Some (t0 + q * N.max 1 ((t - t0 + q - 1) / q))
  | None => None
  end.
Definition next_arrival (E : list N) (p : option N) (t0 t : N) : option N :=
  opt_min (next_listed E t) (next_periodic p t0 t).

(* unsolicited traffic more often than the read deadline: the deadline is pushed out for ever *)
Definition chatty (p : option N) (r : N) : bool :=
  match p with Some q => (0 <? q) && (q <=? r) | None => false end.

Fixpoint insert_sorted (x : N) (l : list N) : list N :=
  match l with [] => [x] | y :: l' => if x <=? y then x :: l else y :: insert_sorted x l' end.
Definition sort_times (l : list N) : list N := fold_right insert_sorted [] l.

(* Periodic traffic that is NOT chatty (two periodic arrivals are more than r apart): between two listed
   arrivals at most one periodic arrival can re-arm the deadline. [via_periodic]: the deadline in force after
   an arrival at [la] if no listed arrival comes. *)
Definition via_periodic (p : option N) (t0 r la : N) : N :=
  match next_periodic p t0 (la + 1) with
  | Some q => if q <=? la + r then q + r else la + r
  | None => la + r
  end.

(* the moment the deadline fires, walking the listed arrivals [E] (sorted) from the last arrival [la] *)
Fixpoint loop_death (E : list N) (p : option N) (t0 r la : N) : N :=
  match E with
  | [] => via_periodic p t0 r la
  | x :: rest => if x <=? la then loop_death rest p t0 r la
                 else if x <=? via_periodic p t0 r la then loop_death rest p t0 r x
                 else via_periodic p t0 r la
  end.

(* when a read of the loop fails by the deadline, if nobody closes the client first; None: never *)
Definition reader_death (E : list N) (p : option N) (t0 : N) (r : option N) (t2 : N) : option N :=
  match r with
  | None => None
  | Some r => if chatty p r then None else Some (loop_death (sort_times E) p t0 r t2)
  end.

Record outcome := mk_outcome { o_time : option N; o_info : option info }.

(* probe(host): duration (None: it never returns) and what it returns.
   - the dial is bounded by [dial];
   - if Connect fails by itself (first message, negotiation) probe returns the error then;
   - otherwise the request goroutine runs the exchange and ends with Shutdown; Connect returns
     * when a read on the connection fails first ([dead]: deadline without traffic, or the host hangs up):
       an error;
     * else, once the client has been closed at [x]: when the read loop next looks at it — at the next
       message, when the host hangs up, or when the deadline armed at most r before x fires —, and probe
       goes on to build its result from what was received;
     * if nobody ever closes the client: only when a read fails — and if that failure is the end of the
       stream after a CLOSE_CONNECTION_RESPONSE has been seen, not even then (the read loop then waits
       for the client to be closed). *)
Definition script_outcome (tm : timers) (s : script) : outcome :=
  let r := read_deadline tm in
  let fc := force_close tm in
  match s_dial s with
  | DialRefused => mk_outcome (Some 0) None
  | DialNever => mk_outcome (Some (dial tm)) None
  | DialAccept d =>
    if dial tm <? d then mk_outcome (Some (dial tm)) None else
    let t0 := d in
    let tc := t0 + send_timeout tm in
    let hang := opt_add t0 (s_hangup s) in
    (* idle-time deadline: Connect never leaves the read of a trickled first message ... *)
    if idle_deadline tm && fast_trickle r (s_hello s) then mk_outcome hang None else
    match connect_phase r fc s t0 tc with
    | ConnFail t => mk_outcome (opt_min t hang) None
    | ConnReady t2 =>
      let e := exchange fc s t2 tc in
      let E := e_arrivals e ++ map (N.add t0) (s_chat s) in
      let rdead := reader_death E (s_period s) t0 r t2 in
      let dead := opt_min rdead hang in
      (* ... and the read loop never leaves the read of a trickled reply of the exchange (it does not look at the
         client being closed while inside a message), so Connect, which waits for the loop, never returns.
         (A trickled negotiation reply does not hold Connect: negotiate() gives up on its own context.) *)
      if idle_deadline tm &&
         existsb (fun ta => fast_trickle r (snd ta) && negb (opt_ltb dead (fst ta))) (exchange_sent s t2 tc)
      then mk_outcome hang None else
      match e_close e with
      | None => mk_outcome (match e_rclosed e with
                            | Some u => if opt_ltb dead u then dead else
                                        match hang with
                                        | Some hg => if opt_ltb rdead hg then rdead else None
                                        | None => rdead
                                        end
                            | None => dead
                            end) None
      | Some x =>
        if opt_ltb dead x then mk_outcome dead None
        else
          let nx := if e_fin e then Some x else next_arrival E (s_period s) t0 (x + 1) in
          mk_outcome (opt_min (opt_min dead nx) (opt_add x r))
                     (if e_ident e then probe_info (if e_caps e then s_capsv s else None) (s_ident s) else None)
      end
    end
  end.

(* what probe returns if it returns *)
Definition probe_result (tm : timers) (b : behaviour) : option info :=
  match b with
  | Script s => o_info (script_outcome tm s)
  | Answer c i | AnswerNoClose c i => probe_info c i
  | _ => None
  end.

(* duration of one probe; None = it never returns.
   - Silent: Connect sits in checkInitialMessage's read; only a read deadline ends it.
   - StallNegotiate: Connect is inside negotiate(); it returns when the request goroutine's context
     expires and it closes the client (send_timeout), or earlier with a read deadline/client timeout.
   - StallExchange / AnswerNoClose: the request goroutine gives up after send_timeout at the latest
     and closes the client, but Connect then waits (wg.Wait) for the reader goroutine, which sits in a
     read on the connection: only a read deadline ends it.
   (these named behaviours send nothing unasked; hosts that do are Scripts) *)
Definition probe_time (tm : timers) (b : behaviour) : option N :=
  match b with
  | Script s => o_time (script_outcome tm s)
  | Refuse | Garbage | Answer _ _ => Some 0
  | Unreachable => Some (dial tm)
  | Silent => read_deadline tm
  | StallNegotiate => Some (min_opt (read_deadline tm) (send_timeout tm))
  | StallExchange | AnswerNoClose _ _ => read_deadline tm
  end.

(* one probe's allowance: the dial, the exchange budget, and four read deadlines (first message, two
   negotiation steps, and the one the read loop may need to notice that the client was closed) *)
Definition allowance (tm : timers) : N :=
  dial tm + send_timeout tm + 4 * (match read_deadline tm with Some r => r | None => 0 end).

(* ---- a worker ---- *)
Record wstate := mk_wstate {
  clock : option N;            (* None: blocked for ever inside a probe *)
  stopped : bool;              (* returned because the context was done *)
  probed : list N;             (* addresses dialled, newest first *)
  dial_times : list N;         (* the clock at each dial, newest first (history) *)
  reported : list (N * info)   (* sent to the result channel, newest first *)
}.

Definition w_init (t0 : N) : wstate := mk_wstate (Some t0) false [] [] [].

(* one iteration of ipWorker's loop for address [a]; [dl] is the context's deadline *)
Definition worker_step (tm : timers) (dl : N) (m : dev_map) (port : N) (hosts : N -> behaviour)
           (st : wstate) (a : N) : wstate :=
  if stopped st then st else
  match clock st with
  | None => st
  | Some t =>
    if dl <=? t then mk_wstate (Some t) true (probed st) (dial_times st) (reported st)      (* <-ctx.Done() *)
    else if skip m port a then st                                              (* continue *)
    else
      match probe_time tm (hosts a) with
      | None => mk_wstate None false (a :: probed st) (t :: dial_times st) (reported st)
      | Some d =>
        mk_wstate (Some (t + d)) false (a :: probed st) (t :: dial_times st)
                  (match probe_result tm (hosts a) with
                   | Some i => (a, i) :: reported st
                   | None => reported st
                   end)
      end
  end.

Definition worker_run tm dl m port hosts (addrs : list N) (t0 : N) : wstate :=
  fold_left (worker_step tm dl m port hosts) addrs (w_init t0).

(* ---- a run: the workers receive arbitrary address lists; autoDiscover returns when all workers
   have returned (wgIPWorkers.Wait) ---- *)
Definition max_opt (a b : option N) : option N :=
  match a, b with Some x, Some y => Some (N.max x y) | _, _ => None end.

Definition run_time tm dl m port hosts (work : list (list N)) : option N :=
  fold_left (fun acc addrs => max_opt acc (clock (worker_run tm dl m port hosts addrs 0))) work (Some 0).

Definition run_reported tm dl m port hosts (work : list (list N)) : list (N * info) :=
  flat_map (fun addrs => reported (worker_run tm dl m port hosts addrs 0)) work.

Definition run_dial_times tm dl m port hosts (work : list (list N)) : list N :=
  flat_map (fun addrs => dial_times (worker_run tm dl m port hosts addrs 0)) work.

(* Driver.Discover: MaxDiscoverDurationSeconds > 0 gives the run's context a deadline of that many
   seconds (time unit here: ms); 0 or less: no deadline *)
Definition discover_deadline (max_seconds : N) : option N :=
  if max_seconds =? 0 then None else Some (1000 * max_seconds).

Definition run_probed tm dl m port hosts (work : list (list N)) : list N :=
  flat_map (fun addrs => probed (worker_run tm dl m port hosts addrs 0)) work.

(* processResultChannel: a result whose name is not registered becomes a discovered device;
   one whose name is registered updates that device instead *)
Fixpoint list_eqb (a b : list N) : bool :=
  match a, b with
  | [], [] => true
  | x :: a', y :: b' => (x =? y) && list_eqb a' b'
  | _, _ => false
  end.
Definition name_registered (devs : list device) (n : list N) : bool :=
  existsb (fun d => list_eqb (d_name d) n) devs.
Definition discovered (devs : list device) (rep : list (N * info)) : list (N * info) :=
  filter (fun r => negb (name_registered devs (i_name (snd r)))) rep.

(* the timers of the code as it is (timeout t, sendTimeout s) *)
Definition go_timers (t s : N) : timers := mk_timers t None s true false.
(* the code since e383910: llrp.WithTimeout(timeout) — the read deadline is the probe timeout *)
Definition go_timers_deadline (t s : N) : timers := mk_timers t (Some t) s true false.
