(* A small model of one discovery run (internal/driver/discover.go: makeDeviceMap, ipWorker,
   probe's blocking structure, processResultChannel) over abstract timers.
   Executable definitions only; proofs are in RunProofs.v.

   A host is a number (the IPv4 address), a port is a number; the Go device map is keyed by the
   string host+":"+port, i.e. by the PAIR (host, port): two registered devices on one host with
   different ports are different keys. A run scans one port ([port]) on every host it is given.
   Time is an abstract number of ticks (N); [None] as a time means "never". *)
From Coq Require Import String Ascii NArith List Bool.
From LLRP Require Import Discover.Naming.
Import ListNotations.
Open Scope N_scope.

(* ---- registered devices and makeDeviceMap ---- *)
Inductive opstate := Up | Down | UnknownState.

Record device := mk_device {
  d_name : list N;
  d_addr : option (N * N); (* (host, port); None: no tcp protocol info, or empty host/port: not a key *)
  d_state : opstate
}.

(* makeDeviceMap: for _, d := range devices { deviceMap[host+":"+port] = d }
   a later device with the same address overwrites an earlier one *)
Definition dev_map := N * N -> option device.
Definition key_eqb (x y : N * N) : bool := (fst x =? fst y) && (snd x =? snd y).
Definition map_add (m : dev_map) (d : device) : dev_map :=
  match d_addr d with
  | None => m
  | Some a => fun x => if key_eqb x a then Some d else m x
  end.
Definition make_device_map (devs : list device) : dev_map :=
  fold_left map_add devs (fun _ => None).

Definition is_up (d : device) : bool := match d_state d with Up => true | _ => false end.

(* ipWorker: addr := ipStr + ":" + params.scanPort
             if d, found := deviceMap[addr]; found { if d.OperatingState == Up { continue } } *)
Definition skip (m : dev_map) (port a : N) : bool :=
  match m (a, port) with Some d => is_up d | None => false end.

(* ---- behaviours of a probed host ---- *)
Definition caps_t := option (N * N * list N).     (* manufacturer, model, firmware *)
Definition ident_t := option (N * list N).        (* id type, reader id *)

Inductive behaviour :=
| Refuse                       (* nothing listens: dial fails at once *)
| Unreachable                  (* dial is never answered *)
| Silent                       (* accepts, never writes (also: stalls inside the first frame) *)
| Garbage                      (* accepts, first frame is not a successful connection event; or closes *)
| StallNegotiate               (* correct first frame, then silent *)
| StallExchange                (* answers version negotiation, then at some later request goes silent
                                  (before or inside a reply), keeping the connection open *)
| AnswerNoClose (c : caps_t) (i : ident_t)  (* answers everything, never closes the TCP connection *)
| Answer (c : caps_t) (i : ident_t).        (* answers everything and closes *)

(* what probe returns if it returns *)
Definition probe_result (b : behaviour) : option info :=
  match b with
  | Answer c i | AnswerNoClose c i => probe_info c i
  | _ => None
  end.

(* ---- timers ----
   dial          : net.DialTimeout(timeout)
   read_deadline : deadline on reads of the probe connection. The unchanged code sets none
                   (llrp.NewClient without WithTimeout, no conn.SetDeadline): None.
   send_timeout  : the 20 s context of the request goroutine (sendTimeout) *)
Record timers := mk_timers { dial : N; read_deadline : option N; send_timeout : N }.

Definition min_opt (a : option N) (b : N) : N := match a with Some x => N.min x b | None => b end.

(* duration of one probe; None = it never returns.
   - Silent: Connect sits in checkInitialMessage's read; only a read deadline ends it.
   - StallNegotiate: Connect is inside negotiate(); it returns when the request goroutine's context
     expires and it closes the client (send_timeout), or earlier with a read deadline/client timeout.
   - StallExchange / AnswerNoClose: the request goroutine gives up after send_timeout at the latest
     and closes the client, but Connect then waits (wg.Wait) for the reader goroutine, which sits in a
     read on the connection: only a read deadline ends it. *)
Definition probe_time (tm : timers) (b : behaviour) : option N :=
  match b with
  | Refuse | Garbage | Answer _ _ => Some 0
  | Unreachable => Some (dial tm)
  | Silent => read_deadline tm
  | StallNegotiate => Some (min_opt (read_deadline tm) (send_timeout tm))
  | StallExchange | AnswerNoClose _ _ => read_deadline tm
  end.

(* one probe's allowance: dial + the longer of the two exchange timers *)
Definition allowance (tm : timers) : N :=
  dial tm + N.max (send_timeout tm) (match read_deadline tm with Some r => r | None => 0 end).

(* ---- a worker ---- *)
Record wstate := mk_wstate {
  clock : option N;            (* None: blocked for ever inside a probe *)
  stopped : bool;              (* returned because the context was done *)
  probed : list N;             (* addresses dialled, newest first *)
  dial_times : list N;         (* the clock at each dial, newest first (history) *)
  reported : list (N * info)   (* sent to the result channel, newest first *)
}.

Definition w_init (t0 : N) : wstate := mk_wstate (Some t0) false [] [] [].

(* one iteration of ipWorker's loop for address [a]; [dl] is the context's deadline *)
Definition worker_step (tm : timers) (dl : N) (m : dev_map) (port : N) (hosts : N -> behaviour)
           (st : wstate) (a : N) : wstate :=
  if stopped st then st else
  match clock st with
  | None => st
  | Some t =>
    if dl <=? t then mk_wstate (Some t) true (probed st) (dial_times st) (reported st)      (* <-ctx.Done() *)
    else if skip m port a then st                                              (* continue *)
    else
      match probe_time tm (hosts a) with
      | None => mk_wstate None false (a :: probed st) (t :: dial_times st) (reported st)
      | Some d =>
        mk_wstate (Some (t + d)) false (a :: probed st) (t :: dial_times st)
                  (match probe_result (hosts a) with
                   | Some i => (a, i) :: reported st
                   | None => reported st
                   end)
      end
  end.

Definition worker_run tm dl m port hosts (addrs : list N) (t0 : N) : wstate :=
  fold_left (worker_step tm dl m port hosts) addrs (w_init t0).

(* ---- a run: the workers receive arbitrary address lists; autoDiscover returns when all workers
   have returned (wgIPWorkers.Wait) ---- *)
Definition max_opt (a b : option N) : option N :=
  match a, b with Some x, Some y => Some (N.max x y) | _, _ => None end.

Definition run_time tm dl m port hosts (work : list (list N)) : option N :=
  fold_left (fun acc addrs => max_opt acc (clock (worker_run tm dl m port hosts addrs 0))) work (Some 0).

Definition run_reported tm dl m port hosts (work : list (list N)) : list (N * info) :=
  flat_map (fun addrs => reported (worker_run tm dl m port hosts addrs 0)) work.

Definition run_dial_times tm dl m port hosts (work : list (list N)) : list N :=
  flat_map (fun addrs => dial_times (worker_run tm dl m port hosts addrs 0)) work.

(* Driver.Discover: MaxDiscoverDurationSeconds > 0 gives the run's context a deadline of that many
   seconds (time unit here: ms); 0 or less: no deadline *)
Definition discover_deadline (max_seconds : N) : option N :=
  if max_seconds =? 0 then None else Some (1000 * max_seconds).

Definition run_probed tm dl m port hosts (work : list (list N)) : list N :=
  flat_map (fun addrs => probed (worker_run tm dl m port hosts addrs 0)) work.

(* processResultChannel: a result whose name is not registered becomes a discovered device;
   one whose name is registered updates that device instead *)
Fixpoint list_eqb (a b : list N) : bool :=
  match a, b with
  | [], [] => true
  | x :: a', y :: b' => (x =? y) && list_eqb a' b'
  | _, _ => false
  end.
Definition name_registered (devs : list device) (n : list N) : bool :=
  existsb (fun d => list_eqb (d_name d) n) devs.
Definition discovered (devs : list device) (rep : list (N * info)) : list (N * info) :=
  filter (fun r => negb (name_registered devs (i_name (snd r)))) rep.

(* the timers of the code as it is (timeout t, sendTimeout s) *)
Definition go_timers (t s : N) : timers := mk_timers t None s.
