(* Soundness of the safety checker (Safe.v) with respect to the concrete semantics (Sem.v). *)
From Coq Require Import ZArith List Bool Lia ZifyBool.
From LLRP Require Import DecIR.IR DecIR.Sem DecIR.Safe.
Import ListNotations.
Open Scope Z_scope.

(* ------------------------------------------------------------------ programs *)
Lemma lookup_in : forall ps f b, lookup ps f = Some b -> In (f, b) ps.
Proof.
  induction ps as [|[g c] r IH]; simpl; intros f b H; [discriminate|].
  destruct (Z.eqb_spec f g).
  - inversion H; subst; auto.
  - right; auto.
Qed.

Lemma all_safe_lookup : forall ps f b, all_safe ps = true -> lookup ps f = Some b -> safe_prog ps b = true.
Proof.
  intros ps f b H L. unfold all_safe in H. rewrite forallb_forall in H.
  apply (H (f, b)). eapply lookup_in; eauto.
Qed.

(* purity: no decoder contains a statement that stores through data *)
Definition decoders_pure (ps : programs) : Prop := forall f b, lookup ps f = Some b -> writes_b b = false.

Lemma all_safe_pure : forall ps, all_safe ps = true -> decoders_pure ps.
Proof.
  intros ps H f b L. pose proof (all_safe_lookup ps f b H L) as S.
  unfold safe_prog in S. apply andb_true_iff in S. destruct S as [_ S].
  now apply negb_true_iff in S.
Qed.

(* ------------------------------------------------------------------ environments *)
Lemma get_set_eq : forall en x v, get (set en x v) x = v.
Proof.
  induction en as [|[y u] r IH]; intros x v; simpl.
  - now rewrite Z.eqb_refl.
  - destruct (Z.eqb_spec x y); simpl.
    + subst. now rewrite Z.eqb_refl.
    + destruct (Z.eqb_spec x y); [contradiction|]. apply IH.
Qed.

Lemma get_set_neq : forall en x y v, y <> x -> get (set en x v) y = get en y.
Proof.
  induction en as [|[z u] r IH]; intros x y v N; simpl.
  - destruct (Z.eqb_spec y x); [contradiction|reflexivity].
  - destruct (Z.eqb_spec x z); simpl.
    + subst. destruct (Z.eqb_spec y z); [contradiction|reflexivity].
    + destruct (Z.eqb_spec y z); [reflexivity|]. now apply IH.
Qed.

(* ------------------------------------------------------------------ what the abstract state means *)
Definition wfw (w : window) : Prop := 0 <= wlen w <= wcap w.

Definition holds (w : window) (en : env) (f : fact) : Prop :=
  match f with
  | FLo x c => c <= get en x
  | FHi x c => get en x <= c
  | FRel x a c => a * get en x + c <= wlen w
  | FCond x c k => get en x > c -> k <= wlen w
  end.

(* len0: length of data when the innermost enclosing loop body was entered (or at function entry) *)
Definition sat (len0 : Z) (A : astate) (w : window) (en : env) : Prop :=
  wfw w /\ wlen w <= len0 /\ known A <= wlen w /\ (prog A = true -> wlen w < len0) /\ Forall (holds w en) (facts A).

Lemma sat_add_fact : forall len0 A w en f, sat len0 A w en -> holds w en f -> sat len0 (add_fact A f) w en.
Proof. unfold sat, add_fact; simpl; intros; intuition. Qed.

Lemma sat_set_known : forall len0 A w en k, sat len0 A w en -> k <= wlen w -> sat len0 (set_known A k) w en.
Proof. unfold sat, set_known; simpl; intros; intuition. Qed.

Lemma lo_of_sound : forall w en fs x l, Forall (holds w en) fs -> lo_of fs x = Some l -> l <= get en x.
Proof.
  induction fs as [|f r IH]; simpl; intros x l F H; [discriminate|].
  inversion F as [|? ? Hf Fr]; subst.
  destruct f as [y c|y c|y a c|y c k]; try (eapply IH; eauto; fail).
  destruct (Z.eqb_spec x y); [|eapply IH; eauto].
  subst. simpl in Hf. destruct (lo_of r y) as [m|] eqn:E; simpl in H; inversion H; subst.
  - specialize (IH y m Fr E). lia.
  - lia.
Qed.

Lemma hi_of_sound : forall w en fs x u, Forall (holds w en) fs -> hi_of fs x = Some u -> get en x <= u.
Proof.
  induction fs as [|f r IH]; simpl; intros x l F H; [discriminate|].
  inversion F as [|? ? Hf Fr]; subst.
  destruct f as [y c|y c|y a c|y c k]; try (eapply IH; eauto; fail).
  destruct (Z.eqb_spec x y); [|eapply IH; eauto].
  subst. simpl in Hf. destruct (hi_of r y) as [m|] eqn:E; simpl in H; inversion H; subst.
  - specialize (IH y m Fr E). lia.
  - lia.
Qed.

(* ------------------------------------------------------------------ arithmetic facts *)
Lemma land_upper : forall x m, 0 <= m -> 0 <= Z.land x m <= m.
Proof.
  intros x m Hm. split.
  - apply Z.land_nonneg. now right.
  - assert (D : Z.land (Z.ldiff m x) (Z.land m x) = 0).
    { rewrite (Z.land_comm m x), Z.land_assoc, Z.land_ldiff. apply Z.land_0_l. }
    assert (E : m = Z.ldiff m x + Z.land m x).
    { rewrite Z.add_nocarry_lxor by exact D.
      rewrite Z.lxor_lor by exact D.
      symmetry. apply Z.lor_ldiff_and. }
    assert (0 <= Z.ldiff m x) by (apply Z.ldiff_nonneg; now left).
    rewrite (Z.land_comm x m). lia.
Qed.

Lemma shiftr_mono : forall a b n, 0 <= n -> a <= b -> Z.shiftr a n <= Z.shiftr b n.
Proof.
  intros a b n Hn H. rewrite !Z.shiftr_div_pow2 by assumption.
  apply Z.div_le_mono; [|assumption]. apply Z.pow_pos_nonneg; lia.
Qed.

Section WithInput.
  Variable rd : Z -> Z.

  Lemma be_bound : forall n off acc, 0 <= acc -> 0 <= be rd n off acc < (acc + 1) * 256 ^ Z.of_nat n.
  Proof.
    induction n as [|n IH]; intros off acc H.
    - simpl. lia.
    - cbn [be]. pose proof (Z.mod_pos_bound (rd off) 256 ltac:(lia)) as B.
      specialize (IH (off + 1) (acc * 256 + rd off mod 256) ltac:(lia)).
      rewrite Nat2Z.inj_succ, Z.pow_succ_r by lia.
      assert (0 < 256 ^ Z.of_nat n) by (apply Z.pow_pos_nonneg; lia).
      nia.
  Qed.

  (* ---------------------------------------------------------------- ranges *)
  Lemma range_sound : forall len0 A w en, sat len0 A w en ->
    forall e v, eval rd e w en = Some v ->
      (forall l, lower A e = Some l -> l <= v) /\ (forall u, upper A e = Some u -> v <= u).
  Proof.
    intros len0 A w en S. pose proof S as (Hw & Hl0 & Hk & _ & HF).
    unfold lower, upper.
    induction e as [z|x| |a IH|k a IH|a IHa b IHb|a IHa b IHb|a IHa b IHb|a IH n|a IH m]; intros v E; cbn [eval range fst snd] in *.
    - inversion E; subst. split; intros ? H; inversion H; lia.
    - inversion E; subst. split; intros ? H.
      + eapply lo_of_sound; eauto.
      + eapply hi_of_sound; eauto.
    - inversion E; subst. split; intros ? H; inversion H; subst. lia.
    - destruct (eval rd a w en) as [va|] eqn:Ea; [|discriminate].
      destruct ((0 <=? va) && (va <=? wlen w)) eqn:C; [|discriminate].
      inversion E; subst. destruct (IH va eq_refl) as [_ IHu].
      split; intros ? H; inversion H; subst.
      destruct (snd (range A a)) as [h|]; [specialize (IHu h eq_refl)|]; lia.
    - destruct (eval rd a w en) as [va|] eqn:Ea; [|discriminate].
      destruct ((0 <=? va) && (va + k <=? wlen w)) eqn:C; [|discriminate].
      inversion E; subst. pose proof (be_bound (Z.to_nat k) (woff w + va) 0 ltac:(lia)) as B.
      split; intros ? H; inversion H; subst; unfold rd_max; lia.
    - destruct (eval rd a w en) as [va|] eqn:Ea; [|discriminate].
      destruct (eval rd b w en) as [vb|] eqn:Eb; [|discriminate].
      inversion E; subst. destruct (IHa va eq_refl) as [La Ua]. destruct (IHb vb eq_refl) as [Lb Ub].
      split; intros ? H.
      + destruct (fst (range A a)) as [x|], (fst (range A b)) as [y|]; simpl in H; inversion H; subst.
        specialize (La x eq_refl). specialize (Lb y eq_refl). lia.
      + destruct (snd (range A a)) as [x|], (snd (range A b)) as [y|]; simpl in H; inversion H; subst.
        specialize (Ua x eq_refl). specialize (Ub y eq_refl). lia.
    - destruct (eval rd a w en) as [va|] eqn:Ea; [|discriminate].
      destruct (eval rd b w en) as [vb|] eqn:Eb; [|discriminate].
      inversion E; subst. destruct (IHa va eq_refl) as [La Ua]. destruct (IHb vb eq_refl) as [Lb Ub].
      split; intros ? H.
      + destruct (fst (range A a)) as [x|], (snd (range A b)) as [y|]; simpl in H; inversion H; subst.
        specialize (La x eq_refl). specialize (Ub y eq_refl). lia.
      + destruct (snd (range A a)) as [x|], (fst (range A b)) as [y|]; simpl in H; inversion H; subst.
        specialize (Ua x eq_refl). specialize (Lb y eq_refl). lia.
    - destruct (eval rd a w en) as [va|] eqn:Ea; [|discriminate].
      destruct (eval rd b w en) as [vb|] eqn:Eb; [|discriminate].
      inversion E; subst. destruct (IHa va eq_refl) as [La Ua].
      destruct b; try (split; intros ? H; discriminate H).
      cbn [eval] in Eb. inversion Eb; subst.
      destruct (0 <=? vb) eqn:Cz; [|split; intros ? H; discriminate H].
      cbn [fst snd]. split; intros ? H.
      + destruct (fst (range A a)) as [x|]; simpl in H; inversion H; subst. specialize (La x eq_refl). nia.
      + destruct (snd (range A a)) as [x|]; simpl in H; inversion H; subst. specialize (Ua x eq_refl). nia.
    - destruct (eval rd a w en) as [va|] eqn:Ea; [|discriminate].
      inversion E; subst. destruct (IH va eq_refl) as [La Ua].
      destruct (0 <=? n) eqn:Cz; [|split; intros ? H; discriminate H].
      cbn [fst snd]. split; intros ? H.
      + destruct (fst (range A a)) as [x|]; simpl in H; inversion H; subst. apply shiftr_mono; [lia|auto].
      + destruct (snd (range A a)) as [x|]; simpl in H; inversion H; subst. apply shiftr_mono; [lia|auto].
    - destruct (eval rd a w en) as [va|] eqn:Ea; [|discriminate].
      inversion E; subst.
      destruct (0 <=? m) eqn:Cz; [|split; intros ? H; discriminate H].
      pose proof (land_upper va m ltac:(lia)) as LU.
      cbn [fst snd]. split; intros ? H; inversion H; subst; lia.
  Qed.

  Lemma lower_sound : forall len0 A w en e v l, sat len0 A w en -> eval rd e w en = Some v -> lower A e = Some l -> l <= v.
  Proof. intros len0 A w en e v l S E L. destruct (range_sound _ _ _ _ S _ _ E) as [H _]. auto. Qed.
  Lemma upper_sound : forall len0 A w en e v u, sat len0 A w en -> eval rd e w en = Some v -> upper A e = Some u -> v <= u.
  Proof. intros len0 A w en e v u S E U. destruct (range_sound _ _ _ _ S _ _ E) as [_ H]. auto. Qed.

  Lemma lin_sound : forall e x a c w en v, lin e = Some (x, a, c) -> eval rd e w en = Some v -> v = a * get en x + c.
  Proof.
    induction e as [z|y| |e IH|k e IH|e1 IH1 e2 IH2|e1 IH1 e2 IH2|e1 IH1 e2 IH2|e IH n|e IH m]; intros x a c w en v L E; cbn [lin] in L; try discriminate.
    - inversion L; subst. cbn in E. inversion E. lia.
    - destruct e2; try discriminate.
      destruct (lin e1) as [[[x1 k1] c1]|] eqn:L1; [|discriminate]. inversion L; subst.
      cbn [eval] in E. destruct (eval rd e1 w en) as [v1|] eqn:E1; [|discriminate].
      inversion E; subst. rewrite (IH1 _ _ _ _ _ _ eq_refl E1). lia.
    - destruct e1; try discriminate. destruct e2; try discriminate. inversion L; subst.
      cbn in E. inversion E. lia.
  Qed.

  Lemma has_rel_sound : forall w en fs x a c, Forall (holds w en) fs -> has_rel fs x a c = true -> a * get en x + c <= wlen w.
  Proof.
    intros w en fs x a c F H. unfold has_rel in H. apply existsb_exists in H. destruct H as [f [I H]].
    rewrite Forall_forall in F. specialize (F f I).
    destruct f as [y d|y d|y b d|y d k]; try discriminate.
    simpl in F. assert (y = x /\ b = a /\ c <= d) as (-> & -> & ?) by lia. lia.
  Qed.

  Lemma prove_le_len_sound : forall len0 A w en e c v, sat len0 A w en -> prove_le_len A e c = true ->
    eval rd e w en = Some v -> v + c <= wlen w.
  Proof.
    intros len0 A w en e c v S P E. pose proof S as (Hw & Hl0 & Hk & _ & HF).
    unfold prove_le_len in P. apply orb_true_iff in P. destruct P as [P|P].
    - destruct (upper A e) as [u|] eqn:U; [|discriminate].
      pose proof (upper_sound _ _ _ _ _ _ _ S E U). lia.
    - destruct (lin e) as [[[x a] c0]|] eqn:L; [|discriminate].
      pose proof (lin_sound _ _ _ _ _ _ _ L E). pose proof (has_rel_sound _ _ _ _ _ _ HF P). lia.
  Qed.

  Lemma req_nil : forall b f, req b f = [] -> b = true.
  Proof. intros [|] f H; [reflexivity|discriminate]. Qed.

  Lemma nonneg_sound : forall len0 A w en e v, sat len0 A w en -> nonneg A e = true -> eval rd e w en = Some v -> 0 <= v.
  Proof.
    intros len0 A w en e v S N E. unfold nonneg in N. destruct (lower A e) as [l|] eqn:L; [|discriminate].
    pose proof (lower_sound _ _ _ _ _ _ _ S E L). lia.
  Qed.
  Lemma ge1_sound : forall len0 A w en e v, sat len0 A w en -> ge1 A e = true -> eval rd e w en = Some v -> 1 <= v.
  Proof.
    intros len0 A w en e v S N E. unfold ge1 in N. destruct (lower A e) as [l|] eqn:L; [|discriminate].
    pose proof (lower_sound _ _ _ _ _ _ _ S E L). lia.
  Qed.
  Lemma le_expr_sound : forall len0 A w en a b va vb, sat len0 A w en -> le_expr A a b = true ->
    eval rd a w en = Some va -> eval rd b w en = Some vb -> va <= vb.
  Proof.
    intros len0 A w en a b va vb S N Ea Eb. unfold le_expr in N.
    destruct (upper A a) as [u|] eqn:U; [|discriminate]. destruct (lower A b) as [l|] eqn:L; [|discriminate].
    pose proof (upper_sound _ _ _ _ _ _ _ S Ea U). pose proof (lower_sound _ _ _ _ _ _ _ S Eb L). lia.
  Qed.

  (* an expression all of whose requirements are proved evaluates without panic *)
  Lemma expr_fails_sound : forall len0 A w en site, sat len0 A w en ->
    forall e, expr_fails A site e = [] -> exists v, eval rd e w en = Some v.
  Proof.
    intros len0 A w en site S.
    induction e as [z|x| |a IH|k a IH|a IHa b IHb|a IHa b IHb|a IHa b IHb|a IH n|a IH m]; intros F; cbn [expr_fails eval] in *;
      try (eexists; reflexivity).
    - apply app_eq_nil in F. destruct F as [F1 F2]. apply app_eq_nil in F2. destruct F2 as [F2 F3].
      destruct (IH F1) as [va Ea]. rewrite Ea.
      pose proof (nonneg_sound _ _ _ _ _ _ S (req_nil _ _ F2) Ea).
      pose proof (prove_le_len_sound _ _ _ _ _ _ _ S (req_nil _ _ F3) Ea).
      destruct ((0 <=? va) && (va <=? wlen w)) eqn:C; [eexists; reflexivity|lia].
    - apply app_eq_nil in F. destruct F as [F1 F2]. apply app_eq_nil in F2. destruct F2 as [F2 F3].
      destruct (IH F1) as [va Ea]. rewrite Ea.
      pose proof (nonneg_sound _ _ _ _ _ _ S (req_nil _ _ F2) Ea).
      pose proof (prove_le_len_sound _ _ _ _ _ _ _ S (req_nil _ _ F3) Ea).
      destruct ((0 <=? va) && (va + k <=? wlen w)) eqn:C; [eexists; reflexivity|lia].
    - apply app_eq_nil in F. destruct F as [F1 F2]. destruct (IHa F1) as [va Ea]. destruct (IHb F2) as [vb Eb].
      rewrite Ea, Eb. eexists; reflexivity.
    - apply app_eq_nil in F. destruct F as [F1 F2]. destruct (IHa F1) as [va Ea]. destruct (IHb F2) as [vb Eb].
      rewrite Ea, Eb. eexists; reflexivity.
    - apply app_eq_nil in F. destruct F as [F1 F2]. destruct (IHa F1) as [va Ea]. destruct (IHb F2) as [vb Eb].
      rewrite Ea, Eb. eexists; reflexivity.
    - destruct (IH F) as [va Ea]. rewrite Ea. eexists; reflexivity.
    - destruct (IH F) as [va Ea]. rewrite Ea. eexists; reflexivity.
  Qed.

  Lemma cond_fails_sound : forall len0 A w en site c, sat len0 A w en -> cond_fails A site c = [] ->
    exists b, evalc rd c w en = Some b.
  Proof.
    intros len0 A w en site [op a b] S F. cbn [cond_fails evalc] in *.
    apply app_eq_nil in F. destruct F as [F1 F2].
    destruct (expr_fails_sound _ _ _ _ _ S _ F1) as [va Ea]. destruct (expr_fails_sound _ _ _ _ _ S _ F2) as [vb Eb].
    rewrite Ea, Eb. eexists; reflexivity.
  Qed.
End WithInput.
