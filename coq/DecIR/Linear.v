(* Linear-cost discipline for the decoder IR (checker only; soundness in Cost.v).
   Every byte of the window is charged at most once per counter and nesting level:
   a call data[lo:hi], a copy / copy loop / string conversion / make charges the prefix of the window it
   covers; the next such statement is only allowed after `data = data[e:]` with e provably >= that prefix
   (sub-calls therefore run on disjoint sub-windows); every loop iteration that falls through must have
   executed a reslice by >= 1 that covered everything charged (so an iteration costs O(bytes it consumes));
   loops are not nested; break only with nothing charged.
   State: for the cost counter and for the alloc counter separately what prefix is already charged:
     P0 (nothing) | PExpr h (at most h bytes, h built from constants and variables only) | PAll (unknown),
   and `lcred` = "a covering reslice by >= 1 has happened since the loop body started".
   The abstract state A of Safe.v at each statement is recomputed with Safe.chk (it supplies the facts
   hi <= len, lo >= 1, n*esz <= len). *)
From Coq Require Import ZArith List Bool.
From LLRP Require Import DecIR.IR DecIR.Safe.
Import ListNotations.
Open Scope Z_scope.

Inductive paid : Type := P0 | PExpr (h : expr) | PAll.
Record lstate : Type := mkL { lpc : paid; lpa : paid; lcred : bool }.

Fixpoint expr_eqb (a b : expr) : bool :=
  match a, b with
  | EConst x, EConst y | EVar x, EVar y => x =? y
  | ELen, ELen => true
  | ELenFrom a1, ELenFrom b1 => expr_eqb a1 b1
  | ERd k a1, ERd j b1 => (k =? j) && expr_eqb a1 b1
  | EAdd a1 a2, EAdd b1 b2 | ESub a1 a2, ESub b1 b2 | EMul a1 a2, EMul b1 b2 => expr_eqb a1 b1 && expr_eqb a2 b2
  | EShr a1 n, EShr b1 m | EAnd a1 n, EAnd b1 m => expr_eqb a1 b1 && (n =? m)
  | _, _ => false
  end.

(* expressions whose value depends on the variables only (not on len(data) or the input bytes) *)
Fixpoint stable (e : expr) : bool :=
  match e with
  | EConst _ | EVar _ => true
  | EAdd a b | EMul a b => stable a && stable b
  | _ => false
  end.
Fixpoint mentions (x : Z) (e : expr) : bool :=
  match e with
  | EVar y => x =? y
  | EAdd a b | ESub a b | EMul a b => mentions x a || mentions x b
  | ELenFrom a | ERd _ a | EShr a _ | EAnd a _ => mentions x a
  | _ => false
  end.

Definition pexpr (h : expr) : paid := if stable h then PExpr h else PAll.
Definition isP0 (p : paid) : bool := match p with P0 => true | _ => false end.

(* eval e >= eval h, syntactically *)
Definition covers (e h : expr) : bool :=
  stable h &&
  (expr_eqb e h
   || match e with EAdd e1 (EConst c) => expr_eqb e1 h && (0 <=? c) | _ => false end
   || match e, h with EConst a, EConst b => b <=? a | _, _ => false end).
Definition covered (p : paid) (e : expr) : bool :=
  match p with P0 => true | PExpr h => covers e h | PAll => false end.
Definition after_reslice (p : paid) (e : expr) : paid := if covered p e then P0 else PAll.
Definition kill_paid (x : Z) (p : paid) : paid :=
  match p with PExpr h => if mentions x h then PAll else p | _ => p end.

Definition pjoin (a b : paid) : paid :=
  match a, b with
  | P0, P0 => P0
  | P0, PExpr h | PExpr h, P0 => PExpr h
  | PExpr h, PExpr g => if expr_eqb h g then PExpr h else PAll
  | _, _ => PAll
  end.
Definition ljoin (o1 o2 : option lstate) : option lstate :=
  match o1, o2 with
  | None, o | o, None => o
  | Some a, Some b => Some (mkL (pjoin (lpc a) (lpc b)) (pjoin (lpa a) (lpa b)) (lcred a && lcred b))
  end.

Definition le_len (A : astate) (e : expr) : bool :=
  prove_le_len A e 0 || match e with ESub ELen (EConst c) => 0 <=? c | _ => false end.
Definition scaled (n : expr) (k : Z) : expr := if k =? 1 then n else EMul n (EConst k).

Definition L0 : lstate := mkL P0 P0 false.

Section LCheck.
  Variable ps : programs.

  Fixpoint lchk (cur : option Z) (s : stmt) (A : astate) (L : lstate) {struct s} : option lstate * bool :=
    match s with
    | SLet _ x _ => (Some (mkL (kill_paid x (lpc L)) (kill_paid x (lpa L)) (lcred L)), true)
    | SEval _ _ | SAllocObj => (Some L, true)
    | SReslice _ e =>
        if covered (lpc L) e && covered (lpa L) e
        then (Some (mkL P0 P0 (lcred L || ge1 A e)), true)
        else (Some (mkL (after_reslice (lpc L) e) (after_reslice (lpa L) e) (lcred L)), true)
    | SRetErr | SRetOk => (None, true)
    | SIf _ c t e =>
        let r1 := lchkb cur t (assume c true A) L in
        let r2 := lchkb cur e (assume c false A) L in
        (ljoin (fst r1) (fst r2), snd r1 && snd r2)
    | SSwitch _ e cs d =>
        let r1 := lchkc cur e cs A L in
        let r2 := lchkb cur d A L in
        (ljoin (fst r1) (fst r2), snd r1 && snd r2)
    | SLoop _ l c body =>
        let r := lchkb (Some l) body (assume c true top) L0 in
        (Some (mkL P0 P0 (lcred L)),
         match cur with None => true | Some _ => false end
         && isP0 (lpc L) && isP0 (lpa L) && snd r
         && match fst r with None => true | Some Lb => isP0 (lpc Lb) && isP0 (lpa Lb) && lcred Lb end)
    | SBreak _ => (None, isP0 (lpc L) && isP0 (lpa L))
    | SCall _ _ lo hi =>
        let p := match hi with Some h => pexpr h | None => PAll end in
        (Some (mkL p p (lcred L)),
         isP0 (lpc L) && isP0 (lpa L) && ge1 A lo
         && match hi with Some h => prove_le_len A h 0 | None => true end)
    | SAlloc _ n esz =>
        let h := scaled n esz in
        (Some (mkL (lpc L) (pexpr h) (lcred L)), isP0 (lpa L) && (0 <=? esz) && le_len A h)
    | SCopy _ n at_ =>
        (Some (mkL (pexpr (EAdd n at_)) (lpa L) (lcred L)), isP0 (lpc L) && nonneg A n)
    | SCopyLoop _ n at_ step k =>
        (Some (mkL (pexpr (EAdd (scaled n step) (EConst at_))) (lpa L) (lcred L)),
         isP0 (lpc L) && (1 <=? k) && (k <=? step))
    | SStr _ lo hi =>
        (Some (mkL (pexpr hi) (pexpr hi) (lcred L)), isP0 (lpc L) && isP0 (lpa L) && prove_le_len A hi 0)
    | SWrite _ | SUnknown _ => (None, false)
    end
  with lchkb (cur : option Z) (b : block) (A : astate) (L : lstate) {struct b} : option lstate * bool :=
    match b with
    | BNil => (Some L, true)
    | BCons s r =>
        let r1 := lchk cur s A L in
        match fst (chk ps cur s A), fst r1 with
        | Some A1, Some L1 => let r2 := lchkb cur r A1 L1 in (fst r2, snd r1 && snd r2)
        | _, _ => (None, snd r1)
        end
    end
  with lchkc (cur : option Z) (e : expr) (cs : cases) (A : astate) (L : lstate) {struct cs} : option lstate * bool :=
    match cs with
    | CNil => (None, true)
    | CCons v b r =>
        let r1 := lchkb cur b (learn_case A e v) L in
        let r2 := lchkc cur e r A L in
        (ljoin (fst r1) (fst r2), snd r1 && snd r2)
    end.

  Definition linear_prog (p : block) : bool := snd (lchkb None p top L0).
End LCheck.

Definition size (ps : programs) : Z := fold_right (fun fp m => Z.max (block_size (snd fp)) m) 0 ps.
Definition all_linear (ps : programs) : bool :=
  all_safe ps && forallb (fun fp => linear_prog ps (snd fp)) ps.
Definition not_linear (ps : programs) : list Z :=
  map fst (filter (fun fp => negb (linear_prog ps (snd fp))) ps).
(* the constants of the bound: cost <= coef ps * len + size ps *)
Definition coef (ps : programs) : Z := 2 * (size ps + 1).

(* message-level entry points (hand-written code that buffers a payload of a header-declared length n before
   a decoder runs): tools/go-ir reports, for every make([]byte, n), the guard `n OP C` that dominates it — a
   plain comparison of the unconverted uint32 field with a constant, so no wrap-around is possible — or counts
   it as unguarded.  Accepted: OP in {>, >=} (the allocation happens when the comparison is false). *)
Definition entry_ok (g : cmp * Z) : bool :=
  match fst g with CGt | CGe => 0 <=? snd g | _ => false end.
Definition entries_ok (gs : list (cmp * Z)) (unguarded : Z) : bool := forallb entry_ok gs && (unguarded =? 0).
Definition entry_limit (gs : list (cmp * Z)) : Z := fold_right (fun g m => Z.max (snd g) m) 0 gs.
